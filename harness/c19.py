"""C19 - discrete measures: parameter-vector round trips and product structure.
Correspondence: the real mystic.math.discrete / mystic.math.measures / constraints.impose_measure vs lean
Model/Discrete (structure and payload floats bit-exact; sum-like statistics bit-exact in the exactness regime,
rel 1e-9 otherwise, counted separately).  Monitor: the property's own clauses evaluated on what the real code
returns, with exact rational arithmetic (fractions) as the reference for the explicit sums."""
import sys, time, math, json, copy
from fractions import Fraction
import common
from common import case_rng, fl, fll, nl, f2b, same_vec, same_float, gfloat, dyadic, parse_reply, floats_of
import dsl, framework, leandrv
from framework import Finding

PID = "C19"
MODULE = "MysticVerif.Props.C19"
THEOREMS = [
    "MysticVerif.C19.nested_flat",
    "MysticVerif.C19.flat_nested",
    "MysticVerif.C19.unflatten_flatten",
    "MysticVerif.C19.load_flatten",
    "MysticVerif.C19.scenario_load_flatten",
    "MysticVerif.C19.compose_decompose",
    "MysticVerif.C19.decompose_compose",
    "MysticVerif.C19.update_spec",
    "MysticVerif.C19.supdate_spec",
    "MysticVerif.C19.unpack_pack",
    "MysticVerif.C19.pack_order",
    "MysticVerif.C19.positions_length",
    "MysticVerif.C19.product_weights",
    "MysticVerif.C19.mass_prod",
    "MysticVerif.C19.expect_def",
    "MysticVerif.C19.expect_var_def",
    "MysticVerif.C19.pof_def",
    "MysticVerif.C19.support_def",
    "MysticVerif.C19.set_center_mass",
    "MysticVerif.C19.set_range",
    "MysticVerif.C19.set_var",
]

RTOL = 1e-9


# ------------------------------------------------------------------ small helpers
def exc_enum(e):
    if isinstance(e, IndexError):
        return "index"
    if isinstance(e, ValueError):
        return "value"
    if isinstance(e, ZeroDivisionError):
        return "zerodiv"
    if isinstance(e, TypeError):
        return "type"
    return type(e).__name__


def pm_sexp(ms):
    return "(" + " ".join("(%s %s)" % (fl(w), fl(x)) for w, x in ms) + ")"


def m_sexp(m):
    return "(%s %s)" % (fl(m[0]), fl(m[1]))


def build_measure(m):
    from mystic.math.discrete import measure, point_mass
    return measure([point_mass(x, w) for w, x in zip(m[0], m[1])])


def build_pm(ms):
    from mystic.math.discrete import product_measure
    return product_measure([build_measure(m) for m in ms])


def build_scen(ms, values):
    from mystic.math.discrete import scenario
    s = scenario()
    s.extend(build_pm(ms))
    s.values = list(values)
    return s


def obs_m(m):
    return [[float(v) for v in m.weights], [float(v) for v in m.positions]]


def obs_pm(c):
    return [obs_m(m) for m in c]


def same_pm(a, b):
    return len(a) == len(b) and all(same_vec(p[0], q[0]) and same_vec(p[1], q[1]) for p, q in zip(a, b))


def same_vv(a, b):
    a = list(a); b = list(b)
    return len(a) == len(b) and all(same_vec(p, q) for p, q in zip(a, b))


def pm_of_reply(sx):
    return [[floats_of(m[0]), floats_of(m[1])] for m in sx]


def vv_of_reply(sx):
    return [floats_of(r) for r in sx]


def close(a, b, scale=1.0):
    a = float(a); b = float(b)
    if same_float(a, b) or a == b:
        return True
    if not (math.isfinite(a) and math.isfinite(b)):
        return False
    return abs(a - b) <= RTOL * max(abs(a), abs(b)) + 1e-12 * scale


def frac(x):
    return Fraction(float(x))


def near_frac(val, q, scale=1.0):
    """float `val` equals the exact rational q up to RTOL"""
    val = float(val)
    if not math.isfinite(val):
        return False
    d = abs(Fraction(val) - q)
    return d <= Fraction(RTOL) * max(abs(q), abs(Fraction(val))) + Fraction(1e-12) * Fraction(scale)


# ------------------------------------------------------------------ generators
def gen_shape(rng, allow_zero=True, maxf=4):
    k = rng.random()
    nf = rng.choice([1, 1, 2, 2, 2, 3, 3, 4][:2 * maxf])
    if allow_zero and k < 0.03:
        nf = 0
    sizes = [rng.choice([1, 1, 2, 2, 3, 3, 4, 5]) for _ in range(nf)]
    if allow_zero and nf and rng.random() < 0.05:
        sizes[rng.randrange(nf)] = 0
    return sizes


def gen_weight(rng, exact, neg=False):
    if exact:
        return rng.choice([0.0, 0.0, 0.25, 0.5, 0.5, 0.75, 1.0, 1.0, 1.5, 2.0])
    k = rng.random()
    if k < 0.2:
        return 0.0
    if neg and k < 0.3:
        return -rng.random()
    if k < 0.5:
        return dyadic(rng, 0, 2, 8)
    return rng.random()


def gen_pos(rng, exact):
    if exact:
        return dyadic(rng, -4, 4, 8)
    return gfloat(rng, 6.0)


def gen_measure(rng, n, exact, neg=False, positive=False):
    ws = [gen_weight(rng, exact, neg) for _ in range(n)]
    if positive:
        ws = [w if w > 0 else (0.5 if exact else 0.25 + rng.random()) for w in ws]
    xs = [gen_pos(rng, exact) for _ in range(n)]
    if n >= 2 and rng.random() < 0.15:      # duplicate positions (ties)
        xs[rng.randrange(n)] = xs[rng.randrange(n)]
    return [ws, xs]


def gen_pm(rng, sizes, exact, neg=False):
    return [gen_measure(rng, n, exact, neg) for n in sizes]


def gen_const(rng, exact):
    return dyadic(rng, -3, 3, 4) if exact else gfloat(rng, 4.0)


def gen_f(rng, dim, exact, depth=2):
    """test function of the product positions (no division: never raises)"""
    if dim == 0 or depth == 0 or rng.random() < 0.3:
        if dim == 0 or rng.random() < 0.35:
            return ("c", gen_const(rng, exact))
        return ("x", rng.randrange(dim))
    op = rng.choice(["+", "-", "*", "neg", "abs", "min", "max", "sq", "+", "-"])
    if op in ("neg", "abs", "sq"):
        return (op, gen_f(rng, dim, exact, depth - 1))
    return (op, gen_f(rng, dim, exact, depth - 1), gen_f(rng, dim, exact, depth - 1))


def gen_f_tie(rng, ms, exact):
    """x_i - a  with a one of the positions of factor i: f is exactly 0.0 on a whole slice (pof `<=` tie)"""
    cand = [i for i, m in enumerate(ms) if m[1]]
    if not cand:
        return gen_f(rng, len(ms), exact)
    i = rng.choice(cand)
    a = rng.choice(ms[i][1])
    e = ("-", ("x", i), ("c", a))
    if rng.random() < 0.3:
        e = ("neg", e)
    return e


def gen_params(rng, n, exact):
    return [gen_weight(rng, exact) if rng.random() < 0.5 else gen_pos(rng, exact) for _ in range(n)]


# ------------------------------------------------------------------ a case = spec -> request lines + checks
class Case:
    def __init__(self, spec):
        self.spec = spec
        self.lines = []
        self.cmps = []          # (name, impl_observation, fn(parsed_reply) -> None | str)
        self.mon = []           # (class_key, what)
        self.tags = []
        self.nontrivial = False
        self.tol_used = 0

    def ask(self, line, name, impl, cmp):
        self.lines.append("C19 " + line)
        self.cmps.append((name, impl, cmp))

    def fail(self, key, what):
        self.mon.append((key, what))

    def tag(self, t):
        self.tags.append(t)


def call(fn):
    try:
        return ("ok", fn())
    except Exception as e:          # noqa
        return ("err", exc_enum(e))


def expect_pm(case, line, name, res):
    """res = ('ok', obs_pm) | ('err', enum)"""
    def cmp(r):
        if res[0] == "err":
            return None if (r[0] == "err" and r[1] == res[1]) else "impl raised %s, model %r" % (res[1], r)
        if r[0] != "ok":
            return "impl returned, model %r" % (r,)
        got = pm_of_reply(r[1]["c"])
        return None if same_pm(got, res[1]) else "measure differs: model %r impl %r" % (got, res[1])
    case.ask(line, name, res, cmp)


def expect_scen(case, line, name, res):
    def cmp(r):
        if res[0] == "err":
            return None if (r[0] == "err" and r[1] == res[1]) else "impl raised %s, model %r" % (res[1], r)
        if r[0] != "ok":
            return "impl returned, model %r" % (r,)
        got = pm_of_reply(r[1]["c"]); gv = floats_of(r[1]["values"])
        ok = same_pm(got, res[1][0]) and same_vec(gv, res[1][1])
        return None if ok else "scenario differs: model %r %r impl %r" % (got, gv, res[1])
    case.ask(line, name, res, cmp)


def expect_vec(case, line, name, res, key="y"):
    def cmp(r):
        if res[0] == "err":
            return None if (r[0] == "err" and r[1] == res[1]) else "impl raised %s, model %r" % (res[1], r)
        if r[0] != "ok":
            return "impl returned, model %r" % (r,)
        got = floats_of(r[1][key])
        return None if same_vec(got, res[1]) else "vector differs: model %r impl %r" % (got, res[1])
    case.ask(line, name, res, cmp)


def expect_vv(case, line, name, res, key):
    def cmp(r):
        if res[0] == "err":
            return None if (r[0] == "err" and r[1] == res[1]) else "impl raised %s, model %r" % (res[1], r)
        if r[0] != "ok":
            return "impl returned, model %r" % (r,)
        got = vv_of_reply(r[1][key])
        return None if same_vv(got, res[1]) else "nested list differs: model %r impl %r" % (got, res[1])
    case.ask(line, name, res, cmp)


def fvv(vv):
    return [[float(a) for a in r] for r in vv]


# ------------------------------------------------------------------ kind: roundtrip (+ statistics)
def index_tuple(k, sizes):
    idx = []
    for n in sizes:
        idx.append(k % n); k //= n
    return idx


def case_roundtrip(spec):
    from mystic.math.discrete import product_measure, unflatten, decompose, compose, flatten
    from mystic.math.measures import _pack, _unpack
    case = Case(spec)
    ms = spec["pm"]; exact = spec["exact"]; sizes = [len(m[0]) for m in ms]
    c = build_pm(ms)
    before = obs_pm(c)
    # ---- flatten
    flat = [float(v) for v in c.flatten()]
    expect_vec(case, "flatten (c %s)" % pm_sexp(ms), "flatten", ("ok", flat))
    want = []
    for w, x in ms:
        want += list(w) + list(x)
    if not same_vec(flat, want):
        case.fail("flatten/layout", "flatten() = %r is not [w_1.., x_1.., w_2.., x_2..] = %r" % (flat, want))
    if [int(p) for p in c.pts] != sizes:
        case.fail("pts", "pts %r for factor sizes %r" % (c.pts, sizes))
    # ---- load / unflatten with the same shape
    extra = spec.get("extra", [])
    r1 = call(lambda: obs_pm(product_measure().load(list(flat) + list(extra), list(c.pts))))
    expect_pm(case, "load (c ()) (params %s) (npts %s)" % (fl(flat + extra), nl(sizes)), "load", r1)
    if r1[0] != "ok" or not same_pm(r1[1], before):
        case.fail("load/roundtrip", "product_measure().load(c.flatten()%s, c.pts) = %r differs from c = %r"
                  % (" + surplus" if extra else "", r1, before))
    r2 = call(lambda: obs_pm(unflatten(list(flat), tuple(c.pts))))
    expect_pm(case, "unflatten (params %s) (npts %s)" % (fl(flat), nl(sizes)), "unflatten", r2)
    if r2[0] != "ok" or not same_pm(r2[1], before):
        case.fail("unflatten/roundtrip", "unflatten(c.flatten(), c.pts) = %r differs from c = %r" % (r2, before))
    # ---- decompose / compose
    x, w = decompose(c)
    x = fvv(x); w = fvv(w)
    def cmpd(r):
        if r[0] != "ok":
            return "model %r" % (r,)
        gx = vv_of_reply(r[1]["x"]); gw = vv_of_reply(r[1]["w"])
        return None if same_vv(gx, x) and same_vv(gw, w) else "decompose differs: model %r %r impl %r %r" % (gx, gw, x, w)
    case.ask("decompose (c %s)" % pm_sexp(ms), "decompose", (x, w), cmpd)
    if not (same_vv(x, [m[1] for m in ms]) and same_vv(w, [m[0] for m in ms])):
        case.fail("decompose", "decompose(c) = %r, %r is not (positions, weights) of %r" % (x, w, ms))
    if sizes:      # compose(x, []) falls into the uniform-weights branch: separate op
        r3 = call(lambda: obs_pm(compose(x, w)))
        expect_pm(case, "compose (x %s) (w %s)" % (fll(x), fll(w)), "compose", r3)
        if r3[0] != "ok" or not same_pm(r3[1], before):
            case.fail("compose/decompose", "compose(*decompose(c)) = %r differs from c = %r" % (r3, before))
    # ---- product structure
    W = [float(v) for v in c.weights]
    P = [[float(a) for a in t] for t in c.positions]
    tol = spec["tol"]
    e = spec["f"]
    f = lambda v: dsl.ev(e, v)
    res = {}
    res["expect"] = call(lambda: float(c.expect(f)))
    res["expectvar"] = call(lambda: float(c.expect_var(f)))
    res["pof"] = call(lambda: float(c.pof(f)))
    res["support"] = call(lambda: [[float(a) for a in t] for t in c.support(tol)])
    res["sindex"] = call(lambda: [int(i) for i in c.support_index(tol)])
    res["mass"] = call(lambda: [float(v) for v in c.mass])
    res["npts"] = call(lambda: int(c.npts))
    ys = [f(p) for p in P]
    yscale = max([1.0] + [abs(y) for y in ys]) ** 2
    stat_exact = exact

    def cmps(r):
        if r[0] != "ok":
            return "model %r" % (r,)
        kv = r[1]; d = []
        if not same_vec(floats_of(kv["weights"]), W):
            d.append("weights model %r impl %r" % (floats_of(kv["weights"]), W))
        if not same_vv(vv_of_reply(kv["positions"]), P):
            d.append("positions model %r impl %r" % (vv_of_reply(kv["positions"]), P))
        if res["npts"][0] != "ok" or int(kv["npts"]) != res["npts"][1]:
            d.append("npts model %s impl %r" % (kv["npts"], res["npts"]))
        for k in ("expect", "expectvar", "pof"):
            if res[k][0] != "ok":
                d.append("%s impl raised %s" % (k, res[k][1])); continue
            mv = common.b2f(kv[k])
            if same_float(mv, res[k][1]):
                continue
            if stat_exact and k in ("expect", "pof"):
                d.append("%s (exactness regime) model %r impl %r" % (k, mv, res[k][1]))
            elif close(mv, res[k][1], yscale):
                case.tol_used += 1
            else:
                d.append("%s model %r impl %r" % (k, mv, res[k][1]))
        if res["mass"][0] != "ok":
            d.append("mass impl raised")
        else:
            mm = floats_of(kv["mass"])
            if not same_vec(mm, res["mass"][1]):
                if stat_exact or len(mm) != len(res["mass"][1]) or not all(close(a, b) for a, b in zip(mm, res["mass"][1])):
                    d.append("mass model %r impl %r" % (mm, res["mass"][1]))
                else:
                    case.tol_used += 1
        if res["support"][0] != "ok" or kv["support"] == "none":
            d.append("support model %r impl %r" % (kv["support"], res["support"]))
        elif not same_vv(vv_of_reply(kv["support"]), res["support"][1]):
            d.append("support model %r impl %r" % (vv_of_reply(kv["support"]), res["support"][1]))
        if res["sindex"][0] != "ok" or [int(t) for t in kv["sindex"]] != res["sindex"][1]:
            d.append("support_index model %r impl %r" % (kv["sindex"], res["sindex"]))
        return "; ".join(d) if d else None
    case.ask("stats (c %s) (f %s) (tol %s)" % (pm_sexp(ms), dsl.expr_sexp(e), f2b(tol)), "stats",
             {"weights": W, "positions": P, "res": res}, cmps)
    # ---- monitor: product structure (documented order: first factor fastest)
    total = 1
    for n in sizes:
        total *= n
    if len(W) != total or len(P) != total or res["npts"] != ("ok", total):
        case.fail("product/count", "len(weights)=%d len(positions)=%d npts=%r for sizes %r" % (len(W), len(P), res["npts"], sizes))
    else:
        for k in range(total):
            idx = index_tuple(k, sizes)
            wp = 1.0
            for i, j in enumerate(idx):
                wp = wp * ms[i][0][j]
            pp = [ms[i][1][j] for i, j in enumerate(idx)]
            if not same_float(W[k], wp) and not near_frac(W[k], math.prod([frac(ms[i][0][j]) for i, j in enumerate(idx)])):
                case.fail("product/weights", "weights[%d] = %r is not the product %r of the factor weights at %r" % (k, W[k], wp, idx)); break
            if not same_vec(P[k], pp):
                case.fail("product/positions-order", "positions[%d] = %r, expected %r (first factor fastest) in %r" % (k, P[k], pp, ms)); break
    # total mass = product of masses
    if res["mass"][0] == "ok":
        mq = [sum((frac(v) for v in m[0]), Fraction(0)) for m in ms]
        if len(res["mass"][1]) != len(ms) or not all((same_float(a, float(q)) if exact else near_frac(a, q)) for a, q in zip(res["mass"][1], mq)):
            case.fail("mass", "mass %r is not the list of factor weight sums %r" % (res["mass"][1], [float(q) for q in mq]))
        tw = sum((frac(v) for v in W), Fraction(0))
        pq = Fraction(1)
        for q in mq:
            pq *= q
        okm = (tw == pq) if exact else (abs(tw - pq) <= Fraction(RTOL) * max(abs(pq), Fraction(1)))
        if not okm:
            case.fail("mass/product", "sum(weights) = %r but the product of the factor masses is %r" % (float(tw), float(pq)))
    else:
        case.fail("mass/raises", "mass raised %s" % res["mass"][1])
    # ---- monitor: statistics = explicit sums over the weighted points
    wq = [frac(v) for v in W]
    sw = sum(wq, Fraction(0))
    for k in ("expect", "expectvar", "pof", "support", "sindex"):
        if res[k][0] != "ok":
            case.fail("stats/raises/" + k, "%s raised %s on %r" % (k, res[k][1], ms))
    if total > 0 and sw != 0 and all(v >= 0 for v in W):
        yq = [frac(y) for y in ys]
        E = sum((a * b for a, b in zip(wq, yq)), Fraction(0)) / sw
        if res["expect"][0] == "ok":
            v = res["expect"][1]
            if not ((exact and same_float(v, float(E))) or (not exact and near_frac(v, E, math.sqrt(yscale)))) and not (exact and v == 0.0 and E == 0):
                case.fail("expect/definition", "expect(f) = %r but sum(w*f)/sum(w) = %r" % (v, float(E)))
        V = sum((a * (b - E) ** 2 for a, b in zip(wq, yq)), Fraction(0)) / sw
        if res["expectvar"][0] == "ok" and not near_frac(res["expectvar"][1], V, yscale):
            case.fail("expect_var/definition", "expect_var(f) = %r but sum(w*(f-E)^2)/sum(w) = %r" % (res["expectvar"][1], float(V)))
        case.tag("stats:defined")
    else:
        case.tag("stats:degenerate-mass")
    if res["pof"][0] == "ok":
        F = sum((a for a, y in zip(wq, ys) if y <= 0.0), Fraction(0))
        v = res["pof"][1]
        if not ((exact and same_float(v, float(F))) or (not exact and near_frac(v, F))):
            case.fail("pof/definition", "pof(f) = %r but the weight of {f <= 0} is %r" % (v, float(F)))
        if any(y == 0.0 and wv != 0.0 for y, wv in zip(ys, W)):
            case.tag("pof:tie-at-zero")
    if res["support"][0] == "ok" and res["sindex"][0] == "ok":
        wi = [i for i, v in enumerate(W) if v > tol]
        if res["sindex"][1] != wi or not same_vv(res["support"][1], [P[i] for i in wi]):
            case.fail("support/definition", "support(tol=%r) = %r / %r, expected indices %r" % (tol, res["sindex"][1], res["support"][1], wi))
        if any(v == tol for v in W):
            case.tag("support:tie-at-tol")
    # ---- positions setter / pack / unpack round trip
    if sizes and all(n > 0 for n in sizes):
        r4 = call(lambda: fvv(_unpack(_pack([m[1] for m in ms]), sizes)))
        expect_vv(case, "unpack (p %s) (npts %s)" % (fll(P), nl(sizes)), "unpack", r4, "s")
        if r4[0] != "ok" or not same_vv(r4[1], [m[1] for m in ms]):
            case.fail("unpack/pack", "_unpack(_pack(s), shape) = %r differs from s = %r" % (r4, [m[1] for m in ms]))
        c5 = build_pm(ms)
        def setp():
            c5.positions = c5.positions
            return obs_pm(c5)
        r5 = call(setp)
        expect_pm(case, "setpos (c %s) (p %s)" % (pm_sexp(ms), fll(P)), "setpos", r5)
        if r5[0] != "ok" or not same_pm(r5[1], before):
            case.fail("positions/setter-roundtrip", "c.positions = c.positions changed c: %r -> %r" % (before, r5))
    pk = fvv(_pack([m[1] for m in ms]))
    expect_vv(case, "pack (s %s)" % fll([m[1] for m in ms]), "pack", ("ok", pk), "p")
    # ---- nothing above may have changed c
    if not same_pm(obs_pm(c), before):
        case.fail("aliasing/readonly-op-mutates", "flatten/decompose/statistics changed the measure: %r -> %r" % (before, obs_pm(c)))
    case.nontrivial = len(sizes) >= 2 and len(set(sizes)) >= 1 and total >= 2
    case.tag("shape:%d-factors" % len(sizes))
    if any(n == 0 for n in sizes):
        case.tag("shape:empty-factor")
    if any(n == 1 for n in sizes):
        case.tag("shape:size-1-factor")
    if len(set(sizes)) > 1:
        case.tag("shape:unequal-sizes")
    if any(v == 0.0 for m in ms for v in m[0]):
        case.tag("weights:has-zero")
    case.tag("regime:exact" if exact else "regime:general")
    return case


def gen_roundtrip(rng):
    exact = rng.random() < 0.5
    sizes = gen_shape(rng)
    neg = (not exact) and rng.random() < 0.08
    ms = gen_pm(rng, sizes, exact, neg)
    e = gen_f_tie(rng, ms, exact) if rng.random() < 0.35 else gen_f(rng, len(sizes), exact)
    allw = sorted(set([1.0]))
    k = rng.random()
    if k < 0.6:
        tol = 0.0
    elif k < 0.85 and sizes and all(n > 0 for n in sizes):
        # a tolerance equal to one of the product weights (tie: `w > tol` must exclude it)
        idx = [rng.randrange(n) for n in sizes]
        t = 1.0
        for i, j in enumerate(idx):
            t = t * ms[i][0][j]
        tol = t
    else:
        tol = rng.choice([0.125, 0.25, 0.5])
    extra = [gen_pos(rng, exact) for _ in range(rng.randint(1, 3))] if rng.random() < 0.2 else []
    return {"kind": "roundtrip", "exact": exact, "pm": ms, "f": e, "tol": tol, "extra": extra}


# ------------------------------------------------------------------ kind: update (product_measure and scenario)
def case_update(spec):
    from mystic.math.discrete import product_measure, scenario
    case = Case(spec)
    ms = spec["pm"]; params = spec["params"]; sizes = [len(m[0]) for m in ms]
    L = 2 * sum(sizes)
    if spec["scenario"]:
        vals = spec["values"]
        s = build_scen(ms, vals)
        pin = list(params)
        r = call(lambda: (lambda t: (obs_pm(t), [float(v) for v in t.values]))(s.update(pin)))
        expect_scen(case, "supdate (c %s) (values %s) (params %s)" % (pm_sexp(ms), fl(vals), fl(params)), "scenario.update", r)
        if r[0] == "ok":
            newpm, newvals = r[1]
        if pin != list(params):
            case.fail("aliasing/update-mutates-params", "update() changed its argument")
    else:
        c = build_pm(ms)
        pin = list(params)
        r = call(lambda: obs_pm(c.update(pin)))
        expect_pm(case, "update (c %s) (params %s)" % (pm_sexp(ms), fl(params)), "update", r)
        if r[0] == "ok":
            newpm, newvals = r[1], None
        if pin != list(params):
            case.fail("aliasing/update-mutates-params", "update() changed its argument")
    if r[0] != "ok":
        case.fail("update/raises", "update raised %s (params of length %d for shape %r)" % (r[1], len(params), sizes))
    elif len(params) >= L and any(n == 0 for n in sizes):
        # outside the property's quantifier (factor sizes >= 1): `zo = pm.count([])` also counts a factor that is
        # empty by SHAPE, so e.g. shape (0,1) keeps the old second factor.  Correspondence only (the model mirrors it).
        case.tag("update:empty-factor-shape")
    elif len(params) >= L:
        # the property: exactly the addressed weights / positions (/ values) change, to the given numbers
        want = []; p = 0
        for n in sizes:
            want.append([list(params[p:p + n]), list(params[p + n:p + 2 * n])]); p += 2 * n
        if not same_pm(newpm, want):
            case.fail("update/addressed", "after update(params) the measure is %r, expected %r" % (newpm, want))
        if spec["scenario"]:
            nv = list(params[L:])
            wv = nv[:len(vals)] + list(vals[len(nv):])
            if not same_vec(newvals, wv):
                case.fail("update/values", "after update the values are %r, expected %r (old %r, given %r)" % (newvals, wv, vals, nv))
        case.nontrivial = bool(sizes) and sum(sizes) > 0
        case.tag("update:full" if len(params) == L else "update:with-values")
    else:
        case.tag("update:short-params")
        # shape of the untouched tail is kept: measures that received nothing stay as they were
    case.tag("update:scenario" if spec["scenario"] else "update:product_measure")
    return case


def gen_update(rng):
    exact = rng.random() < 0.5
    sizes = gen_shape(rng)
    ms = gen_pm(rng, sizes, exact)
    L = 2 * sum(sizes)
    scen = rng.random() < 0.5
    k = rng.random()
    if k < 0.45:
        n = L
    elif k < 0.85:
        n = L + rng.randint(1, 6)
    else:
        n = rng.randint(0, max(L - 1, 0))
    params = gen_params(rng, n, exact)
    total = 1
    for s in sizes:
        total *= s
    vals = [gen_pos(rng, exact) for _ in range(rng.choice([0, total, total, rng.randint(0, 6)]))] if scen else []
    return {"kind": "update", "exact": exact, "pm": ms, "params": params, "scenario": scen, "values": vals}


# ------------------------------------------------------------------ kind: scenario round trip
def case_scenario(spec):
    from mystic.math.discrete import scenario
    case = Case(spec)
    ms = spec["pm"]; vals = spec["values"]; sizes = [len(m[0]) for m in ms]
    pm = build_pm(ms)
    vin = list(vals)
    r0 = call(lambda: (lambda t: (obs_pm(t), [float(v) for v in t.values]))(scenario(pm, vin)))
    expect_scen(case, "mkscen (c %s) (values %s)" % (pm_sexp(ms), fl(vals)), "scenario()", r0)
    if r0[0] != "ok" or not same_pm(r0[1][0], ms) or not same_vec(r0[1][1], vals):
        case.fail("scenario/constructor", "scenario(pm, values) = %r, expected %r with values %r" % (r0, ms, vals))
    s = scenario(pm, list(vals))
    for allflag in (True, False):
        fa = [float(v) for v in s.flatten(all=allflag)]
        expect_vec(case, "sflatten (c %s) (values %s) (all %s)" % (pm_sexp(ms), fl(vals), "true" if allflag else "false"),
                   "scenario.flatten", ("ok", fa))
    flat = [float(v) for v in s.flatten()]     # all=True is the default
    base = []
    for w, x in ms:
        base += list(w) + list(x)
    if not same_vec(flat, base + list(vals)):
        case.fail("scenario/flatten-layout", "flatten() = %r, expected parameters then values %r" % (flat, base + list(vals)))
    # load with the same shape into an empty scenario and into one that already has values
    old = spec["oldvalues"]
    s2 = scenario(); s2.values = list(old)
    r1 = call(lambda: (lambda t: (obs_pm(t), [float(v) for v in t.values]))(s2.load(list(flat), list(s.pts))))
    expect_scen(case, "sload (c ()) (values %s) (params %s) (npts %s)" % (fl(old), fl(flat), nl(sizes)), "scenario.load", r1)
    wantv = list(vals) if vals else list(old)
    if r1[0] != "ok" or not same_pm(r1[1][0], ms):
        case.fail("scenario/load-roundtrip", "scenario().load(s.flatten(), s.pts) = %r differs from s = %r" % (r1, ms))
    elif not same_vec(r1[1][1], wantv):
        case.fail("scenario/load-values", "values after load are %r, expected %r" % (r1[1][1], wantv))
    # the values setter copies
    s3 = scenario(); v3 = list(vals); s3.values = v3
    if v3:
        v3[0] = v3[0] + 1.0
        if not same_vec([float(v) for v in s3.values], vals):
            case.fail("aliasing/values-setter", "scenario.values = v keeps an alias of v")
    case.nontrivial = bool(vals) and len(sizes) >= 1
    case.tag("scenario:with-values" if vals else "scenario:no-values")
    return case


def gen_scenario(rng):
    exact = rng.random() < 0.5
    sizes = gen_shape(rng)
    ms = gen_pm(rng, sizes, exact)
    total = 1
    for s in sizes:
        total *= s
    k = rng.random()
    nv = total if k < 0.6 else (0 if k < 0.75 else rng.randint(1, 5))
    vals = [gen_pos(rng, exact) for _ in range(nv)]
    old = [gen_pos(rng, exact) for _ in range(rng.choice([0, 0, 2]))]
    return {"kind": "scenario", "exact": exact, "pm": ms, "values": vals, "oldvalues": old}


# ------------------------------------------------------------------ kind: malformed / boundary inputs of the helpers
def case_helpers(spec):
    from mystic.math.discrete import product_measure, unflatten, compose
    from mystic.math.measures import _pack, _unpack, _nested, _flat, _nested_split
    case = Case(spec)
    op = spec["op"]
    if op == "nested":
        params, npts = spec["params"], spec["npts"]
        n = fvv(_nested(list(params), tuple(npts)))
        fb = [float(v) for v in _flat(n)]
        w, x = _nested_split(list(params), tuple(npts))
        w = fvv(w); x = fvv(x)
        def cmp(r):
            if r[0] != "ok":
                return "model %r" % (r,)
            kv = r[1]
            ok = same_vv(vv_of_reply(kv["p"]), n) and same_vec(floats_of(kv["flat"]), fb) and \
                same_vv(vv_of_reply(kv["w"]), w) and same_vv(vv_of_reply(kv["x"]), x)
            return None if ok else "nested/flat/split differ: model %r impl %r" % (kv, (n, fb, w, x))
        case.ask("nested (params %s) (npts %s)" % (fl(params), nl(npts)), "_nested/_flat/_nested_split", (n, fb, w, x), cmp)
        if len(params) == sum(npts):
            if not same_vec(fb, params):
                case.fail("nested/flat-roundtrip", "_flat(_nested(p, shape)) = %r differs from p = %r" % (fb, params))
            if [len(r) for r in n] != list(npts):
                case.fail("nested/shape", "_nested(p, %r) has row lengths %r" % (npts, [len(r) for r in n]))
            case.nontrivial = len(npts) >= 2
        case.tag("helpers:nested")
    elif op == "unflatten":
        params, npts = spec["params"], spec["npts"]
        r = call(lambda: obs_pm(unflatten(list(params), tuple(npts))))
        expect_pm(case, "unflatten (params %s) (npts %s)" % (fl(params), nl(npts)), "unflatten", r)
        r2 = call(lambda: obs_pm(build_pm(spec["pm"]).load(list(params), tuple(npts))))
        expect_pm(case, "load (c %s) (params %s) (npts %s)" % (pm_sexp(spec["pm"]), fl(params), nl(npts)), "load", r2)
        if r2[0] == "ok" and not same_pm(r2[1][:len(spec["pm"])], spec["pm"]):
            case.fail("load/appends", "load() changed the measures already present: %r -> %r" % (spec["pm"], r2[1]))
        case.nontrivial = len(params) != 2 * sum(npts)
        case.tag("helpers:unflatten-%s" % ("short" if len(params) < 2 * sum(npts) else ("long" if len(params) > 2 * sum(npts) else "fit")))
    elif op == "compose":
        x, w = spec["x"], spec["w"]
        r = call(lambda: obs_pm(compose([list(t) for t in x], [list(t) for t in w])))
        expect_pm(case, "compose (x %s) (w %s)" % (fll(x), fll(w)), "compose", r)
        case.nontrivial = r[0] == "err"
        case.tag("helpers:compose-%s" % r[0])
    elif op == "composeu":
        x = spec["x"]
        r = call(lambda: obs_pm(compose([list(t) for t in x])))
        expect_pm(case, "composeu (x %s)" % fll(x), "compose(uniform)", r)
        if r[0] == "ok":
            for (wv, xv), xs in zip(r[1], x):
                if not same_vec(xv, xs) or any(not close(v, 1.0 / len(xs)) for v in wv):
                    case.fail("compose/uniform", "compose(x) gave %r for positions %r" % ((wv, xv), xs))
        case.nontrivial = True
        case.tag("helpers:compose-uniform")
    elif op == "unpack":
        P, npts = spec["p"], spec["npts"]
        r = call(lambda: fvv(_unpack([tuple(t) for t in P], tuple(npts))))
        expect_vv(case, "unpack (p %s) (npts %s)" % (fll(P), nl(npts)), "_unpack", r, "s")
        case.nontrivial = True
        case.tag("helpers:unpack-%s" % (r[0] if r[0] == "ok" else r[1]))
    return case


def gen_helpers(rng):
    exact = rng.random() < 0.5
    op = rng.choice(["nested", "unflatten", "unflatten", "compose", "composeu", "unpack", "unpack"])
    if op == "nested":
        npts = gen_shape(rng)
        n = sum(npts) + rng.choice([0, 0, 0, 1, -1, 3])
        return {"kind": "helpers", "op": op, "params": gen_params(rng, max(n, 0), exact), "npts": npts}
    if op == "unflatten":
        npts = gen_shape(rng)
        n = 2 * sum(npts) + rng.choice([0, 1, 2, -1, -2, -3, 5])
        return {"kind": "helpers", "op": op, "params": gen_params(rng, max(n, 0), exact), "npts": npts,
                "pm": gen_pm(rng, gen_shape(rng, maxf=2), exact)}
    if op == "compose":
        sizes = gen_shape(rng, allow_zero=False)
        x = [[gen_pos(rng, exact) for _ in range(n)] for n in sizes]
        w = [[gen_weight(rng, exact) for _ in range(n + rng.choice([0, 0, 0, 1, -1]))] for n in sizes]
        k = rng.random()
        if k < 0.15 and len(w) > 1:
            w = w[:-1]
        elif k < 0.3:
            w = w + [[1.0]]
        return {"kind": "helpers", "op": op, "x": x, "w": w}
    if op == "composeu":
        sizes = gen_shape(rng, allow_zero=False)
        return {"kind": "helpers", "op": op, "x": [[gen_pos(rng, exact) for _ in range(n)] for n in sizes]}
    # unpack: a packed list with a shape that may not fit
    from mystic.math.measures import _pack
    sizes = gen_shape(rng, allow_zero=False)
    s = [[gen_pos(rng, exact) for _ in range(n)] for n in sizes]
    P = [list(t) for t in _pack(s)]
    npts = list(sizes)
    k = rng.random()
    if k < 0.25:
        npts[rng.randrange(len(npts))] += rng.choice([1, -1])
    elif k < 0.35:
        npts = npts + [rng.choice([1, 2])]
    elif k < 0.45:
        npts = npts[:-1]
    elif k < 0.55:
        P = P[:rng.randint(0, len(P))]
    elif k < 0.6:
        npts[rng.randrange(len(npts))] = 0
    return {"kind": "helpers", "op": "unpack", "p": P, "npts": [max(n, 0) for n in npts]}


# ------------------------------------------------------------------ kind: one measure, center_mass / range / var
def case_measure(spec):
    case = Case(spec)
    m = spec["m"]; exact = spec["exact"]; which = spec["which"]; v = spec["v"]
    M = build_measure(m)
    g = {"mean": call(lambda: float(M.center_mass)), "var": call(lambda: float(M.var)), "mass": call(lambda: float(M.mass)),
         "range": call(lambda: float(M.range))}
    xs = m[1]; ws = m[0]
    scale = max([1.0] + [abs(t) for t in xs] + [abs(v)])

    def cmpg(r):
        if r[0] != "ok":
            return "model %r" % (r,)
        d = []
        for k in ("mean", "var", "mass", "range"):
            tok = r[1][k]
            if g[k][0] != "ok":
                if not (k == "range" and tok == "none" and g[k][1] == "value"):
                    d.append("%s impl raised %s model %s" % (k, g[k][1], tok))
                continue
            if tok == "none":
                d.append("%s model none impl %r" % (k, g[k][1])); continue
            mv = common.b2f(tok)
            if same_float(mv, g[k][1]):
                continue
            if exact and k in ("mean", "mass", "range"):
                d.append("%s (exactness regime) model %r impl %r" % (k, mv, g[k][1]))
            elif close(mv, g[k][1], scale * scale):
                case.tol_used += 1
            else:
                d.append("%s model %r impl %r" % (k, mv, g[k][1]))
        return "; ".join(d) if d else None
    case.ask("mstats (m %s)" % m_sexp(m), "measure getters", g, cmpg)
    M2 = build_measure(m)

    def setit():
        if which == "mean":
            M2.center_mass = v
        elif which == "range":
            M2.range = v
        else:
            M2.var = v
        return obs_m(M2)
    r = call(setit)

    def cmps(rep):
        if r[0] == "err":
            return None if (rep[0] == "err" and rep[1] == r[1]) else "impl raised %s, model %r" % (r[1], rep)
        if rep[0] != "ok":
            return "impl returned, model %r" % (rep,)
        gm = [floats_of(rep[1]["m"][0]), floats_of(rep[1]["m"][1])]
        if not same_vec(gm[0], r[1][0]):
            return "weights model %r impl %r" % (gm[0], r[1][0])
        if same_vec(gm[1], r[1][1]):
            return None
        if which == "var" and not exact and len(set(a for a, b in zip(xs, ws) if b != 0.0)) <= 1:
            # true variance exactly 0 (excluded by the property: "non-degenerate"): whether the computed variance
            # is 0.0 or 1e-31 depends on the rounding of the mean, and the two branches differ (nan vs rescaled)
            case.tag("measure:var-degenerate-not-compared")
            return None
        if exact and which == "mean":
            return "positions (exactness regime) model %r impl %r" % (gm[1], r[1][1])
        if len(gm[1]) == len(r[1][1]) and all(close(a, b, scale) for a, b in zip(gm[1], r[1][1])):
            case.tol_used += 1
            return None
        return "positions model %r impl %r" % (gm[1], r[1][1])
    case.ask("mset (m %s) (which %s) (v %s)" % (m_sexp(m), which, f2b(v)), "measure setter " + which, r, cmps)
    # ---- monitor: the setter achieves the value (non-degenerate inputs, as the property's C18 part requires)
    sw = sum(ws); n = len(xs)
    nondeg = n >= 1 and sw > 0 and all(w >= 0 for w in ws)
    if r[0] == "ok" and nondeg:
        if not same_vec(r[1][0], ws):
            case.fail("measure/setter-changes-weights", "setting %s changed the weights %r -> %r" % (which, ws, r[1][0]))
        wq = [frac(t) for t in ws]; swq = sum(wq, Fraction(0))
        nx = r[1][1]
        if all(math.isfinite(t) for t in nx):
            xq = [frac(t) for t in nx]
            mean_after = sum((a * b for a, b in zip(wq, xq)), Fraction(0)) / swq
            if which == "mean":
                if abs(mean_after - frac(v)) > Fraction(RTOL) * Fraction(scale):
                    case.fail("measure/center_mass-not-achieved", "center_mass = %r gives weighted mean %r" % (v, float(mean_after)))
                case.nontrivial = True
            elif which == "range":
                if max(xs) != min(xs) and v >= 0:
                    if abs(frac(max(nx)) - frac(min(nx)) - frac(v)) > Fraction(RTOL) * Fraction(scale):
                        case.fail("measure/range-not-achieved", "range = %r gives spread %r" % (v, max(nx) - min(nx)))
                    case.nontrivial = True
            else:
                xq0 = [frac(t) for t in xs]
                m0 = sum((a * b for a, b in zip(wq, xq0)), Fraction(0)) / swq
                v0 = sum((a * (b - m0) ** 2 for a, b in zip(wq, xq0)), Fraction(0)) / swq
                if v0 > Fraction(1, 10 ** 6) and v >= 0:
                    va = sum((a * (b - mean_after) ** 2 for a, b in zip(wq, xq)), Fraction(0)) / swq
                    if abs(va - frac(v)) > Fraction(RTOL) * Fraction(scale * scale):
                        case.fail("measure/var-not-achieved", "var = %r gives weighted variance %r" % (v, float(va)))
                    case.nontrivial = True
        elif which == "mean":
            case.fail("measure/center_mass-not-finite", "center_mass = %r gives %r" % (v, nx))
    case.tag("measure:set-%s" % which)
    case.tag("regime:exact" if exact else "regime:general")
    if n == 1:
        case.tag("measure:single-point")
    return case


def gen_measure_case(rng):
    exact = rng.random() < 0.5
    n = rng.choice([1, 2, 2, 3, 3, 4, 5])
    if rng.random() < 0.03:
        n = 0
    m = gen_measure(rng, n, exact, positive=rng.random() < 0.7)
    which = rng.choice(["mean", "range", "var"])
    if which == "mean":
        v = gen_pos(rng, exact)
    else:
        v = abs(gen_pos(rng, exact)) if rng.random() < 0.9 else 0.0
    return {"kind": "measure", "exact": exact, "m": m, "which": which, "v": v}


# ------------------------------------------------------------------ kind: constraints.impose_measure
def case_impose(spec):
    from mystic.constraints import impose_measure
    case = Case(spec)
    npts = spec["npts"]; x = spec["x"]; exact = spec["exact"]
    tracking = {int(k): set(tuple(p) for p in v) for k, v in spec["tracking"]}
    noweight = {int(k): set(v) for k, v in spec["noweight"]}
    xin = list(x)
    r = call(lambda: [float(v) for v in impose_measure(tuple(npts), tracking, noweight)(lambda z: z)(xin)])
    if xin != list(x):
        case.fail("aliasing/impose-mutates-input", "impose_measure changed its argument")
    # request: indices normalised (negative -> len+i), pairs grouped by their (shared) first index, members ascending
    tr = []
    for k, pairs in spec["tracking"]:
        n = npts[k]; groups = {}
        for i, j in pairs:
            i = n + i if i < 0 else i; j = n + j if j < 0 else j
            groups.setdefault(i, set()).add(j)
        tr.append("(%d %s)" % (k, " ".join("(%d %s)" % (i, " ".join(str(j) for j in sorted(js))) for i, js in groups.items())))
    nw = []
    for k, idx in spec["noweight"]:
        n = npts[k]
        nw.append("(%d %s)" % (k, " ".join(str(n + i if i < 0 else i) for i in idx)))
    scale = max([1.0] + [abs(v) for v in x])

    def cmp(rep):
        if r[0] == "err":
            return None if (rep[0] == "err" and rep[1] == r[1]) else "impl raised %s, model %r" % (r[1], rep)
        if rep[0] != "ok":
            return "impl returned, model %r" % (rep,)
        got = floats_of(rep[1]["y"])
        if same_vec(got, r[1]):
            return None
        if len(got) == len(r[1]) and all(close(a, b, scale) or (a != a and b != b) for a, b in zip(got, r[1])):
            if exact and spec.get("strict", False):
                return "result (exactness regime) model %r impl %r" % (got, r[1])
            case.tol_used += 1
            return None
        return "result model %r impl %r" % (got, r[1])
    case.ask("impose (npts %s) (x %s) (tracking (%s)) (noweight (%s))" % (nl(npts), fl(x), " ".join(tr), " ".join(nw)),
             "impose_measure", r, cmp)
    # ---- monitor: what the constraint promises (non-degenerate: positive total weights)
    if r[0] != "ok":
        case.fail("impose/raises", "impose_measure raised %s on a well-formed input" % r[1])
        return case
    y = r[1]
    if len(y) != len(x):
        case.fail("impose/shape", "result has %d parameters, input %d" % (len(y), len(x)))
        return case
    p = 0
    for k, n in enumerate(npts):
        w0 = x[p:p + n]; x0 = x[p + n:p + 2 * n]; w1 = y[p:p + n]; x1 = y[p + n:p + 2 * n]; p += 2 * n
        touched = k in tracking or k in noweight
        if not touched:
            if not (same_vec(w0, w1) and same_vec(x0, x1)):
                case.fail("impose/untouched-factor-changed", "factor %d is not addressed but changed: %r -> %r" % (k, (w0, x0), (w1, x1)))
            continue
        if not all(math.isfinite(v) for v in w1 + x1) or sum(w0) <= 0 or any(v < 0 for v in w0):
            case.tag("impose:degenerate"); continue
        wq0 = [frac(v) for v in w0]; wq1 = [frac(v) for v in w1]
        tw0 = sum(wq0, Fraction(0)); tw1 = sum(wq1, Fraction(0))
        nz = lambda i: n + i if i < 0 else i
        # (with `noweight` on the same factor the documented "avoid null weights" rule may re-weight a collapsed
        #  point, so the collapsed weights are only required to vanish when the factor has no `noweight` entry)
        zero_idx = set(nz(i) for i in noweight.get(k, ()))
        if k not in noweight:
            zero_idx |= set(nz(j) for (_, j) in tracking.get(k, ()))
        survivors = [i for i in range(n) if i not in set(nz(i2) for i2 in noweight.get(k, ()))]
        for i in zero_idx:
            if w1[i] != 0.0:
                case.fail("impose/weight-not-removed", "factor %d: weight %d is %r, expected 0 (%r -> %r)" % (k, i, w1[i], w0, w1))
        for (i, j) in tracking.get(k, ()):
            if x1[nz(i)] != x1[nz(j)]:
                case.fail("impose/positions-not-collapsed", "factor %d: positions %d and %d differ: %r" % (k, nz(i), nz(j), x1))
        if abs(tw1 - tw0) > Fraction(RTOL) * max(abs(tw0), Fraction(1)):
            case.fail("impose/total-weight-changed", "factor %d: total weight %r -> %r" % (k, float(tw0), float(tw1)))
        elif tw1 != 0:
            m0 = sum((a * frac(b) for a, b in zip(wq0, x0)), Fraction(0)) / tw0
            m1 = sum((a * frac(b) for a, b in zip(wq1, x1)), Fraction(0)) / tw1
            if abs(m1 - m0) > Fraction(RTOL) * Fraction(scale):
                case.fail("impose/mean-changed", "factor %d: weighted mean %r -> %r" % (k, float(m0), float(m1)))
            case.nontrivial = True
    case.tag("impose:tracking" if tracking else "impose:no-tracking")
    case.tag("impose:noweight" if noweight else "impose:no-noweight")
    case.tag("regime:exact" if exact else "regime:general")
    return case


def gen_impose(rng):
    exact = rng.random() < 0.5
    sizes = [rng.choice([2, 3, 3, 4, 5]) for _ in range(rng.choice([1, 2, 2, 3]))]
    x = []
    for n in sizes:
        m = gen_measure(rng, n, exact, positive=rng.random() < 0.8)
        x += m[0] + m[1]
    tracking = []; noweight = []
    for k, n in enumerate(sizes):
        if rng.random() < 0.5:
            # order-independent pair sets only: a star (i,j1),(i,j2).. or disjoint pairs
            idx = list(range(n)); rng.shuffle(idx)
            if rng.random() < 0.5 or n < 4:
                i = idx[0]; js = idx[1:1 + rng.randint(1, min(2, n - 1))]
                pairs = [[i, j] for j in js]
            else:
                pairs = [[idx[0], idx[1]], [idx[2], idx[3]]]
            pairs = [[(a - n if rng.random() < 0.15 else a), (b - n if rng.random() < 0.15 else b)] for a, b in pairs]
            tracking.append([k, pairs])
        if rng.random() < 0.5:
            cnt = rng.randint(1, n - 1) if rng.random() < 0.9 else n
            idx = rng.sample(range(n), cnt)
            noweight.append([k, [(a - n if rng.random() < 0.15 else a) for a in idx]])
    return {"kind": "impose", "exact": exact, "npts": sizes, "x": x, "tracking": tracking, "noweight": noweight}


KINDS = {"roundtrip": (gen_roundtrip, case_roundtrip), "update": (gen_update, case_update),
         "scenario": (gen_scenario, case_scenario), "helpers": (gen_helpers, case_helpers),
         "measure": (gen_measure_case, case_measure), "impose": (gen_impose, case_impose)}


def all_shapes(tier):
    """every shape with <= 3 factors of 1..4 points (quick) / <= 4 factors of 0..5 points (thorough)"""
    import itertools
    maxf, sizes = (3, [1, 2, 3, 4]) if tier == "quick" else (4, [0, 1, 2, 3, 4, 5])
    out = []
    for nf in range(maxf + 1):
        out.extend(list(t) for t in itertools.product(sizes, repeat=nf))
    return out


def shape_spec(sizes):
    """deterministic round-trip case for one shape: distinct positions, weights with a zero in every factor of >= 2 points"""
    ms = []
    for i, n in enumerate(sizes):
        ws = [0.0 if (j == 1 and n >= 2) else (1 + ((i * 7 + j * 3) % 5)) / 4.0 for j in range(n)]
        xs = [10.0 * i + j + 0.5 for j in range(n)]
        ms.append([ws, xs])
    f = ("sum",) + tuple(("x", i) for i in range(len(sizes))) if sizes else ("c", 1.0)
    f = ("-", f, ("c", sum(10.0 * i + 0.5 for i in range(len(sizes))) + 1.0)) if sizes else f
    return {"kind": "roundtrip", "exact": True, "pm": ms, "f": f, "tol": 0.0, "extra": [], "enumerated": True}


def gen_spec(rng):
    kinds = ["roundtrip"] * 5 + ["update"] * 3 + ["scenario"] * 2 + ["helpers"] * 3 + ["measure"] * 3
    kinds += ["impose"] * 2
    kind = rng.choice(kinds)
    return KINDS[kind][0](rng)


def run_spec(spec):
    return KINDS[spec["kind"]][1](spec)


def judge(case, replies):
    """-> findings, after the model's replies are in"""
    out = []
    cdesc = {"spec": case.spec, "requests": case.lines, "model": replies,
             "impl": [c[1] for c in case.cmps]}
    for (name, impl, cmp), line, rep in zip(case.cmps, case.lines, replies):
        r = parse_reply(rep)
        if r[0] == "bad-op":
            out.append(Finding("correspondence", "%s/model-bad-op" % case.spec["kind"], "model rejected %r" % (line,), cdesc))
            continue
        d = cmp(r)
        if d:
            out.append(Finding("correspondence", "%s/%s" % (case.spec["kind"], name), "%s: %s" % (name, d), cdesc))
    for key, what in case.mon:
        out.append(Finding("monitor", key, what, cdesc))
    return out, cdesc


def drive(lines):
    """mvdrv can vanish for a moment while another builder re-links it: retry before giving up"""
    last = None
    for _ in range(8):
        try:
            return leandrv.run_driver(lines)
        except (FileNotFoundError, PermissionError, OSError, leandrv.DriverError) as e:
            last = e
            time.sleep(3.0)
    raise last


# ------------------------------------------------------------------ shard
def run_shard(pid, seed, shard, ncases, tier, extra):
    common.import_mystic()
    cases = []; lines = []; findings = []; hist = {}
    nsh = (extra or {}).get("nshards", 1)
    enumerated = [shape_spec(t) for t in all_shapes(tier)[shard::nsh]]
    hist["enumerated-shapes"] = len(enumerated)
    for k in range(len(enumerated) + ncases):
        if k < len(enumerated):
            spec = enumerated[k]
        else:
            rng = case_rng(PID, seed, shard, k - len(enumerated))
            spec = gen_spec(rng)
        try:
            case = run_spec(spec)
        except Exception as exc:      # the real code raised outside a guarded call: a failing input in itself
            import traceback
            findings.append(Finding("monitor", "%s/raises" % spec["kind"], "%s case raised %r\n%s" % (spec["kind"], exc, traceback.format_exc()[-800:]), {"spec": spec}))
            continue
        cases.append((case, len(lines)))
        lines.extend(case.lines)
    replies = drive(lines)
    nontrivial = 0; samples = []; tol_used = 0
    for case, off in cases:
        fs, cdesc = judge(case, replies[off:off + len(case.lines)])
        findings.extend(fs)
        hist["kind:" + case.spec["kind"]] = hist.get("kind:" + case.spec["kind"], 0) + 1
        for t in set(case.tags):
            hist[t] = hist.get(t, 0) + 1
        tol_used += case.tol_used
        if case.nontrivial:
            nontrivial += 1
            if len(samples) < 2 and case.spec["kind"] in ("roundtrip", "update") and len(json.dumps(common.jsonable(cdesc))) < 6000:
                samples.append(cdesc)
    hist["compared-with-tolerance"] = tol_used
    return {"evaluations": len(cases), "nontrivial": nontrivial, "model_lines": len(lines), "findings": findings,
            "samples": samples, "hist": hist}


def replay(path):
    """re-execute one stored case on the implementation and the model"""
    common.import_mystic()
    leandrv.ensure_driver()
    data = json.load(open(path))
    spec = data["case"].get("spec") if isinstance(data.get("case"), dict) else None
    if spec is None:
        print("replay file has no case spec (proof/correspondence summary): re-run ./check C19")
        return 2
    case = run_spec(spec)
    replies = drive(case.lines)
    fs, _ = judge(case, replies)
    known = {e["class_key"] for e in framework.load_known(PID)}
    bad = [f for f in fs if not (f["kind"] == "monitor" and f["class_key"] in known)]
    for f in fs:
        print("%s [%s] %s" % (f["kind"], f["class_key"], f["what"][:400]))
    if bad:
        print("VIOLATION property=%s replay=%s" % (PID, path))
        return 1
    print("replayed: no divergence, property holds on this case")
    return 0


def main(tier, seed):
    t0 = time.time()
    proof = framework.proof_stage(PID, MODULE, THEOREMS, tier)
    nshards, per = (16, 500) if tier == "quick" else (64, 12000)
    run = framework.run_shards("c19", "run_shard", PID, seed, nshards, per, tier, extra={"nshards": nshards})

    def search_more():
        r = framework.run_shards("c19", "run_shard", PID, seed + 7919, 32, 600, tier, extra={"nshards": 32})
        return r["findings"]
    rule = ("cases: product measures with 0-4 factors of 0-5 points (unequal sizes, size 1, empty factor), weights incl. zeros "
            "(a few negative), duplicate positions; exactness regime (small dyadics) and general floats; streams: roundtrip "
            "(flatten/load/unflatten/compose/decompose/pack/unpack/positions setter + weights/positions/npts/mass/expect/"
            "expect_var/pof/support with DSL test functions incl. exact zeros and support tolerances equal to a weight), "
            "update (product_measure and scenario; exact, surplus and short parameter lists), scenario (constructor, flatten "
            "all/not all, load), helpers (malformed shapes: _nested/_nested_split/unflatten/compose/_unpack error enum), measure "
            "(center_mass/range/var getters and setters), impose (constraints.impose_measure). non-trivial = the clause under "
            "test is exercised: >= 2 factors and >= 2 points (roundtrip), len(params) >= 2*sum(pts) on a non-empty shape "
            "(update), values present (scenario), ill-fitting input (helpers), non-degenerate setter (measure)")
    tb = ["Lean 4.33 kernel; axioms per theorem listed under coverage.theorems",
          "hand-written model Model/Discrete.lean tied to mystic.math.discrete / measures by this differential run only",
          "sum-like statistics (mass, center_mass, expect, pof) are compared bit-exactly in the exactness regime and with rel 1e-9 "
          "otherwise (python's compensated sum / numpy reductions are not replicated); expect_var, var and the range/var setters "
          "always with rel 1e-9 when not bit-identical (count in histogram 'compared-with-tolerance')",
          "DSL twins harness/dsl.py and Model/Dsl.lean for the test functions",
          "the monitor's reference values are exact rationals (python fractions)"]
    assumptions = ["positions of a product measure are scalars (floats); weights and positions finite",
                   "test functions are deterministic and total (no division)",
                   "IEEE binary64 + - * / sqrt and comparisons agree between Lean Float and CPython/numpy",
                   "field theorems (expect/expect_var/mass/setters) are about an ordered field, not about rounding"]
    extra_cov = {"exhaustive_subenumeration": "round-trip/product-structure clauses on EVERY shape with %s (%d shapes, deterministic payloads)"
                 % ("<= 3 factors of 1..4 points" if tier == "quick" else "<= 4 factors of 0..5 points", len(all_shapes(tier)))}
    return framework.finish(PID, tier, seed, t0, proof, run, rule, tb, assumptions, extra_cov=extra_cov, search_more=search_more)
