"""Translator shared by C13 / C14 (untrusted, validated on every case by the bit-exact exec comparison).

* generator-side terms (what the constraint TEXT says): nested tuples
      ('n', text) | ('v', j) | ('+',a,b) | ('-',a,b) | ('*',a,b) | ('/',a,b) | ('neg',a)
  printed as text under a variable-naming scheme (`print_expr`) for mystic, and in `x[j]` form for the
  harness' own reading of the text.
* `parse_expr(src)`: python source in `x[j]` form (what mystic EMITS, or the harness' own `x[j]` print of the
  text) -> AST in the language of lean/MysticVerif/Model/Emitted.lean:
      ('n', float) ('v', j) ('+',a,b) ('-',a,b) ('*',a,b) ('/',a,b) ('neg',a) ('max',a,b) ('min',a,b)
      ('tol',a) ('equal',a,b) ('bor',a,b) ('false',) ('iszero',a)
* `sexp(ast)`: protocol form.
"""
import ast as _ast
from common import f2b


class Untranslatable(Exception):
    pass


# ------------------------------------------------------------------ printing generator terms
def print_expr(e, name, top=True):
    """fully parenthesised below the top level, so that python's reading is unambiguous"""
    op = e[0]
    if op == "n":
        s = e[1]
        return s if (top or not s.startswith("-")) else "(" + s + ")"
    if op == "v":
        return name(e[1])
    if op == "neg":
        s = "-" + print_expr(e[1], name, False)
        return s if top else "(" + s + ")"
    s = print_expr(e[1], name, False) + " " + op + " " + print_expr(e[2], name, False)
    return s if top else "(" + s + ")"


def _int_text(s):
    return s.lstrip("-").isdigit()


def int_only(e):
    """would python evaluate this term entirely in its (exact, unsigned-zero) int arithmetic?"""
    if e[0] == "n":
        return _int_text(e[1])
    if e[0] == "v":
        return False
    return all(int_only(t) for t in e[1:])


def floatify(e):
    if e[0] == "n":
        return ("n", e[1] + ".") if _int_text(e[1]) else e
    if e[0] == "v":
        return e
    return (e[0],) + tuple(floatify(t) for t in e[1:])


def deint(e):
    """rewrite a generator term so that no binary operation has two int-valued operands: python's int arithmetic
    ((-6)*0 == 0, -(3-3) == 0) has no signed zero and would differ from the IEEE model in the sign of a zero"""
    if e[0] in ("n", "v"):
        return e
    kids = [deint(t) for t in e[1:]]
    if len(kids) == 2 and int_only(kids[0]) and int_only(kids[1]):
        kids[1] = floatify(kids[1])
    return (e[0],) + tuple(kids)


def term_vars(e):
    if e[0] == "v":
        return {e[1]}
    if e[0] == "n":
        return set()
    out = set()
    for t in e[1:]:
        out |= term_vars(t)
    return out


def xj(j):
    return "x[%d]" % j


# ------------------------------------------------------------------ python source -> Emitted AST
def _const(v):
    if isinstance(v, bool) or not isinstance(v, (int, float)):
        raise Untranslatable("constant %r" % (v,))
    return ("n", float(v))


_CONSTS = {}


def _tr(node):
    if isinstance(node, _ast.Constant):
        return _const(node.value)
    if isinstance(node, _ast.Name) and node.id in _CONSTS:
        return _const(_CONSTS[node.id])            # a name bound through `locals=`
    if isinstance(node, _ast.UnaryOp):
        if isinstance(node.op, _ast.UAdd):
            return _tr(node.operand)
        if isinstance(node.op, _ast.USub):
            if isinstance(node.operand, _ast.Constant):
                v = node.operand.value
                if isinstance(v, int) and not isinstance(v, bool):
                    return ("n", float(-v))          # python folds -<int> exactly (and -0 is 0)
                return ("n", -float(v))
            return ("neg", _tr(node.operand))
        raise Untranslatable("unary %r" % node.op)
    if isinstance(node, _ast.BinOp):
        ops = {_ast.Add: "+", _ast.Sub: "-", _ast.Mult: "*", _ast.Div: "/"}
        for k, s in ops.items():
            if isinstance(node.op, k):
                return (s, _tr(node.left), _tr(node.right))
        raise Untranslatable("binop %r" % node.op)
    if isinstance(node, _ast.Subscript):
        if isinstance(node.value, _ast.Name) and node.value.id == "x" and isinstance(node.slice, _ast.Constant) \
                and isinstance(node.slice.value, int) and node.slice.value >= 0:
            return ("v", node.slice.value)
        raise Untranslatable("subscript")
    if isinstance(node, _ast.Compare):
        if len(node.ops) == 1 and isinstance(node.ops[0], _ast.Eq) and isinstance(node.comparators[0], _ast.Constant) \
                and node.comparators[0].value == 0 and not isinstance(node.comparators[0].value, bool):
            return ("iszero", _tr(node.left))
        raise Untranslatable("compare")
    if isinstance(node, _ast.Call) and isinstance(node.func, _ast.Name) and not node.keywords:
        f = node.func.id; a = node.args
        if f in ("max", "min") and len(a) == 2:
            return (f, _tr(a[0]), _tr(a[1]))
        if f == "_tol" and len(a) == 3 and all(isinstance(t, _ast.Name) for t in a[1:]) \
                and a[1].id == "tol" and a[2].id == "rel":
            return ("tol", _tr(a[0]))
        if f == "equal" and len(a) == 2:
            return ("equal", _tr(a[0]), _tr(a[1]))
        if f == "any" and len(a) == 1 and isinstance(a[0], _ast.Call) and isinstance(a[0].func, _ast.Name) \
                and a[0].func.id == "equal" and len(a[0].args) == 2 and isinstance(a[0].args[1], _ast.List):
            r = _tr(a[0].args[0])
            out = ("false",)
            for n in reversed(a[0].args[1].elts):
                out = ("bor", ("equal", r, _tr(n)), out)
            return out
        raise Untranslatable("call %s/%d" % (f, len(a)))
    raise Untranslatable(type(node).__name__)


def parse_expr(src, consts=None):
    """consts: names bound through generate_*(..., locals=...) -> their numeric values"""
    global _CONSTS
    try:
        tree = _ast.parse(src.strip(), mode="eval")
    except SyntaxError as exc:
        raise Untranslatable("syntax: %s" % exc)
    _CONSTS = dict(consts or {})
    try:
        return _tr(tree.body)
    finally:
        _CONSTS = {}


def parse_assign(src):
    """'x[i] = e' -> (i, ast)"""
    try:
        tree = _ast.parse(src.strip(), mode="exec")
    except SyntaxError as exc:
        raise Untranslatable("syntax: %s" % exc)
    if len(tree.body) != 1 or not isinstance(tree.body[0], _ast.Assign) or len(tree.body[0].targets) != 1:
        raise Untranslatable("not a single assignment")
    t = _tr(tree.body[0].targets[0])
    if t[0] != "v":
        raise Untranslatable("target")
    return (t[1], _tr(tree.body[0].value))


def sexp(e):
    op = e[0]
    if op == "n":
        return "(n %s)" % f2b(e[1])
    if op == "v":
        return "(v %d)" % e[1]
    if op == "false":
        return "(false)"
    return "(" + op + " " + " ".join(sexp(t) for t in e[1:]) + ")"


def ast_vars(e):
    if e[0] == "v":
        return {e[1]}
    out = set()
    for t in e[1:]:
        if isinstance(t, tuple):
            out |= ast_vars(t)
    return out


# ------------------------------------------------------------------ the harness' own reading of a relation text
CMP_SYM = {"=": "eq", "==": "eq", "<=": "le", ">=": "ge", "<": "lt", ">": "gt", "!=": "ne"}


def py_holds(cmp, a, b):
    k = CMP_SYM[cmp]
    return {"eq": a == b, "le": a <= b, "ge": a >= b, "lt": a < b, "gt": a > b, "ne": a != b}[k]


def py_eval(term, v, consts=None):
    """independent evaluation of a generator term at the point v by python itself (no translator, no mystic)"""
    src = print_expr(term, xj)
    env = {"x": v}
    if consts:
        env.update(consts)
    return eval(compile(src, "<rel>", "eval"), {"__builtins__": {}}, env)
