"""Translator shared by C13 / C14 (untrusted, validated on every case by the bit-exact exec comparison).

* generator-side terms (what the constraint TEXT says): nested tuples
      ('n', text) | ('v', j) | ('+',a,b) | ('-',a,b) | ('*',a,b) | ('/',a,b) | ('neg',a)
      | ('pow', a, ('n', '<int>')) | ('abs', a) | ('max', a, b, ..) | ('min', a, b, ..) | (<fname>, a) for the numeric
      functions of the generated namespace (FUNCS1) | ('sum', a, b, ..) | ('mean', a, b, ..) | ('spread', a, b, ..)
  printed as text under a variable-naming scheme (`print_expr`) for mystic, and in `x[j]` form for the
  harness' own reading of the text.
* `parse_expr(src)`: python source in `x[j]` form (what mystic EMITS, or the harness' own `x[j]` print of the
  text) -> AST in the language of lean/MysticVerif/Model/Emitted.lean:
      ('n', float) ('v', j) ('+',a,b) ('-',a,b) ('*',a,b) ('/',a,b) ('neg',a) ('max',a,b) ('min',a,b)
      ('tol',a) ('equal',a,b) ('bor',a,b) ('false',) ('iszero',a) ('abs',a) ('app1',id,a) ('app2',id,a,b)
* `sexp(ast)`: protocol form.
"""
import ast as _ast
from common import f2b


class Untranslatable(Exception):
    pass


# the numeric functions of the generated namespace that are modelled: name -> (driver id, IEEE-exact?)
FUNCS1 = {"sqrt": (0, True), "floor": (1, True), "ceil": (2, True), "exp": (3, False), "log": (4, False),
          "sin": (5, False), "cos": (6, False)}
CALLS = ("abs", "max", "min", "sum", "mean", "spread") + tuple(FUNCS1)
LISTCALLS = ("sum", "mean", "spread")


# ------------------------------------------------------------------ printing generator terms
def print_expr(e, name, top=True):
    """fully parenthesised below the top level, so that python's reading is unambiguous"""
    op = e[0]
    if op == "pow":
        b = print_expr(e[1], name, False)
        return ("(" + b + ")" if e[1][0] == "pow" else b) + "**" + e[2][1]
    if op in LISTCALLS:
        return op + "([" + ", ".join(print_expr(t, name, True) for t in e[1:]) + "])"
    if op in CALLS:
        return op + "(" + ", ".join(print_expr(t, name, True) for t in e[1:]) + ")"
    if op == "n":
        s = e[1]
        return s if (top or not s.startswith("-")) else "(" + s + ")"
    if op == "v":
        return name(e[1])
    if op == "neg":
        s = "-" + print_expr(e[1], name, False)
        return s if top else "(" + s + ")"
    s = print_expr(e[1], name, False) + " " + op + " " + print_expr(e[2], name, False)
    return s if top else "(" + s + ")"


def _int_text(s):
    return s.lstrip("-").isdigit()


def int_only(e):
    """would python evaluate this term entirely in its (exact, unsigned-zero) int arithmetic?"""
    if e[0] == "n":
        return _int_text(e[1])
    if e[0] == "v":
        return False
    if e[0] in FUNCS1 or e[0] == "mean":
        return False
    return all(int_only(t) for t in e[1:])


def floatify(e):
    if e[0] == "n":
        return ("n", e[1] + ".") if _int_text(e[1]) else e
    if e[0] == "v":
        return e
    if e[0] == "pow":
        return (e[0], floatify(e[1]), e[2])
    return (e[0],) + tuple(floatify(t) for t in e[1:])


def deint(e):
    """rewrite a generator term so that no binary operation has two int-valued operands: python's int arithmetic
    ((-6)*0 == 0, -(3-3) == 0) has no signed zero and would differ from the IEEE model in the sign of a zero"""
    if e[0] in ("n", "v"):
        return e
    kids = [deint(t) for t in e[1:]]
    if e[0] == "pow":
        return (e[0], floatify(kids[0]) if int_only(kids[0]) else kids[0], e[2])      # the exponent stays an int literal
    if e[0] in CALLS:
        return (e[0],) + tuple(kids)
    if len(kids) == 2 and int_only(kids[0]) and int_only(kids[1]):
        kids[1] = floatify(kids[1])
    return (e[0],) + tuple(kids)


def term_vars(e):
    if e[0] == "v":
        return {e[1]}
    if e[0] == "n":
        return set()
    out = set()
    for t in e[1:]:
        out |= term_vars(t)
    return out


def xj(j):
    return "x[%d]" % j


# ------------------------------------------------------------------ python source -> Emitted AST
def _const(v):
    if isinstance(v, bool) or not isinstance(v, (int, float)):
        raise Untranslatable("constant %r" % (v,))
    return ("n", float(v))


_CONSTS = {}


def _tr(node):
    if isinstance(node, _ast.Constant):
        return _const(node.value)
    if isinstance(node, _ast.Name) and node.id in _CONSTS:
        return _const(_CONSTS[node.id])            # a name bound through `locals=`
    if isinstance(node, _ast.UnaryOp):
        if isinstance(node.op, _ast.UAdd):
            return _tr(node.operand)
        if isinstance(node.op, _ast.USub):
            if isinstance(node.operand, _ast.Constant):
                v = node.operand.value
                if isinstance(v, int) and not isinstance(v, bool):
                    return ("n", float(-v))          # python folds -<int> exactly (and -0 is 0)
                return ("n", -float(v))
            return ("neg", _tr(node.operand))
        raise Untranslatable("unary %r" % node.op)
    if isinstance(node, _ast.BinOp) and isinstance(node.op, _ast.Pow):
        ex = node.right
        if isinstance(ex, _ast.UnaryOp) and isinstance(ex.op, _ast.USub) and isinstance(ex.operand, _ast.Constant):
            k = ex.operand.value; sign = -1
        elif isinstance(ex, _ast.Constant):
            k = ex.value; sign = 1
        else:
            raise Untranslatable("exponent")
        if isinstance(k, bool) or not isinstance(k, int):
            raise Untranslatable("non-integer exponent")
        return ("app2", 0, _tr(node.left), ("n", float(sign * k)))
    if isinstance(node, _ast.BinOp):
        ops = {_ast.Add: "+", _ast.Sub: "-", _ast.Mult: "*", _ast.Div: "/"}
        for k, s in ops.items():
            if isinstance(node.op, k):
                return (s, _tr(node.left), _tr(node.right))
        raise Untranslatable("binop %r" % node.op)
    if isinstance(node, _ast.Subscript):
        if isinstance(node.value, _ast.Name) and node.value.id == "x" and isinstance(node.slice, _ast.Constant) \
                and isinstance(node.slice.value, int) and node.slice.value >= 0:
            return ("v", node.slice.value)
        raise Untranslatable("subscript")
    if isinstance(node, _ast.Compare):
        if len(node.ops) == 1 and isinstance(node.ops[0], _ast.Eq) and isinstance(node.comparators[0], _ast.Constant) \
                and node.comparators[0].value == 0 and not isinstance(node.comparators[0].value, bool):
            return ("iszero", _tr(node.left))
        raise Untranslatable("compare")
    if isinstance(node, _ast.Call) and isinstance(node.func, _ast.Name) and not node.keywords:
        f = node.func.id; a = node.args
        if f in _CONSTS:
            raise Untranslatable("call of a name bound through locals")
        if f in ("max", "min") and len(a) >= 2:
            out = (f, _tr(a[0]), _tr(a[1]))          # python keeps the FIRST extremal argument: a left fold of the 2-ary form
            for t in a[2:]:
                out = (f, out, _tr(t))
            return out
        if f == "abs" and len(a) == 1:
            return ("abs", _tr(a[0]))
        if f in FUNCS1 and len(a) == 1:
            return ("app1", FUNCS1[f][0], _tr(a[0]))
        if f in ("sum", "mean", "average", "spread", "ptp") and len(a) == 1 and isinstance(a[0], _ast.List) and a[0].elts:
            el = [_tr(t) for t in a[0].elts]
            if f in ("spread", "ptp"):           # measures.spread: max(samples) - min(samples); numpy.ptp likewise
                mx = el[0]; mn = el[0]
                for t in el[1:]:
                    mx = ("max", mx, t); mn = ("min", mn, t)
                return ("-", mx, mn)
            acc = ("n", 0.0)                     # python / numpy start from 0 and add left to right (exactness regime)
            for t in el:
                acc = ("+", acc, t)
            if f == "sum":
                return acc
            q = ("/", acc, ("n", float(len(el))))
            # measures.mean: `0.0 if abs(ssum) <= tol else ssum` turns -0.0 into 0.0; numpy.mean keeps it
            return ("+", q, ("n", 0.0)) if f == "mean" else q
        if f == "_tol" and len(a) == 3 and all(isinstance(t, _ast.Name) for t in a[1:]) \
                and a[1].id == "tol" and a[2].id == "rel":
            return ("tol", _tr(a[0]))
        if f == "equal" and len(a) == 2:
            return ("equal", _tr(a[0]), _tr(a[1]))
        if f == "any" and len(a) == 1 and isinstance(a[0], _ast.Call) and isinstance(a[0].func, _ast.Name) \
                and a[0].func.id == "equal" and len(a[0].args) == 2 and isinstance(a[0].args[1], _ast.List):
            r = _tr(a[0].args[0])
            out = ("false",)
            for n in reversed(a[0].args[1].elts):
                out = ("bor", ("equal", r, _tr(n)), out)
            return out
        raise Untranslatable("call %s/%d" % (f, len(a)))
    raise Untranslatable(type(node).__name__)


def parse_expr(src, consts=None):
    """consts: names bound through generate_*(..., locals=...) -> their numeric values"""
    global _CONSTS
    try:
        tree = _ast.parse(src.strip(), mode="eval")
    except SyntaxError as exc:
        raise Untranslatable("syntax: %s" % exc)
    _CONSTS = dict(consts or {})
    try:
        return _tr(tree.body)
    finally:
        _CONSTS = {}


def parse_assign(src, consts=None):
    """'x[i] = e' -> (i, ast)"""
    global _CONSTS
    try:
        tree = _ast.parse(src.strip(), mode="exec")
    except SyntaxError as exc:
        raise Untranslatable("syntax: %s" % exc)
    if len(tree.body) != 1 or not isinstance(tree.body[0], _ast.Assign) or len(tree.body[0].targets) != 1:
        raise Untranslatable("not a single assignment")
    _CONSTS = dict(consts or {})
    try:
        t = _tr(tree.body[0].targets[0])
        if t[0] != "v":
            raise Untranslatable("target")
        return (t[1], _tr(tree.body[0].value))
    finally:
        _CONSTS = {}


def sexp(e):
    op = e[0]
    if op == "n":
        return "(n %s)" % f2b(e[1])
    if op == "v":
        return "(v %d)" % e[1]
    if op == "false":
        return "(false)"
    if op in ("app1", "app2"):
        return "(%s %d %s)" % (op, e[1], " ".join(sexp(t) for t in e[2:]))
    return "(" + op + " " + " ".join(sexp(t) for t in e[1:]) + ")"


def ast_vars(e):
    if e[0] == "v":
        return {e[1]}
    out = set()
    for t in e[1:]:
        if isinstance(t, tuple):
            out |= ast_vars(t)
    return out


# ------------------------------------------------------------------ the harness' own reading of a relation text
CMP_SYM = {"=": "eq", "==": "eq", "<=": "le", ">=": "ge", "<": "lt", ">": "gt", "!=": "ne"}


def py_holds(cmp, a, b):
    k = CMP_SYM[cmp]
    return {"eq": a == b, "le": a <= b, "ge": a >= b, "lt": a < b, "gt": a > b, "ne": a != b}[k]


def py_eval(term, v, consts=None):
    """independent evaluation of a generator term at the point v by python itself (no translator, no mystic)"""
    src = print_expr(term, xj)
    env = dict(_PYENV); env["x"] = v
    if consts:
        env.update(consts)
    return eval(compile(src, "<rel>", "eval"), {"__builtins__": {}}, env)


def _pyenv():
    """what the documentation of generate_solvers / generate_conditions promises the text may use: python builtins and the
    top-level numpy / math functions (numpy's win: `from math import *; from numpy import *; from builtins import *`)"""
    import numpy as _np
    env = {"abs": abs, "max": max, "min": min, "sum": sum}
    for f in FUNCS1:
        env[f] = getattr(_np, f)
    env["mean"] = lambda s: (lambda q: 0.0 if q == 0 else q)(sum(s) / len(s))
    env["spread"] = lambda s: max(s) - min(s)
    return env


_PYENV = _pyenv()


def inexact(e):
    """does the AST use a function whose value is not reproducible bit for bit (exp, log, sin, cos; x**k through C pow)"""
    if not isinstance(e, tuple):
        return False
    if e[0] == "app1" and e[1] >= 3:
        return True
    if e[0] == "app2":
        return True
    return any(inexact(t) for t in e[1:])
