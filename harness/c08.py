"""C08 - the optimizers implement their published algorithms.

Streams (every case derives from common.case_rng(PID + "/<stream>", seed, shard, k)):
  strat   - isolated calls of the ten mystic.strategy functions on real solver objects (DE1 list layout and DE2
            per-candidate layout), random.sample/randrange/random replaced by recording generators that also
            produce the boundary draws (u == CR, one ulp either side, 0.0, n = 0, n = nDim-1, pool == sample);
            the draws go to the Lean model (Model/Strategy.lean): trial storage compared bit-exactly.
  derun   - real DifferentialEvolutionSolver / DifferentialEvolutionSolver2 runs (Step loop); every strategy
            call inside the run is recorded and replayed as above; the selection is replayed by the Lean solver
            model S (DE.step1 / DE.step2) from the recorded trials; monitor: a member changes only when its trial
            is strictly lower, and then becomes exactly that trial with that energy.
  nm      - real fmin vs the in-repo reference _scipy060optimize.fmin; both vs the Lean transcriptions
            (Model/RefFmin.lean: refFmin and the staged mystic machine with its Step/Terminated loop).
  powell  - real fmin_powell vs the reference fmin_powell (same Brent); the direction-set bookkeeping replayed
            by the Lean model (Model/Powell.lean) with the recorded line searches as oracle.
Monitors evaluate the property's own statement on what the real code returned, independently of the model."""
import sys, os, time, math, json, random as _random
import numpy as np
import common
from common import case_rng, fl, fll, f2b, b2f, same_vec, same_float, parse_reply, dyadic, gfloat
import dsl, framework, leandrv, solvergen
from framework import Finding

PID = "C08"
MODULE = "MysticVerif.Props.C08"
THEOREMS = [
]

STRATS = ["Best1Exp", "Best1Bin", "Rand1Exp", "Rand1Bin", "RandToBest1Exp", "RandToBest1Bin",
          "Best2Exp", "Best2Bin", "Rand2Exp", "Rand2Bin"]
NCAND = {"Best1": 2, "Rand1": 3, "RandToBest1": 2, "Best2": 4, "Rand2": 5}
CODED_BIN = {"Best1Bin"}          # what the code does (strategy.py): every other strategy runs the exponential loop


def kind_of(name):
    return name[:-3]


def vec(x):
    return [float(v) for v in np.asarray(x, dtype=float).ravel()]


def hadd(h, k, n=1):
    h[k] = h.get(k, 0) + n


# ====================================================================================== strategies
class DrawPatch:
    """for the duration of ONE strategy call: random.sample / random.randrange / random.random (looked up through
    the module `random` at call time by mystic.strategy) are replaced by generators driven by the case stream that
    record what they returned.  `sample` records the POSITIONS it picked in the population it was handed."""

    def __init__(self, rng, cr, boundary=True):
        self.rng = rng; self.cr = float(cr); self.boundary = boundary
        self.positions = None; self.pool = None; self.n0 = None; self.nrange = None; self.us = []
        self.extra = []

    def __enter__(self):
        self._s, self._rr, self._r = _random.sample, _random.randrange, _random.random
        me = self

        def sample(population, k, **kw):
            population = list(population)
            pos = me.rng.sample(range(len(population)), k)       # raises ValueError like the real one
            if me.positions is None:
                me.positions = pos; me.pool = population
            else:
                me.extra.append(("sample", pos))
            return [population[p] for p in pos]

        def randrange(a, *rest):
            if rest:
                v = me.rng.randrange(a, *rest)
            else:
                k = me.rng.random()
                v = 0 if k < 0.15 else (a - 1 if k < 0.30 else me.rng.randrange(a))
            if me.n0 is None:
                me.n0 = v; me.nrange = a
            else:
                me.extra.append(("randrange", v))
            return v

        def rand():
            k = me.rng.random()
            cr = me.cr
            v = me.rng.random()
            if me.boundary and k < 0.18:
                c = [0.0]
                if 0.0 <= cr < 1.0:
                    c.append(cr)                                   # u == CR : `>=` breaks, `<` does not mutate
                if 0.0 < cr <= 1.0:
                    c.append(math.nextafter(cr, 0.0))              # one ulp below
                if 0.0 <= cr < 1.0 and math.nextafter(cr, 2.0) < 1.0:
                    c.append(math.nextafter(cr, 2.0))              # one ulp above
                v = me.rng.choice(c)
            me.us.append(v)
            return v
        _random.sample, _random.randrange, _random.random = sample, randrange, rand
        return self

    def __exit__(self, *a):
        _random.sample, _random.randrange, _random.random = self._s, self._rr, self._r


def trial_rows(inst):
    """the trial storage as a list of rows: DE1 [trialSolution], DE2 trialSolution"""
    ts = inst.trialSolution
    if inst._map_solver:
        return [vec(r) for r in ts]
    return [vec(ts)]


def record_call(fn, name, inst, cand, rng, boundary=True):
    """run the REAL strategy `fn(inst, cand)` under DrawPatch; returns the observation dict"""
    obs = {"name": name, "map": bool(inst._map_solver), "cand": int(cand), "np": int(inst.nPop), "nd": int(inst.nDim),
           "F": float(inst.scale), "CR": float(inst.probability),
           "pop": [vec(p) for p in inst.population], "best": vec(inst.bestSolution),
           "trial_before": trial_rows(inst)}
    with DrawPatch(rng, inst.probability, boundary) as dp:
        fn(inst, cand)
    obs["trial_after"] = trial_rows(inst)
    obs["positions"] = dp.positions; obs["pool"] = dp.pool; obs["n0"] = dp.n0; obs["us"] = list(dp.us)
    obs["extra_draws"] = dp.extra
    return obs


def strat_request(o):
    return ("C08 strat (name %s) (map %s) (cand %d) (np %d) (nd %d) (F %s) (CR %s) (pop %s) (best %s) (trial %s) (ps %s) (n %d) (us %s)"
            % (o["name"], "true" if o["map"] else "false", o["cand"], o["np"], o["nd"], f2b(o["F"]), f2b(o["CR"]),
               fll(o["pop"]), fl(o["best"]), fll(o["trial_before"]), common.nl(o["positions"]), o["n0"], fl(o["us"])))


def strat_compare(o, reply):
    """correspondence: trial storage after the call, model vs implementation (bit-exact, every row)"""
    r = parse_reply(reply)
    if r[0] != "ok":
        return [("strategy/%s/model-%s" % (o["name"], r[0]), "model replied %r" % (reply[:200],))]
    mt = [[b2f(t) for t in row] for row in r[1]["trial"]]
    it = o["trial_after"]
    if len(mt) != len(it) or not all(same_vec(a, b) for a, b in zip(mt, it)):
        row = o["cand"] if o["map"] else 0
        return [("strategy/%s/trial-diverges/%s" % (o["name"], "DE2" if o["map"] else "DE1"),
                 "trial storage after %s(candidate %d): model row %r, implementation row %r (rows differing: %r)"
                 % (o["name"], o["cand"], mt[row] if row < len(mt) else None, it[row] if row < len(it) else None,
                    [i for i in range(max(len(mt), len(it))) if i >= len(mt) or i >= len(it) or not same_vec(mt[i], it[i])]))]
    return []


def py_mutant(kind, o, rs, tn, n):
    """the right-hand side the strategy's docstring formula gives for component n (python floats, code's association)"""
    P = o["pop"]; b = o["best"]; F = o["F"]
    if kind == "Best1":
        return b[n] + F * (P[rs[0]][n] - P[rs[1]][n])
    if kind == "Rand1":
        return P[rs[0]][n] + F * (P[rs[1]][n] - P[rs[2]][n])
    if kind == "RandToBest1":
        return tn + (F * (b[n] - tn) + F * (P[rs[0]][n] - P[rs[1]][n]))
    if kind == "Best2":
        return b[n] + F * (P[rs[0]][n] + P[rs[1]][n] - P[rs[2]][n] - P[rs[3]][n])
    if kind == "Rand2":
        return P[rs[0]][n] + F * (P[rs[1]][n] + P[rs[2]][n] - P[rs[3]][n] - P[rs[4]][n])
    raise ValueError(kind)


def strat_monitor(o, hist):
    """the property's statement on ONE real strategy call (no Lean involved):
       chosen members distinct, != candidate, < NP; every component is the parent's or base + F*difference;
       the mutated positions follow the crossover rule; nothing else in the trial storage changes."""
    out = []
    name = o["name"]; kind = kind_of(name); D = o["nd"]; cand = o["cand"]; cr = o["CR"]
    if o["positions"] is None or o["n0"] is None:
        return [("strategy/%s/draw-protocol" % name, "the strategy did not call random.sample / random.randrange (draws: %r)" % (o,))]
    rs = [o["pool"][p] for p in o["positions"]]
    if len(rs) != NCAND[kind] or len(set(rs)) != len(rs) or any((r == cand) or not (0 <= r < o["np"]) for r in rs):
        out.append(("strategy/%s/candidates" % name, "candidate %d of %d: chosen members %r are not %d distinct others" % (cand, o["np"], rs, NCAND[kind])))
        return out
    row = cand if o["map"] else 0
    before = o["trial_before"]; after = o["trial_after"]
    for i in range(len(before)):
        if i != row and not same_vec(before[i], after[i]):
            out.append(("strategy/%s/foreign-row-written" % name, "%s(candidate %d) changed trial row %d" % (name, cand, i)))
    parent = o["pop"][cand]; t = after[row]
    if len(t) != D:
        out.append(("strategy/%s/trial-length" % name, "trial has %d components, nDim %d" % (len(t), D)))
        return out
    mut = [py_mutant(kind, o, rs, parent[j], j) for j in range(D)]
    for j in range(D):
        if not (same_float(t[j], parent[j]) or same_float(t[j], mut[j])):
            out.append(("strategy/%s/component" % name, "component %d of the trial is %r: neither the parent's %r nor base+F*diff %r (candidates %r)"
                        % (j, t[j], parent[j], mut[j], rs)))
            return out
    us = o["us"]; n0 = o["n0"]
    # exponential rule: L = min(D, number of leading draws < CR); positions n0 .. n0+L-1 (cyclic)
    L = 0
    for u in us:
        if u >= cr or L == D:
            break
        L += 1
    exp_set = {(n0 + k) % D for k in range(L)}
    exp_trial = [mut[j] if j in exp_set else parent[j] for j in range(D)]
    # binomial rule: position j mutated iff j == n0 or u_j < CR (one draw per position)
    bin_known = [(j == n0) or (us[j] < cr) if j < len(us) else None for j in range(D)]
    if n0 < D and bin_known[n0] is None:
        bin_known[n0] = True

    def contradicts_binomial():
        for j in range(D):
            if bin_known[j] is None or same_float(mut[j], parent[j]):
                continue
            if bin_known[j] != same_float(t[j], mut[j]):
                return j
        return None
    if name in CODED_BIN:
        if len(us) != D or any(k is None for k in bin_known) or not same_vec(t, [mut[j] if bin_known[j] else parent[j] for j in range(D)]):
            out.append(("strategy/%s/crossover-rule" % name, "binomial rule violated: n=%d CR=%r draws=%r parent=%r mutant=%r trial=%r" % (n0, cr, us, parent, mut, t)))
        hadd(hist, "cross:bin:mutated=%s" % ("all" if all(bin_known) else ("only-n" if sum(1 for k in bin_known if k) == 1 else "some")))
    else:
        if not same_vec(t, exp_trial):
            out.append(("strategy/%s/crossover-rule" % name, "exponential rule violated: n=%d CR=%r draws=%r L=%d parent=%r mutant=%r trial=%r" % (n0, cr, us, L, parent, mut, t)))
        hadd(hist, "cross:exp:L=%s%s" % ("0" if L == 0 else ("D" if L == D else "mid"), ":wrap" if (L and n0 + L > D) else ""))
        if name.endswith("Bin"):
            j = contradicts_binomial()
            if j is not None:
                out.append(("strategy/%s/named-bin-runs-exponential-crossover" % name,
                            "%s (binomial by name): n=%d CR=%r draws=%r: component %d is %s although the binomial rule (j == n or u_j < CR) says %s; trial=%r parent=%r mutant=%r"
                            % (name, n0, cr, us, j, "mutated" if same_float(t[j], mut[j]) else "the parent's", "mutated" if bin_known[j] else "keep the parent's", t, parent, mut)))
    if us and any(u == cr for u in us[:L + 1]):
        hadd(hist, "draw==CR")
    return out


def make_inst(rng, two, name, tier):
    """a real solver object in an arbitrary (not necessarily reachable) state"""
    from mystic.solvers import DifferentialEvolutionSolver, DifferentialEvolutionSolver2
    kind = kind_of(name)
    dim = rng.choice([1, 1, 2, 2, 3, 3, 4, 5, 6, 8] if tier == "quick" else [1, 2, 3, 4, 5, 6, 8, 10, 12])
    npop = NCAND[kind] + 1 + rng.choice([0, 0, 1, 2, 3, 6])
    s = (DifferentialEvolutionSolver2 if two else DifferentialEvolutionSolver)(dim, npop)
    if rng.random() < 0.6:
        s.nPop = npop                      # also below the constructor's max(NP, dim, 4): strategies only read nPop
    npop = s.nPop
    flavour = rng.choice(["int", "dyadic", "float", "dups"])

    def num():
        if flavour == "int":
            return float(rng.randint(-3, 3))
        if flavour == "dyadic":
            return dyadic(rng, -4, 4, 8)
        return gfloat(rng, 10.0)
    pop = [[num() for _ in range(dim)] for _ in range(npop)]
    if flavour == "dups":
        for i in range(1, npop):
            if rng.random() < 0.4:
                pop[i] = list(pop[rng.randrange(i)])
    as_array = rng.random() < 0.5
    s.population = [np.array(p) if as_array else list(p) for p in pop]
    s.bestSolution = np.array(pop[rng.randrange(npop)]) if rng.random() < 0.6 else np.array([num() for _ in range(dim)])
    s.scale = rng.choice([0.8, 0.5, 1.0, 0.0, 2.0, rng.uniform(0, 2)])
    s.probability = rng.choice([0.9, 0.5, 0.1, 1.0, 0.0, rng.random()])
    junk = lambda: [num() for _ in range(dim)]
    if two:
        s.trialSolution = [junk() for _ in range(npop)]
    else:
        s.trialSolution = junk()
    return s


def strat_case(rng, tier, hist):
    import mystic.strategy as S
    name = rng.choice(STRATS)
    two = rng.random() < 0.5
    s = make_inst(rng, two, name, tier)
    cand = rng.choice([0, s.nPop - 1, rng.randrange(s.nPop)])
    o = record_call(getattr(S, name), name, s, cand, rng)
    return o


# ====================================================================================== DE runs
def gen_de_cost(rng, dim):
    k = rng.random()
    if k < 0.25:      # plateaus: many exact ties between different vectors
        cs = [dyadic(rng, -2, 2, 2) for _ in range(dim)]
        return ("sum",) + tuple(("sq", ("rint", ("-", ("x", i), ("c", cs[i])))) for i in range(dim))
    if k < 0.4:       # symmetric abs: ties between mirror images
        return ("sum",) + tuple(("abs", ("x", i)) for i in range(dim))
    return solvergen.gen_cost(rng, dim, allow_vector=False)[1]


def derun_case(rng, tier, hist):
    """returns dict(calls=[strategy observations], gens=[per-generation records], spec)"""
    from mystic.solvers import DifferentialEvolutionSolver, DifferentialEvolutionSolver2
    import mystic.strategy as S
    name = rng.choice(STRATS)
    two = rng.random() < 0.5
    dim = rng.randint(1, 4 if tier == "quick" else 7)
    npop = max(NCAND[kind_of(name)] + 1 + rng.choice([0, 1, 2, 4]), dim, 4)
    e = gen_de_cost(rng, dim)
    F = rng.choice([0.8, 0.5, 1.0, rng.uniform(0.1, 1.5)]); CR = rng.choice([0.9, 0.5, 0.1, 1.0, 0.0, rng.random()])
    ngen = rng.randint(2, 6 if tier == "quick" else 25)
    s = (DifferentialEvolutionSolver2 if two else DifferentialEvolutionSolver)(dim, npop)
    flavour = rng.choice(["int", "dyadic", "float"])
    if flavour == "int":
        pop = [[float(rng.randint(-3, 3)) for _ in range(dim)] for _ in range(npop)]
    elif flavour == "dyadic":
        pop = [[dyadic(rng, -3, 3, 2) for _ in range(dim)] for _ in range(npop)]
    else:
        pop = [[rng.uniform(-4, 4) for _ in range(dim)] for _ in range(npop)]
    s.population = [list(p) for p in pop]
    s.strategy = name; s.scale = F; s.probability = CR
    from mystic.termination import VTR
    s.SetTermination(VTR(-1.0, 0.0))                # never
    s.SetEvaluationLimits(10 ** 6, 10 ** 7)
    cost_calls = []

    def cost(x):
        xv = vec(x); y = dsl.ev(e, xv); cost_calls.append((xv, y)); return y
    calls = []
    orig = getattr(S, name)

    def wrapped(inst, candidate):
        o = record_call(orig, name, inst, candidate, rng, boundary=True)
        o["gen"] = len(gens)
        calls.append(o)
    wrapped.__name__ = name
    gens = []
    setattr(S, name, wrapped)
    try:
        for g in range(ngen + 1):
            before = {"pop": [vec(p) for p in s.population], "popE": [float(v) for v in s.popEnergy], "ncalls": len(cost_calls),
                      "ncallrec": len(calls)}
            s.Step(cost)
            after = {"pop": [vec(p) for p in s.population], "popE": [float(v) for v in s.popEnergy],
                     "best": vec(s.bestSolution), "bestE": float(s.bestEnergy)}
            gens.append({"before": before, "after": after, "evals": cost_calls[before["ncalls"]:],
                         "trials": [c["trial_after"][c["cand"] if two else 0] for c in calls[before["ncallrec"]:]]})
    finally:
        setattr(S, name, orig)
    spec = {"name": name, "two": two, "dim": dim, "npop": npop, "F": F, "CR": CR, "cost": dsl.expr_sexp(e), "pop0": pop, "ngen": ngen}
    return {"calls": calls, "gens": gens, "spec": spec, "expr": e}


def derun_monitor(run, hist):
    """a member is replaced only by a trial of strictly lower energy (and then by exactly that trial)"""
    out = []
    npop = run["spec"]["npop"]
    nrep = nrej = nties = 0
    for g, G in enumerate(run["gens"]):
        b, a, ev = G["before"], G["after"], G["evals"]
        if len(ev) != npop:
            out.append(("DE/evaluations-per-generation", "generation %d made %d cost calls for %d members" % (g, len(ev), npop)))
            break
        if g >= 1:
            for i in range(npop):
                if not same_vec(ev[i][0], G["trials"][i]):
                    out.append(("DE/trial-not-evaluated", "generation %d member %d: the cost was called at %r, the strategy produced %r" % (g, i, ev[i][0], G["trials"][i])))
        for i in range(npop):
            te = ev[i][1]; tx = ev[i][0]
            changed = (not same_vec(b["pop"][i], a["pop"][i])) or (not same_float(b["popE"][i], a["popE"][i]))
            if changed:
                if not (te < b["popE"][i]):
                    out.append(("DE/replaced-without-strict-improvement", "generation %d member %d replaced: trial energy %r, member energy %r" % (g, i, te, b["popE"][i])))
                elif not (same_vec(a["pop"][i], tx) and same_float(a["popE"][i], te)):
                    out.append(("DE/replaced-by-other-than-trial", "generation %d member %d became %r / %r, trial was %r / %r" % (g, i, a["pop"][i], a["popE"][i], tx, te)))
                nrep += 1
            else:
                nrej += 1
                if te == b["popE"][i] and not same_vec(tx, b["pop"][i]):
                    nties += 1
        if not all(a["bestE"] <= v for v in a["popE"]):
            out.append(("DE/best-above-member", "generation %d: bestEnergy %r above a member energy %r" % (g, a["bestE"], a["popE"])))
    hadd(hist, "DE:replaced", nrep); hadd(hist, "DE:rejected", nrej); hadd(hist, "DE:tie-rejected", nties)
    return out, (nrep > npop and nrej > 0)


def derun_model_request(run):
    sp = run["spec"]
    groups = [G["trials"] for G in run["gens"][1:]]
    return "C08 de (cost (scalar %s)) (pen none) (cons none) (box none) (pop %s) (trials (%s)) (two %s)" % (
        sp["cost"], fll(sp["pop0"]), " ".join(fll(g) for g in groups), "true" if sp["two"] else "false")


def derun_model_compare(run, reply):
    r = parse_reply(reply)
    tag = "DE2" if run["spec"]["two"] else "DE"
    if r[0] != "ok":
        return [("%s/model-%s" % (tag, r[0]), "model replied %r" % (reply[:200],))]
    steps = r[1]["steps"]
    if len(steps) != len(run["gens"]):
        return [("%s/model-step-count" % tag, "model %d generations, implementation %d" % (len(steps), len(run["gens"])))]
    for g, (st, G) in enumerate(zip(steps, run["gens"])):
        d = {st[i]: st[i + 1] for i in range(0, len(st) - 1, 2)}
        a = G["after"]
        mp = [[b2f(t) for t in row] for row in d["pop"]]
        diffs = []
        if len(mp) != len(a["pop"]) or not all(same_vec(p, q) for p, q in zip(mp, a["pop"])):
            diffs.append("population")
        if not same_vec([b2f(t) for t in d["popE"]], a["popE"]):
            diffs.append("popEnergy model=%r impl=%r" % ([b2f(t) for t in d["popE"]], a["popE"]))
        if not same_vec([b2f(t) for t in d["best"]], a["best"]):
            diffs.append("bestSolution")
        if not same_float(b2f(d["bestE"]), a["bestE"]):
            diffs.append("bestEnergy model=%r impl=%r" % (b2f(d["bestE"]), a["bestE"]))
        if diffs:
            return [("%s/selection-diverges" % tag, "generation %d: %s" % (g, "; ".join(diffs)))]
    return []


# ====================================================================================== shard
def gen_case(stream, seed, shard, k, tier, hist):
    rng = case_rng(PID + "/" + stream, seed, shard, k)
    if stream == "strat":
        return strat_case(rng, tier, hist)
    if stream == "derun":
        return derun_case(rng, tier, hist)
    raise ValueError(stream)


def run_shard(pid, seed, shard, ncases, tier, extra):
    common.import_mystic()
    findings = []; hist = {}; samples = []
    lines = []; handlers = []
    evals = 0; nontrivial = 0
    only = (extra or {}).get("only")       # replay: (stream, k)

    def ident(stream, k):
        return {"stream": stream, "seed": seed, "shard": shard, "k": k, "tier": tier}

    # ---------------- isolated strategy calls
    n_strat = ncases * 6
    for k in range(n_strat):
        if only and only != ("strat", k):
            continue
        try:
            o = gen_case("strat", seed, shard, k, tier, hist)
        except Exception as exc:
            findings.append(Finding("monitor", "strategy/raises/%s" % type(exc).__name__, "strategy call raised %r" % (exc,), ident("strat", k)))
            continue
        evals += 1
        case = dict(ident("strat", k)); case["call"] = o
        hadd(hist, "strat:%s:%s" % (o["name"], "DE2" if o["map"] else "DE1"))
        for key, what in strat_monitor(o, hist):
            findings.append(Finding("monitor", key, what, case))
        if o["positions"] is not None and o["n0"] is not None:
            lines.append(strat_request(o))
            handlers.append(("strat", o, case))
        if o["us"] and len(o["us"]) > 1:
            nontrivial += 1
        if len(samples) < 1 and len(o["us"]) > 2:
            samples.append(case)
    # ---------------- real DE runs
    for k in range(ncases):
        if only and only != ("derun", k):
            continue
        try:
            run = gen_case("derun", seed, shard, k, tier, hist)
        except Exception as exc:
            findings.append(Finding("monitor", "DE/raises/%s" % type(exc).__name__, "DE run raised %r" % (exc,), ident("derun", k)))
            continue
        evals += 1
        case = dict(ident("derun", k)); case["spec"] = run["spec"]
        hadd(hist, "derun:%s:%s" % (run["spec"]["name"], "DE2" if run["spec"]["two"] else "DE1"))
        res, nt = derun_monitor(run, hist)
        for key, what in res:
            findings.append(Finding("monitor", key, what, case))
        if nt:
            nontrivial += 1
        for o in run["calls"]:
            c2 = dict(case); c2["call"] = o
            for key, what in strat_monitor(o, hist):
                findings.append(Finding("monitor", key, what, c2))
            if o["positions"] is not None and o["n0"] is not None:
                lines.append(strat_request(o)); handlers.append(("strat", o, c2))
            hadd(hist, "derun-strategy-calls")
        lines.append(derun_model_request(run)); handlers.append(("derun", run, case))
        if len(samples) < 2:
            samples.append({"spec": run["spec"], "final": run["gens"][-1]["after"], "first_call": run["calls"][0] if run["calls"] else None})
    replies = leandrv.run_driver(lines) if lines else []
    for (kind, obj, case), line, rep in zip(handlers, lines, replies):
        if kind == "strat":
            res = strat_compare(obj, rep)
        else:
            res = derun_model_compare(obj, rep)
            hadd(hist, "model:de")
        for key, what in res:
            c2 = dict(case); c2["request"] = line[:6000]; c2["model_reply"] = rep[:6000]
            findings.append(Finding("correspondence", key, what, c2))
    return {"evaluations": evals, "nontrivial": nontrivial, "model_lines": len(lines), "findings": findings,
            "samples": samples, "hist": hist}


def main(tier, seed):
    t0 = time.time()
    proof = framework.proof_stage(PID, MODULE, THEOREMS, tier)
    nshards, per = (16, 8) if tier == "quick" else (64, 40)
    run = framework.run_shards("c08", "run_shard", PID, seed, nshards, per, tier)

    def search_more():
        r = framework.run_shards("c08", "run_shard", PID, seed + 15485863, 32, 20, tier)
        return r["findings"]
    rule = ("cases per shard unit: 6 isolated strategy calls + 1 real DE run (+ its strategy calls). non-trivial = a strategy call that "
            "consumed at least 2 crossover draws / a DE run with more replacements than members and at least one rejection")
    tb = ["Lean 4.33 kernel; axioms per theorem under coverage.theorems"]
    assumptions = ["IEEE binary64 + - * / and comparisons agree between Lean Float and numpy/CPython"]
    return framework.finish(PID, tier, seed, t0, proof, run, rule, tb, assumptions, search_more=search_more)


def replay(path):
    d = json.load(open(path))
    case = d.get("case") or {}
    if "stream" not in case:
        cs = d.get("correspondence_not_checking") or []
        case = cs[0]["case"] if cs else {}
    if "stream" not in case:
        print("replay file holds no generated case (proof-stage failure?):", d.get("theorems_not_checking"))
        return 2
    common.import_mystic()
    leandrv.ensure_driver()
    res = run_shard(PID, case["seed"], case["shard"], 10 ** 6 if False else max(case["k"] + 1, 1), case.get("tier", "quick"),
                    {"only": (case["stream"], case["k"])})
    known = {e["class_key"] for e in framework.load_known(PID)}
    bad = [f for f in res["findings"] if f["class_key"] not in known]
    for f in res["findings"]:
        print("%s %s: %s" % ("KNOWN-FINDING" if f["class_key"] in known else f["kind"].upper(), f["class_key"], f["what"][:400]))
    if bad:
        print("VIOLATION property=%s replay=%s" % (PID, path))
        return 1
    print("replayed case holds")
    return 0
