"""C08 - the optimizers implement their published algorithms.

Streams (every case derives from common.case_rng(PID + "/<stream>", seed, shard, k)):
  strat   - isolated calls of the ten mystic.strategy functions on real solver objects (DE1 list layout and DE2
            per-candidate layout), random.sample/randrange/random replaced by recording generators that also
            produce the boundary draws (u == CR, one ulp either side, 0.0, n = 0, n = nDim-1, pool == sample);
            the draws go to the Lean model (Model/Strategy.lean): trial storage compared bit-exactly.
  derun   - real DifferentialEvolutionSolver / DifferentialEvolutionSolver2 runs (Step loop); every strategy
            call inside the run is recorded and replayed as above; the selection is replayed by the Lean solver
            model S (DE.step1 / DE.step2) from the recorded trials; monitor: a member changes only when its trial
            is strictly lower, and then becomes exactly that trial with that energy.
  nm      - real fmin AND the solver class (SetInitialPoints / SetEvaluationLimits / Solve(termination=CRT)) vs the in-repo
            reference _scipy060optimize.fmin, evaluation for evaluation; for starts with an exactly-zero coordinate vs the
            reference's own code object with its constant zdelt replaced by mystic's; all vs the Lean transcriptions
            (Model/RefFmin.lean: refFmin and the staged mystic machine with its Step/Terminated loop; Model/NMInit.lean:
            the initial-simplex rule and the convergence test as each program computes them).  Start points over the whole
            float range (signed zeros, round-off zeros, 1e-8 +- 1 ulp, denormals, > 2**53, > 1e154, max/1.05), tolerances
            and limits exactly on / one ulp (one count) either side of the values a run passes: harness/c08_nm.py.
            The solver's own keywords: adaptive (Gao-Han coefficients; Model/NMInit.lean `mysticCoef`) and radius, via Solve(...) or
            attributes, against the reference's source with exactly those three assignments parametrised, and against the
            installed scipy's Nelder-Mead; one-dimensional problems and objectives that force shrink steps.
  powell  - real fmin_powell / PowellDirectionalSolver.Solve vs the reference fmin_powell (same Brent, same arguments); the
            direction-set bookkeeping replayed by the Lean model (Model/Powell.lean) with the recorded line searches as oracle.
            Direction sets of every element type and container (gen_direc / direc_arg), xtol and imax over their ranges.
Monitors evaluate the property's own statement on what the real code returned, independently of the model."""
import sys, os, time, math, json, random as _random
import numpy as np
import common
from common import case_rng, fl, fll, f2b, b2f, same_vec, same_float, parse_reply, dyadic, gfloat
import dsl, framework, leandrv, solvergen
import c08_brent as B
import c08_nm as NMX
from framework import Finding

PID = "C08"
MODULE = "MysticVerif.Props.C08"
THEOREMS = [
    "MysticVerif.C08.candidates_distinct",
    "MysticVerif.C08.trial_component",
    "MysticVerif.C08.crossover_exponential",
    "MysticVerif.C08.crossover_binomial",
    "MysticVerif.C08.coded_crossover",
    "MysticVerif.C08.call_frame",
    "MysticVerif.C08.named_bin_runs_exponential_witness",
    "MysticVerif.C08.replaced_only_if_strictly_lower",
    "MysticVerif.C08.generation_replaced_only_if_strictly_lower",
    "MysticVerif.C08.nm_update_eq_ref_iter",
    "MysticVerif.C08.nm_init_eq_ref_init",
    "MysticVerif.C08.nm_start_iff",
    "MysticVerif.C08.nm_refines_ref",
    "MysticVerif.C08.nm_stops_before_simplex",
    "MysticVerif.C08.ref_fval_is_head",
    "MysticVerif.C08.nm_initial_simplex_rule",
    "MysticVerif.C08.nm_zdelt_only_for_exact_zero",
    "MysticVerif.C08.nm_initial_simplex_rule_field",
    "MysticVerif.C08.nm_refines_ref_concrete_init",
    "MysticVerif.C08.nm_convergence_test_iff",
    "MysticVerif.C08.nm_coefficients_are_published",
    "MysticVerif.C08.nm_adaptive_one_dimension",
    "MysticVerif.C08.nm_adaptive_two_dimensions_is_standard",
    "MysticVerif.C08.powell_refines_ref",
    "MysticVerif.C08.powell_first_iteration_gap",
    "MysticVerif.C08.powell_bigind_valid",
    "MysticVerif.C08.powell_delta_bigind_spec",
    "MysticVerif.C08.powell_direction_replacement",
    "MysticVerif.C08.brent_evaluations_logged",
    "MysticVerif.C08.bracket_terminates",
    "MysticVerif.C08.bracket_downhill",
    "MysticVerif.C08.brent_returns_last_lowest",
    "MysticVerif.C08.linesearch_never_worse_than_start",
    "MysticVerif.C08.lsOut_never_worse_than_start",
    "MysticVerif.C08.lsRec_partition",
    "MysticVerif.C08.powell_with_brent_refines_ref",
    "MysticVerif.C08.brent_can_return_above_an_evaluated_point",
    "MysticVerif.C08.bracket_too_many_witness",
    "MysticVerif.C08.linesearch_mono_fails_with_nan",
]

STRATS = ["Best1Exp", "Best1Bin", "Rand1Exp", "Rand1Bin", "RandToBest1Exp", "RandToBest1Bin",
          "Best2Exp", "Best2Bin", "Rand2Exp", "Rand2Bin"]
NCAND = {"Best1": 2, "Rand1": 3, "RandToBest1": 2, "Best2": 4, "Rand2": 5}
CODED_BIN = {"Best1Bin"}          # what the code does (strategy.py): every other strategy runs the exponential loop


def kind_of(name):
    return name[:-3]


def vec(x):
    return [float(v) for v in np.asarray(x, dtype=float).ravel()]


def hadd(h, k, n=1):
    h[k] = h.get(k, 0) + n


# ====================================================================================== strategies
class DrawPatch:
    """for the duration of ONE strategy call: random.sample / random.randrange / random.random (looked up through
    the module `random` at call time by mystic.strategy) are replaced by generators driven by the case stream that
    record what they returned.  `sample` records the POSITIONS it picked in the population it was handed."""

    def __init__(self, rng, cr, boundary=True, script=None, cand=None):
        self.rng = rng; self.cr = float(cr); self.boundary = boundary; self.cand = cand
        self.script = script          # fixed draws {"positions": [..], "n0": k, "us": [..]} (witnesses / replays)
        self.positions = None; self.pool = None; self.n0 = None; self.nrange = None; self.us = []
        self.extra = []

    def __enter__(self):
        self._s, self._rr, self._r = _random.sample, _random.randrange, _random.random
        me = self

        def sample(population, k, **kw):
            population = list(population)
            if me.script is not None:
                pos = list(me.script["positions"])[:k]
            else:
                pos = me.rng.sample(range(len(population)), k)       # raises ValueError like the real one
                # boundary draws: the pool positions next to the excluded candidate (a pool that wrongly still holds
                # the parent holds it exactly there); for the pool as specified these are ordinary members
                if me.boundary and me.cand is not None and k <= len(population) and me.rng.random() < 0.5:
                    for q in (me.cand, me.cand - 1):
                        if 0 <= q < len(population) and q not in pos:
                            pos[me.rng.randrange(k)] = q
                            break
            if me.positions is None:
                me.positions = pos; me.pool = population
            else:
                me.extra.append(("sample", pos))
            return [population[p] for p in pos]

        def randrange(a, *rest):
            if me.script is not None:
                v = me.script["n0"]
            elif rest:
                v = me.rng.randrange(a, *rest)
            else:
                k = me.rng.random()
                v = 0 if k < 0.15 else (a - 1 if k < 0.30 else me.rng.randrange(a))
            if me.n0 is None:
                me.n0 = v; me.nrange = a
            else:
                me.extra.append(("randrange", v))
            return v

        def rand():
            if me.script is not None:
                v = me.script["us"][len(me.us)] if len(me.us) < len(me.script["us"]) else 0.999
                me.us.append(v)
                return v
            k = me.rng.random()
            cr = me.cr
            v = me.rng.random()
            if me.boundary and k < 0.18:
                c = [0.0]
                if 0.0 <= cr < 1.0:
                    c.append(cr)                                   # u == CR : `>=` breaks, `<` does not mutate
                if 0.0 < cr <= 1.0:
                    c.append(math.nextafter(cr, 0.0))              # one ulp below
                if 0.0 <= cr < 1.0 and math.nextafter(cr, 2.0) < 1.0:
                    c.append(math.nextafter(cr, 2.0))              # one ulp above
                v = me.rng.choice(c)
            me.us.append(v)
            return v
        _random.sample, _random.randrange, _random.random = sample, randrange, rand
        return self

    def __exit__(self, *a):
        _random.sample, _random.randrange, _random.random = self._s, self._rr, self._r


def trial_rows(inst):
    """the trial storage as a list of rows: DE1 [trialSolution], DE2 trialSolution"""
    ts = inst.trialSolution
    if inst._map_solver:
        return [vec(r) for r in ts]
    return [vec(ts)]


def record_call(fn, name, inst, cand, rng, boundary=True, script=None):
    """run the REAL strategy `fn(inst, cand)` under DrawPatch; returns the observation dict"""
    obs = {"name": name, "map": bool(inst._map_solver), "cand": int(cand), "np": int(inst.nPop), "nd": int(inst.nDim),
           "F": float(inst.scale), "CR": float(inst.probability),
           "pop": [vec(p) for p in inst.population], "best": vec(inst.bestSolution),
           "trial_before": trial_rows(inst)}
    with DrawPatch(rng, inst.probability, boundary, script, cand=int(cand)) as dp:
        fn(inst, cand)
    obs["trial_after"] = trial_rows(inst)
    obs["positions"] = dp.positions; obs["pool"] = dp.pool; obs["n0"] = dp.n0; obs["us"] = list(dp.us)
    obs["extra_draws"] = dp.extra
    return obs


def strat_request(o):
    return ("C08 strat (name %s) (map %s) (cand %d) (np %d) (nd %d) (F %s) (CR %s) (pop %s) (best %s) (trial %s) (ps %s) (n %d) (us %s)"
            % (o["name"], "true" if o["map"] else "false", o["cand"], o["np"], o["nd"], f2b(o["F"]), f2b(o["CR"]),
               fll(o["pop"]), fl(o["best"]), fll(o["trial_before"]), common.nl(o["positions"]), o["n0"], fl(o["us"])))


def strat_compare(o, reply):
    """correspondence: trial storage after the call, model vs implementation (bit-exact, every row)"""
    r = parse_reply(reply)
    if r[0] != "ok":
        return [("strategy/%s/model-%s" % (o["name"], r[0]), "model replied %r" % (reply[:200],))]
    mt = [[b2f(t) for t in row] for row in r[1]["trial"]]
    it = o["trial_after"]
    if len(mt) != len(it) or not all(same_vec(a, b) for a, b in zip(mt, it)):
        row = o["cand"] if o["map"] else 0
        return [("strategy/%s/trial-diverges/%s" % (o["name"], "DE2" if o["map"] else "DE1"),
                 "trial storage after %s(candidate %d): model row %r, implementation row %r (rows differing: %r)"
                 % (o["name"], o["cand"], mt[row] if row < len(mt) else None, it[row] if row < len(it) else None,
                    [i for i in range(max(len(mt), len(it))) if i >= len(mt) or i >= len(it) or not same_vec(mt[i], it[i])]))]
    return []


def py_mutant(kind, o, rs, tn, n):
    """the right-hand side the strategy's docstring formula gives for component n (python floats, code's association)"""
    P = o["pop"]; b = o["best"]; F = o["F"]
    if kind == "Best1":
        return b[n] + F * (P[rs[0]][n] - P[rs[1]][n])
    if kind == "Rand1":
        return P[rs[0]][n] + F * (P[rs[1]][n] - P[rs[2]][n])
    if kind == "RandToBest1":
        return tn + (F * (b[n] - tn) + F * (P[rs[0]][n] - P[rs[1]][n]))
    if kind == "Best2":
        return b[n] + F * (P[rs[0]][n] + P[rs[1]][n] - P[rs[2]][n] - P[rs[3]][n])
    if kind == "Rand2":
        return P[rs[0]][n] + F * (P[rs[1]][n] + P[rs[2]][n] - P[rs[3]][n] - P[rs[4]][n])
    raise ValueError(kind)


def strat_monitor(o, hist):
    """the property's statement on ONE real strategy call (no Lean involved):
       chosen members distinct, != candidate, < NP; every component is the parent's or base + F*difference;
       the mutated positions follow the crossover rule; nothing else in the trial storage changes."""
    out = []
    name = o["name"]; kind = kind_of(name); D = o["nd"]; cand = o["cand"]; cr = o["CR"]
    if o["positions"] is None or o["n0"] is None:
        return [("strategy/%s/draw-protocol" % name, "the strategy did not call random.sample / random.randrange (draws: %r)" % (o,))]
    rs = [o["pool"][p] for p in o["positions"]]
    if len(rs) != NCAND[kind] or len(set(rs)) != len(rs) or any((r == cand) or not (0 <= r < o["np"]) for r in rs):
        out.append(("strategy/%s/candidates" % name, "candidate %d of %d: chosen members %r are not %d distinct others" % (cand, o["np"], rs, NCAND[kind])))
        return out
    row = cand if o["map"] else 0
    before = o["trial_before"]; after = o["trial_after"]
    for i in range(len(before)):
        if i != row and not same_vec(before[i], after[i]):
            out.append(("strategy/%s/foreign-row-written" % name, "%s(candidate %d) changed trial row %d" % (name, cand, i)))
    parent = o["pop"][cand]; t = after[row]
    if len(t) != D:
        out.append(("strategy/%s/trial-length" % name, "trial has %d components, nDim %d" % (len(t), D)))
        return out
    mut = [py_mutant(kind, o, rs, parent[j], j) for j in range(D)]
    for j in range(D):
        if not (same_float(t[j], parent[j]) or same_float(t[j], mut[j])):
            out.append(("strategy/%s/component" % name, "component %d of the trial is %r: neither the parent's %r nor base+F*diff %r (candidates %r)"
                        % (j, t[j], parent[j], mut[j], rs)))
            return out
    us = o["us"]; n0 = o["n0"]
    # exponential rule: L = min(D, number of leading draws < CR); positions n0 .. n0+L-1 (cyclic)
    L = 0
    for u in us:
        if u >= cr or L == D:
            break
        L += 1
    exp_set = {(n0 + k) % D for k in range(L)}
    exp_trial = [mut[j] if j in exp_set else parent[j] for j in range(D)]
    # binomial rule: position j mutated iff j == n0 or u_j < CR (one draw per position)
    bin_known = [(j == n0) or (us[j] < cr) if j < len(us) else None for j in range(D)]
    if n0 < D and bin_known[n0] is None:
        bin_known[n0] = True

    def contradicts_binomial():
        for j in range(D):
            if bin_known[j] is None or same_float(mut[j], parent[j]):
                continue
            if bin_known[j] != same_float(t[j], mut[j]):
                return j
        return None
    if name in CODED_BIN:
        if len(us) != D or any(k is None for k in bin_known) or not same_vec(t, [mut[j] if bin_known[j] else parent[j] for j in range(D)]):
            out.append(("strategy/%s/crossover-rule" % name, "binomial rule violated: n=%d CR=%r draws=%r parent=%r mutant=%r trial=%r" % (n0, cr, us, parent, mut, t)))
        hadd(hist, "cross:bin:mutated=%s" % ("all" if all(bin_known) else ("only-n" if sum(1 for k in bin_known if k) == 1 else "some")))
    else:
        if not same_vec(t, exp_trial):
            out.append(("strategy/%s/crossover-rule" % name, "exponential rule violated: n=%d CR=%r draws=%r L=%d parent=%r mutant=%r trial=%r" % (n0, cr, us, L, parent, mut, t)))
        hadd(hist, "cross:exp:L=%s%s" % ("0" if L == 0 else ("D" if L == D else "mid"), ":wrap" if (L and n0 + L > D) else ""))
        if name.endswith("Bin"):
            j = contradicts_binomial()
            if j is not None:
                out.append(("strategy/%s/named-bin-runs-exponential-crossover" % name,
                            "%s (binomial by name): n=%d CR=%r draws=%r: component %d is %s although the binomial rule (j == n or u_j < CR) says %s; trial=%r parent=%r mutant=%r"
                            % (name, n0, cr, us, j, "mutated" if same_float(t[j], mut[j]) else "the parent's", "mutated" if bin_known[j] else "keep the parent's", t, parent, mut)))
    if us and any(u == cr for u in us[:L + 1]):
        hadd(hist, "draw==CR")
    return out


def make_inst(rng, two, name, tier):
    """a real solver object in an arbitrary (not necessarily reachable) state"""
    from mystic.solvers import DifferentialEvolutionSolver, DifferentialEvolutionSolver2
    kind = kind_of(name)
    dim = rng.choice([1, 1, 2, 2, 3, 3, 4, 5, 6, 8] if tier == "quick" else [1, 2, 3, 4, 5, 6, 8, 10, 12])
    npop = NCAND[kind] + 1 + rng.choice([0, 0, 1, 2, 3, 6])
    if rng.random() < 0.06:
        # populations beyond CPython's small-integer cache (indices >= 257 are distinct objects with equal values)
        npop = rng.choice([258, 300, 513, 1025]); dim = rng.choice([1, 2, 3])
    s = (DifferentialEvolutionSolver2 if two else DifferentialEvolutionSolver)(dim, npop)
    if rng.random() < 0.6:
        s.nPop = npop                      # also below the constructor's max(NP, dim, 4): strategies only read nPop
    npop = s.nPop
    flavour = rng.choice(["int", "dyadic", "float", "dups"])

    def num():
        if flavour == "int":
            return float(rng.randint(-3, 3))
        if flavour == "dyadic":
            return dyadic(rng, -4, 4, 8)
        return gfloat(rng, 10.0)
    pop = [[num() for _ in range(dim)] for _ in range(npop)]
    if flavour == "dups":
        for i in range(1, npop):
            if rng.random() < 0.4:
                pop[i] = list(pop[rng.randrange(i)])
    as_array = rng.random() < 0.5
    s.population = [np.array(p) if as_array else list(p) for p in pop]
    s.bestSolution = np.array(pop[rng.randrange(npop)]) if rng.random() < 0.6 else np.array([num() for _ in range(dim)])
    s.scale = rng.choice([0.8, 0.5, 1.0, 0.0, 2.0, rng.uniform(0, 2)])
    s.probability = rng.choice([0.9, 0.9, 0.7, 0.5, 0.5, 0.1, 1.0, 1.0, 0.0, rng.random()])
    junk = lambda: [num() for _ in range(dim)]
    if two:
        s.trialSolution = [junk() for _ in range(npop)]
    else:
        s.trialSolution = junk()
    return s


def strat_case(rng, tier, hist):
    import mystic.strategy as S
    name = rng.choice(STRATS)
    two = rng.random() < 0.5
    s = make_inst(rng, two, name, tier)
    cand = rng.choice([0, s.nPop - 1, rng.randrange(s.nPop)])
    if s.nPop > 257:
        cand = rng.choice([s.nPop - 1, 257, rng.randrange(257, s.nPop), rng.randrange(s.nPop)])
        hadd(hist, "strategy:NP>257")
    o = record_call(getattr(S, name), name, s, cand, rng)
    return o


# ====================================================================================== DE runs
def nan_region(i, thr):
    """0 where x_i <= thr, NaN where x_i > thr: E = max(0, x_i - thr) * 1e308 * 1e308 is 0 / +inf, E - E is 0 / NaN - an
    objective that is undefined on part of the search space (like sqrt or log of a negative value; the DSL has neither)"""
    E = ("*", ("*", ("max", ("c", 0.0), ("-", ("x", i), ("c", thr))), ("c", 1e308)), ("c", 1e308))
    return ("-", E, E)


def gen_de_cost(rng, dim):
    e = gen_de_cost0(rng, dim)
    if rng.random() < 0.15:
        e = ("+", e, nan_region(rng.randrange(dim), rng.choice([0.0, 0.5, -1.0, 1.5, dyadic(rng, -3, 3, 2)])))
    return e


def gen_de_cost0(rng, dim):
    k = rng.random()
    if k < 0.25:      # plateaus: many exact ties between different vectors
        cs = [dyadic(rng, -2, 2, 2) for _ in range(dim)]
        return ("sum",) + tuple(("sq", ("rint", ("-", ("x", i), ("c", cs[i])))) for i in range(dim))
    if k < 0.4:       # symmetric abs: ties between mirror images
        return ("sum",) + tuple(("abs", ("x", i)) for i in range(dim))
    return solvergen.gen_cost(rng, dim, allow_vector=False)[1]


def derun_case(rng, tier, hist):
    """returns dict(calls=[strategy observations], gens=[per-generation records], spec)"""
    from mystic.solvers import DifferentialEvolutionSolver, DifferentialEvolutionSolver2
    import mystic.strategy as S
    name = rng.choice(STRATS)
    two = rng.random() < 0.5
    dim = rng.randint(1, 4 if tier == "quick" else 7)
    npop = max(NCAND[kind_of(name)] + 1 + rng.choice([0, 1, 2, 4]), dim, 4)
    e = gen_de_cost(rng, dim)
    F = rng.choice([0.8, 0.5, 1.0, rng.uniform(0.1, 1.5)]); CR = rng.choice([0.9, 0.9, 0.7, 0.5, 0.5, 0.1, 1.0, 0.0, rng.random()])
    ngen = rng.randint(2, 6 if tier == "quick" else 25)
    s = (DifferentialEvolutionSolver2 if two else DifferentialEvolutionSolver)(dim, npop)
    flavour = rng.choice(["int", "dyadic", "float"])
    if flavour == "int":
        pop = [[float(rng.randint(-3, 3)) for _ in range(dim)] for _ in range(npop)]
    elif flavour == "dyadic":
        pop = [[dyadic(rng, -3, 3, 2) for _ in range(dim)] for _ in range(npop)]
    else:
        pop = [[rng.uniform(-4, 4) for _ in range(dim)] for _ in range(npop)]
    s.population = [list(p) for p in pop]
    s.strategy = name; s.scale = F; s.probability = CR
    from mystic.termination import VTR
    s.SetTermination(VTR(-1.0, 0.0))                # never
    s.SetEvaluationLimits(10 ** 6, 10 ** 7)
    cost_calls = []

    def cost(x):
        xv = vec(x); y = dsl.ev(e, xv); cost_calls.append((xv, y)); return y
    calls = []
    orig = getattr(S, name)

    def wrapped(inst, candidate):
        o = record_call(orig, name, inst, candidate, rng, boundary=True)
        o["gen"] = len(gens)
        calls.append(o)
    wrapped.__name__ = name
    gens = []
    setattr(S, name, wrapped)
    try:
        for g in range(ngen + 1):
            before = {"pop": [vec(p) for p in s.population], "popE": [float(v) for v in s.popEnergy], "ncalls": len(cost_calls),
                      "ncallrec": len(calls)}
            s.Step(cost)
            after = {"pop": [vec(p) for p in s.population], "popE": [float(v) for v in s.popEnergy],
                     "best": vec(s.bestSolution), "bestE": float(s.bestEnergy)}
            gens.append({"before": before, "after": after, "evals": cost_calls[before["ncalls"]:],
                         "trials": [c["trial_after"][c["cand"] if two else 0] for c in calls[before["ncallrec"]:]]})
    finally:
        setattr(S, name, orig)
    spec = {"name": name, "two": two, "dim": dim, "npop": npop, "F": F, "CR": CR, "cost": dsl.expr_sexp(e), "pop0": pop, "ngen": ngen}
    return {"calls": calls, "gens": gens, "spec": spec, "expr": e}


def derun_monitor(run, hist):
    """a member is replaced only by a trial of strictly lower energy (and then by exactly that trial)"""
    out = []
    npop = run["spec"]["npop"]
    nrep = nrej = nties = 0
    for g, G in enumerate(run["gens"]):
        b, a, ev = G["before"], G["after"], G["evals"]
        if len(ev) != npop:
            out.append(("DE/evaluations-per-generation", "generation %d made %d cost calls for %d members" % (g, len(ev), npop)))
            break
        if g >= 1:
            for i in range(npop):
                if not same_vec(ev[i][0], G["trials"][i]):
                    out.append(("DE/trial-not-evaluated", "generation %d member %d: the cost was called at %r, the strategy produced %r" % (g, i, ev[i][0], G["trials"][i])))
        for i in range(npop):
            te = ev[i][1]; tx = ev[i][0]
            changed = (not same_vec(b["pop"][i], a["pop"][i])) or (not same_float(b["popE"][i], a["popE"][i]))
            if changed:
                if not (te < b["popE"][i]):
                    out.append(("DE/replaced-without-strict-improvement", "generation %d member %d replaced: trial energy %r, member energy %r" % (g, i, te, b["popE"][i])))
                elif not (same_vec(a["pop"][i], tx) and same_float(a["popE"][i], te)):
                    out.append(("DE/replaced-by-other-than-trial", "generation %d member %d became %r / %r, trial was %r / %r" % (g, i, a["pop"][i], a["popE"][i], tx, te)))
                nrep += 1
            else:
                nrej += 1
                if te == b["popE"][i] and not same_vec(tx, b["pop"][i]):
                    nties += 1
                if te != te:
                    hadd(hist, "DE:nan-trial-rejected")      # IEEE: NaN is never strictly lower
        if not all(a["bestE"] <= v for v in a["popE"]):
            out.append(("DE/best-above-member", "generation %d: bestEnergy %r above a member energy %r" % (g, a["bestE"], a["popE"])))
    hadd(hist, "DE:replaced", nrep); hadd(hist, "DE:rejected", nrej); hadd(hist, "DE:tie-rejected", nties)
    return out, (nrep > npop and nrej > 0)


def derun_model_request(run):
    sp = run["spec"]
    groups = [G["trials"] for G in run["gens"][1:]]
    return "C08 de (cost (scalar %s)) (pen none) (cons none) (box none) (pop %s) (trials (%s)) (two %s)" % (
        sp["cost"], fll(sp["pop0"]), " ".join(fll(g) for g in groups), "true" if sp["two"] else "false")


def derun_model_compare(run, reply):
    r = parse_reply(reply)
    tag = "DE2" if run["spec"]["two"] else "DE"
    if r[0] != "ok":
        return [("%s/model-%s" % (tag, r[0]), "model replied %r" % (reply[:200],))]
    steps = r[1]["steps"]
    if len(steps) != len(run["gens"]):
        return [("%s/model-step-count" % tag, "model %d generations, implementation %d" % (len(steps), len(run["gens"])))]
    for g, (st, G) in enumerate(zip(steps, run["gens"])):
        d = {st[i]: st[i + 1] for i in range(0, len(st) - 1, 2)}
        a = G["after"]
        mp = [[b2f(t) for t in row] for row in d["pop"]]
        diffs = []
        if len(mp) != len(a["pop"]) or not all(same_vec(p, q) for p, q in zip(mp, a["pop"])):
            diffs.append("population")
        if not same_vec([b2f(t) for t in d["popE"]], a["popE"]):
            diffs.append("popEnergy model=%r impl=%r" % ([b2f(t) for t in d["popE"]], a["popE"]))
        if not same_vec([b2f(t) for t in d["best"]], a["best"]):
            diffs.append("bestSolution")
        if not same_float(b2f(d["bestE"]), a["bestE"]):
            diffs.append("bestEnergy model=%r impl=%r" % (b2f(d["bestE"]), a["bestE"]))
        if diffs:
            return [("%s/selection-diverges" % tag, "generation %d: %s" % (g, "; ".join(diffs)))]
    return []


# ====================================================================================== Nelder-Mead
ZDELT_REF = NMX.ZDELT_REF
RADIUS = NMX.RADIUS
ZDELT_MYSTIC = NMX.ZDELT_MYSTIC             # scipy_optimize.py l.137: one ulp above the reference's 0.00025
gen_nm_case = NMX.gen_nm_case              # start points / tolerances / limits over the whole float range: harness/c08_nm.py


def fmin_request(which, c, zdelt):
    N = c["dim"]
    mi = c["maxiter"] if c["maxiter"] is not None else N * 200
    mf = c["maxfun"] if c["maxfun"] is not None else N * 200
    rad = RADIUS if c.get("radius") is None else float(c["radius"])
    return "C08 fmin (which %s) (cost (scalar %s)) (x0 %s) (xtol %s) (ftol %s) (maxiter %d) (maxfun %d) (zdelt %s) (radius %s) (adaptive %s)" % (
        which, dsl.expr_sexp(c["expr"]), fl(c["x0"]), f2b(c["xtol"]), f2b(c["ftol"]), mi, mf, f2b(zdelt), f2b(rad),
        "true" if c.get("adaptive") else "false")


def feq(a, b):
    return (a == b) or (a != a and b != b)


def veq(a, b):
    return len(a) == len(b) and all(feq(p, q) for p, q in zip(a, b))


def close(a, b, rel=1e-6, ab=1e-9):
    return feq(a, b) or abs(a - b) <= ab + rel * max(abs(a), abs(b))


def fmin_compare(tag, real, reply, hist):
    """Lean transcription vs a real run (bit-exact on x; energies by value)"""
    r = parse_reply(reply)
    if r[0] != "ok":
        return [("fmin/%s/model-%s" % (tag, r[0]), "model replied %r" % (reply[:200],))]
    d = r[1]
    if d["tie"] == "true":
        hadd(hist, "nm:model:%s:tie-skipped" % tag)      # argsort's order among equal energies is unspecified
        return []
    hadd(hist, "nm:model:%s" % tag)
    mx = [b2f(t) for t in d["x"]]; mf = b2f(d["fval"]); mm = b2f(d["fmin"])
    got = (int(d["iter"]), int(d["fcalls"]), int(d["warn"])); want = (real["iter"], real["fcalls"], real["warn"])
    diffs = []
    if not same_vec(mx, real["x"]):
        diffs.append("xopt model=%r impl=%r" % (mx, real["x"]))
    if not (feq(mf, real["f"]) and feq(mm, real["f"])):
        diffs.append("fopt model=%r (min %r) impl=%r" % (mf, mm, real["f"]))
    if got != want:
        diffs.append("(iterations, funcalls, warnflag) model=%r impl=%r" % (got, want))
    if diffs:
        return [("fmin/%s/diverges" % tag, "; ".join(diffs))]
    return []


def nm_steps_case(rng, tier):
    """the real NelderMeadSimplexSolver stepped explicitly; replayed per step by the shared `nm` model command"""
    import trace, solvermodel
    c = gen_nm_case(rng, tier)
    while c["flavour"] not in ("ordinary", "tiny"):       # the per-step replay compares energies through the Lean sort: finite energies only
        c = gen_nm_case(rng, tier)
    n = rng.randint(3, 14 if tier == "quick" else 60)
    spec = {"solver": "NM", "dim": c["dim"], "x0": c["x0"], "cost": ("scalar", c["expr"]), "termination": ("never",),
            "limits": (10 ** 6, 10 ** 7), "ops": [("step",)] * n, "flavour": "steps"}
    rec, s, prob = trace.run_trace(spec, rng.randrange(2 ** 31))
    line, cmp = solvermodel.nm_request(spec, rec)
    return spec, line, cmp


# ====================================================================================== Powell
def gen_powell_case(rng, tier):
    dim = rng.randint(1, 4 if tier == "quick" else 6)
    k = rng.random()
    at_opt = False
    if k < 0.10:        # the guess is already the minimiser: the reference converges in its FIRST iteration (F15 class)
        cs = [dyadic(rng, -3, 3, 4) for _ in range(dim)]
        e = ("sum",) + tuple((rng.choice(["sq", "abs"]), ("-", ("x", i), ("c", cs[i]))) for i in range(dim))
        x0 = list(cs); at_opt = True
    elif k < 0.14:
        e = ("c", dyadic(rng, -2, 2, 2)); x0 = [gfloat(rng, 4.0) for _ in range(dim)]     # constant objective
    elif k < 0.24:      # plateaus: moves without gain, exact ties between decreases, t == 0
        cs = [dyadic(rng, -3, 3, 2) for _ in range(dim)]
        sc = rng.choice([1.0, 2.0, 4.0])
        e = ("sum",) + tuple(("sq", ("rint", ("*", ("c", sc), ("-", ("x", i), ("c", cs[i]))))) for i in range(dim))
        x0 = [dyadic(rng, -4, 4, 4) for _ in range(dim)]
        if dim >= 2 and rng.random() < 0.5:
            # integer-valued diagonal valley: equal decreases along different directions AND a useful extrapolation
            kk = rng.choice([1.0, 2.0, 3.0]); cc = dyadic(rng, -6, 6, 1); ss = rng.choice([1.0, 0.5, 2.0])
            e = ("sum", ("*", ("c", kk), ("sq", ("rint", ("*", ("c", ss), ("-", ("x", 0), ("x", 1)))))),
                 ("sq", ("rint", ("-", ("*", ("c", 0.5), ("+", ("x", 0), ("x", 1))), ("c", cc))))) + tuple(
                     ("sq", ("rint", ("-", ("x", i), ("c", cs[i])))) for i in range(2, dim))
            a0 = float(rng.randint(-5, 5))
            x0 = [a0, a0 + rng.choice([0.0, 0.0, 1.0, -1.0])] + [dyadic(rng, -4, 4, 4) for _ in range(2, dim)]
    elif k < 0.32:      # exchange-symmetric: equal decreases along different directions
        cval = dyadic(rng, -2, 2, 2); a0 = dyadic(rng, -4, 4, 4)
        kind = rng.choice(["sq", "abs"])
        e = ("sum",) + tuple((kind, ("-", ("x", i), ("c", cval))) for i in range(dim))
        if dim >= 2 and rng.random() < 0.5:
            e = e + (("*", ("c", 0.25), ("sq", ("-", ("x", 0), ("x", 1)))),)
        x0 = [a0 for _ in range(dim)]
    elif k < 0.56:
        # small-integer landscapes (every value a small integer): the exact-equality branches of the bookkeeping -
        # t == 0, tied largest decreases, fx == fx2 - occur in several percent of the sweeps
        if dim == 1:
            dim = 2
        fam = rng.choice(["absrint", "cross", "half", "max", "sq", "stairs", "stairs", "stairs", "stairs", "sumabs3", "sumabs3", "absvalley"])
        cs = [float(rng.randint(-3, 3)) for _ in range(dim)]
        term = lambda i, sc=1.0: ("rint", ("-", ("x", i), ("c", cs[i]))) if sc == 1.0 else ("rint", ("*", ("c", sc), ("-", ("x", i), ("c", cs[i]))))
        if fam == "absrint":
            e = ("sum",) + tuple(("abs", term(i)) for i in range(dim))
        elif fam == "cross":
            e = ("sum",) + tuple(("abs", term(i)) for i in range(dim)) + (("abs", ("rint", ("-", ("x", 0), ("x", 1)))),)
        elif fam == "half":
            e = ("sum",) + tuple(("abs", term(i, 0.5)) for i in range(dim))
        elif fam == "max":
            e = ("sum", ("max", ("abs", term(0)), ("abs", term(1)))) + tuple(("abs", term(i)) for i in range(2, dim))
        elif fam == "sq":
            e = ("sum",) + tuple(("sq", term(i)) for i in range(dim))
        a0 = float(rng.randint(-8, 8))
        rest = tuple(("abs", ("rint", ("x", i))) for i in range(2, dim))
        if fam == "stairs":        # progress by equal unit steps along both axes, sweep after sweep: tied decreases + useful extrapolation
            e = ("sum", ("*", ("c", 2.0), ("max", ("abs", ("rint", ("x", 0))), ("abs", ("rint", ("x", 1))))),
                 ("abs", ("rint", ("-", ("x", 0), ("x", 1))))) + rest
        elif fam == "absvalley":
            e = ("sum", ("*", ("c", rng.choice([1.0, 2.0, 3.0, 5.0])), ("abs", ("rint", ("-", ("x", 0), ("x", 1))))),
                 ("abs", ("rint", ("-", ("*", ("c", 0.5), ("+", ("x", 0), ("x", 1))), ("c", float(rng.randint(-8, 8))))))) + rest
        elif fam == "sumabs3":
            dim = 3
            e = ("sum", ("*", ("c", rng.choice([1.0, 2.0])), ("abs", ("rint", ("-", ("x", 0), ("x", 1))))),
                 ("*", ("c", rng.choice([1.0, 2.0])), ("abs", ("rint", ("-", ("x", 1), ("x", 2))))),
                 ("abs", ("rint", ("-", ("sum", ("x", 0), ("x", 1), ("x", 2)), ("c", float(rng.randint(-9, 9)))))))
        if fam in ("stairs", "absvalley"):
            x0 = [a0, a0 + rng.choice([0.0, 1.0, -1.0, 2.0])] + [float(rng.randint(-2, 2)) for _ in range(2, dim)]
        elif fam == "sumabs3":
            x0 = [a0, a0 + rng.choice([0.0, 1.0]), a0 + rng.choice([0.0, -1.0])]
        else:
            x0 = [cs[i] + float(rng.randint(-3, 3)) * (2.0 if fam == "half" else 1.0) for i in range(dim)]
    else:
        e = solvergen.gen_cost(rng, dim, allow_vector=False)[1]
        x0 = [rng.choice([0.0, 1.0, -2.5, rng.uniform(-4, 4), dyadic(rng, -4, 4, 4)]) for _ in range(dim)]
        if rng.random() < 0.2:
            # start coordinates outside the O(1) range: signed zeros, round-off "zeros", denormals, and magnitudes at which
            # a unit step is below one ulp (the line searches then move - or fail to move - by rounding alone)
            for i in range(dim):
                if rng.random() < 0.6:
                    x0[i] = rng.choice([-0.0, NMX.tiny_coord(rng), NMX.tiny_coord(rng), NMX.huge_coord(rng)])
            if rng.random() < 0.5:
                e = NMX.scaled_cost(rng, x0)
    xtol = rng.choice([1e-4, 1e-4, 1e-2, 1e-6]); ftol = rng.choice([1e-4, 1e-4, 1e-2, 1e-6, 1e-10])
    maxiter = rng.choice([None] * 10 + [0, 1, 2, 3, 5]); maxfun = rng.choice([None] * 10 + [0, 1, 5, 20, 60, 100])
    direc, dkind, dfam = gen_direc(rng, dim)
    # how the guess is handed over: list / tuple / float ndarray / python ints / integer ndarray (both programs coerce to float64 once)
    x0kind = rng.choice(["list"] * 5 + ["tuple", "ndarray", "int", "int", "int-ndarray"])
    if x0kind in ("int", "int-ndarray"):
        if all(abs(v) < 2 ** 53 and v == math.floor(v) for v in x0):
            x0 = [float(int(v)) for v in x0]          # what the callee sees: the int 0 for a -0.0
        else:
            x0kind = "list"
    # the line-search tolerance over its whole range: Brent's `tol` is xtol*100 (0 and denormal: stops on maxiter or on
    # rounding only; >= 1e-2: tol >= 1, the first parabolic step ends the search)
    if rng.random() < 0.12:
        xtol = rng.choice([0.0, 1e-300, 5e-324, 1e-12, 1e-9, 1e-3, 0.5, 1.0, 3.0, 2.0 ** -20, dyadic(rng, 0, 1, 10) or 0.25])
    # the user's cap on Brent's iterations, `solver.Solve(cost, imax=k)`: must bind at ALL three line-search call sites
    imax = rng.choice([None] * 5 + [0, 1, 2, 3, 4, 5, 6, 10, 40])
    # how the call is made: the one-liner, or the solver class with the keywords given to Solve / set as attributes
    route = rng.choice(["fmin_powell"] * 3 + ["solver-kwds", "solver-attributes"])
    return {"dim": dim, "expr": e, "x0": x0, "xtol": xtol, "ftol": ftol, "maxiter": maxiter, "maxfun": maxfun, "direc": direc,
            "direc_kind": dkind, "direc_family": dfam, "at_opt": at_opt, "imax": imax, "route": route, "x0kind": x0kind}


INT_KINDS = ["list-int", "list-int", "tuple-int", "ndarray-int64", "ndarray-int64", "ndarray-int32", "ndarray-int8", "ndarray-object-int",
             "list-of-int-arrays", "ndarray-int64-transposed-view", "list-mixed-int-float", "eye-int"]
FLOAT_KINDS = ["list-float", "list-float", "tuple-float", "ndarray-float64", "ndarray-float64-F-order", "ndarray-float32", "list-of-float-arrays",
               "ndarray-float16"]


def gen_direc(rng, dim):
    """the initial direction set over the keyword's whole space: (rows as python floats | None, how it is handed over, family).
    Families: identity written out, permutations, signed permutations, +-1 'diagonal' bases, small-integer matrices,
    scaled / skew float bases, generic float bases, a singular set (repeated or zero row).  Containers: nested lists /
    tuples of python ints or floats (or both), ndarrays of every integer width, bool, object, float16/32/64, C / Fortran order,
    transposed views, lists of row arrays.  The algorithm is defined on real directions: the container's element type
    must not matter (the reference coerces to float64 once, l.1834-1837)."""
    if rng.random() < 0.45:
        return None, "none", "default"
    I = [[1.0 if i == j else 0.0 for j in range(dim)] for i in range(dim)]
    perm = list(range(dim)); rng.shuffle(perm)
    fam = rng.choice(["identity", "permutation", "signed-permutation", "pm1", "small-int", "small-int", "scaled-skew", "float-generic", "singular"])
    if fam == "identity":
        rows = I
    elif fam == "permutation":
        rows = [I[p] for p in perm]
    elif fam == "signed-permutation":
        rows = [[v * rng.choice([1.0, -1.0, 2.0, -3.0]) for v in I[p]] for p in perm]
    elif fam == "pm1":
        rows = [[(1.0 if (j <= i or rng.random() < 0.5) else -1.0) if i != j else (1.0 if i == 0 else -1.0) for j in range(dim)] for i in range(dim)]
        if dim == 2:
            rows = rng.choice([[[1.0, 1.0], [1.0, -1.0]], [[1.0, 1.0], [-1.0, 1.0]], [[1.0, -1.0], [1.0, 1.0]]])
    elif fam == "small-int":
        rows = [[float(rng.randint(-2, 2)) + (2.0 if i == j else 0.0) for j in range(dim)] for i in range(dim)]
    elif fam == "scaled-skew":
        rows = [[(1.0 if i == j else 0.0) * rng.choice([1.0, 0.5, -2.0]) + (rng.choice([0.0, 0.0, 0.25, -0.5]) if i != j else 0.0)
                 for j in range(dim)] for i in range(dim)]
    elif fam == "float-generic":
        rows = [[rng.uniform(-2, 2) for j in range(dim)] for i in range(dim)]
    else:
        rows = [list(r) for r in I]
        rows[rng.randrange(dim)] = [0.0] * dim if rng.random() < 0.5 else list(rows[0])
    rows = [[v + 0.0 for v in r] for r in rows]                 # no negative zeros (an integer container cannot hold one)
    integral = all(v == math.floor(v) for r in rows for v in r)
    if integral:
        kind = rng.choice(INT_KINDS * 2 + FLOAT_KINDS)
        if kind == "eye-int" and fam != "identity":
            kind = "ndarray-int64"
        if all(v in (0.0, 1.0) for r in rows for v in r) and rng.random() < 0.15:
            kind = rng.choice(["ndarray-bool", "ndarray-uint8", "list-bool"])
    else:
        kind = rng.choice(FLOAT_KINDS)
        if kind in ("ndarray-float32", "ndarray-float16"):
            rows = [[float(getattr(np, kind[8:])(v)) for v in r] for r in rows]        # the values the caller's array holds
    return rows, kind, fam


def direc_arg(c):
    """a FRESH object of the kind the case names (both programs may write into what they are handed)"""
    rows = c["direc"]; kind = c.get("direc_kind", "list-float")
    if rows is None:
        return None
    ints = lambda: [[int(v) for v in r] for r in rows]
    if kind == "list-float":
        return [list(r) for r in rows]
    if kind == "tuple-float":
        return tuple(tuple(r) for r in rows)
    if kind == "list-int":
        return ints()
    if kind == "tuple-int":
        return tuple(tuple(r) for r in ints())
    if kind == "list-bool":
        return [[bool(v) for v in r] for r in rows]
    if kind == "list-mixed-int-float":
        return [[(int(v) if (i + j) % 2 == 0 else float(v)) for j, v in enumerate(r)] for i, r in enumerate(rows)]
    if kind == "eye-int":
        return np.eye(len(rows), dtype=int)
    if kind == "list-of-int-arrays":
        return [np.array(r, dtype=int) for r in ints()]
    if kind == "list-of-float-arrays":
        return [np.array(r, dtype=float) for r in rows]
    if kind == "ndarray-object-int":
        return np.array(ints(), dtype=object)
    if kind == "ndarray-int64-transposed-view":
        return np.array(ints(), dtype=np.int64).T.copy().T          # same values, Fortran-ordered memory
    if kind == "ndarray-float64-F-order":
        return np.asfortranarray(np.array(rows, dtype=float))
    if kind.startswith("ndarray-"):
        dt = kind[8:]
        return np.array(ints() if dt.startswith(("int", "uint", "bool")) else rows, dtype=getattr(np, dt if dt != "bool" else "bool_"))
    raise ValueError(kind)


def direc_class(c):
    k = c.get("direc_kind", "none")
    if c["direc"] is None:
        return "default"
    if "mixed" in k:
        return "mixed-int-float-entries"
    if "bool" in k:
        return "bool-entries"
    if "int" in k:
        return "integer-entries"
    return "float-entries"


def powell_x0_arg(c):
    if c.get("x0kind") == "int-ndarray":
        return np.array([int(v) for v in c["x0"]], dtype=np.int64)
    return NMX.x0_arg(c)


def run_powell(which, c):
    import mystic.scipy_optimize as SO
    from mystic import _scipy060optimize as REF
    mod = SO if which == "mystic" else REF
    calls = []; outside = []; ls_log = []; cbs = []; events = []
    state = {"in_ls": False}
    e = c["expr"]

    def cost(x):
        xv = vec(x); y = dsl.ev(e, xv); calls.append((xv, y))
        if not state["in_ls"]:
            outside.append((xv, y)); events.append(("ext", xv, y))
        return y
    orig = mod._linesearch_powell

    def ls(func, p, xi, tol=1e-3, maxiter=500):
        p0 = vec(p); xi0 = vec(xi); n0 = len(calls)
        state["in_ls"] = True
        try:
            fret, xn, xin = orig(func, p, xi, tol=tol, maxiter=maxiter) if which == "mystic" else orig(func, p, xi, tol=tol)
        finally:
            state["in_ls"] = False
        events.append(("ls", len(ls_log)))
        ls_log.append({"p": p0, "xi": xi0, "fret": float(fret), "x": vec(xn), "xin": vec(xin), "n": len(calls) - n0, "tol": float(tol)})
        return fret, xn, xin
    mod._linesearch_powell = ls
    imax = c.get("imax")
    orig_solve = SO.PowellDirectionalSolver.Solve; orig_brent = REF.brent
    if imax is not None:
        if which == "mystic":
            # exactly what a user does: solver.Solve(cost, ..., imax=k) (fmin_powell itself has no such argument)
            def Solve(self, cost=None, termination=None, ExtraArgs=None, **kwds):
                kwds["imax"] = imax
                return orig_solve(self, cost, termination, ExtraArgs, **kwds)
            SO.PowellDirectionalSolver.Solve = Solve
        else:
            # "given the same Brent line search": the reference gets the same capped Brent at every call site
            def capped(func, args=(), brack=None, tol=1.48e-8, full_output=0, maxiter=500):
                return orig_brent(func, args=args, brack=brack, tol=tol, full_output=full_output, maxiter=imax)
            REF.brent = capped
    try:
        kw = dict(xtol=c["xtol"], ftol=c["ftol"], maxiter=c["maxiter"], maxfun=c["maxfun"], full_output=1, disp=0,
                  callback=lambda x: cbs.append(vec(x)), direc=direc_arg(c))
        route = c.get("route", "fmin_powell")
        if which == "mystic" and route != "fmin_powell":
            # the solver class driven as fmin_powell drives it (l.905-931), keywords to Solve or set as (sticky) attributes
            from mystic.termination import NormalizedChangeOverGeneration as NCOG
            SO.PowellDirectionalSolver.Solve = orig_solve
            s = SO.PowellDirectionalSolver(len(c["x0"]))
            s.SetInitialPoints(powell_x0_arg(c))
            s.SetEvaluationLimits(c["maxiter"], c["maxfun"])
            skw = dict(callback=kw["callback"], disp=0, direc=kw["direc"])
            if route == "solver-kwds":
                skw["xtol"] = c["xtol"]
                if imax is not None:
                    skw["imax"] = imax
            else:
                s.xtol = c["xtol"]
                if imax is not None:
                    s.imax = imax
            s.Solve(cost, termination=NCOG(c["ftol"], 2), **skw)
            x, f, it, fc, direc = np.squeeze(s.bestSolution), s.bestEnergy, s.generations, s.evaluations, s._direc
            wf = 1 if fc >= s._maxfun else (2 if it >= s._maxiter else 0)
        elif which == "mystic":
            x, f, it, fc, wf, direc = SO.fmin_powell(cost, powell_x0_arg(c), **kw)
        else:
            x, f, direc, it, fc, wf = REF.fmin_powell(cost, powell_x0_arg(c), **kw)
    finally:
        mod._linesearch_powell = orig
        SO.PowellDirectionalSolver.Solve = orig_solve; REF.brent = orig_brent
    return {"x": vec(x), "f": float(f), "iter": int(it), "fcalls": int(fc), "warn": int(wf), "direc": [vec(r) for r in np.atleast_2d(direc)],
            "direc_dtype": str(np.asarray(direc).dtype), "ncalls": len(calls), "ls": ls_log, "cbs": cbs, "outside": outside, "events": events,
            "nan": any(y != y or abs(y) == math.inf for _, y in calls)}


def ls_key(r):
    return (tuple(f2b(v) for v in r["p"]), tuple(f2b(v) for v in r["xi"]))


def ls_same(r, q):
    return ls_key(r) == ls_key(q) and same_float(r["fret"], q["fret"]) and same_vec(r["x"], q["x"]) and same_vec(r["xin"], q["xin"]) and r["n"] == q["n"]


def powell_monitor(c, a, b, hist):
    """real fmin_powell (a) vs the reference (b), both with the same Brent: step for step"""
    out = []
    for nm, r in (("fmin_powell", a), ("reference", b)):
        if r["fcalls"] != r["ncalls"]:
            out.append(("fmin_powell/funcalls-miscounted/%s" % nm, "%s reports %d function calls, %d were made" % (nm, r["fcalls"], r["ncalls"])))
    if a["nan"] or b["nan"]:
        hadd(hist, "powell:nan-skipped"); return out, False
    started = (c["maxfun"] is None or c["maxfun"] > 1) and (c["maxiter"] is None or c["maxiter"] > 0)
    if not started:
        hadd(hist, "powell:limit-edge(maxfun<=1|maxiter=0)")
        if a["ls"]:
            out.append(("fmin_powell/limit-edge", "with maxiter=%r maxfun=%r fmin_powell still ran %d line searches" % (c["maxiter"], c["maxfun"], len(a["ls"]))))
        return out, False
    N = c["dim"]
    res_a = (a["iter"], a["fcalls"], a["warn"]); res_b = (b["iter"], b["fcalls"], b["warn"])
    same = (veq(a["x"], b["x"]) and feq(a["f"], b["f"]) and res_a == res_b and len(a["direc"]) == len(b["direc"])
            and all(veq(p, q) for p, q in zip(a["direc"], b["direc"])))
    nls = min(len(a["ls"]), len(b["ls"]))
    prefix_ok = all(ls_same(a["ls"][i], b["ls"][i]) for i in range(nls)) and len(b["ls"]) <= len(a["ls"])
    cb_ok = len(a["cbs"]) >= 1 + len(b["cbs"]) and all(veq(p, q) for p, q in zip(a["cbs"][1:], b["cbs"]))
    first_iter_conv = (b["iter"] == 1 and b["warn"] == 0)
    if first_iter_conv:
        hadd(hist, "powell:reference-converged-in-first-iteration")
    replaced = len(b["ls"]) - N * b["iter"]
    hadd(hist, "powell:direction-replacements", max(replaced, 0))
    hadd(hist, "powell:extrapolations", max(len(b["outside"]) - 1, 0))
    hadd(hist, "powell:stop:%s" % {0: "converged", 1: "maxfun", 2: "maxiter"}[b["warn"]])
    dcl = direc_class(c)
    sfx = "" if dcl == "default" else "/direction-set-given-with-%s" % dcl
    hadd(hist, "powell:direc:%s" % dcl); hadd(hist, "powell:direc-container:%s" % c.get("direc_kind", "none"))
    hadd(hist, "powell:direc-family:%s" % c.get("direc_family", "default")); hadd(hist, "powell:route:%s" % c.get("route", "fmin_powell"))
    if replaced > 0:
        hadd(hist, "powell:direc:%s:run-with-direction-replacement" % dcl)
    if not prefix_ok or not cb_ok:
        i = next((i for i in range(nls) if not ls_same(a["ls"][i], b["ls"][i])), nls)
        out.append(("fmin_powell/steps-diverge" + sfx, "direc=%r given as %s (returned with dtype %s), route %s: line search %d: fmin_powell %r ; reference %r (callbacks agree: %r)"
                    % (c["direc"], c.get("direc_kind"), a.get("direc_dtype"), c.get("route"), i, a["ls"][i] if i < len(a["ls"]) else None,
                       b["ls"][i] if i < len(b["ls"]) else None, cb_ok)))
    elif not same:
        if first_iter_conv:
            out.append(("fmin_powell/stops-later-than-reference/reference-converged-in-first-iteration",
                        "x0=%r ftol=%r: the reference stops after iteration 1 (fx=%r, fval=%r, %d calls); fmin_powell continues to iteration %d (%d calls), fval=%r"
                        % (c["x0"], c["ftol"], b["ls"] and b["outside"][0][1], b["f"], b["fcalls"], a["iter"], a["fcalls"], a["f"])))
        else:
            out.append(("fmin_powell/differs-from-reference" + sfx, "fmin_powell -> x=%r f=%r (iter, funcalls, warnflag)=%r direc=%r ; reference -> x=%r f=%r %r direc=%r"
                        % (a["x"], a["f"], res_a, a["direc"], b["x"], b["f"], res_b, b["direc"])))
    else:
        hadd(hist, "powell:identical")
    return out, (b["iter"] >= 2)


def powell_request(which, c, r):
    N = c["dim"]
    mi = c["maxiter"] if c["maxiter"] is not None else N * 1000
    mf = c["maxfun"] if c["maxfun"] is not None else N * 1000
    direc = c["direc"] if c["direc"] is not None else [[1.0 if i == j else 0.0 for j in range(N)] for i in range(N)]
    seen = set(); rows = []
    for q in r["ls"]:
        k = ls_key(q)
        if k in seen:
            continue
        seen.add(k)
        rows.append("(%s %s %s %s %s %d)" % (fl(q["p"]), fl(q["xi"]), f2b(q["fret"]), fl(q["x"]), fl(q["xin"]), q["n"]))
    fx = " ".join("(%s %s)" % (fl(x), f2b(y)) for x, y in r["outside"])
    return "C08 powell (which %s) (x0 %s) (direc %s) (ftol %s) (maxiter %d) (maxfun %d) (fuel %d) (ls (%s)) (fx (%s))" % (
        which, fl(c["x0"]), fll(direc), f2b(c["ftol"]), mi, mf, r["iter"] + 3, " ".join(rows), fx)


def powell_compare(tag, real, reply, hist):
    r = parse_reply(reply)
    if r[0] != "ok":
        return [("fmin_powell/%s/model-%s" % (tag, r[0]), "model replied %r" % (reply[:200],))]
    d = r[1]
    hadd(hist, "powell:model:%s" % tag)
    diffs = []
    mreq = [([b2f(t) for t in q[0]], [b2f(t) for t in q[1]]) for q in d["reqs"]]
    ireq = [(q["p"], q["xi"]) for q in real["ls"]]
    if len(mreq) != len(ireq) or not all(same_vec(p[0], q[0]) and same_vec(p[1], q[1]) for p, q in zip(mreq, ireq)):
        i = next((i for i in range(min(len(mreq), len(ireq))) if not (same_vec(mreq[i][0], ireq[i][0]) and same_vec(mreq[i][1], ireq[i][1]))), min(len(mreq), len(ireq)))
        diffs.append("line-search request %d: model %r impl %r (model made %d, impl %d)" % (i, mreq[i] if i < len(mreq) else None, ireq[i] if i < len(ireq) else None, len(mreq), len(ireq)))
    if not same_vec([b2f(t) for t in d["x"]], real["x"]):
        diffs.append("xopt model=%r impl=%r" % ([b2f(t) for t in d["x"]], real["x"]))
    if not feq(b2f(d["fval"]), real["f"]):
        diffs.append("fopt model=%r impl=%r" % (b2f(d["fval"]), real["f"]))
    got = (int(d["iter"]), int(d["fcalls"]), int(d["warn"])); want = (real["iter"], real["fcalls"], real["warn"])
    if got != want:
        diffs.append("(iterations, funcalls, warnflag) model=%r impl=%r" % (got, want))
    md = [[b2f(t) for t in row] for row in d["direc"]]
    if len(md) != len(real["direc"]) or not all(same_vec(p, q) for p, q in zip(md, real["direc"])):
        diffs.append("direction set model=%r impl=%r" % (md, real["direc"]))
    if diffs:
        return [("fmin_powell/%s/diverges" % tag, "; ".join(diffs)[:1500])]
    return []


def powell_rule_monitor(tag, c, r, hist):
    """Powell's bookkeeping checked DIRECTLY on one real run's timeline (cost calls outside line searches and the line
    searches, in order): every sweep searches the current direction set in order from the current point; the
    extrapolated point is 2*x - x1; a direction is replaced exactly when fx > fx2 and t < 0 (the code's expression), the
    extra search runs along x - x1 from x, and afterwards direc[bigind] = direc[-1], direc[-1] = the scaled direction,
    with bigind the FIRST direction of largest decrease.  Counts the exact-equality branches (t == 0, tied decreases)."""
    out = []
    ev = r["events"]; N = c["dim"]
    if not ev or ev[0][0] != "ext" or not r["ls"]:
        return out
    direc = [list(d) for d in (c["direc"] if c["direc"] is not None else [[1.0 if i == j else 0.0 for j in range(N)] for i in range(N)])]
    x = np.array(ev[0][1]); fval = ev[0][2]; x1 = x.copy()
    # segments between cost calls made outside line searches
    segs = []; cur = []
    for e in ev[1:]:
        if e[0] == "ext":
            segs.append((cur, e)); cur = []
        else:
            cur.append(r["ls"][e[1]])
    segs.append((cur, None))
    pending = None          # (fx, fx2, t, x, x1, bigind) of the extrapolation that precedes this segment
    nsweep = 0
    key = "fmin_powell" if tag == "mystic" else "reference-fmin_powell"
    for searches, ext in segs:
        if pending is not None:
            fx, fx2, t, xe, x1old, bigind = pending
            want = (fx > fx2) and (t < 0.0)
            if len(searches) not in (N, N + 1):
                out.append(("%s/sweep-length" % key, "%d line searches between two extrapolations (N=%d)" % (len(searches), N)))
                return out
            got = len(searches) == N + 1
            if got != want:
                out.append(("%s/extrapolation-test" % key, "fx=%r fx2=%r t=%r: direction %s replaced" % (fx, fx2, t, "WAS" if got else "was NOT")))
                return out
            if got:
                q = searches[0]; searches = searches[1:]
                d1 = vec(xe - x1old)
                if not (same_vec(q["p"], vec(xe)) and same_vec(q["xi"], d1)):
                    out.append(("%s/extrapolation-search" % key, "the extra search started at %r along %r, expected %r along x - x1 = %r" % (q["p"], q["xi"], vec(xe), d1)))
                    return out
                direc[bigind] = direc[-1]; direc[-1] = list(q["xin"])
                x = np.array(q["x"]); fval = q["fret"]
                hadd(hist, "powell:%s:replaced-direction:%s" % (tag, "last" if bigind == N - 1 else ("first" if bigind == 0 else "middle")))
        elif len(searches) != N:
            out.append(("%s/sweep-length" % key, "first sweep made %d line searches (N=%d)" % (len(searches), N)))
            return out
        fx = fval; delta = 0.0; bigind = 0; decs = []
        for j, q in enumerate(searches):
            if not (same_vec(q["p"], vec(x)) and same_vec(q["xi"], direc[j])):
                out.append(("%s/sweep-direction" % key, "search %d of a sweep: from %r along %r, expected from %r along direc[%d] = %r"
                            % (j, q["p"], q["xi"], vec(x), j, direc[j])))
                return out
            f2 = fval; fval = q["fret"]; x = np.array(q["x"])
            decs.append(f2 - fval)
            if (f2 - fval) > delta:
                delta = f2 - fval; bigind = j
        tied = delta > 0.0 and sum(1 for dd in decs if dd == delta) > 1
        nsweep += 1
        if tied:
            hadd(hist, "powell:%s:tied-largest-decrease" % tag)
        if ext is None:
            break
        x2 = 2 * x - x1
        if not same_vec(ext[1], vec(x2)):
            out.append(("%s/extrapolated-point" % key, "cost called at %r, 2*x - x1 = %r" % (ext[1], vec(x2))))
            return out
        fx2 = ext[2]
        t = None
        if fx > fx2:
            t = 2.0 * (fx + fx2 - 2.0 * fval); temp = (fx - fval - delta); t *= temp * temp; temp = fx - fx2; t -= delta * temp * temp
            hadd(hist, "powell:%s:t%s" % (tag, "<0" if t < 0.0 else ("==0" if t == 0.0 else ">0")))
        else:
            hadd(hist, "powell:%s:fx<=fx2%s" % (tag, "(equal)" if fx == fx2 else ""))
        pending = (fx, fx2, t if t is not None else 0.0, x, x1, bigind)
        if tied and t is not None and t < 0.0:
            # the replaced direction depends on WHICH of the tied directions is bigind (first, strict `>`)
            hadd(hist, "powell:%s:tied-largest-decrease-then-replacement:%s" % (tag, "first-sweep" if nsweep == 1 else "later-sweep"))
        x1 = x.copy()
    final = r["direc"]
    if len(final) != len(direc) or not all(same_vec(a, b) for a, b in zip(final, direc)):
        out.append(("%s/direction-set" % key, "returned direction set %r, bookkeeping gives %r" % (final, direc)))
    return out


def powellb_request(which, c, r):
    N = c["dim"]
    mi = c["maxiter"] if c["maxiter"] is not None else N * 1000
    mf = c["maxfun"] if c["maxfun"] is not None else N * 1000
    direc = c["direc"] if c["direc"] is not None else [[1.0 if i == j else 0.0 for j in range(N)] for i in range(N)]
    return "C08 powellb (which %s) (cost (scalar %s)) (x0 %s) (direc %s) (xtol %s) (ftol %s) (maxiter %d) (maxfun %d) (imax %d) (fuel %d)" % (
        which, dsl.expr_sexp(c["expr"]), fl(c["x0"]), fll(direc), f2b(c["xtol"]), f2b(c["ftol"]), mi, mf,
        c["imax"] if c.get("imax") is not None else 500, r["iter"] + 3)


def powellb_compare(tag, real, reply, hist):
    """the whole run reproduced from x0 alone (modelled Brent): everything powell_compare checks + every line search's
    returned value and number of cost calls"""
    res = powell_compare(tag, real, reply, hist)
    if res:
        return res
    d = parse_reply(reply)[1]
    mf = [b2f(t) for t in d["frets"]]; mn = [int(t) for t in d["ncalls"]]
    rf = [q["fret"] for q in real["ls"]]; rn = [q["n"] for q in real["ls"]]
    if not (len(mf) == len(rf) and all(feq(a, b) for a, b in zip(mf, rf)) and mn == rn):
        i = next((i for i in range(min(len(mf), len(rf))) if not (feq(mf[i], rf[i]) and mn[i] == rn[i])), min(len(mf), len(rf)))
        return [("fmin_powell/%s/line-search-diverges" % tag, "line search %d: model fret=%r calls=%r ; implementation fret=%r calls=%r"
                 % (i, mf[i] if i < len(mf) else None, mn[i] if i < len(mn) else None, rf[i] if i < len(rf) else None, rn[i] if i < len(rn) else None))]
    return []


# ====================================================================================== shard
def gen_case(stream, seed, shard, k, tier, hist):
    rng = case_rng(PID + "/" + stream, seed, shard, k)
    if stream == "strat":
        return strat_case(rng, tier, hist)
    if stream == "derun":
        return derun_case(rng, tier, hist)
    raise ValueError(stream)


def run_shard(pid, seed, shard, ncases, tier, extra):
    common.import_mystic()
    findings = []; hist = {}; samples = []
    lines = []; handlers = []
    evals = 0; nontrivial = 0
    only = (extra or {}).get("only")       # replay: (stream, k)

    def ident(stream, k):
        return {"stream": stream, "seed": seed, "shard": shard, "k": k, "tier": tier}

    # ---------------- isolated strategy calls
    n_strat = ncases * 6
    for k in range(n_strat):
        if only and only != ("strat", k):
            continue
        try:
            o = gen_case("strat", seed, shard, k, tier, hist)
        except Exception as exc:
            findings.append(Finding("monitor", "strategy/raises/%s" % type(exc).__name__, "strategy call raised %r" % (exc,), ident("strat", k)))
            continue
        evals += 1
        case = dict(ident("strat", k)); case["call"] = o
        hadd(hist, "strat:%s:%s" % (o["name"], "DE2" if o["map"] else "DE1"))
        for key, what in strat_monitor(o, hist):
            findings.append(Finding("monitor", key, what, case))
        if o["positions"] is not None and o["n0"] is not None:
            lines.append(strat_request(o))
            handlers.append(("strat", o, case))
        if o["us"] and len(o["us"]) > 1:
            nontrivial += 1
        if len(samples) < 1 and len(o["us"]) > 2:
            samples.append(case)
    # ---------------- real DE runs
    for k in range(ncases):
        if only and only != ("derun", k):
            continue
        try:
            run = gen_case("derun", seed, shard, k, tier, hist)
        except Exception as exc:
            findings.append(Finding("monitor", "DE/raises/%s" % type(exc).__name__, "DE run raised %r" % (exc,), ident("derun", k)))
            continue
        evals += 1
        case = dict(ident("derun", k)); case["spec"] = run["spec"]
        hadd(hist, "derun:%s:%s" % (run["spec"]["name"], "DE2" if run["spec"]["two"] else "DE1"))
        res, nt = derun_monitor(run, hist)
        for key, what in res:
            findings.append(Finding("monitor", key, what, case))
        if nt:
            nontrivial += 1
        for o in run["calls"]:
            c2 = dict(case); c2["call"] = o
            for key, what in strat_monitor(o, hist):
                findings.append(Finding("monitor", key, what, c2))
            if o["positions"] is not None and o["n0"] is not None:
                lines.append(strat_request(o)); handlers.append(("strat", o, c2))
            hadd(hist, "derun-strategy-calls")
        lines.append(derun_model_request(run)); handlers.append(("derun", run, case))
        if len(samples) < 2:
            samples.append({"spec": run["spec"], "final": run["gens"][-1]["after"], "first_call": run["calls"][0] if run["calls"] else None})
    # ---------------- Nelder-Mead: fmin / the solver class vs reference (vs reference with mystic's zdelt) vs Lean
    for k in range(ncases * 3):
        if only and only != ("nm", k):
            continue
        rng = case_rng(PID + "/nm", seed, shard, k)
        c = gen_nm_case(rng, tier)
        route = "solver" if rng.random() < 0.3 else "fmin"
        nonstd = NMX.nonstandard(c)
        if nonstd:
            route = "solver"            # `adaptive` and `radius` are keywords of the solver class only
        case = dict(ident("nm", k)); case.update({"x0": c["x0"], "x0_given_as": c["x0kind"], "cost": dsl.expr_sexp(c["expr"]), "xtol": c["xtol"], "ftol": c["ftol"],
                                                  "maxiter": c["maxiter"], "maxfun": c["maxfun"], "route": route, "flavour": c["flavour"],
                                                  "boundary": c["boundary"], "adaptive": c["adaptive"], "radius": c["radius"], "keywords_via": c["via"]})
        zero = any(v == 0.0 for v in c["x0"])
        if nonstd and NMX.ref_variant() is None:
            hadd(hist, "nm:skipped(reference source has no coefficient / constant line to parametrise)")
            continue
        try:
            a = NMX.run_nm(route, c); b = NMX.run_nm("ref", c)
            if nonstd:
                bz = (b if c["radius"] is not None else NMX.run_nm("refz", c)) if zero else None
            else:
                bz = NMX.run_nm("refz", c) if (zero and NMX.ref_with_zdelt(ZDELT_MYSTIC) is not None) else None
            bv = NMX.run_nm("refvar-defaults", c) if (not nonstd and k % 5 == 0 and NMX.ref_variant() is not None) else None
        except Exception as exc:
            findings.append(Finding("monitor", "fmin/raises/%s" % type(exc).__name__, "%s raised %r" % (route, exc), case))
            continue
        evals += 1
        case[route] = NMX.public(a); case["reference"] = NMX.public(b)
        res, nt = NMX.nm_monitor(c, route, a, b, bz, hist)
        res += NMX.scipy_nm_monitor(c, route, a, hist)
        if NMX.started(c):
            NMX.tie_census(c, b, hist)
        for key, what in res:
            findings.append(Finding("monitor", key, what, case))
        if bv is not None:
            # harness self-check: the parametrised copy of the reference's source, run with the reference's own values, IS the reference
            hadd(hist, "nm:reference-variant-self-check")
            if NMX.first_diff(bv, b) is not None or not NMX.result_eq(bv, b, not b["nan"]):
                findings.append(Finding("correspondence", "reference-variant/differs-from-reference-source", "parametrised copy -> %s ; reference -> %s"
                                        % (NMX.describe(bv), NMX.describe(b)), case))
        if nt:
            nontrivial += 1
        if a["nan"] or b["nan"]:
            continue
        rad = c["radius"]
        zd_pub = ZDELT_REF if rad is None else NMX.mystic_zdelt(c)
        lines.append(fmin_request("ref", c, zd_pub)); handlers.append(("fmin", ("ref-vs-transcription", b), case))
        if route == "fmin" and not c["xtol"]:
            continue                # `if xtol:` installs another stop rule (known finding N1): the model is of the CRT loop
        if rad is not None and zero and (rad ** 2) != rad * rad:
            hadd(hist, "nm:model:radius**2-is-not-radius*radius(skipped)")      # python's pow vs one multiplication (0.09 % of floats)
        else:
            lines.append(fmin_request("mystic", c, ZDELT_REF)); handlers.append(("fmin", ("mystic-vs-model", a), case))
        if NMX.started(c):
            # the reference algorithm run with mystic's initial-simplex constant must reproduce the real fmin exactly
            lines.append(fmin_request("ref", c, NMX.mystic_zdelt(c))); handlers.append(("fmin", ("mystic-vs-reference-transcription", a), case))
        if len(samples) < 3 and nt:
            samples.append(case)
    # ---------------- Nelder-Mead: the real solver stepped, per-step replay (branch coverage)
    for k in range(max(1, ncases // 2)):
        if only and only != ("nmsteps", k):
            continue
        rng = case_rng(PID + "/nmsteps", seed, shard, k)
        try:
            spec, line, cmp = nm_steps_case(rng, tier)
        except Exception as exc:
            findings.append(Finding("monitor", "NM/raises/%s" % type(exc).__name__, "NelderMeadSimplexSolver raised %r" % (exc,), ident("nmsteps", k)))
            continue
        evals += 1
        if line is not None:
            case = dict(ident("nmsteps", k)); case["spec"] = spec
            lines.append("C08" + line[3:]); handlers.append(("nmsteps", cmp, case))
    # ---------------- Powell: fmin_powell vs reference vs Lean bookkeeping model
    for k in range(ncases * 3):
        if only and only != ("powell", k):
            continue
        rng = case_rng(PID + "/powell", seed, shard, k)
        c = gen_powell_case(rng, tier)
        case = dict(ident("powell", k)); case.update({"x0": c["x0"], "cost": dsl.expr_sexp(c["expr"]), "xtol": c["xtol"], "ftol": c["ftol"],
                                                      "maxiter": c["maxiter"], "maxfun": c["maxfun"], "direc": c["direc"], "imax": c.get("imax"),
                                                      "direc_given_as": c.get("direc_kind"), "direc_family": c.get("direc_family"), "route": c.get("route")})
        hadd(hist, "powell:imax:%s" % ("default" if c.get("imax") is None else c["imax"])); hadd(hist, "powell:x0-given-as:%s" % c.get("x0kind", "list"))
        case["x0_given_as"] = c.get("x0kind", "list")
        for v in c["x0"]:
            hadd(hist, "powell:x0-coordinate:%s" % NMX.coord_class(v))
        try:
            a = run_powell("mystic", c); b = run_powell("ref", c)
        except Exception as exc:
            findings.append(Finding("monitor", "fmin_powell/raises/%s" % type(exc).__name__, "fmin_powell raised %r" % (exc,), case))
            continue
        evals += 1
        case["fmin_powell"] = {k2: a[k2] for k2 in ("x", "f", "iter", "fcalls", "warn", "direc")}
        case["reference"] = {k2: b[k2] for k2 in ("x", "f", "iter", "fcalls", "warn", "direc")}
        res, nt = powell_monitor(c, a, b, hist)
        for key, what in res:
            findings.append(Finding("monitor", key, what, case))
        if nt:
            nontrivial += 1
        if a["nan"] or b["nan"]:
            continue
        lines.append(powell_request("ref", c, b)); handlers.append(("powell", ("ref-vs-transcription", b), case))
        lines.append(powellb_request("ref", c, b)); handlers.append(("powellb", ("ref-from-x0(modelled-brent)", b), case))
        started = (c["maxfun"] is None or c["maxfun"] > 1) and (c["maxiter"] is None or c["maxiter"] > 0)
        if started:
            lines.append(powell_request("mystic", c, a)); handlers.append(("powell", ("mystic-vs-model", a), case))
            lines.append(powellb_request("mystic", c, a)); handlers.append(("powellb", ("mystic-from-x0(modelled-brent)", a), case))
        for tg, rr in (("mystic", a), ("ref", b)):
            for key, what in powell_rule_monitor(tg, c, rr, hist):
                findings.append(Finding("monitor", key, what, case))
        if len(samples) < 4 and nt and len(b["ls"]) > c["dim"] * b["iter"]:
            samples.append(case)
    # ---------------- Brent: bracket / brent on 1-D functions, _linesearch_powell in n-D (Model/Brent.lean)
    for stream, mult in (("bracket", 2), ("brent", 4), ("lsp", 2)):
        for k in range(ncases * mult):
            if only and only != (stream, k):
                continue
            rng = case_rng(PID + "/" + stream, seed, shard, k)
            if stream == "bracket":
                c = B.bracket_case(rng, tier); real = B.run_bracket(c); line = B.bracket_request(c)
                res = B.bracket_monitor(c, real, hist) + B.scipy_bracket_monitor(c, real, hist)
            elif stream == "brent":
                c = B.brent_case(rng, tier); real = B.run_brent(c); line = B.brent_request(c)
                hadd(hist, "brent:fn:%s" % c["kind"].split("+")[0]); hadd(hist, "brent:brack:%s" % ("none" if c["brack"] is None else len(c["brack"])))
                if c["box"] is not None:
                    hadd(hist, "brent:strict-range(+inf outside)")
                res = B.brent_monitor("brent", c, real, hist, c["brack"] is None)
                res += B.scipy_brent_monitor("brent", c, real, hist, lambda lg, c=c: B.recording(c["expr"], c["box"], lg), c["brack"])
            else:
                c = B.lsp_case(rng, tier); real = B.run_lsp(c); line = B.lsp_request(c)
                res = B.lsp_monitor(c, real, hist)
                res += B.scipy_brent_monitor("linesearch", c, real, hist, lambda lg, c=c: B.along_recording(c, lg), None)
            evals += 1
            case = dict(ident(stream, k)); case.update({kk: (dsl.expr_sexp(v) if kk == "expr" else v) for kk, v in c.items()})
            case["result"] = {kk: v for kk, v in real.items() if kk not in ("log", "pts")}; case["nevals"] = len(real["log"])
            if real["exc"] == "dsl" or real["exc"].startswith("other:"):
                hadd(hist, "%s:skipped:%s" % (stream, real["exc"]))
                if real["exc"] != "dsl":
                    findings.append(Finding("monitor", "%s/raises/%s" % (stream, real["exc"][6:]), "raised %s" % real["exc"], case))
                continue
            for key, what in res:
                findings.append(Finding("monitor", key, what, case))
            if real["exc"] == "none" and len(real["log"]) >= 6:
                nontrivial += 1
            if any(abs(v) == math.inf for _, v in real["log"]):
                hadd(hist, "%s:inf-values" % stream)
            lines.append(line); handlers.append((stream, (c, real), case))
            if len(samples) < 6 and stream == "lsp" and real["exc"] == "none" and len(real["log"]) > 8:
                samples.append(case)
    replies = leandrv.run_driver(lines) if lines else []
    for (kind, obj, case), line, rep in zip(handlers, lines, replies):
        if kind == "strat":
            res = strat_compare(obj, rep)
        elif kind == "fmin":
            res = fmin_compare(obj[0], obj[1], rep, hist)
        elif kind == "powell":
            res = powell_compare(obj[0], obj[1], rep, hist)
        elif kind == "powellb":
            res = powellb_compare(obj[0], obj[1], rep, hist)
        elif kind == "bracket":
            res = B.bracket_compare(obj[0], obj[1], rep, hist)
        elif kind == "brent":
            res = B.brent_compare("brent", obj[1], rep, hist)
        elif kind == "lsp":
            res = B.brent_compare("linesearch", obj[1], rep, hist)
        elif kind == "nmsteps":
            import solvermodel
            res = obj(rep)
            hadd(hist, "model:nm-steps")
            for bname in solvermodel.nm_branches(rep):
                hadd(hist, "nm-branch:%s" % bname)
        else:
            res = derun_model_compare(obj, rep)
            hadd(hist, "model:de")
        for key, what in res:
            c2 = dict(case); c2["request"] = line[:6000]; c2["model_reply"] = rep[:6000]
            findings.append(Finding("correspondence", key, what, c2))
    return {"evaluations": evals, "nontrivial": nontrivial, "model_lines": len(lines), "findings": findings,
            "samples": samples, "hist": hist}


def brent_witnesses(hist):
    """the three kernel-checked witnesses of Props/C08 (Brent section), reproduced on the real routines with the real
    constants and replayed by the Float model: (1) a valley with a spike - the returned value is ABOVE a value the
    bracket evaluated (`elif (fw > fb)` exit); (2) `bracket` raising "Too many iterations" (maxiter=2, f = -alpha);
    (3) a NaN objective: the returned value is NaN, not <= the value at alpha = 0"""
    X = ("x", 0)
    out = []
    # (alpha-2)^2 plus a wide spike over [1.1, 2.5]: f(0)=4 > f(1)=1 > f(2.618)=0.38, the parabola's vertex 2.0 is on the spike
    spike = ("+", ("sq", ("-", X, ("c", 2.0))), ("*", ("c", 50.0), ("max", ("c", 0.0), ("-", ("c", 0.7), ("abs", ("-", X, ("c", 1.8)))))))
    cases = []
    c1 = {"kind": "witness-spike", "expr": spike, "box": None, "brack": None, "tol": 1e-2, "maxiter": 500}
    r1 = B.run_brent(c1)
    ok1 = r1["exc"] == "none" and any(v < r1["fval"] for _, v in r1["log"])
    cases.append(("brent", c1, r1, ok1, "returned value %r is not above any evaluated value" % (r1.get("fval"),)))
    c2 = {"kind": "witness-toomany", "expr": ("neg", X), "box": None, "xa": 0.0, "xb": 1.0, "grow": 110.0, "maxiter": 2}
    r2 = B.run_bracket(c2)
    ok2 = r2["exc"] == "tooMany" and len(r2["log"]) == 6
    cases.append(("bracket", c2, r2, ok2, "bracket(maxiter=2) on -alpha: %s after %d evaluations" % (r2["exc"], len(r2["log"]))))
    # 5 on [-0.5, 0.5], NaN elsewhere: E = max(0, |alpha| - 0.5) * 1e308 * 1e308 is 0 inside and inf outside, E - E is 0 / NaN
    big = ("*", ("*", ("max", ("c", 0.0), ("-", ("abs", X), ("c", 0.5))), ("c", 1e308)), ("c", 1e308))
    nanf = ("+", ("c", 5.0), ("-", big, big))
    c3 = {"kind": "witness-nan", "expr": nanf, "box": None, "brack": None, "tol": 1e-2, "maxiter": 3}
    r3 = B.run_brent(c3)
    ok3 = r3["exc"] == "none" and r3["fval"] != r3["fval"] and r3["log"][0][1] == 5.0
    cases.append(("brent", c3, r3, ok3, "f(0) = %r, returned %r" % (r3["log"][0][1] if r3["log"] else None, r3.get("fval"))))
    lines = [B.brent_request(c) if st == "brent" else B.bracket_request(c) for st, c, _, _, _ in cases]
    for (st, c, r, ok, what), rep in zip(cases, leandrv.run_driver(lines)):
        case = {"stream": "witness", "kind": c["kind"], "cost": dsl.expr_sexp(c["expr"])}
        if not ok:
            out.append(Finding("correspondence", "brent/witness-not-reproduced/%s" % c["kind"], what, case))
        res = B.brent_compare("brent", r, rep, hist) if st == "brent" else B.bracket_compare(c, r, rep, hist)
        for key, w in res:
            out.append(Finding("correspondence", key, w, case))
        hadd(hist, "brent:witness:%s" % c["kind"])
    return out


def witnesses():
    """fixed cases run first on every invocation: the recorded known findings, re-confirmed on the implementation"""
    common.import_mystic()
    import mystic.strategy as S
    from mystic.solvers import DifferentialEvolutionSolver
    out = []; hist = {}
    lines = []; obs = []
    for name in ("Rand1Bin", "RandToBest1Bin", "Best2Bin", "Rand2Bin"):
        s = DifferentialEvolutionSolver(2, 6)
        s.population = [[0.0, 0.0], [1.0, 10.0], [3.0, 40.0], [7.0, 90.0], [15.0, 200.0], [31.0, 500.0]]
        s.bestSolution = np.array([100.0, 1000.0]); s.scale = 2.0; s.probability = 0.5
        s.trialSolution = [0.0, 0.0]
        # the instance of Props/C08 `named_bin_runs_exponential_witness`: first draw >= CR
        o = record_call(getattr(S, name), name, s, 0, _random.Random(0), script={"positions": [0, 1, 2, 3, 4], "n0": 1, "us": [0.75, 0.25, 0.25]})
        case = {"stream": "witness", "call": o}
        for key, what in strat_monitor(o, hist):
            out.append(Finding("monitor", key, what, case))
        lines.append(strat_request(o)); obs.append((o, case))
    for (o, case), rep in zip(obs, leandrv.run_driver(lines)):
        for key, what in strat_compare(o, rep):
            out.append(Finding("correspondence", key, what, case))
    out += brent_witnesses(hist)
    c = {"dim": 2, "expr": ("sum", ("*", ("c", 100.0), ("sq", ("-", ("x", 1), ("sq", ("x", 0))))), ("sq", ("-", ("c", 1.0), ("x", 0)))),
         "x0": [1.0, 1.0], "xtol": 1e-4, "ftol": 1e-6, "maxiter": None, "maxfun": None, "direc": None}
    a = run_powell("mystic", c); b = run_powell("ref", c)
    case = {"stream": "witness", "x0": c["x0"], "cost": dsl.expr_sexp(c["expr"]), "fmin_powell": [a["x"], a["f"], a["iter"], a["fcalls"], a["warn"]],
            "reference": [b["x"], b["f"], b["iter"], b["fcalls"], b["warn"]]}
    res, _ = powell_monitor(c, a, b, hist)
    for key, what in res:
        out.append(Finding("monitor", key, what, case))
    # known finding N1: fmin(xtol=0.0) installs another stop rule (the recorded witness, on both routes)
    c = {"dim": 2, "expr": c["expr"], "x0": [0.8, 1.2], "xtol": 0.0, "ftol": 1e-4, "maxiter": None, "maxfun": None,
         "flavour": "ordinary", "x0kind": "list", "boundary": None}
    b = NMX.run_nm("ref", c)
    for route in ("fmin", "solver"):
        a = NMX.run_nm(route, c)
        case = {"stream": "witness", "x0": c["x0"], "cost": dsl.expr_sexp(c["expr"]), "xtol": 0.0, "ftol": 1e-4, "route": route,
                route: NMX.public(a), "reference": NMX.public(b)}
        res, _ = NMX.nm_monitor(c, route, a, b, None, hist)
        for key, what in res:
            out.append(Finding("monitor", key, what, case))
    return out


def main(tier, seed):
    t0 = time.time()
    proof = framework.proof_stage(PID, MODULE, THEOREMS, tier)
    nshards, per = (16, 90) if tier == "quick" else (64, 170)
    run = framework.run_shards("c08", "run_shard", PID, seed, nshards, per, tier)
    run["findings"] = witnesses() + run["findings"]

    def search_more():
        r = framework.run_shards("c08", "run_shard", PID, seed + 15485863, 32, 60, tier)
        return r["findings"]
    rule = ("per shard unit: 6 isolated calls of a mystic.strategy function on a real solver object (10 strategies x DE1 list / DE2 per-candidate "
            "trial layout; nDim 1-12, NP down to ncand+1, int/dyadic/float/duplicated populations, F and CR incl. 0 and 1; draws from a recording "
            "generator with boundary values u == CR, one ulp either side, n = 0, n = nDim-1) + 1 real DE/DE2 run of 2-%d generations "
            "(plateau / symmetric / smooth costs; every strategy call inside it recorded) + 3 Nelder-Mead cases (70%% one-liner fmin, 30%% NelderMeadSimplexSolver "
            "with CandidateRelativeTolerance; vs reference fmin evaluation for evaluation, vs the reference code object with mystic's zdelt when x0 has an exact "
            "zero, vs Lean; dim 1-%d; smooth / abs / ill-conditioned / rosenbrock / plateau / staircase costs and costs scaled to the start point; start "
            "coordinates: 50%% ordinary, 25%% tiny (+-0.0, round-off zeros like 0.1+0.2-0.3, 1e-8/1e-5/sqrt(eps)/eps one ulp either side, 1e-3..1e-307, "
            "smallest normal, denormals), 10%% huge (1e3..1e22, 2**53 +- ulp, 1e154, max/1.05 +- ulp, max), 15%% mixed; x0 given as list / tuple / ndarray / ints; "
            "xtol/ftol 0.5..1e-10, at the coordinates' scale, 0, denormal, 1e300, inf; 14%% boundary cases: xtol / ftol EXACTLY the value the convergence test "
            "compares at some iteration of that run (and one ulp either side), maxfun / maxiter exactly the counts after some iteration (and +-1); limits incl. "
            "0,1,N+1; 30%% of the cases with adaptive=True and 22%% with a radius (0, 1e-8 .. 10, negative), given to Solve or set as attributes - these run the solver class "
            "against the reference's own source with its coefficient line replaced by the published Gao-Han set (1, 1+2/n, 3/4-1/(2n), 1-1/n) and nonzdelt / zdelt by radius / "
            "radius**2*0.1; 12%% extra one-dimensional cases; 22%% of the ordinary starts on objectives that are not unimodal along a line (bowl + triangle wave, sawtooth, double "
            "well, notches: failed contractions, shrink steps); every run that does not stop on the evaluation limit is also compared evaluation for evaluation with the installed "
            "scipy.optimize Nelder-Mead incl. adaptive) + 0.5 stepped "
            "NelderMeadSimplexSolver runs (per-step replay, branch histogram) + 3 fmin_powell cases (real vs reference with recorded Brent searches vs "
            "Lean bookkeeping model AND vs the whole run recomputed from x0 with the modelled Brent; dim 1-%d; 55%% with a direction set: identity, permutations, signed permutations, "
            "+-1 bases, small-integer, scaled / skew / generic float, singular - handed over as nested lists / tuples of ints, floats, bools or both, ndarrays of int8..int64, uint8, bool, "
            "object, float16/32/64, Fortran order, transposed views, lists of row arrays; x0 as list / tuple / ndarray / ints / integer ndarray; xtol incl. 0, denormal, >= 1e-2; "
            "imax 0..40; 40%% through PowellDirectionalSolver.Solve with keywords or sticky attributes; guess at the optimum, "
            "constant objective, plateau / exchange-symmetric / small-integer landscapes for the exact-equality branches) + 2 bracket + 4 brent cases on generated "
            "1-D functions (23 kinds: smooth, kinked, flat, steps, spikes, unbounded below, NaN regions, minima at 1e6..1e15; +inf outside strict ranges; brack "
            "None/2/3/malformed; tol 0..1; maxiter 0..500; grow_limit 1..1000) + 2 _linesearch_powell calls (mystic's and the reference's; n-D costs, zero / tiny / "
            "skew directions, strict ranges), each compared bit for bit with Model/Brent.lean and judged by the line-search monitors and scipy.optimize. non-trivial "
            "= strategy call with >= 2 crossover draws / DE run with more replacements than members and a rejection / fmin with >= 3 iterations / fmin_powell with "
            ">= 2 iterations / line search with >= 6 evaluations"
            % ((6, 4, 4) if tier == "quick" else (25, 8, 6)))
    tb = ["Lean 4.33 kernel; axioms per theorem under coverage.theorems (subset of propext, Classical.choice, Quot.sound)",
          "hand-written models Model/Strategy.lean, Model/RefFmin.lean, Model/Powell.lean, Model/Brent.lean (+ shared Model/Solver.lean, Model/NelderMead.lean) tied to /repo by the "
          "bit-exact replays counted in the histogram (strat:*, model:de, nm:model:*, model:nm-steps, powell:model:*, brent:model:*)",
          "scipy.optimize.bracket / scipy.optimize.brent of the installed scipy: reference of the monitors */differs-from-scipy-* only (agreement measured: every abscissa, "
          "result and iteration count identical on all generated cases; skipped and counted if scipy is missing)",
          "random.sample / randrange / random are replaced by recording generators for the duration of a strategy call (contract of random.sample: "
          "distinct positions of the pool it is handed); the line search (in the Powell refinement theorems) and the initial-simplex / convergence expressions are "
          "parameters of the theorems (the Float driver implements all three; Brent results are recorded tables in the `powell` replays and computed by Model/Brent.lean in the "
          "`powellb` replays)",
          "refFmin / refPowell are transcriptions of mystic/_scipy060optimize.py, tied to that file by the same replays (reference run vs transcription)",
          "DSL twins harness/dsl.py and Model/Dsl.lean for the cost functions"]
    assumptions = ["fmin_powell runs whose cost returns NaN/inf are skipped and counted; Nelder-Mead runs with inf / NaN energies (huge starts) ARE compared real fmin vs real reference, "
                   "evaluation for evaluation, and their initial simplex is judged, but they are not sent to the Lean model; the bracket / brent / _linesearch_powell streams include NaN and inf "
                   "values (order monitors apply to NaN-free runs; the bit-exact replay applies to all)",
                   "unconstrained, unbounded, unpenalised problems (the property's hypothesis); limits maxfun > 1 and maxiter > 0 for the equality with the "
                   "reference (below that mystic stops before building the simplex / before the first sweep: checked against the model, counted as limit-edge); the same edge "
                   "exists for ftol = inf with the guess within xtol of the origin (the convergence test holds on the generation-0 population: nm_start_iff), counted separately",
                   "starts with an exactly-zero coordinate: mystic's zdelt 0.05**2*0.1 is one ulp above the reference's 0.00025; the exact statement checked there is "
                   "'real fmin = the reference's code object with that one constant replaced' (how far the ulp carries is measured: nm:zero-coordinate:*)",
                   "runs in which two vertices carry exactly equal energies are compared real-vs-real only (numpy.argsort's order among ties is unspecified)",
                   "IEEE binary64 + - * / and comparisons agree between Lean Float and numpy/CPython"]
    return framework.finish(PID, tier, seed, t0, proof, run, rule, tb, assumptions, search_more=search_more)


def replay(path):
    d = json.load(open(path))
    case = d.get("case") or {}
    if "stream" not in case:
        cs = d.get("correspondence_not_checking") or []
        case = cs[0]["case"] if cs else {}
    if "stream" not in case:
        print("replay file holds no generated case (proof-stage failure?):", d.get("theorems_not_checking"))
        return 2
    common.import_mystic()
    leandrv.ensure_driver()
    if case["stream"] == "witness":
        res = {"findings": witnesses()}
    else:
        res = run_shard(PID, case["seed"], case["shard"], max(case["k"] + 1, 1), case.get("tier", "quick"),
                        {"only": (case["stream"], case["k"])})
    known = {e["class_key"] for e in framework.load_known(PID)}
    bad = [f for f in res["findings"] if f["class_key"] not in known]
    for f in res["findings"]:
        print("%s %s: %s" % ("KNOWN-FINDING" if f["class_key"] in known else f["kind"].upper(), f["class_key"], f["what"][:400]))
    if bad:
        print("VIOLATION property=%s replay=%s" % (PID, path))
        return 1
    print("replayed case holds")
    return 0
