"""C11, bounds collapse: collapse_cost / CollapseCost / Collapse() -> impose_bounds.

Streams (own PRNG streams `C11/cost`, `C11/csolver`):
  cost     the REAL collapse.collapse_cost on generated monitors (1-4 parameters, 0-40 records in shuffled order;
           columns on grids with spacing 1 / 10 / 0.5 / 0.125 / 3, reversed, tied, constant, random dyadic; costs laid out
           as runs of good / bad records along the sorted first column with run lengths around `samples`, bad runs at
           either end and in the interior, bad = just above the limit / far above / huge / inf, good = the minimum / the
           minimum + limit exactly; nan / all-inf / negative and infinite limits; samples None / 0 / negative / longer than
           the history; clip both ways; masks None / own output / own output shrunk / random dicts with negative, out of
           range and None keys, flat (lo,hi) values, int entries / rejected formats) vs Model/CollapseCost.lean:
           keys, interval end points (bit patterns) and the error enum compared exactly.
           Monitors (evaluated directly on the records, run-based, independent of the where/diff code path):
             S3 a parameter is reported iff its sorted flag column has a good record and >= `samples` consecutive bad ones
             S1 no record of such a bad run lies strictly inside a reported interval
             S2 every good record lies inside a reported interval
             containment of a masked result in the mask and in the unmasked result, own output as mask gives {},
             the CollapseCost -> collapsed() -> update_mask -> state() round trip, nothing reported again
  csolver  real DE / DE2 / Nelder-Mead / Powell runs with Or(CollapseCost, stop) on objectives with a high plateau in
           one or two parameters: after every applied cost collapse each later cost argument and the final solution lie
           inside the applied bounds, the state() mask equals what was applied, the same bounds are never reported
           again, Solve returns.
"""
import math, copy, time, random as _random
import common
from common import f2b, fl, fll, parse_reply, dyadic

ERR = {"ValueError": "value", "TypeError": "type", "IndexError": "index"}

K_UPPER = "collapse_cost/bounds-not-per-definition/upper-interval-adds-sample-count-to-value"
K_CLIP = "collapse_cost/bounds-not-per-definition/clip-drops-outer-good-region"
K_OWN_DEGEN = "collapse_cost/own-output-reported-again/degenerate-intervals-from-tied-values"
K_NONE = "collapse_cost/own-output-rejected-as-mask/None-key-kept-beside-parameter-keys"
K_DROP = "collapse_cost/masked-parameter-dropped/empty-intersection-with-mask"
K_LOOP_DEGEN = "csolver/collapse-loop-does-not-terminate/degenerate-interval-reported-again"
K_LOOP_DROP = "csolver/collapse-loop-does-not-terminate/dropped-parameter-reported-again"
K_DROP_S = "csolver/mask-lost-parameter/empty-intersection-with-mask"
K_SPELL = "collapse_cost/mask-adds-nothing-but-reported/interval-or-list-spelled-with-another-container"
K_SPELL_T = "CollapseCost/mask-adds-nothing-but-reported/interval-or-list-spelled-with-another-container"
K_SPELL_S = "csolver/spurious-collapse/mask-adds-nothing/interval-or-list-spelled-with-another-container"

# spellings of one mask value.  Documented (collapse.py l.246-252, termination.py l.559-561): "an interval (min,max), or a
# list of intervals" = `flat` (lo, hi) and `list` [(lo, hi), ..].  The validation (l.259-281) also accepts an interval
# spelled as a list and a tuple of intervals: `flatl` [lo, hi], `listl` [[lo, hi], ..], `tup` ((lo, hi), ..), `tupl` ([lo, hi], ..)
CANON_SP = ("flat", "list")
ODD_SP = ("flatl", "listl", "tup", "tupl")


def bump(h, k, n=1):
    h[k] = h.get(k, 0) + n


# ------------------------------------------------------------------ masks: spec -> python object / model term
def mk_mask(spec):
    """spec: None | 'other:<kind>' | list of (key, val); key: None | int | ('bad', obj); val: ('bad', obj) |
    ('flat', lo, hi) | ('list', [(lo,hi),..])"""
    if spec is None:
        return None
    if isinstance(spec, str):
        return {"other:list": [(1.0, 2.0)], "other:tuple": ((0, (1.0, 2.0)),), "other:set": {0}, "other:int": 3}[spec]
    d = {}
    for k, v in spec:
        key = k[1] if isinstance(k, tuple) else k
        if v[0] == "bad":
            d[key] = copy.deepcopy(v[1])
        elif v[0] == "flat":
            d[key] = (v[1], v[2])
        elif v[0] == "flatl":
            d[key] = [v[1], v[2]]
        elif v[0] == "listl":
            d[key] = [list(p) for p in v[1]]
        elif v[0] == "tup":
            d[key] = tuple(tuple(p) for p in v[1])
        elif v[0] == "tupl":
            d[key] = tuple(list(p) for p in v[1])
        else:
            d[key] = [tuple(p) for p in v[1]]
    return d


def norm_spec(spec):
    """the mask a spec MEANS: {key: [(lo, hi), ..]} (None for rejected / non-dict specs)"""
    if spec is None or isinstance(spec, str):
        return None
    out = {}
    for k, v in spec:
        if isinstance(k, tuple) or v[0] == "bad":
            return None
        out[k] = [(v[1], v[2])] if v[0] in ("flat", "flatl") else [tuple(p) for p in v[1]]
    return out


def spec_spellings(spec):
    return set() if spec is None or isinstance(spec, str) else set(v[0] for _, v in spec if v[0] != "bad")


def spell_class(spec):
    sp = spec_spellings(spec)
    if sp & set(ODD_SP):
        return "other-container"
    return "bare-interval" if "flat" in sp else "list-of-intervals"


def respell(spec, style, rng=None):
    """the same mask in another spelling: 'list' | 'bare' (every single interval as (lo,hi)) | 'odd' (containers the
    validation accepts beside the documented ones) | 'mixed' (per key any)"""
    out = []
    for k, v in spec:
        ivs = [(v[1], v[2])] if v[0] in ("flat", "flatl") else list(v[1])
        single = len(ivs) == 1
        if style == "list":
            sp = "list"
        elif style == "bare":
            sp = "flat" if single else "list"
        elif style == "odd":
            sp = rng.choice((["flatl"] if single else []) + ["listl", "tup", "tupl"])
        else:
            sp = rng.choice((["flat", "flat", "flatl"] if single else []) + ["list", "list", "listl", "tup", "tupl"])
        out.append((k, (sp, ivs[0][0], ivs[0][1]) if sp in ("flat", "flatl") else (sp, ivs)))
    return out


def obj_spelling(v):
    """what `==` against a list of tuples sees of a mask value AFTER the call"""
    if not isinstance(v, (list, tuple)) or not len(v):
        return "?"
    if not hasattr(v[0], "__len__"):
        return "flatl" if isinstance(v, list) else "flat"
    inner = all(isinstance(p, tuple) for p in v)
    return ("list" if inner else "listl") if isinstance(v, list) else ("tup" if inner else "tupl")


def mask_sexp(spec):
    if spec is None:
        return "none"
    if isinstance(spec, str):
        return "other"
    out = []
    for k, v in spec:
        ks = "bad" if isinstance(k, tuple) else ("none" if k is None else str(int(k)))
        if v[0] == "bad":
            vs = "bad"
        elif v[0] in ("flat", "flatl"):
            vs = "(%s %s %s)" % (v[0], f2b(v[1]), f2b(v[2]))
        else:
            vs = "(%s (%s))" % (v[0], " ".join("(%s %s)" % (f2b(a), f2b(b)) for a, b in v[1]))
        out.append("(%s %s)" % (ks, vs))
    return "(dict (%s))" % " ".join(out)


def spec_of_result(res):
    return [(None if k is None else int(k), ("list", [(float(a), float(b)) for a, b in v])) for k, v in res.items()]


def canon(res):
    """dict {key: [(lo,hi),..]} -> sorted list of (key token, ((lo bits, hi bits), ...))"""
    out = []
    for k, v in res.items():
        if v and not hasattr(v[0], "__len__"):
            v = [v]
        out.append(("none" if k is None else str(int(k)), tuple((f2b(a), f2b(b)) for a, b in v)))
    return sorted(out)


def canon_model(sx):
    return sorted((str(kv[0]), tuple((str(p[0]), str(p[1])) for p in kv[1])) for kv in sx)


# ------------------------------------------------------------------ generators
def gen_runs(rng, T, hits):
    """flags (True = good) along the sorted first column: alternating runs with lengths around `hits`"""
    flags = []
    good = rng.random() < 0.55
    h = hits if isinstance(hits, int) and hits > 0 else 2
    while len(flags) < T:
        if good:
            L = rng.choice([1, 1, 2, 3, h])
        else:
            L = rng.choice([1, h - 1, h, h, h + 1, h + 2, 2 * h])
            L = max(L, 1)
        flags += [good] * L
        good = not good
    return flags[:T]


def gen_column(rng, T, kind):
    a = dyadic(rng, -4, 4, 8)
    if kind == "const":
        return [a] * T
    if kind == "ties":
        vals = [a + rng.choice([0.0, 0.5, 1.0, 3.0, -2.0]) for _ in range(3)]
        return [rng.choice(vals) for _ in range(T)]
    if kind == "random":
        return [dyadic(rng, -6, 6, 16) for _ in range(T)]
    step = {"grid1": 1.0, "grid10": 10.0, "gridh": 0.5, "gride": 0.125, "grid3": 3.0, "rev1": -1.0, "rev10": -10.0,
            "revh": -0.5}[kind]
    return [a + step * k for k in range(T)]


COLKINDS = ["grid1", "grid1", "grid10", "grid10", "gridh", "gride", "grid3", "rev1", "rev10", "revh", "ties", "const", "random"]


def gen_case(rng):
    n = rng.choice([1, 1, 2, 2, 3, 4])
    T = rng.choice([1, 2, 3, 4, 5, 6, 8, 10, 12, 16, 20, 24, 40])
    special = rng.random() < 0.12
    if special and rng.random() < 0.2:
        T = 0
    samples = rng.choice([1, 2, 2, 3, 3, 4, 5, 7])
    k = rng.random()
    if k < 0.04:
        samples = None
    elif k < 0.07:
        samples = 0
    elif k < 0.09:
        samples = -rng.randint(1, 3)
    elif k < 0.12:
        samples = T + rng.randint(0, 3)
    kinds = [rng.choice(COLKINDS[:10]) if i == 0 and rng.random() < 0.85 else rng.choice(COLKINDS) for i in range(n)]
    cols = [gen_column(rng, T, kd) for kd in kinds]
    # costs along the sorted order of column 0
    limit = rng.choice([1.0, 1.0, 0.5, 0.25, 2.0, 0.0])
    base = rng.choice([0.0, 0.0, 3.0, -2.5, 0.125])
    flags = gen_runs(rng, T, samples)
    order0 = sorted(range(T), key=lambda t: (cols[0][t], t))
    costs = [0.0] * T
    badstyle = rng.choice(["ulp", "far", "huge", "inf", "mixed"])
    for pos, t in enumerate(order0):
        if flags[pos]:
            costs[t] = base + rng.choice([0.0, 0.0, limit, limit / 2.0])
        else:
            st = badstyle if badstyle != "mixed" else rng.choice(["ulp", "far", "huge", "inf"])
            costs[t] = {"ulp": math.nextafter(base + limit, math.inf), "far": base + 2.0 * limit + 1.0, "huge": 1e300,
                        "inf": math.inf}[st]
    if T and any(flags) and rng.random() < 0.8:
        costs[order0[flags.index(True)]] = base          # the minimum itself is recorded
    if special and T:
        j = rng.random()
        if j < 0.2:
            costs[rng.randrange(T)] = math.nan
        elif j < 0.3:
            costs = [math.inf] * T
        elif j < 0.45:
            limit = rng.choice([-1.0, math.inf, math.nan, -0.0])
        elif j < 0.6:
            cols[rng.randrange(n)][rng.randrange(T)] = rng.choice([math.inf, -math.inf, 1e300, -0.0])
        elif j < 0.7:
            n = 0; cols = []
    # shuffle the records (the detector sorts them)
    perm = list(range(T)); rng.shuffle(perm)
    rows = [[cols[i][t] for i in range(n)] for t in perm]
    costs = [costs[t] for t in perm]
    clip = rng.random() < 0.45
    return {"rows": rows, "costs": costs, "clip": clip, "limit": limit, "samples": samples, "kinds": kinds[:n],
            "special": special}


def gen_ivs(rng):
    pts = sorted(set(dyadic(rng, -8, 8, 4) for _ in range(rng.choice([2, 2, 4, 4, 6]))))
    if len(pts) < 2:
        pts = [pts[0], pts[0] + 1.0]
    if len(pts) % 2:
        pts = pts[:-1]
    ivs = [(pts[i], pts[i + 1]) for i in range(0, len(pts), 2)]
    k = rng.random()
    if k < 0.3:
        ivs[0] = (-math.inf, ivs[0][1])
    if k > 0.7:
        ivs[-1] = (ivs[-1][0], math.inf)
    if rng.random() < 0.15:
        rng.shuffle(ivs)                                   # unordered list of intervals
    if rng.random() < 0.1:
        ivs.append((ivs[0][0], ivs[0][1] + 1.0))          # overlapping intervals
    if rng.random() < 0.15:
        ivs = [(int(a) if a == int(a) and abs(a) < 100 else a, b) if not math.isinf(a) else (a, b) for a, b in ivs]
    return ivs


def gen_mask(rng, n, unmasked):
    """returns (spec, class)"""
    k = rng.random()
    if k < 0.40:
        return None, "None"
    if k < 0.55 and isinstance(unmasked, dict) and unmasked:
        style = rng.choice(["list", "list", "bare", "bare", "bare", "mixed", "odd"])
        spec = respell(spec_of_result(unmasked), style, rng)
        return spec, "own-output:" + spell_class(spec)
    if k < 0.70 and isinstance(unmasked, dict) and unmasked:
        spec = spec_of_result(unmasked)
        j = rng.randrange(len(spec))
        key, (tag, ivs) = spec[j]
        mode = rng.choice(["drop-key", "shrink", "drop-interval", "shift"])
        if mode == "drop-key":
            spec.pop(j)
        elif mode == "shrink":
            a, b = ivs[0]
            m = (b - 1.0) if math.isinf(a) else ((a + 1.0) if math.isinf(b) else (a + b) / 2.0)
            ivs = [(a, m)] + ivs[1:]
            spec[j] = (key, (tag, ivs))
        elif mode == "drop-interval" and len(ivs) > 1:
            spec[j] = (key, (tag, ivs[1:]))
        else:
            spec[j] = (key, (tag, [(a - 0.5, b - 0.5) for a, b in ivs]))
        if rng.random() < 0.5:
            spec = respell(spec, rng.choice(["bare", "bare", "mixed"]), rng)
        return spec, "own-output-" + mode + ":" + spell_class(spec)
    if k < 0.90:
        keys = []
        for _ in range(rng.choice([0, 1, 1, 2, 3])):
            kk = rng.choice([0, 0, 1, 2, 3, -1, n, n + 2])
            if kk not in keys:
                keys.append(kk)
        if rng.random() < 0.08:
            keys = [None]
        spec = []
        for kk in keys:
            ivs = gen_ivs(rng)
            j = rng.random()
            if j < 0.35:
                spec.append((kk, ("flat", ivs[0][0], ivs[0][1])))
            elif j < 0.42:
                spec.append((kk, ("flatl", ivs[0][0], ivs[0][1])))
            elif j < 0.85:
                spec.append((kk, ("list", ivs)))
            else:
                spec.append((kk, (rng.choice(["listl", "tup", "tupl"]), ivs)))
        return spec, ("dict-empty" if not spec else "dict-None-key" if keys == [None] else "dict:" + spell_class(spec))
    # rejected formats
    j = rng.random()
    if j < 0.3:
        return rng.choice(["other:list", "other:tuple", "other:set", "other:int"]), "rejected-not-a-dict"
    if j < 0.45:
        return [(None, ("flat", 0.0, 1.0)), (0, ("flat", 0.0, 1.0))], "rejected-None-with-others"
    if j < 0.6:
        return [(0, ("bad", rng.choice([[], (), 3.0, 2])))], "rejected-empty-or-scalar"
    if j < 0.75:
        return [(0, ("bad", rng.choice([[(1.0, 2.0, 3.0)], [(1.0,)], [[1.0, 2.0], [3.0]]])))], "rejected-bad-length"
    if j < 0.9:
        return [(0, ("bad", rng.choice([[("a", 2.0)], ("a", "b"), [(1.0, None)], [(1.0, 2.0), "xy"]])))], "rejected-non-number"
    return [(("bad", rng.choice([0.5, "0", (0,)])), ("flat", 0.0, 1.0))], "rejected-key"


# ------------------------------------------------------------------ implementation runners
def make_monitor(rows, costs):
    from mystic.monitors import Monitor
    m = Monitor()
    for r, c in zip(rows, costs):
        m(list(r), c)
    return m


def call(f):
    try:
        return ("ok", f())
    except Exception as e:     # noqa
        return ("err", ERR.get(type(e).__name__, "other:" + type(e).__name__), str(e)[:160])


def numpy_perms(rows, n):
    """the permutation numpy's argsort produces for every column (the very call of collapse.py l.297), or None when no
    column has tied / NaN values (then the model sorts by itself)"""
    import numpy
    if not rows or not n:
        return None
    a = numpy.array(rows)
    if a.ndim != 2:
        return None
    need = False
    for p in range(n):
        col = a[:, p]
        if numpy.isnan(col).any() or len(set(float(v) for v in col)) < len(col):
            need = True
    if not need:
        return None
    P = a.argsort(axis=0)
    return [[int(v) for v in P[:, p]] for p in range(n)]


def cost_line(c, spec, perms):
    ps = "none" if perms is None else "(p %s)" % " ".join("(" + " ".join(str(i) for i in p) + ")" for p in perms)
    return "C11 cost (hist %s) (costs %s) (perms %s) (clip %s) (limit %s) (samples %s) (mask %s)" % (
        fll(c["rows"]), fl(c["costs"]), ps, "true" if c["clip"] else "false", f2b(c["limit"]),
        "none" if c["samples"] is None else str(int(c["samples"])), mask_sexp(spec))


# ------------------------------------------------------------------ the definition, evaluated directly (run based)
def bad_runs(flags, hits):
    """maximal runs of False of length >= hits: list of (start, length)"""
    out = []; s = None
    for i, g in enumerate(list(flags) + [True]):
        if not g and s is None:
            s = i
        if g and s is not None:
            if i - s >= hits:
                out.append((s, i - s))
            s = None
    return out


def inside(ivs, x, strict):
    if strict:
        return any(a < x < b for a, b in ivs)
    return any(a <= x <= b for a, b in ivs)


def definition_check(c, res, perms_used):
    """S1/S2/S3 on an unmasked, successful result; returns [(key, text)]"""
    import numpy
    out = []
    rows, costs, clip, limit, hits = c["rows"], c["costs"], c["clip"], c["limit"], c["samples"]
    T = len(rows); n = len(rows[0])
    if hits is None:
        hits = T
    if hits < 1:
        return out, False
    a = numpy.array(rows)
    if numpy.isnan(a).any() or any(math.isnan(v) for v in costs) or math.isnan(limit):
        return out, False
    target = min(costs)
    P = a.argsort(axis=0)
    for p in range(n):
        perm = [int(v) for v in P[:, p]]
        v = [rows[t][p] for t in perm]
        with numpy.errstate(all="ignore"):
            g = [bool(numpy.float64(costs[t]) - numpy.float64(target) <= limit) for t in perm]
        runs = bad_runs(g, hits) if any(g) else []
        ivs = [(float(x), float(y)) for x, y in res.get(p, [])]
        want = bool(runs)
        what = "parameter %d: sorted values %r, good flags %r, samples=%r, clip=%r, reported %r" % (
            p, v, [int(x) for x in g], hits, clip, res.get(p))
        if (p in res) != want:
            if clip and want and not (g[0] and g[-1]):
                out.append((K_CLIP, "not reported although records %d..%d are a run of %d bad ones (clip=True, an extreme record is bad): %s" % (
                    runs[0][0], runs[0][0] + runs[0][1] - 1, runs[0][1], what)))
            else:
                out.append(("collapse_cost/parameter-not-per-definition", ("reported without a bad run: " if not want else "bad run not reported: ") + what))
            continue
        if not want:
            continue
        first, last = runs[0], runs[-1]
        for (s, L) in runs:
            for i in range(s, s + L):
                if inside(ivs, v[i], True):
                    # only the upper interval (.., inf) may contain it, and only through l.318
                    others = [iv for iv in ivs if not math.isinf(iv[1])]
                    if not inside(others, v[i], True) and ivs and math.isinf(ivs[-1][1]) and ivs[-1][0] == v[last[0]] + last[1]:
                        out.append((K_UPPER, "bad record %r (run of %d >= samples) lies strictly inside the reported interval %r = (par[start of last bad run] + run LENGTH, inf): %s" % (
                            v[i], L, ivs[-1], what)))
                    else:
                        out.append(("collapse_cost/bounds-not-per-definition/bad-run-inside", "bad record %r of a run of %d lies strictly inside a reported interval: %s" % (v[i], L, what)))
                    break
            else:
                continue
            break
        for i in range(len(v)):
            if g[i] and not inside(ivs, v[i], False):
                if i >= last[0] + last[1] and ((not clip) or g[-1]) and ivs and ivs[-1][0] == v[last[0]] + last[1]:
                    out.append((K_UPPER, "good record %r after the last bad run is outside every reported interval; the upper interval %r starts at par[start of last bad run] + run LENGTH: %s" % (
                        v[i], ivs[-1], what)))
                elif clip and ((i < first[0] and not g[0]) or (i >= last[0] + last[1] and not g[-1])):
                    out.append((K_CLIP, "good record %r is outside every reported interval (clip=True and the extreme record on its side is bad): %s" % (v[i], what)))
                else:
                    out.append(("collapse_cost/bounds-not-per-definition/good-record-excluded", "good record %r is outside every reported interval: %s" % (v[i], what)))
                break
    return out, True


def py_inter(b1, b2):
    """the documented meaning of tools._interval_intersection: pairwise intersections with non-empty interior"""
    out = []
    for lb, ub in b1:
        for lo, hi in b2:
            l, h = max(lb, lo), min(ub, hi)
            if l < h:
                out.append((l, h))
    return out


def chain_ordered(ivs):
    ok = all(a < b for a, b in ivs)
    return ok and all(ivs[i][1] <= ivs[i + 1][0] for i in range(len(ivs) - 1))


def contained(iv, ivs):
    return any(a <= iv[0] and iv[1] <= b for a, b in ivs)


class _Inst(object):
    pass


def cost_case(rng, hist):
    """one detector case: returns dict(line, impl, findings, tags)"""
    from mystic import collapse as ct, termination as mt, mask as ma
    c = gen_case(rng)
    rows, costs = c["rows"], c["costs"]
    n = len(rows[0]) if rows else 0
    mon = make_monitor(rows, costs)
    kw = {"clip": c["clip"], "limit": c["limit"], "samples": c["samples"]}
    un = call(lambda: ct.collapse_cost(mon, mask=None, **kw))
    spec, mclass = gen_mask(rng, n, un[1] if un[0] == "ok" else None)
    perms = numpy_perms(rows, n)
    line = cost_line(c, spec, perms)
    maskobj = mk_mask(spec)
    shown = repr(maskobj)
    res = call(lambda: ct.collapse_cost(mon, mask=maskobj, **kw))
    # the caller's mask object AFTER the call: interval_overlap rewrites bare intervals into lists in place (tools.py l.928-931)
    after = [] if (not isinstance(maskobj, dict) or res[0] != "ok") else sorted(("none" if k_ is None else str(int(k_)), obj_spelling(v_)) for k_, v_ in maskobj.items())
    impl = ("err", res[1]) if res[0] == "err" else ("ok", canon(res[1]), after)
    findings = []
    tags = ["cost:mask=" + mclass, "cost:" + ("err-" + res[1] if res[0] == "err" else "empty" if not res[1] else "reports"),
            "cost:clip=%s" % c["clip"], "cost:samples=" + ("None" if c["samples"] is None else "<=0" if c["samples"] <= 0 else
                                                            ">T" if c["samples"] > len(rows) else "1..T"),
            "cost:perm=" + ("numpy(ties)" if perms is not None else "model-sort")]
    for kd in set(c["kinds"]):
        tags.append("cost:col=" + kd)
    if c["special"]:
        tags.append("cost:special-floats-or-degenerate")
    monitored = False
    if res[0] == "ok":
        R = un[1] if un[0] == "ok" else None
        if spec is None:
            fs, monitored = definition_check(c, res[1], perms)
            findings += fs
            if monitored:
                tags.append("cost:definition-monitored")
                # which shapes of bad runs were seen
                import numpy
                a = numpy.array(rows); P = a.argsort(axis=0)
                hits = c["samples"] if c["samples"] is not None else len(rows)
                for p in range(n):
                    g = [bool(numpy.float64(costs[int(t)]) - numpy.float64(min(costs)) <= c["limit"]) for t in P[:, p]]
                    runs = bad_runs(g, hits) if any(g) else []
                    for (s, L) in runs:
                        tags.append("cost:badrun=" + ("lower-end" if s == 0 else "upper-end" if s + L == len(g) else "interior"))
                    if len(runs) >= 2:
                        tags.append("cost:badruns>=2")
            # own output as mask, directly and through CollapseCost -> collapsed -> update_mask -> state
            if res[1]:
                ordered = all(chain_ordered([(float(a_), float(b_)) for a_, b_ in v]) for v in res[1].values())
                own = spec_of_result(res[1])
                srng = _random.Random(len(rows) * 7919 + len(res[1]))
                for style in ("list", "bare", "odd"):
                    sp = respell(own, style, srng)
                    if style == "bare" and spec_spellings(sp) == {"list"}:
                        continue                                  # no single interval: same as 'list'
                    mobj = mk_mask(sp)
                    again = call(lambda: ct.collapse_cost(mon, mask=mobj, **kw))
                    if again[0] != "ok":
                        findings.append(("collapse_cost/own-output/raises" + ("" if style == "list" else "/" + spell_class(sp)),
                                         "own output %r as mask raised %r" % (mk_mask(sp), again)))
                    elif again[1]:
                        key = (K_OWN_DEGEN if not ordered else K_SPELL if style == "odd" else
                               "collapse_cost/own-output-reported-again" + ("" if style == "list" else "/" + spell_class(sp)))
                        findings.append((key, "collapse_cost(mask = its own output, spelled %r) reports %r (unmasked result %r)" % (
                            mk_mask(sp), again[1], res[1])))
                    tags.append("cost:own-output-checked:" + style + ("" if ordered else ":not-chain-ordered"))
                    if style != "list" and ordered and c["samples"] is not None:
                        findings += term_quiet(mon, kw, sp, "own-output", tags, K_SPELL_T if style == "odd" else None)
                if c["samples"] is not None:
                    findings += round_trip(mon, kw, None, res[1], None if ordered else K_OWN_DEGEN, tags)
        else:
            M = norm_spec(spec)
            # "minus those already in its mask": when the fresh bounds intersected with the mask ARE the mask (nothing meets
            # the test at all, or the mask is the detector's own output, or lies inside it) there is nothing new to report -
            # whatever accepted spelling the mask has.  E = the harness's own intersection (documented meaning).
            if R is not None:
                Rn = {k_: [(float(a_), float(b_)) for a_, b_ in v] for k_, v in R.items()}
                Mf = {k_: [(float(a_), float(b_)) for a_, b_ in v] for k_, v in M.items()}
                E = py_overlap(Rn, Mf)
                if E == Mf:
                    why = "nothing-meets-the-test" if not Rn else "own-output" if Rn == Mf else "mask-inside-fresh-bounds"
                    tags.append("cost:mask-adds-nothing:%s:%s" % (why, spell_class(spec)))
                    if res[1]:
                        # recorded class F63 only for its mechanism: a parameter the scan itself reports (the value
                        # compared at l.333 is a fresh list of tuples) whose mask value is spelled with another container
                        odd = any(k_ in Rn and v_[0] in ODD_SP for k_, v_ in spec) and canon(res[1]) == canon(E)
                        findings.append((K_SPELL if odd else "collapse_cost/mask-adds-nothing-but-reported/%s/%s" % (why, spell_class(spec)),
                                         "unmasked result %r, mask %s: the intersection with the mask IS the mask (nothing new), but collapse_cost(mask=..) reports %r instead of {}" % (
                                             R, shown, res[1])))
                    elif c["samples"] is not None:
                        findings += term_quiet(mon, kw, spec, why, tags)
            if res[1]:
                for k_, ivs in res[1].items():
                    for iv in ivs:
                        if k_ in M and not contained(iv, M[k_]):
                            findings.append(("collapse_cost/masked-result-outside-mask", "interval %r of key %r is not inside the mask %r" % (iv, k_, M[k_])))
                        if R is not None and k_ in R and not contained(iv, R[k_]):
                            findings.append(("collapse_cost/masked-result-outside-unmasked-result", "interval %r of key %r is not inside the unmasked result %r" % (iv, k_, R[k_])))
                    if k_ not in M and (R is None or k_ not in R):
                        findings.append(("collapse_cost/masked-result-new-key", "key %r is neither in the mask nor in the unmasked result" % (k_,)))
                tags.append("cost:mask-containment-checked")
                # the mask only grows: no key of the mask may disappear
                lost = [k_ for k_ in M if k_ not in res[1]]
                for k_ in lost:
                    if R is not None and k_ in R and not py_inter(M[k_], R[k_]):
                        findings.append((K_DROP, "mask %r, unmasked result %r: the intersection for parameter %r is empty and the parameter is DROPPED from the result %r (collapse.py l.329-332 never sees it: interval_overlap deleted the key), so the next round reports it afresh" % (M, R, k_, res[1])))
                        tags.append("cost:masked-parameter-dropped")
                    else:
                        findings.append(("collapse_cost/mask-key-lost", "key %r of the mask %r is not in the result %r" % (k_, M, res[1])))
                # second round: the result (= the new mask after update_mask) as mask reports nothing
                ordered = R is not None and all(chain_ordered([(float(a_), float(b_)) for a_, b_ in v]) for v in R.values())
                cls = K_DROP if lost else (K_OWN_DEGEN if not ordered else None)
                again = call(lambda: ct.collapse_cost(mon, mask=copy.deepcopy(res[1]), **kw))
                if again[0] != "ok":
                    findings.append((K_NONE if None in M and len(res[1]) > 1 else "collapse_cost/own-output/raises",
                                     "own output %r as mask raised %r" % (res[1], again)))
                elif again[1] and cls != K_DROP:
                    findings.append((cls or "collapse_cost/own-output-reported-again",
                                     "collapse_cost(mask = its own output %r) reports %r" % (res[1], again[1])))
                tags.append("cost:own-output-checked:masked" + ("" if ordered else ":not-chain-ordered"))
                if c["samples"] is not None and None not in M:
                    findings += round_trip(mon, kw, spec, res[1], cls, tags)
    for t in tags:
        bump(hist, t)
    return {"line": line, "impl": impl, "findings": findings, "args": {"rows": rows, "costs": costs, "kw": kw, "mask": shown},
            "nontrivial": res[0] == "ok" and bool(res[1]), "monitored": monitored}


def py_overlap(R, M):
    """the documented meaning of tools.interval_overlap(R, M): interval-wise intersection on common keys (a key whose
    intersection is empty is dropped, as the code does - recorded class F54), other keys of either side kept"""
    out = {}
    for k, v in R.items():
        if k in M:
            iv = py_inter(M[k], v)
            if iv:
                out[k] = iv
        else:
            out[k] = list(v)
    for k in M:
        if k not in R:
            out[k] = list(M[k])
    return out


def term_quiet(mon, kw, spec, why, tags, known=None):
    """termination level of 'the mask adds nothing': CollapseCost(.., mask) evaluated on the history (twice: the second
    evaluation sees the mask object as the first one left it) must not report"""
    from mystic import termination as mt
    out = []
    if not isinstance(kw["samples"], int) or len(mon.y) <= kw["samples"]:
        return out
    inst = _Inst(); inst.energy_history = mon.y; inst._stepmon = mon
    odd = known is not None
    try:
        mobj = mk_mask(spec)
        term = mt.CollapseCost(kw["clip"], kw["limit"], kw["samples"], mobj)
        for rnd in (1, 2):
            msg = term(inst, True)
            if msg:
                out.append((K_SPELL_T if odd else "CollapseCost/mask-adds-nothing-but-reported/%s/%s" % (why, spell_class(spec)),
                            "CollapseCost(clip=%r, limit=%r, samples=%r, mask=%r), evaluation #%d on a history where the mask adds nothing (%s): message %r" % (
                                kw["clip"], kw["limit"], kw["samples"], mk_mask(spec), rnd, why, msg)))
                break
            if bool(term(inst, False)):
                out.append((K_SPELL_T if odd else "CollapseCost/mask-adds-nothing-but-reported/%s/%s" % (why, spell_class(spec)),
                            "CollapseCost(.., mask=%r)(solver) is True although the mask adds nothing (%s)" % (mk_mask(spec), why)))
                break
        tags.append("cost:termination-quiet-checked:" + spell_class(spec))
    except Exception as e:     # noqa
        out.append(("CollapseCost/mask-adds-nothing/raises", "%s: %s" % (type(e).__name__, e)))
    return out


def round_trip(mon, kw, spec, result, cls, tags):
    """CollapseCost(..)(solver, info) -> collapse.collapsed -> mask.update_mask -> termination.state -> evaluated again"""
    from mystic import collapse as ct, termination as mt, mask as ma
    out = []
    inst = _Inst(); inst.energy_history = mon.y; inst._stepmon = mon
    try:
        term = mt.CollapseCost(kw["clip"], kw["limit"], kw["samples"], mk_mask(spec))
        msg = term(inst, True)
        if len(mon.y) <= kw["samples"]:
            if msg:
                out.append(("CollapseCost/reports-with-too-few-records", "history of %d <= samples %d but message %r" % (len(mon.y), kw["samples"], msg)))
            return out
        coll = ct.collapsed(msg) or {}
        if len(coll) != 1 or canon(list(coll.values())[0]) != canon(result):
            out.append(("CollapseCost/message-round-trip", "collapse_cost gave %r, the message round trip %r" % (result, coll)))
            return out
        before = list(mt.state(term).values())[0]
        new = ma.update_mask(term, coll)
        after = list(mt.state(new).values())[0]
        for kk in before:
            if kk != "mask" and repr(before[kk]) != repr(after.get(kk)):
                out.append(("update_mask/other-setting-changed/cost", "setting %s changed from %r to %r" % (kk, before[kk], after.get(kk))))
        if not isinstance(after.get("mask"), dict) or canon(after["mask"]) != canon(result):
            out.append(("update_mask/mask-is-not-the-applied-bounds/cost", "applied %r, mask afterwards %r" % (result, after.get("mask"))))
        msg2 = new(inst, True)
        if msg2 and cls != K_DROP:
            out.append((cls or "CollapseCost/reported-again", "after update_mask the condition still reports: %r" % (msg2,)))
        tags.append("cost:termination-round-trip")
    except Exception as e:     # noqa
        out.append(("CollapseCost/round-trip-raises", "%s: %s" % (type(e).__name__, e)))
    return out


def judge_cost(c, rep, add, case):
    r = parse_reply(rep)
    if r[0] == "bad-op":
        raise RuntimeError("driver answered bad-op for %s" % c["line"])
    if r[0] == "err":
        model = ("err", r[1])
    else:
        model = ("ok", canon_model(r[1]["res"]), sorted((str(kv[0]), str(kv[1])) for kv in r[1].get("after", [])))
    if model != tuple(c["impl"]):
        add("correspondence", "collapse_cost/diverges", "model %r, implementation %r" % (model, c["impl"]), case)
    elif r[0] == "ok" and r[1].get("sorted") != "true":
        add("correspondence", "collapse_cost/column-not-sorted", "the model's sorted column is not ascending: %r" % (rep,), case)
    return r


# ------------------------------------------------------------------ solver level
class CostLoopError(Exception):
    pass


def csolver_case(rng, hist, big=False):
    import numpy
    from mystic import solvers as ms, termination as mt, collapse as ct
    from mystic.monitors import Monitor
    nd = rng.choice([1, 2, 2, 3])
    solver_name = rng.choice(["DE", "DE2", "DE2", "NM", "Powell"])
    opt = [dyadic(rng, -2, 2, 4) for _ in range(nd)]
    # a high plateau in parameter i0 (and sometimes i1), away from the optimum
    plate = {}
    for i in rng.sample(range(nd), rng.choice([1, 1, 2]) if nd > 1 else 1):
        side = rng.choice([1.0, -1.0])
        a = opt[i] + side * rng.choice([1.0, 1.5, 2.0])
        b = a + side * rng.choice([2.0, 3.0, 50.0])
        plate[i] = (min(a, b), max(a, b))
    height = rng.choice([10.0, 100.0, 1e6])
    scale = rng.choice([1.0, 1.0, 0.25])

    def cost(x):
        v = scale * sum((x[k] - opt[k]) ** 2 for k in range(nd))    # far-away records are "high" as well
        for i, (a, b) in plate.items():
            if a < x[i] < b:
                v += height
        return v
    clip = rng.random() < 0.5
    limit = rng.choice([1.0, 5.0, 8.0])
    samples = rng.choice([2, 3, 4, 6])
    g = rng.choice([20, 30])
    stop = rng.choice(["cog", "ncog"])
    stopc = {"cog": mt.ChangeOverGeneration(1e-13, g), "ncog": mt.NormalizedChangeOverGeneration(1e-10, g)}[stop]
    # the condition's initial mask, in every spelling CollapseCost documents: None / the solver's own bounds exactly as
    # tools.solver_bounds gives them ({k: (lo, hi)}, bare tuples) / the same as lists of intervals / bounds for only some
    # of the parameters / containers the validation accepts beside the documented ones
    lo_b = [min(opt[k], plate.get(k, (0.0, 0.0))[0]) - rng.choice([4.0, 6.0, 50.0]) for k in range(nd)]
    hi_b = [max(opt[k], plate.get(k, (0.0, 0.0))[1]) + rng.choice([4.0, 6.0, 50.0]) for k in range(nd)]
    mk = rng.choice(["none", "none", "none", "solver-bounds", "solver-bounds", "solver-bounds", "bare", "list", "list", "partial-bare", "odd"])
    strict = mk == "solver-bounds" or (mk != "none" and rng.random() < 0.5)
    keys = list(range(nd))
    if mk == "partial-bare" and nd > 1:
        keys = sorted(rng.sample(range(nd), rng.randint(1, nd - 1)))
    mspec = None if mk == "none" else [(k, ("list", [(lo_b[k], hi_b[k])])) for k in keys]
    if mk in ("solver-bounds", "bare", "partial-bare"):
        mspec = respell(mspec, "bare")
    elif mk == "odd":
        mspec = respell(mspec, "odd", rng)
    order = [mt.CollapseCost(clip, limit, samples), stopc]      # replaced below once the solver (and its bounds) exists
    cpos = rng.randrange(2)
    seed = rng.randrange(2 ** 31)
    _random.seed(seed); numpy.random.seed(seed)
    calls = []; events = []; states = set()

    def cost_fn(x):
        calls.append([float(v) for v in x])
        return cost(x)
    if solver_name in ("DE", "DE2"):
        s = (ms.DifferentialEvolutionSolver if solver_name == "DE" else ms.DifferentialEvolutionSolver2)(nd, rng.choice([8, 12]))
    elif solver_name == "NM":
        s = ms.NelderMeadSimplexSolver(nd)
    else:
        s = ms.PowellDirectionalSolver(nd)
    # start inside / beyond a plateau so that the trajectory of best points crosses it
    i0 = sorted(plate)[0]
    x0 = [opt[k] + rng.choice([-0.5, 0.5]) for k in range(nd)]
    a, b = plate[i0]
    far = rng.random() < 0.6
    x0[i0] = (a + b) / 2.0 if not far else (b + rng.choice([0.5, 2.0]) if a > opt[i0] else a - rng.choice([0.5, 2.0]))
    if solver_name in ("DE", "DE2") and rng.random() < 0.5:
        s.SetRandomInitialPoints([min(opt[k], plate.get(k, (0, 0))[0]) - 3.0 for k in range(nd)],
                                 [max(opt[k], plate.get(k, (0, 0))[1]) + 3.0 for k in range(nd)])
        init = "random"
    else:
        s.SetInitialPoints(x0)
        init = "x0"
    if strict:
        s.SetStrictRanges(lo_b, hi_b)
    if mk == "solver-bounds":
        from mystic import tools as to
        try:
            imask = to.solver_bounds(s)                  # the documented producer of the bare form
        except ValueError:
            # solver_bounds tests `solver._strictMin or ..`, which raises for the arrays SetStrictRanges stores when
            # nDim > 1 (outside C11): build what it would return
            imask = dict(enumerate(zip(s._strictMin, s._strictMax)))
    else:
        imask = mk_mask(mspec)
    order = [stopc]; order.insert(cpos, mt.CollapseCost(clip, limit, samples, imask))
    term = mt.Or(*order)
    mode = rng.choice(["Solve", "Solve", "Step"])
    maxgen = (400 if big else 200) if solver_name != "Powell" else (40 if big else 25)
    s.SetEvaluationLimits(generations=maxgen)
    s.SetGenerationMonitor(Monitor())
    orig = s.Collapse

    def wrapped(disp=False):
        ncalls = len(calls)
        # a collapse right after a collapse, with no step in between, means the condition reported again although its
        # mask had just been updated with its own output; a long streak of them is cut off (the masks may keep changing)
        streak = 0
        for ev in reversed(events):
            if ev["collapse"] and ev["nsteps"] == len(s._stepmon) and ev["ncalls"] == ncalls:
                streak += 1
            else:
                break
        if streak > 6:
            raise CostLoopError("Collapse() #%d: %d collapses in a row without a step or an evaluation in between (the condition keeps reporting after update_mask)" % (len(events) + 1, streak))
        before = mt.state(s._termination)
        ncalls = len(calls)
        # Step() checks the termination BEFORE stepping: when the condition still reports after update_mask, Collapse() is
        # called again without any step in between.  The same (masks, history length, evaluations) twice = a cycle that
        # never ends (nothing else changes): stop the run here
        st = (repr(sorted((k_, repr(v_.get("mask"))) for k_, v_ in before.items())), len(s._stepmon), ncalls)
        if st in states:
            raise CostLoopError("Collapse() #%d finds the solver in a state it was in before (no step, no evaluation in between, same masks): the loop of _Solve never ends" % (len(events) + 1))
        states.add(st)
        snap = ([list(map(float, x_)) for x_ in s._stepmon._x], [float(y_) for y_ in s._stepmon._y])
        r = orig(disp)
        events.append({"ncalls": ncalls, "collapse": copy.deepcopy(r), "before": before, "after": mt.state(s._termination),
                       "gens": s.generations, "nsteps": len(s._stepmon), "snap": snap if r else None})
        return r
    s.Collapse = wrapped
    findings = []
    args = {"solver": solver_name, "nd": nd, "opt": opt, "plateau": {str(k): v for k, v in plate.items()}, "height": height, "scale": scale,
            "clip": clip, "limit": limit, "samples": samples, "stop": stop, "g": g, "seed": seed, "init": init, "x0": x0,
            "mask": repr(imask), "mask_kind": mk, "strict_ranges": [lo_b, hi_b] if strict else None, "mode": mode}
    bump(hist, "csolver:mask=%s:%s" % (mk, mode))
    cut = False
    try:
        with numpy.errstate(all="ignore"):
            if mode == "Solve":
                s.Solve(cost_fn, term)
            else:
                # step-wise: the caller looks at Collapsed() after every stop and applies it himself
                s.SetObjective(cost_fn); s.SetTermination(term)
                rounds = 0
                while True:
                    guard = 0
                    while not s.Step():
                        guard += 1
                        if guard > 4 * maxgen + 50:
                            break
                    rounds += 1
                    if guard > 4 * maxgen + 50 or rounds > 200:
                        cut = True                      # the harness's own loop gave up: 'Solve returns' is not judged
                        break
                    if not s.Collapsed() or not s.Collapse():
                        break
    except CostLoopError as e:
        cyc = [ev["collapse"] for ev in events[-4:] if ev["collapse"]]
        degen = any(not (float(a_) < float(b_)) for cl in cyc for v in cl.values() for ivs in v.values() for a_, b_ in ivs)
        lostk = any(k_ not in v for ev in events[-4:] if ev["collapse"] for key_, v in ev["collapse"].items()
                    for k_ in ((ev["before"].get(key_) or {}).get("mask") or {}))
        key = K_LOOP_DEGEN if degen else (K_LOOP_DROP if lostk else "csolver/collapse-loop-does-not-terminate")
        findings.append((key, "%s (last collapses: %r)" % (e, [repr(cl)[:300] for cl in cyc[-2:]])))
        args["events"] = [{"ncalls": e_["ncalls"], "collapse": repr(e_["collapse"]), "gens": e_["gens"]} for e_ in events[-3:]]
        return {"findings": findings, "tag": "csolver:%s:loop" % solver_name, "ncollapses": 0, "args": args}
    except Exception as e:     # noqa
        import traceback
        findings.append(("csolver/raises/%s" % solver_name, "Solve raised %s: %s" % (type(e).__name__, e)))
        args["trace"] = traceback.format_exc()[-800:]
        return {"findings": findings, "tag": "csolver:%s:raised" % solver_name, "ncollapses": 0, "args": args}
    ncoll = 0
    bounds = {}            # the bounds in force: key -> intervals (of the LAST applied collapse: it contains the older ones)
    seen = []
    dropped = set()        # parameters that disappeared from the mask (recorded class K_DROP_S): not checked afterwards
    stopped = False
    for ei, e in enumerate(events):
        coll = e["collapse"]
        if not coll:
            continue
        ncoll += 1
        for key, val in coll.items():
            if not key.startswith("CollapseCost"):
                findings.append(("csolver/unexpected-collapse-kind", "collapse key %r" % (key,)))
                continue
            kwb = e["before"].get(key)
            if kwb is None:
                findings.append(("csolver/collapse-key-not-in-termination", "collapse key %r is not a condition of the termination %r" % (key, list(e["before"]))))
                continue
            # "minus those already in its mask": the unmasked detector on the very history the solver had, intersected (by
            # the harness) with the mask the condition held - when that IS the mask there was nothing to stop for / apply
            if e.get("snap") and isinstance(kwb.get("mask"), dict):
                ref = call(lambda: ct.collapse_cost(make_monitor(*e["snap"]), clip, limit, samples))
                try:
                    Mf = {k_: [(float(a_), float(b_)) for a_, b_ in (v_ if hasattr(v_[0], "__len__") else [v_])] for k_, v_ in kwb["mask"].items()}
                except Exception:     # noqa
                    Mf = None
                if ref[0] == "ok" and Mf is not None:
                    Rn = {k_: [(float(a_), float(b_)) for a_, b_ in v_] for k_, v_ in ref[1].items()}
                    if py_overlap(Rn, Mf) == Mf:
                        why = "nothing-meets-the-test" if not Rn else "own-output" if Rn == Mf else "mask-inside-fresh-bounds"
                        first = ncoll == 1
                        known = first and mk == "odd" and any(k_ in Rn for k_ in Mf)
                        findings.append((K_SPELL_S if known else "csolver/spurious-collapse/mask-adds-nothing/%s/%s" % (
                            why, (spell_class(mspec) if mspec is not None else "None") if first else "mask-written-by-update_mask"),
                            "%s, %s() mode, Or(CollapseCost(clip=%r, limit=%r, samples=%r, mask=%s), %s): stopped at generation %d with the cost collapse %r, but the unmasked detector on the recorded history (%d records) finds %r, whose intersection with the mask %r is the mask itself: nothing new met the test" % (
                                solver_name, mode, clip, limit, samples, args["mask"] if first else repr(kwb["mask"]), stop, e["gens"], val, len(e["snap"][1]), ref[1], kwb["mask"])))
                    bump(hist, "csolver:collapse-justification-checked")
            after = [v for k2, v in e["after"].items() if k2.startswith("CollapseCost")]
            if len(after) != 1 or not isinstance(after[0].get("mask"), dict) or canon(after[0]["mask"]) != canon(val):
                findings.append(("csolver/mask-is-not-the-applied-bounds", "applied %r, masks afterwards %r" % (val, [a_.get("mask") for a_ in after])))
            old = {k_: (v_ if hasattr(v_[0], "__len__") else [v_]) for k_, v_ in (kwb.get("mask") or {}).items()}
            for k_ in old:
                if k_ not in val and k_ not in dropped:
                    dropped.add(k_)
                    findings.append((K_DROP_S, "cost collapse #%d: the mask before was %r, the applied bounds (= the mask afterwards) are %r: parameter %r is no longer bounded in the mask and will be reported afresh (collapse_cost drops a parameter whose new bounds do not meet its mask)" % (ncoll, old, val, k_)))
            if any(canon(val) == sv for sv in seen) and not dropped:
                findings.append(("csolver/reported-again", "the bounds %r were applied before" % (val,)))
            seen.append(canon(val))
            for k_, ivs in val.items():
                for iv in ivs:
                    if k_ in old and not contained((float(iv[0]), float(iv[1])), [(float(a_), float(b_)) for a_, b_ in old[k_]]):
                        findings.append(("csolver/new-bounds-outside-old-mask", "interval %r of parameter %r is not inside the previous mask %r" % (iv, k_, old[k_])))
            bounds = {int(k_): [(float(a_), float(b_)) for a_, b_ in v] for k_, v in val.items()}
        if stopped:
            continue
        nxt = next((e2["ncalls"] for e2 in events[ei + 1:] if e2["collapse"]), len(calls))
        for j in range(e["ncalls"], nxt):
            x = calls[j]
            badp = [p for p, ivs in bounds.items() if p < len(x) and p not in dropped and not inside(ivs, x[p], False)]
            if badp:
                findings.append(("csolver/evaluated-point-outside-applied-bounds",
                                 "cost argument #%d %r after cost collapse #%d: x[%d] is outside the applied bounds %r" % (j, x, ncoll, badp[0], bounds[badp[0]])))
                stopped = True
                break
    final = [float(v) for v in s.bestSolution]
    if ncoll and bounds:
        shown = final
        if solver_name == "NM":
            shown = [float(v) for v in s._constraints(list(final))]       # recorded finding F3 of C01/C03
        badp = [p for p, ivs in bounds.items() if p < len(shown) and p not in dropped and not inside(ivs, shown[p], False)]
        if badp:
            lastc = max(e["ncalls"] for e in events if e["collapse"])
            key = "csolver/final-solution-outside-applied-bounds"
            if solver_name != "NM" and final in calls[:lastc] and final not in calls[lastc:]:
                key = "solver/final-solution/pre-collapse-best-survives"
            findings.append((key, "final solution %r: x[%d] is outside the applied bounds %r" % (final, badp[0], bounds[badp[0]])))
    if cut:
        bump(hist, "csolver:step-mode-cut-off")
    elif not s.Terminated(info=True):
        findings.append(("csolver/solve-returned-unterminated", "Solve returned but Terminated() is false"))
    args.update({"final": final, "ncalls": len(calls),
                 "events": [{"ncalls": e["ncalls"], "collapse": repr(e["collapse"]), "gens": e["gens"]} for e in events if e["collapse"]][:6]})
    return {"findings": findings, "tag": "csolver:%s:clip=%s:%d-collapses" % (solver_name, clip, min(ncoll, 3)), "ncollapses": ncoll, "args": args}
