"""C08 - the Nelder-Mead streams: start points, tolerances and limits over the WHOLE float / integer range the property
quantifies over, three routes into the real code, and the monitors of the Nelder-Mead clause.

Why this module exists: every float comparison of the simplex code has neighbours that an O(1) start-point generator
never produces -
  * `val[val==0] = zdelt` (scipy_optimize.py l.136-137; reference l.196-201 `if y[k] != 0`): EXACT zeros of either sign
    get the absolute offset, everything else - round-off "zeros" such as 0.1+0.2-0.3, 1e-9, 1e-300, denormals - is
    displaced relatively.  Neighbours: -0.0, the tolerances in common use for "is it zero" (1e-8, 1e-5, sqrt(eps),
    eps) one ulp either side, the smallest normal and denormal numbers, and at the other end coordinates beyond
    2**53, 1e154 (squares overflow) and max/1.05 (the displaced coordinate overflows);
  * `max|sim[1:]-sim[0]| <= xtol and max|fsim[0]-fsim[1:]| <= ftol` (termination.py l.261-262; reference l.215-216):
    equality at the tolerance, one ulp either side, tolerances 0, denormal, inf;  `if xtol:` (scipy_optimize.py l.503)
    selects ANOTHER stop rule for xtol == 0.0;
  * `fcalls < maxfun and iterations < maxiter`: limits exactly at, one below and one above the counts a run passes.
Routes: the one-liner `fmin`, the solver class (SetInitialPoints / SetEvaluationLimits / Solve(termination=CRT)),
the in-repo reference `_scipy060optimize.fmin`, and the reference's own code object with the ONE constant `zdelt`
replaced by mystic's `0.05**2*0.1` (the exact statement for starts with an exactly-zero coordinate)."""
import math, types
import numpy as np
import dsl, solvergen
from common import dyadic, same_float, same_vec

ZDELT_REF = 0.00025
RADIUS = 0.05
ZDELT_MYSTIC = (RADIUS ** 2) * 0.1          # scipy_optimize.py l.137: one ulp above the reference's 0.00025
NONZ = 1 + 0.05                             # reference l.197 `(1+nonzdelt)`, mystic l.136 `(1+radius)`
MAXF = 1.7976931348623157e308
MINNORM = 2.2250738585072014e-308
DENORM = 5e-324
INF = math.inf

ROUNDOFF = [0.1 + 0.2 - 0.3, 1.0 - 0.9 - 0.1, 0.3 - 0.1 - 0.2, 0.1 * 3 - 0.3, math.sin(math.pi), 1.1 + 2.2 - 3.3,
            2.0 ** -52, 2.0 ** -53, 1e-16, 4.9 - 4.8 - 0.1]
ZERO_TOLS = [1e-8, 1e-8, 1e-8, 1e-5, 1.4901161193847656e-08, 2.220446049250313e-16, 1e-10, 1e-12, 1e-7, 1e-9, 1e-6,
             1e-15, 1e-4, ZDELT_REF, ZDELT_REF / NONZ, 1e-3]


def hadd(h, k, n=1):
    h[k] = h.get(k, 0) + n


def vec(x):
    return [float(v) for v in np.asarray(x, dtype=float).ravel()]


def feq(a, b):
    return (a == b) or (a != a and b != b)


def veq(a, b):
    return len(a) == len(b) and all(feq(p, q) for p, q in zip(a, b))


def close(a, b, rel=1e-6, ab=1e-9):
    return feq(a, b) or abs(a - b) <= ab + rel * max(abs(a), abs(b))


# ====================================================================================== coordinates
def tiny_coord(rng):
    """non-zero magnitudes from the denormals up to 1e-3, concentrated where "is it zero" tests usually cut"""
    k = rng.random()
    if k < 0.13:
        v = rng.choice(ROUNDOFF)
    elif k < 0.36:
        t = rng.choice(ZERO_TOLS)
        v = rng.choice([t, math.nextafter(t, 0.0), math.nextafter(t, 1.0), t * rng.uniform(0.5, 2.0), t * 0.99, t * 1.01])
    elif k < 0.72:
        v = rng.uniform(1.0, 10.0) * 10.0 ** -rng.randint(3, 30)
    elif k < 0.86:
        v = rng.uniform(1.0, 10.0) * 10.0 ** -rng.choice([40, 60, 100, 150, 162, 200, 250, 300, 305, 307])
    else:
        v = rng.choice([MINNORM, math.nextafter(MINNORM, 0.0), math.nextafter(MINNORM, 1.0), DENORM, 2 * DENORM,
                        DENORM * rng.randint(1, 2 ** 20), 2.0 ** -1060, 1e-310, 3e-320, MINNORM / NONZ])
    return -abs(v) if rng.random() < 0.4 else abs(v)


def huge_coord(rng):
    """magnitudes from 1e3 to the largest float: beyond 2**53 (ulp > 1), 1e154 (squares overflow), max/1.05"""
    k = rng.random()
    if k < 0.45:
        v = rng.uniform(1.0, 10.0) * 10.0 ** rng.randint(3, 22)
    elif k < 0.62:
        p = float(2 ** rng.choice([24, 31, 32, 52, 53, 54, 63, 64, 100, 512, 1000, 1023]))
        v = rng.choice([p, math.nextafter(p, 0.0), math.nextafter(p, INF)])
    elif k < 0.9:
        v = rng.uniform(1.0, 10.0) * 10.0 ** rng.choice([30, 50, 100, 150, 153, 154, 155, 200, 250, 300, 306, 307])
    else:
        e = MAXF / NONZ
        v = rng.choice([MAXF, e, math.nextafter(e, INF), math.nextafter(e, 0.0), MAXF / 2, MAXF / 4.2, MAXF / 3])
    return -v if rng.random() < 0.4 else v


def ordinary_coord(rng):
    q = rng.random()
    if q < 0.07:
        return 0.0
    if q < 0.4:
        return dyadic(rng, -4, 4, 4) or 1.0
    if q < 0.5:
        return float(rng.randint(-3, 3)) or -1.0
    return rng.uniform(-5, 5)


def coord_class(x):
    """configuration class of one start coordinate (used in class keys and the coverage histogram)"""
    a = abs(x)
    if a != a:
        return "nan"
    if a == 0.0:
        return "neg-zero" if math.copysign(1.0, x) < 0 else "zero"
    if a < MINNORM:
        return "denormal"
    if a < 1e-30:
        return "tiny<1e-30"
    if a < 1e-8:
        return "tiny<1e-8"
    if a < 1e-3:
        return "small<1e-3"
    if a <= 1e3:
        return "ordinary"
    if a <= 2.0 ** 53:
        return "large<=2^53"
    if a < 1e154:
        return "huge<1e154"
    if a == INF:
        return "inf"
    return "huge>=1e154"


def gen_x0(rng, dim, flavour):
    if flavour == "ordinary":
        return [ordinary_coord(rng) for _ in range(dim)]
    pick = {"tiny": lambda: rng.choice([0.0, -0.0]) if rng.random() < 0.16 else tiny_coord(rng),
            "huge": lambda: huge_coord(rng),
            "mixed": lambda: rng.choice([tiny_coord, huge_coord, ordinary_coord])(rng)}[flavour]
    x0 = [pick() if rng.random() < 0.65 else ordinary_coord(rng) for _ in range(dim)]
    x0[rng.randrange(dim)] = pick()
    return x0


def scale_of(x):
    """a power of two at the magnitude of x (1 for zeros and non-finite values)"""
    a = abs(x)
    if a == 0.0 or a != a or a == INF:
        return 1.0
    return math.ldexp(1.0, min(math.frexp(a)[1], 1023))


def scaled_cost(rng, x0):
    """an objective whose features live at the scale of the start point: sum of |.| or (.)^2 of (x_i - t_i)/s_i with s_i a
    power of two near |x0_i| and the target a small multiple of x0_i (the generic costs see a tiny coordinate as 0 and
    overflow on a huge one)"""
    terms = []
    for i, x in enumerate(x0):
        s = scale_of(x)
        t = x * rng.choice([0.0, 0.5, 2.0, -1.0, 1.0, 3.0, 0.75]) if rng.random() < 0.7 else s * dyadic(rng, -2, 2, 4)
        if t != t or abs(t) == INF:
            t = 0.0
        terms.append((rng.choice(["abs", "sq", "sq"]), ("/", ("-", ("x", i), ("c", t)), ("c", s))))
    return ("sum",) + tuple(terms)


# ====================================================================================== cases
def gen_nm_case(rng, tier):
    dim = rng.randint(1, 4 if tier == "quick" else 8)
    if rng.random() < 0.12:
        dim = 1                     # the one-dimensional simplex: xbar = the best vertex, adaptive sigma = 0, psi = 1/4, chi = 3
    flavour = rng.choice(["ordinary"] * 10 + ["tiny"] * 5 + ["huge"] * 2 + ["mixed"] * 3)
    x0 = gen_x0(rng, dim, flavour)
    k = rng.random()
    if flavour == "ordinary" and rng.random() < 0.22:
        e = rippled_cost(rng, dim); k = 2.0
    if k == 2.0:
        pass
    elif k < 0.12:
        e = ("sum",) + tuple(("abs", ("x", i)) for i in range(dim))            # symmetric: exact ties
    elif k < 0.16:
        e = ("sum",) + tuple(("sq", ("rint", ("x", i))) for i in range(dim))   # plateaus
    elif k < 0.24:
        # staircases with wide or narrow steps around the start: reflected, expanded and contracted points land on the
        # SAME step (fxe == fxr, fxc == fxr, fxcc == fsim[-1]: the inputs on which `<` and `<=` differ)
        sc = rng.choice([0.125, 0.25, 0.5, 2.0, 4.0])
        e = ("sum",) + tuple((rng.choice(["sq", "abs"]), ("rint", ("*", ("c", sc), ("-", ("x", i), ("c", dyadic(rng, -3, 3, 2))))))
                             for i in range(dim))
    elif flavour != "ordinary" and k < (0.75 if flavour == "huge" else 0.5):
        e = scaled_cost(rng, x0)
    else:
        e = solvergen.gen_cost(rng, dim, allow_vector=False)[1]
    xtol = rng.choice([1e-4, 1e-4, 1e-2, 1e-6, 1e-8, 0.5]); ftol = rng.choice([1e-4, 1e-4, 1e-2, 1e-6, 1e-10, 0.5])
    if flavour != "ordinary" and rng.random() < 0.4:
        xtol = xtol * scale_of(rng.choice(x0))          # a tolerance at the scale of the coordinates
        if xtol == INF:
            xtol = MAXF
    q = rng.random()
    if q < 0.05:
        xtol = rng.choice([0.0, 0.0, DENORM, 1e-300, 1e-17, INF, 1e300])       # `if xtol:` / nothing is ever <= 0 but 0
    elif q < 0.09:
        ftol = rng.choice([0.0, 0.0, DENORM, 1e-300, 1e-17, INF, 1e300])
    maxiter = rng.choice([None] * 12 + [0, 1, 2, 3, 5, 10, 40]); maxfun = rng.choice([None] * 12 + [0, 1, 2, 3, dim + 1, dim + 2, 10, 50])
    kind = rng.choice(["list"] * 6 + ["tuple", "ndarray", "int"])
    if kind == "int" and not all(abs(v) < 2 ** 53 and v == math.floor(v) for v in x0):
        kind = "list"
    if kind == "int":
        x0 = [float(int(v)) for v in x0]          # what the callee sees: the int 0 for a -0.0
    c = {"dim": dim, "expr": e, "x0": x0, "xtol": xtol, "ftol": ftol, "maxiter": maxiter, "maxfun": maxfun,
         "flavour": flavour, "x0kind": kind, "boundary": None, "adaptive": False, "radius": None, "via": None}
    # the solver's own keywords (Solve(adaptive=, radius=) or the sticky attributes): the dimension-adaptive coefficient
    # set of Gao & Han and the size of the initial simplex.  Drawn BEFORE the boundary probe so that the probe runs the
    # configuration of the case.
    q = rng.random()
    if q < 0.30:
        c["adaptive"] = rng.choice([True, True, True, 1])
    if rng.random() < 0.22:
        c["radius"] = rng.choice([0.05, 0.1, 0.5, 1.0, 0.01, 0.25, 2.0, 1e-3, 0.025, 0.125, rng.uniform(0.001, 1.0), rng.uniform(0.001, 1.0),
                                  -0.5, -0.25, 1e-8, 0.0, 10.0])
    if c["radius"] is not None and any(v != 0 and (1 + c["radius"]) * v == 0 for v in x0):
        c["radius"] = abs(c["radius"])      # a denormal coordinate times (1+radius) < 1 rounds to zero: `val == 0` then sees the product (not generated)
    if c["adaptive"] or c["radius"] is not None:
        c["via"] = rng.choice(["solve-kwds", "solve-kwds", "attributes"])
    if rng.random() < 0.14:
        boundary_case(rng, c)
    return c


def rippled_cost(rng, dim):
    """objectives that are NOT unimodal along a line - the inputs on which an inside contraction fails and the simplex
    shrinks (scipy_optimize.py l.333-341): a bowl plus a triangle wave, a sawtooth (discontinuous), double wells, and a
    bowl with narrow notches.  Built from the DSL's abs / rint / min / max, so the Lean twin evaluates them too."""
    fam = rng.choice(["triangle", "triangle", "sawtooth", "double-well", "notches", "triangle-only"])
    terms = []
    for i in range(dim):
        cst = dyadic(rng, -3, 3, 4); x = ("x", i)
        w = rng.choice([0.5, 0.5, 0.01, 1.0, 0.1]); amp = rng.choice([0.5, 2.0, 0.1, 5.0, 1.0]); fr = rng.choice([1.0, 2.5, 10.0, 40.0, 5.0, 0.75])
        t = ("*", ("c", fr), ("-", x, ("c", dyadic(rng, -1, 1, 4))))
        bowl = ("*", ("c", w), ("sq", ("-", x, ("c", cst))))
        if fam == "triangle":
            terms += [bowl, ("*", ("c", amp), ("abs", ("-", t, ("rint", t))))]
        elif fam == "triangle-only":
            terms += [("*", ("c", 0.001 * w), ("abs", ("-", x, ("c", cst)))), ("*", ("c", amp), ("abs", ("-", t, ("rint", t))))]
        elif fam == "sawtooth":
            terms += [bowl, ("*", ("c", amp), ("-", t, ("rint", t)))]
        elif fam == "double-well":
            b2 = cst + rng.choice([1.0, 2.5, -3.0, 0.5])
            terms.append(("min", ("sq", ("-", x, ("c", cst))), ("+", ("*", ("c", rng.choice([1.0, 4.0, 0.25])), ("sq", ("-", x, ("c", b2)))), ("c", rng.choice([0.5, -0.5, 0.0, 2.0])))))
        else:
            terms += [bowl, ("neg", ("*", ("c", amp), ("max", ("c", 0.0), ("-", ("c", 0.25), ("abs", ("-", t, ("rint", t)))))))]
    return ("sum",) + tuple(terms)


def boundary_case(rng, c):
    """put a tolerance / limit EXACTLY on a value the run passes (and one ulp / one count either side): probe the real
    solver stepped without a stop rule, record after every iteration the two quantities the convergence test compares
    and the number of cost calls, then choose xtol = dx_j, ftol = df_j (both `<=` hold with equality at iteration j) or
    maxfun / maxiter at the counts of iteration j"""
    probe = probe_run(c, 4 + rng.randrange(22))
    if len(probe) < 2:
        return
    j = rng.randrange(1, len(probe))
    dx, df, ncalls = probe[j]
    what = rng.choice(["tol", "tol", "tol", "maxfun", "maxiter"])
    if what == "tol":
        if not (dx == dx and df == df and 0.0 < dx < INF and df < INF):
            return
        vx = rng.choice(["eq", "eq", "below", "above"]); vf = rng.choice(["eq", "eq", "eq", "below", "above"])
        if vx != "eq" and vf != "eq":
            vf = "eq"
        c["xtol"] = {"eq": dx, "below": math.nextafter(dx, 0.0), "above": math.nextafter(dx, INF)}[vx]
        c["ftol"] = {"eq": df, "below": math.nextafter(df, -1.0), "above": math.nextafter(df, INF)}[vf]
        if c["xtol"] == 0.0:
            c["xtol"] = dx
        c["maxiter"] = None; c["maxfun"] = None
        c["boundary"] = "tol:x%s:f%s" % (vx, vf)
    elif what == "maxfun":
        d = rng.choice([0, 0, -1, 1])
        c["maxfun"] = max(ncalls + d, 0); c["maxiter"] = None
        c["xtol"] = min(c["xtol"], 1e-8) or 1e-8; c["ftol"] = min(c["ftol"], 1e-10)
        c["boundary"] = "maxfun:%+d" % d
    else:
        d = rng.choice([0, 0, -1, 1])
        c["maxiter"] = max(j + d, 0); c["maxfun"] = None          # after iteration j the reference's counter is j
        c["xtol"] = min(c["xtol"], 1e-8) or 1e-8; c["ftol"] = min(c["ftol"], 1e-10)
        c["boundary"] = "maxiter:%+d" % d


def probe_run(c, nsteps):
    """[(max|sim[1:]-sim[0]|, max|fsim[0]-fsim[1:]|, cost calls so far)] after generation 1, 2, ... of the real solver
    stepped with no stop rule (index 0 = the bare guess; unusable)"""
    from mystic.solvers import NelderMeadSimplexSolver
    from mystic.termination import VTR
    e = c["expr"]; n = [0]

    def cost(x):
        n[0] += 1
        return dsl.ev(e, vec(x))
    out = []
    try:
        s = NelderMeadSimplexSolver(c["dim"])
        s.SetInitialPoints(list(c["x0"]))
        s.SetEvaluationLimits(10 ** 6, 10 ** 7)
        s.SetTermination(VTR(-INF, 0.0))
        if c.get("adaptive"):
            s.adaptive = c["adaptive"]
        if c.get("radius") is not None:
            s.radius = c["radius"]
        old = np.seterr(all="ignore")
        try:
            for g in range(nsteps + 1):
                s.Step(cost)
                sim = np.array(s.population, dtype=float); fsim = np.array(s.popEnergy, dtype=float)
                if g == 0:
                    out.append((float("nan"), float("nan"), n[0])); continue
                out.append((float(max(np.ravel(abs(sim[1:] - sim[0])))), float(max(abs(fsim[0] - fsim[1:]))), n[0]))
        finally:
            np.seterr(**old)
    except Exception:
        return out
    return out


def x0_arg(c):
    k = c.get("x0kind", "list")
    if k == "tuple":
        return tuple(c["x0"])
    if k == "ndarray":
        return np.array(c["x0"], dtype=float)
    if k == "int":
        return [int(v) for v in c["x0"]]
    return list(c["x0"])


def given_x0(c):
    """the start point as float64, as the callee sees it (a -0.0 handed over as the int 0 is +0.0)"""
    return [float(v) for v in x0_arg(c)]


# ====================================================================================== routes into the real code
_REFZ = {}


def ref_with_zdelt(z):
    """the reference's OWN code object with the one constant 0.00025 replaced by z (None if the constant is not there
    exactly once): "the reference algorithm with mystic's initial-simplex constant" without any transcription"""
    if z in _REFZ:
        return _REFZ[z]
    from mystic import _scipy060optimize as REF
    code = REF.fmin.__code__
    hits = [k for k in code.co_consts if isinstance(k, float) and k == ZDELT_REF]
    fn = None
    if len(hits) == 1:
        consts = tuple(z if (isinstance(k, float) and k == ZDELT_REF) else k for k in code.co_consts)
        fn = types.FunctionType(code.replace(co_consts=consts), REF.fmin.__globals__, "fmin", REF.fmin.__defaults__,
                                REF.fmin.__closure__)
    _REFZ[z] = fn
    return fn


_REFVAR = {}


def ref_variant():
    """the reference's OWN source (`_scipy060optimize.fmin`) with three assignments parametrised - the coefficient line
    `rho = 1; chi = 2; psi = 0.5; sigma = 0.5;` and the two initial-simplex constants - and nothing else touched (None if one
    of the three lines is not there exactly once).  Returns call(coef, nonzdelt, zdelt) -> fmin-like function."""
    if "fn" in _REFVAR:
        return _REFVAR["fn"]
    import inspect
    from mystic import _scipy060optimize as REF
    fn = None
    try:
        src = inspect.getsource(REF.fmin)
        pats = [("rho = 1; chi = 2; psi = 0.5; sigma = 0.5;", "rho, chi, psi, sigma = __nm_coef__"),
                ("    nonzdelt = 0.05\n", "    nonzdelt = __nm_nonzdelt__\n"), ("    zdelt = 0.00025\n", "    zdelt = __nm_zdelt__\n")]
        if all(src.count(a) == 1 for a, _ in pats):
            for a, b in pats:
                src = src.replace(a, b)
            g = dict(REF.__dict__)
            exec(compile(src, "<_scipy060optimize.fmin, coefficients and initial-simplex constants parametrised>", "exec"), g)

            def fn(coef, nonzdelt, zdelt, g=g):
                def call(*a, **kw):
                    g["__nm_coef__"] = coef; g["__nm_nonzdelt__"] = nonzdelt; g["__nm_zdelt__"] = zdelt
                    return g["fmin"](*a, **kw)
                return call
    except Exception:
        fn = None
    _REFVAR["fn"] = fn
    return fn


def published_coef(adaptive, n):
    """(rho, chi, psi, sigma): the standard set, or - adaptive - the dimension-dependent set of Gao & Han, 'Implementing the
    Nelder-Mead simplex algorithm with adaptive parameters' (2012), as scipy.optimize's Nelder-Mead computes it"""
    if not adaptive:
        return (1, 2, 0.5, 0.5)
    dim = float(n)
    return (1, 1 + 2 / dim, 0.75 - 1 / (2 * dim), 1 - 1 / dim)


def nonstandard(c):
    return bool(c.get("adaptive")) or c.get("radius") is not None


def mystic_zdelt(c):
    r = c.get("radius")
    return ZDELT_MYSTIC if r is None else (r ** 2) * 0.1            # scipy_optimize.py l.137, python's own `**`


def run_scipy_nm(c):
    """the installed scipy's Nelder-Mead (an independent implementation of the published algorithm), or None"""
    try:
        from scipy.optimize import minimize
    except Exception:
        return None
    pts = []; ys = []
    e = c["expr"]

    def cost(x):
        xv = vec(x); y = dsl.ev(e, xv); pts.append(xv); ys.append(y); return y
    N = len(c["x0"])
    old = np.seterr(all="ignore")
    try:
        r = minimize(cost, np.array(given_x0(c), dtype=float), method="Nelder-Mead",
                     options=dict(xatol=c["xtol"], fatol=c["ftol"], maxiter=c["maxiter"] if c["maxiter"] is not None else N * 200,
                                  maxfev=c["maxfun"] if c["maxfun"] is not None else N * 200, adaptive=bool(c.get("adaptive")), disp=False))
    except Exception:
        return None
    finally:
        np.seterr(**old)
    return {"x": vec(r.x), "f": float(r.fun), "iter": int(r.nit), "fcalls": int(r.nfev), "status": int(r.status), "ncalls": len(pts),
            "pts": pts, "ys": ys, "nan": any(y != y or abs(y) == INF for y in ys)}


def run_nm(which, c):
    """which: 'fmin' (one-liner) | 'solver' (the class, as fmin drives it but with CandidateRelativeTolerance given
    explicitly) | 'ref' | 'refz' (reference with mystic's zdelt).  Records every cost call."""
    from mystic import _scipy060optimize as REF
    pts = []; ys = []
    e = c["expr"]

    def cost(x):
        xv = vec(x); y = dsl.ev(e, xv); pts.append(xv); ys.append(y); return y
    x0 = x0_arg(c)
    old = np.seterr(all="ignore")           # overflow / invalid in the vertex arithmetic of huge starts: IEEE results, no warnings
    try:
        if which == "solver":
            from mystic.solvers import NelderMeadSimplexSolver
            from mystic.termination import CandidateRelativeTolerance as CRT
            s = NelderMeadSimplexSolver(len(x0))
            s.SetInitialPoints(x0)
            s.SetEvaluationLimits(c["maxiter"], c["maxfun"])
            skw = {}
            if c.get("via") == "attributes":
                if c.get("adaptive"):
                    s.adaptive = c["adaptive"]
                if c.get("radius") is not None:
                    s.radius = c["radius"]
            else:
                if c.get("adaptive"):
                    skw["adaptive"] = c["adaptive"]
                if c.get("radius") is not None:
                    skw["radius"] = c["radius"]
            s.Solve(cost, termination=CRT(c["xtol"], c["ftol"]), disp=0, **skw)
            x, f, it, fc = s.bestSolution, s.bestEnergy, s.generations, s.evaluations
            wf = 1 if fc >= s._maxfun else (2 if it >= s._maxiter else 0)       # as fmin reports it (l.534-537)
        else:
            if which == "fmin":
                from mystic.solvers import fmin as fn
            elif which == "refvar-defaults":
                fn = ref_variant()(published_coef(False, len(x0)), 0.05, ZDELT_REF)      # must be the reference itself
            elif nonstandard(c):
                # the published algorithm for this configuration: Gao-Han coefficients when adaptive; the initial simplex
                # displaced by `radius` (mystic's name for nonzdelt) with mystic's radius**2 * 0.1 for exact zeros
                r = c.get("radius")
                coef = published_coef(c.get("adaptive"), len(x0))
                if r is None:
                    fn = ref_variant()(coef, 0.05, ZDELT_REF if which == "ref" else ZDELT_MYSTIC)
                else:
                    fn = ref_variant()(coef, r, mystic_zdelt(c))
            elif which == "ref":
                fn = REF.fmin
            else:
                fn = ref_with_zdelt(ZDELT_MYSTIC)
            x, f, it, fc, wf = fn(cost, x0, xtol=c["xtol"], ftol=c["ftol"], maxiter=c["maxiter"], maxfun=c["maxfun"],
                                  full_output=1, disp=0)
    finally:
        np.seterr(**old)
    return {"x": vec(x), "f": float(f), "iter": int(it), "fcalls": int(fc), "warn": int(wf), "ncalls": len(pts),
            "nan": any(y != y or abs(y) == INF for y in ys), "pts": pts, "ys": ys}


def public(r):
    return {k: v for k, v in r.items() if k not in ("pts", "ys")}


# ====================================================================================== monitors
def started(c):
    """does mystic go on to build the simplex (Props/C08 `nm_start_iff`): maxfun > 1, maxiter > 0 and the convergence test
    false on the generation-0 population - the guess, N rows of zeros, energies inf: it holds there only for ftol = inf
    with the guess within xtol of the origin"""
    if not ((c["maxfun"] is None or c["maxfun"] > 1) and (c["maxiter"] is None or c["maxiter"] > 0)):
        return False
    return not (c["ftol"] == INF and max(abs(float(v)) for v in c["x0"]) <= c["xtol"])


def init_simplex_monitor(c, r, who, zdelts, hist):
    """the published initial simplex, judged on the cost calls the real code made: call 0 at x0, call k+1 at x0 with
    coordinate k displaced - by the factor (1+0.05) unless that coordinate is EXACTLY zero (either sign), then set to
    zdelt.  Independent of the objective's values (so also judged on runs whose energies are inf / NaN)."""
    x0 = given_x0(c); N = len(x0)
    pts = r["pts"]
    rad = c.get("radius")
    nonz = NONZ if rad is None else 1 + rad
    rule = "(1+0.05)" if rad is None else "(1+radius)"
    if rad is not None:
        zdelts = [mystic_zdelt(c)]
        if any(v != 0 and nonz * v == 0 for v in x0):
            hadd(hist, "nm:radius:displaced-coordinate-vanishes(radius=-1 or underflow)")      # `val == 0` sees the product
            return []
    if len(pts) < N + 1:
        return [("%s/initial-simplex/too-few-evaluations" % who, "only %d cost calls for a simplex of %d vertices (x0=%r)" % (len(pts), N + 1, x0))]
    if not same_vec(pts[0], x0):
        return [("%s/initial-simplex/first-call-not-at-x0" % who, "first cost call at %r, x0=%r" % (pts[0], x0))]
    for k in range(N):
        want = [list(x0)]
        if x0[k] != 0:
            want[0][k] = nonz * x0[k]
        else:
            want = []
            for z in zdelts:
                w = list(x0); w[k] = z; want.append(w)
        if not any(same_vec(pts[k + 1], w) for w in want):
            return [("%s/initial-simplex/%s-coordinate%s" % (who, coord_class(x0[k]), "" if rad is None else "/radius-given"),
                     "vertex %d of the initial simplex was evaluated at %r; x0=%r, so coordinate %d must be %s = %r"
                     % (k + 1, pts[k + 1], x0, k, "%s*x0[%d]" % (rule, k) if x0[k] != 0 else "zdelt", [w[k] for w in want]))]
    return []


def first_diff(a, b):
    """index of the first cost call where two runs differ (point or value), None if one is a prefix of the other"""
    for i in range(min(len(a["pts"]), len(b["pts"]))):
        if not (same_vec(a["pts"][i], b["pts"][i]) and feq(a["ys"][i], b["ys"][i])):
            return i
    return None


def result_eq(a, b, with_f=True):
    return veq(a["x"], b["x"]) and (feq(a["f"], b["f"]) or not with_f) and (a["iter"], a["fcalls"], a["warn"]) == (b["iter"], b["fcalls"], b["warn"])


def describe(r):
    return "x=%r f=%r (iter, funcalls, warnflag)=%r" % (r["x"], r["f"], (r["iter"], r["fcalls"], r["warn"]))


def nm_monitor(c, route, a, b, bz, hist):
    """the real Nelder-Mead (a; route 'fmin' or 'solver') against the reference (b) and, for starts with an exactly-zero
    coordinate, against the reference run with mystic's zdelt (bz): minimizer, minimum, iteration and evaluation
    counts, warnflag and - step for step - every point the objective was evaluated at.  Returns (findings, nontrivial)"""
    out = []
    who = "fmin" if route == "fmin" else "NelderMeadSimplexSolver"
    x0 = given_x0(c)
    zero = any(v == 0.0 for v in x0)
    for v in x0:
        hadd(hist, "nm:x0-coordinate:%s" % coord_class(v))
    hadd(hist, "nm:route:%s" % route); hadd(hist, "nm:flavour:%s" % c.get("flavour")); hadd(hist, "nm:x0-given-as:%s" % c.get("x0kind"))
    if c.get("boundary"):
        hadd(hist, "nm:boundary:%s" % c["boundary"])
    N = len(x0)
    cfg = ""
    if c.get("adaptive"):
        ncl = "n=1" if N == 1 else ("n=2" if N == 2 else "n>=3")          # sigma = 0 | the standard set again | all four differ
        cfg += "/adaptive-coefficients(%s)" % ncl
        hadd(hist, "nm:adaptive:%s" % ncl)
    if c.get("radius") is not None:
        cfg += "/radius-given"
        hadd(hist, "nm:radius:%s" % ("default-value" if c["radius"] == 0.05 else ("zero" if c["radius"] == 0 else ("negative" if c["radius"] < 0 else "other"))))
    if c.get("via"):
        hadd(hist, "nm:keywords-via:%s" % c["via"])
    hadd(hist, "nm:dim:%s" % (N if N < 4 else ">=4"))
    for nm, r in ((who, a), ("reference", b)):
        if r["fcalls"] != r["ncalls"]:
            out.append(("fmin/funcalls-miscounted/%s" % nm, "%s reports %d function calls, %d were made" % (nm, r["fcalls"], r["ncalls"])))
    st = started(c)
    if not st:
        hadd(hist, "nm:limit-edge(maxfun<=1|maxiter=0)" if c["ftol"] != INF else "nm:limit-edge(ftol=inf:converged-on-the-bare-guess)")
        if (a["iter"], a["fcalls"]) != (0, 1) or not veq(a["x"], x0):
            out.append(("%s/limit-edge" % who, "with maxiter=%r maxfun=%r %s made %d iterations / %d calls, x=%r" % (c["maxiter"], c["maxfun"], who, a["iter"], a["fcalls"], a["x"])))
        out += init_simplex_monitor(c, b, "reference-fmin", [ZDELT_REF], hist)
        return out, False
    # ---- the initial simplex (objective values play no role)
    xtol0 = (route == "fmin" and not c["xtol"])
    if not (xtol0 and a["ncalls"] < len(x0) + 1):       # xtol == 0.0: another stop rule, which may fire on the bare guess (below)
        out += init_simplex_monitor(c, a, who, [ZDELT_MYSTIC, ZDELT_REF], hist)
    out += init_simplex_monitor(c, b, "reference-fmin", [ZDELT_REF], hist)
    if out:
        return out, False
    if not feq(a["f"], dsl.ev(c["expr"], a["x"]) + 0.0):
        out.append(("%s/fopt-not-cost-at-xopt" % who, "%s returned fopt=%r but cost(xopt)=%r" % (who, a["f"], dsl.ev(c["expr"], a["x"]))))
    # ---- which run must mystic reproduce exactly
    if zero and bz is not None:
        target, tname = bz, "reference-with-zdelt=0.05**2*0.1"
        hadd(hist, "nm:zero-coordinate-class(zdelt differs by one ulp)")
        # the published constant: how far does the one-ulp difference carry (measured, not judged)
        if (a["iter"], a["fcalls"], a["warn"]) != (b["iter"], b["fcalls"], b["warn"]):
            hadd(hist, "nm:zero-coordinate:counts-differ")
        elif veq(a["x"], b["x"]):
            hadd(hist, "nm:zero-coordinate:identical")
        elif not (all(close(p, q) for p, q in zip(a["x"], b["x"])) and close(a["f"], b["f"])):
            hadd(hist, "nm:zero-coordinate:differs-beyond-1e-6")
        else:
            hadd(hist, "nm:zero-coordinate:equal-to-rounding")
    elif zero:
        hadd(hist, "nm:zero-coordinate-class:reference-constant-not-replaceable")
        return out, b["iter"] >= 3
    else:
        target, tname = b, "reference"
        hadd(hist, "nm:exact-class")
    nanrun = a["nan"] or target["nan"]
    if nanrun:
        hadd(hist, "nm:inf-or-nan-energies")
    # an objective that returned NaN is not a real-valued function: the "minimum" is then undefined (the reference reports
    # numpy's min(fsim) = NaN, mystic the energy of its best vertex); everything else - every evaluation, xopt, the counts -
    # is still compared exactly
    with_f = not any(y != y for y in a["ys"]) and not any(y != y for y in target["ys"])
    if not with_f:
        hadd(hist, "nm:nan-energies(fopt not compared)")
    i = first_diff(a, target)
    if xtol0:
        # scipy_optimize.py l.503 `if xtol:` - with xtol == 0.0 fmin installs VTRChangeOverGeneration(ftol) instead of the
        # reference's test: another stop rule.  Strongest true statement in this class: the SAME trajectory (one run's
        # evaluations are a prefix of the other's); the solver route with CandidateRelativeTolerance(0.0, ftol) is exact.
        hadd(hist, "nm:xtol==0(fmin installs VTRChangeOverGeneration)")
        if i is not None:
            out.append(("fmin/xtol-zero/trajectory-differs", "cost call %d: fmin at %r -> %r, %s at %r -> %r" % (i, a["pts"][i], a["ys"][i], tname, target["pts"][i], target["ys"][i])))
        elif not result_eq(a, target) and not nanrun:
            out.append(("fmin/xtol-zero-selects-another-stop-rule", "xtol=0.0 ftol=%r x0=%r: fmin -> %s ; %s -> %s (same evaluations up to call %d)"
                        % (c["ftol"], x0, describe(a), tname, describe(target), min(a["ncalls"], target["ncalls"]))))
        return out, False
    if i is not None:
        out.append(("%s/evaluation-sequence-differs-from-reference/%s%s" % (who, "start-with-exact-zero" if zero else "nonzero-start", cfg),
                    "cost call %d: %s evaluated %r -> %r, the %s %r -> %r ; %s -> %s ; %s -> %s"
                    % (i, who, a["pts"][i], a["ys"][i], tname, target["pts"][i], target["ys"][i], who, describe(a), tname, describe(target))))
    elif not result_eq(a, target, with_f):
        out.append(("%s/differs-from-reference%s%s" % (who, "/start-with-exact-zero" if zero else "", cfg),
                    "%s -> %s ; %s -> %s (evaluations agree up to call %d)" % (who, describe(a), tname, describe(target), min(a["ncalls"], target["ncalls"]))))
    hadd(hist, "nm:stop:%s" % {0: "converged", 1: "maxfun", 2: "maxiter"}[b["warn"]])
    nsh = tie_census(c, target, {}, "x") or 0
    if nsh:
        hadd(hist, "nm:run-with-shrink%s" % cfg); hadd(hist, "nm:run-with-shrink:dim=%s" % (N if N < 4 else ">=4"))
    return out, (b["iter"] >= 3 and not nanrun)


def scipy_nm_monitor(c, route, a, hist):
    """the real run against the INSTALLED scipy's Nelder-Mead (independent code, same published algorithm, knows
    `adaptive`): every evaluation, minimizer, minimum, iteration and evaluation counts.  Applies where the two programs
    are specified alike: default radius, no exactly-zero start coordinate (scipy's zdelt is the reference's 0.00025, one
    ulp from mystic's), xtol != 0 on the fmin route, finite energies, and a run that does not stop on the evaluation
    limit (scipy refuses the call that would exceed maxfev instead of finishing the iteration)."""
    who = "fmin" if route == "fmin" else "NelderMeadSimplexSolver"
    x0 = given_x0(c)
    if (not started(c)) or c.get("radius") is not None or any(v == 0.0 for v in x0) or (route == "fmin" and not c["xtol"]) or a["nan"]:
        return []
    if a["warn"] == 1:
        hadd(hist, "nm:scipy:skipped(evaluation-limit)"); return []
    sp = run_scipy_nm(c)
    if sp is None:
        hadd(hist, "nm:scipy:unavailable"); return []
    if sp["status"] == 1 or sp["nan"]:
        hadd(hist, "nm:scipy:skipped(evaluation-limit)"); return []
    hadd(hist, "nm:scipy:compared%s" % ("(adaptive)" if c.get("adaptive") else ""))
    i = first_diff(a, sp)
    cfg = "/adaptive-coefficients(%s)" % ("n=1" if len(x0) == 1 else ("n=2" if len(x0) == 2 else "n>=3")) if c.get("adaptive") else ""
    if i is not None:
        return [("%s/evaluation-sequence-differs-from-scipy%s" % (who, cfg), "cost call %d: %s evaluated %r -> %r, scipy.optimize Nelder-Mead %r -> %r ; %s -> %s ; scipy -> x=%r f=%r nit=%d nfev=%d"
                 % (i, who, a["pts"][i], a["ys"][i], sp["pts"][i], sp["ys"][i], who, describe(a), sp["x"], sp["f"], sp["iter"], sp["fcalls"]))]
    if not (veq(a["x"], sp["x"]) and feq(a["f"], sp["f"]) and (a["iter"], a["fcalls"]) == (sp["iter"], sp["fcalls"])):
        return [("%s/differs-from-scipy%s" % (who, cfg), "%s -> %s ; scipy -> x=%r f=%r nit=%d nfev=%d" % (who, describe(a), sp["x"], sp["f"], sp["iter"], sp["fcalls"]))]
    hadd(hist, "nm:scipy:identical")
    return []


def tie_census(c, r, hist, tag="nm:energy-comparison"):
    """coverage only: follow the decisions of one recorded run (points and values as the real code produced them) and
    count, per comparison of the simplex update (scipy_optimize.py l.311-341 / reference l.224-257), how often it was
    decided by EQUAL energies - the inputs on which `<` and `<=` differ"""
    N = len(c["x0"]); ys = r["ys"]
    if len(ys) < N + 1 or r["nan"]:
        return 0
    nshrink = 0
    fsim = np.array(ys[:N + 1], dtype=float)
    fsim = np.take(fsim, np.argsort(fsim), 0)
    i = N + 1

    def cmp(name, p, q):
        hadd(hist, "%s:%s:%s" % (tag, name, "equal" if p == q else ("lt" if p < q else "gt")))
    while i < len(ys):
        fxr = ys[i]; i += 1
        cmp("fxr<fsim[0]", fxr, fsim[0])
        shrink = False
        if fxr < fsim[0]:
            if i >= len(ys):
                return nshrink
            fxe = ys[i]; i += 1
            cmp("fxe<fxr", fxe, fxr)
            fsim[-1] = fxe if fxe < fxr else fxr
        else:
            if N >= 1 and len(fsim) >= 2:
                cmp("fxr<fsim[-2]", fxr, fsim[-2])
            if fxr < fsim[-2]:
                fsim[-1] = fxr
            else:
                cmp("fxr<fsim[-1]", fxr, fsim[-1])
                if i >= len(ys):
                    return nshrink
                if fxr < fsim[-1]:
                    fxc = ys[i]; i += 1
                    cmp("fxc<=fxr", fxc, fxr)
                    if fxc <= fxr:
                        fsim[-1] = fxc
                    else:
                        shrink = True
                else:
                    fxcc = ys[i]; i += 1
                    cmp("fxcc<fsim[-1]", fxcc, fsim[-1])
                    if fxcc < fsim[-1]:
                        fsim[-1] = fxcc
                    else:
                        shrink = True
                if shrink:
                    if i + N > len(ys):
                        return nshrink
                    for j in range(1, N + 1):
                        fsim[j] = ys[i]; i += 1
                    hadd(hist, "%s:shrink" % tag); nshrink += 1
        fsim = np.take(fsim, np.argsort(fsim), 0)
    return nshrink
