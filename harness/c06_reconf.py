"""C06, stream `reconf`: runs whose monitors are NOT the ones the run was configured with before its first Step, checkpointed
at every generation boundary, the restored solver continued with the objective HANDED OVER AGAIN.

The region of the property's input space the main stream (harness/c06.py, stages A-X) never reaches: there every solver is
configured once, before its first Step - so its evaluation monitor holds exactly one record per counted evaluation (or none),
`len(stepmon) - 1` is the number of generations made, and "the counter" and "the length of the monitor" are the same number
seen twice.  Here the run itself is a HISTORY of Steps and reconfigurations:

  * the evaluation monitor is attached / replaced some generations into the run - SetEvaluationMonitor(m, new=False | True),
    m empty or already holding records of an earlier run, Monitor / VerboseMonitor / Null; the run may also START with a monitor
    that already holds records (more records than evaluations);
  * the step monitor is replaced (new=False: records carried over; new=True: `generations` restarts);
  * SetEvaluationLimits(.., new=True) (limits counted from the counters at that moment), SetPenalty in the middle of the run;
  * ExtraArgs handed to every Step (an equal but NEW tuple is "not the stored one": the restored solver re-decorates);
  * continuation styles of the restored solver: Step() | Step(own stored cost) | Step(by-reference cost) | Step(cost) with
    ONE new equal cost object | Step(cost) with a new equal cost object at EVERY Step | and the same through Solve(..).

Monitor (the clause itself, on the real code): for EVERY generation boundary of the run (taken after the reconfigurations
scheduled at that boundary) x {SaveSolver+LoadSolver, dill, copy.deepcopy}: the restored solver - given the saved random
state and the same later reconfigurations - must show the state of the uninterrupted run after every further Step
(population, energies, best, `evaluations`, `generations`, both monitors, limits, messages), must count the evaluations it
makes (real cost calls == growth of `evaluations`, wherever the uninterrupted run does), and must not move the original; at
one boundary original and copies get the same new limits (generations AND evaluations, counted from now) and run to
termination with Solve(cost): final states compared.

Correspondence: the cell model (Model/Checkpoint.lean Part B + Model/CheckpointMon.lean `setMonitor`) against real solver
objects - op `(setmon i new k)` of the `alias` stream (harness/c06.py alias_case)."""
import os, copy, tempfile, shutil, contextlib, collections, random as _random
import numpy as np
import common, solvergen, trace
import c06 as B
from framework import Finding

EVAL_MONS = ["Monitor", "Monitor", "prefilled:2", "prefilled:40", "VerboseMonitor", "Null"]
MODES = ["fresh", "fresh", "fresh-each", "fresh-each", "own", "none", "ref"]


def mk_mon(kind, dim):
    """monitors are made from their description alone: original and copies get equal ones"""
    from mystic.monitors import Monitor, Null, VerboseMonitor
    if kind == "Null":
        return Null()
    if kind.startswith("prefilled:"):
        m = Monitor()
        for t in range(int(kind.split(":")[1])):          # records of "an earlier run"
            m([float(t)] * dim, 100.0 + t)
        return m
    if kind == "VerboseMonitor":
        return VerboseMonitor(3)
    return Monitor()


def gen_case(rng, tier):
    solver = rng.choice(["DE", "DE", "DE2", "NM", "Powell", "DE", "NM", "DE2"])
    if tier == "quick":
        n = rng.randint(5, 9) if solver != "Powell" else rng.randint(4, 6)
    else:
        n = rng.randint(5, 18) if solver != "Powell" else rng.randint(4, 9)
    spec = solvergen.gen_spec(rng, solver=solver, maxdim=3, nsteps=(n, n), flavour="steps")
    spec["n"] = n
    if spec.get("ranges") and rng.random() < 0.55:
        del spec["ranges"]          # (most continuation styles of this stream re-decorate: see below)
    if rng.random() < 0.75:
        spec["termination"] = ("never",)
    if spec.get("ranges") and spec["ranges"][3] is False:
        lo, hi, tight, clip = spec["ranges"]
        spec["ranges"] = (lo, hi, tight, None)
    dim = spec["dim"]
    per = spec["npop"] if solver in ("DE", "DE2") else (2 if solver == "NM" else 14 * dim)
    spec["limits"] = rng.choice([None, (None, per * rng.randint(2, n)), (None, per * rng.randint(n, 3 * n)), (rng.randint(2, n + 2), None),
                                 (2 * n, per * rng.randint(3, n + 1))])
    spec["evalmon"] = "Null"; spec["stepmon"] = "default"
    spec["evalmon0"] = rng.choice(["Null", "Null", "Monitor", "Monitor", "prefilled:3", "prefilled:60"])
    spec["stepmon0"] = rng.choice(["default", "default", "default", "Monitor"])
    spec["savefreq"] = 1; spec["callback"] = False; spec["kw_first"] = False
    spec["mode"] = rng.choice(MODES)
    spec["extra"] = rng.choice([None, None, None, (0.5,), (1.0, -0.25)])
    if spec.get("ranges"):
        # under strict ranges a re-decoration is not neutral (Nelder-Mead rebuilds its simplex - F20 -, DE draws from `random`):
        # the copies are continued with the very objects the restart file holds
        spec["mode"] = rng.choice(["none", "own"])
    spec["seed"] = rng.randrange(2 ** 31)
    # ----- the history: reconfigurations between the Steps; boundary b = after Step number b (0-based), early ones preferred so
    # that most interruption points lie AFTER them
    ev = {}
    for _ in range(rng.choice([1, 1, 1, 2, 2, 3])):
        b = min(rng.randrange(n - 1), rng.randrange(n - 1))
        r = rng.random()
        if r < 0.62:
            e = ("evalmon", rng.choice(EVAL_MONS), rng.random() < 0.6)
        elif r < 0.74:
            e = ("stepmon", rng.choice(["Monitor", "Monitor", "VerboseMonitor"]), rng.random() < 0.25)
        elif r < 0.88:
            e = ("limits", rng.choice([None, n + 3]), per * rng.randint(1, n))
        else:
            e = ("penalty", solvergen.gen_penalty(rng, dim) if rng.random() < 0.8 else None)
        ev.setdefault(b, []).append(e)
    spec["events"] = ev
    spec["solve_cut"] = rng.randrange(64); spec["solve_g"] = rng.choice([2, 4, 8]); spec["solve_e"] = per * rng.randint(1, 6)
    return spec


def apply_events(s, spec, b):
    """the reconfigurations scheduled after Step number b, on the solver object `s`"""
    for e in spec["events"].get(b, ()):
        with contextlib.redirect_stdout(B._SINK):
            if e[0] == "evalmon":
                s.SetEvaluationMonitor(mk_mon(e[1], spec["dim"]), new=e[2])
            elif e[0] == "stepmon":
                s.SetGenerationMonitor(mk_mon(e[1], spec["dim"]), new=e[2])
            elif e[0] == "limits":
                s.SetEvaluationLimits(generations=e[1], evaluations=e[2], new=True)
            elif e[0] == "penalty":
                s.SetPenalty(B.PenFn(e[1]) if e[1] is not None else None)


def start(spec, tmp, tag):
    """the configured, never-stepped solver of the run + (cost, ExtraArgs) the run is driven with"""
    s, cost = B.build(spec, tmp, tag)
    with contextlib.redirect_stdout(B._SINK):
        if spec["evalmon0"] != "Null":
            s.SetEvaluationMonitor(mk_mon(spec["evalmon0"], spec["dim"]))
        if spec["stepmon0"] != "default":
            s.SetGenerationMonitor(mk_mon(spec["stepmon0"], spec["dim"]))
    return s, cost, (tuple(spec["extra"]) if spec["extra"] else None)


class Driver(object):
    """how one solver object is continued: the positional / keyword arguments of its next Step / Solve"""

    def __init__(self, spec, s, original=None):
        self.spec = spec; self.s = s; self.mode = spec["mode"]
        ea = tuple(spec["extra"]) if spec["extra"] else None
        if original is not None:                        # the uninterrupted run: always the same two objects
            self.cost, self.ea = original
            self.mode = "same"
        elif self.mode == "none":
            self.cost, self.ea = None, None             # Step(): nothing handed over
        elif self.mode == "own":
            self.cost, self.ea = s._cost[1], (s._cost[2] if ea else None)       # the stored objects themselves
        elif self.mode == "ref":
            self.cost, self.ea = B.ref_cost, ea         # by-reference cost (identical after the restore), a NEW equal tuple
        else:
            self.cost, self.ea = B.CostFn(spec["cost"]), ea                     # an equal cost object that is not the stored one

    def args(self):
        if self.mode == "fresh-each":
            self.cost = B.CostFn(self.spec["cost"])     # a new object at every call: re-decorated every time
        a = () if self.cost is None else (self.cost,)
        k = {} if self.ea is None else {"ExtraArgs": self.ea}
        return a, k


def step(actor, drv, rec):
    a, k = drv.args()
    actor.cost_args = a
    return B.advance(actor, rec, k)


def run_case(spec, gen, hist):
    findings = []
    H = lambda k: hist.__setitem__(k, hist.get(k, 0) + 1)
    tmp = tempfile.mkdtemp(prefix="c06r_")
    rec = B.Rec()
    n = spec["n"]; solver = spec["solver"]
    case0 = {"spec": B.view(spec), "gen": gen}
    emitted = collections.Counter()
    nontrivial = 0

    def F(kind, key, what, **extra):
        emitted[key] += 1
        if emitted[key] > 2:
            return
        c = dict(case0); c.update(extra)
        findings.append(Finding(kind, key, what, c))

    def history(upto):
        return "; ".join("after Step %d: %s" % (b + 1, ", ".join("%s(%s)" % (e[0], ", ".join(str(v) for v in e[1:])[:60]) for e in es))
                         for b, es in sorted(spec["events"].items()) if b <= upto) or "no reconfiguration yet"

    def run_to(tag, upto, SA=None, MA=None):
        """a new original, stepped through boundaries 0..upto (with the scheduled reconfigurations); None if it is not the
        reference run (SA given)"""
        s, cost, ea = start(spec, tmp, tag)
        if spec["mode"] == "ref":
            B.REF_COST[0] = B.CostFn(spec["cost"])
        a = B.Actor(tag, s, B.rng_state(), ())
        d = Driver(spec, s, original=(cost, ea))
        out = []
        for i in range(upto + 1):
            r = step(a, d, rec)
            apply_events(s, spec, i)
            sn = B.snap(s)
            out.append((r, sn))
            if SA is not None and (B.diff(SA[i], sn) or r["msg"] != MA[i]):
                return None, None, None
        return a, d, out

    try:
        with trace.patched(rec):
            try:
                A, dA, outA = run_to("A", n - 1)
            except Exception as exc:
                H("reconf:reference-run-raised:%s" % type(exc).__name__)
                return findings, 0
            SA = [sn for _, sn in outA]; RA = [r for r, _ in outA]; MA = [r["msg"] for r in RA]
            if any(np.isnan(np.frombuffer(sn["popEnergy"][1], dtype=float)).any() for sn in SA):
                H("reconf:nan-run-skipped")
                return findings, 0
            first_stop = next((i for i, m in enumerate(MA) if m), None)
            H("reconf:solver:%s" % solver); H("reconf:mode:%s" % spec["mode"]); H("reconf:ExtraArgs:%d" % len(spec["extra"] or ()))
            H("reconf:initial-evalmon:%s" % spec["evalmon0"].split(":")[0])
            for b, es in spec["events"].items():
                for e in es:
                    H("reconf:event:%s%s" % (e[0], (":%s:new=%s" % (e[1].split(":")[0], e[2])) if e[0] in ("evalmon", "stepmon") else ""))
            if first_stop is not None:
                H("reconf:stop-inside-run:%s" % MA[first_stop].split(" ")[0])
            # which boundaries show a monitor that is not "one record per counted evaluation"
            shape = []
            for sn in SA:
                ne = None if sn["evalmon_x"] is None else (sn["evalmon_x"][0][0] if sn["evalmon_x"][0] != "repr" else None)
                shape.append("none" if ne is None else ("short" if ne < sn["evaluations"] else "long" if ne > sn["evaluations"] else "complete"))
            for k_ in set(shape):
                H("reconf:boundaries-with-evaluation-monitor:%s" % k_)
            miscount = [i for i, r in enumerate(RA) if r["devals"] != r["real"]]
            if miscount:
                # (no clause of C06: the UNINTERRUPTED solver itself does not count what it evaluates in this Step - e.g.
                # DifferentialEvolutionSolver2 sets its counter to len(evalmon) - the copies are held to the same numbers)
                H("reconf:uninterrupted-run-itself-miscounts:%s" % solver)

            # ---------- B: the same run, copied at every boundary
            Bo, dB, _ = None, None, None
            sB, costB, eaB = start(spec, tmp, "B")
            if spec["mode"] == "ref":
                B.REF_COST[0] = B.CostFn(spec["cost"])
            Bo = B.Actor("B", sB, B.rng_state(), ())
            dB = Driver(spec, sB, original=(costB, eaB))
            P3 = ("saveload", "dill", "deepcopy")
            for i in range(n):
                r = step(Bo, dB, rec)
                apply_events(sB, spec, i)
                sb = B.snap(sB)
                dd = B.diff(SA[i], sb)
                if dd or r["msg"] != MA[i]:
                    if i == 0:
                        H("reconf:nondeterministic-run-skipped")
                        return findings, 0
                    F("monitor", "reconf/saving-perturbs-the-original/%s" % type(sB).__name__, "Step %d of the run that was saved/copied at every boundary differs from the untouched run in %s" % (i + 1, dd),
                      cut=i, fields=dd, detail=B.excerpt(SA[i], sb, dd))
                    break
                if i == n - 1:
                    break
                for path in P3:
                    _random.setstate(Bo.rs[0]); np.random.set_state(Bo.rs[1])
                    try:
                        cs = B.make_copy(path, sB, tmp, i, spec)
                    except Exception as exc:
                        F("monitor", "reconf/%s/%s/copy-raises/%s" % (path, type(sB).__name__, type(exc).__name__), "cut %d (%s): %r" % (i, history(i), exc), path=path, cut=i)
                        continue
                    finally:
                        Bo.rs = B.rng_state()
                    after = B.snap(sB)
                    if B.diff(sb, after):
                        F("monitor", "reconf/copying-changes-the-original/%s" % type(sB).__name__, "cut %d: %s" % (i, B.diff(sb, after)), cut=i, path=path)
                        continue
                    C = B.Actor("r:%s@%d" % (path, i), cs, Bo.rs, ())
                    ok = check_copy(spec, path, C, i, SA, MA, RA, shape, first_stop, Bo, rec, F, H, history)
                    nontrivial = max(nontrivial, ok)

            # ---------- S: original and copies get the same NEW limits at one boundary and run to termination with Solve(cost)
            m = spec["solve_cut"] % (n - 1)
            S, dS, _ = run_to("S", m, SA, MA)
            if S is not None and not MA[m]:
                solve_stage(spec, S, dS, m, shape, tmp, rec, F, H, history)
    finally:
        shutil.rmtree(tmp, ignore_errors=True)
    for key in emitted:
        H("finding:%s" % key)
    return findings, nontrivial


def check_copy(spec, path, C, i, SA, MA, RA, shape, first_stop, orig, rec, F, H, history):
    """C was restored at boundary i of the run (after the reconfigurations of that boundary); continue it to the end of the run"""
    n = spec["n"]
    tag = "reconf/%s/%s" % (path, type(C.s).__name__)
    cls = "evaluation-monitor-%s-at-the-restore/continued-by-%s" % (shape[i], CONT[spec["mode"]] + ("+ExtraArgs" if spec["extra"] else ""))
    s0 = B.snap(C.s)
    d0 = B.diff(SA[i], s0)
    if d0:
        F("monitor", tag + "/restored-state-differs", "cut %d (%s): restored solver differs from the original in %s" % (i, history(i), d0),
          path=path, cut=i, fields=d0, detail=B.excerpt(SA[i], s0, d0))
        return 0
    drv = Driver(spec, C.s)
    orig_before = B.snap(orig.s)
    in_f5 = False
    performed = 0
    for j in range(1, n - i):
        t = i + j
        try:
            r = step(C, drv, rec)
            apply_events(C.s, spec, t)
        except Exception as exc:
            F("monitor", tag + "/resume-raises/%s" % type(exc).__name__, "cut %d (%s): Step %d of the restored solver raised %r" % (i, history(i), j, exc), path=path, cut=i, step=j)
            return 0
        sc = B.snap(C.s)
        performed += 1 if (r["dstep"] > 0 or r["real"] > 0) else 0
        if j == 1:
            dd = B.diff(orig_before, B.snap(orig.s))
            if dd:
                F("monitor", tag + "/not-independent/original-changed-by-copy", "cut %d: the first Step of the copy changed the original's %s" % (i, dd), path=path, cut=i, fields=dd)
                return 0
        # each copy counts its own evaluations - wherever the uninterrupted solver counts its own in this Step
        ref_counts = RA[t]["devals"] == RA[t]["real"]
        mon_grows = sc["evalmon_x"] is not None and RA[t]["dmon"] == RA[t]["real"]
        de2 = type(C.s).__name__ == "DifferentialEvolutionSolver2"
        # F5 (known): the objective of a deep copy writes into PRIVATE copies of the counter and of the monitor - the copy's
        # monitor stands still where the uninterrupted run's grows, its counter stands still (DifferentialEvolutionSolver2
        # keeps its counter by hand from the frozen monitor: any value), or, without a monitor, the counter alone stands still.
        # A counter that stands still while the monitor GROWS is not this class.
        f5 = path == "deepcopy" and r["real"] > 0 and (
            (mon_grows and r["dmon"] == 0 and (de2 or r["devals"] in (0, r["real"])))
            or (not mon_grows and ref_counts and r["devals"] == 0 and r["dmon"] == 0))
        if f5:
            in_f5 = True
            F("monitor", B.KEY_F5, "cut %d, Step %d of the deep copy: %d real cost calls, evaluations grew by %d, evaluation monitor by %d"
              % (i, j, r["real"], r["devals"], r["dmon"]), path=path, cut=i, step=j)
        elif ref_counts and not (r["devals"] == r["real"] and (not mon_grows or r["dmon"] == r["real"])):
            F("monitor", tag + "/copy-does-not-count-its-own-evaluations/" + cls, "cut %d (%s), Step %d: %d real cost calls, evaluations grew by %d (uninterrupted run: %d calls, +%d), evaluation monitor by %d"
              % (i, history(i), j, r["real"], r["devals"], RA[t]["real"], RA[t]["devals"], r["dmon"]), path=path, cut=i, step=j)
            return 0
        if not f5 and not ref_counts and r["devals"] != r["real"]:
            # the copy does not count what it evaluates in this Step - and neither does the uninterrupted run
            if de2 and shape[t - 1] in ("short", "long") and (in_f5 or (r["devals"], r["real"]) == (RA[t]["devals"], RA[t]["real"])):
                # (in_f5: a deep copy whose counter / monitor were frozen for some Steps - F5 - jumps to ITS monitor's length)
                # F62: `_Step` overwrites the counter with len(evalmon) ("leverage the evalmon", differential_evolution.py
                # l.567-569).  Strongest true statement inside the class (checked below): the same numbers as the uninterrupted run
                F("monitor", KEY_F62, "cut %d (%s), Step %d of the solver restored by %s: %d real cost calls, evaluations went from %d to %d (the evaluation monitor holds %d records), as in the uninterrupted run"
                  % (i, history(t - 1), j, path, r["real"], sc["evaluations"] - r["devals"], sc["evaluations"], 0 if sc["evalmon_x"] is None else sc["evalmon_x"][0][0]), path=path, cut=i, step=j)
            else:
                F("monitor", tag + "/copy-does-not-count-its-own-evaluations/nor-does-the-uninterrupted-run/" + cls, "cut %d (%s), Step %d: %d real cost calls, evaluations grew by %d (uninterrupted run: %d calls, %+d), evaluation monitor by %d"
                  % (i, history(t - 1), j, r["real"], r["devals"], RA[t]["real"], RA[t]["devals"], r["dmon"]), path=path, cut=i, step=j)
                return 0
        skip = ()
        if in_f5:
            skip = B.COUNT_FIELDS + ("maxfun",)
            if first_stop is not None and t >= first_stop:
                H("reconf:deepcopy-unlinked:compared-until-first-stop")
                break
            if any(e[0] == "limits" for b in range(i + 1, t + 1) for e in spec["events"].get(b, ())):
                break           # (limits counted from a frozen counter)
        if r["msg"] != MA[t]:
            F("monitor", tag + "/resume-diverges/" + cls, "cut %d (%s), Step %d: the restored solver returned %r, the uninterrupted run %r (evaluations %d vs %d)"
              % (i, history(i), j, r["msg"], MA[t], sc["evaluations"], SA[t]["evaluations"]), path=path, cut=i, step=j)
            return 0
        dj = B.diff(SA[t], sc, skip)
        if dj:
            F("monitor", tag + "/resume-diverges/" + cls, "cut %d (%s): %d Step(s) after the restore %s differ from the uninterrupted run"
              % (i, history(i), j, dj), path=path, cut=i, step=j, fields=dj, detail=B.excerpt(SA[t], sc, dj))
            return 0
    dd = B.diff(orig_before, B.snap(orig.s))
    if dd:
        F("monitor", tag + "/not-independent/original-changed-by-copy", "cut %d: the copy's Steps changed the original's %s" % (i, dd), path=path, cut=i, fields=dd)
    H("reconf:resumed:%s:evaluation-monitor-%s" % (path, shape[i]))
    H("reconf:resumed-by:%s" % CONT[spec["mode"]])
    return 1 if performed >= 2 else 0


KEY_F62 = "reconf/DifferentialEvolutionSolver2/_Step-sets-evaluations-to-len(evalmon)/evaluation-monitor-not-one-record-per-evaluation"
CONT = {"none": "Step()", "own": "Step(stored-cost)", "ref": "Step(by-reference-cost)", "fresh": "Step(new-equal-cost)",
        "fresh-each": "Step(new-equal-cost-every-time)"}


def solve_stage(spec, S, dS, m, shape, tmp, rec, F, H, history):
    extra_g = spec["solve_g"]; extra_e = spec["solve_e"]
    sS = S.s
    group = []
    for path in ("saveload", "dill", "deepcopy"):
        _random.setstate(S.rs[0]); np.random.set_state(S.rs[1])
        try:
            cs = B.make_copy(path, sS, tmp, 1000 + m, spec)
        except Exception:
            continue            # reported by stage B
        finally:
            S.rs = B.rng_state()
        group.append((path, B.Actor("r:solve:%s@%d" % (path, m), cs, S.rs, ()), Driver(spec, cs)))

    def solve(a, d):
        _random.setstate(a.rs[0]); np.random.set_state(a.rs[1])
        B.ACTOR[0] = a.name
        c0 = B.CALLS[(a.name, "cost")]; e0 = int(a.s.evaluations); m0 = len(a.s._evalmon)
        a.s.SetEvaluationLimits(generations=extra_g, evaluations=extra_e, new=True)
        args, kw = d.args()
        B.CALL_LIMIT[0] = c0 + 50 * extra_e + 5000
        try:
            with contextlib.redirect_stdout(B._SINK):
                a.s.Solve(*args, **kw)
        finally:
            a.rs = B.rng_state(); B.ACTOR[0] = "-"; B.CALL_LIMIT[0] = None
        return B.CALLS[(a.name, "cost")] - c0, int(a.s.evaluations) - e0, len(a.s._evalmon) - m0
    try:
        realS, devS, dmonS = solve(S, dS)
    except (Exception, B.Runaway) as exc:
        H("reconf:solve:reference-raised:%s" % type(exc).__name__)
        return
    ref = B.snap(sS)
    H("reconf:solve:stopped-by:%s" % ("evaluation-limit" if isinstance(ref["maxfun"], int) and ref["evaluations"] >= ref["maxfun"] else "other"))
    cont = CONT[spec["mode"]].replace("Step", "Solve") + ("+ExtraArgs" if spec["extra"] else "")
    for path, C, d in group:
        tag = "reconf/%s/%s" % (path, type(C.s).__name__)
        cls = "evaluation-monitor-%s-at-the-restore/continued-by-%s" % (shape[m], cont)
        try:
            real, dev, dmon = solve(C, d)
        except B.Runaway:
            F("monitor", tag + "/solve-after-restore-does-not-stop/" + cls, "cut %d (%s): after SetEvaluationLimits(generations=%d, evaluations=%d, new=True) the restored solver's Solve() is still running after %d cost calls (the original made %d)"
              % (m, history(m), extra_g, extra_e, 50 * extra_e + 5000, realS), path=path, cut=m)
            continue
        except Exception as exc:
            F("monitor", tag + "/solve-after-restore-raises/%s" % type(exc).__name__, "cut %d (%s): Solve() of the restored solver raised %r" % (m, history(m), exc), path=path, cut=m)
            continue
        sc = B.snap(C.s)
        skip = ()
        de2 = type(C.s).__name__ == "DifferentialEvolutionSolver2"
        mon_grows = sc["evalmon_x"] is not None and dmonS == realS
        f5 = path == "deepcopy" and real > 0 and ((mon_grows and dmon == 0 and (de2 or dev in (0, real)))
                                                   or (not mon_grows and devS == realS and dev == 0 and dmon == 0))
        if f5 or (devS == realS and not (dev == real and (not mon_grows or dmon == real))):
            if f5:
                F("monitor", B.KEY_F5, "cut %d, Solve() of the deep copy: %d real cost calls, evaluations grew by %d, evaluation monitor by %d" % (m, real, dev, dmon), path=path, cut=m)
                H("reconf:solve:deepcopy-unlinked:not-compared")
                continue
            F("monitor", tag + "/copy-does-not-count-its-own-evaluations/" + cls, "cut %d (%s), Solve(): %d real cost calls, evaluations grew by %d, evaluation monitor by %d"
              % (m, history(m), real, dev, dmon), path=path, cut=m)
            continue
        dj = B.diff(ref, sc, skip)
        if dj:
            F("monitor", tag + "/solve-after-restore-diverges/" + cls, "cut %d (%s): after SetEvaluationLimits(generations=%d, evaluations=%d, new=True) and Solve() on both, %s differ (evaluations %d vs %d, generations %d vs %d)"
              % (m, history(m), extra_g, extra_e, dj, sc["evaluations"], ref["evaluations"], sc["generations"], ref["generations"]),
              path=path, cut=m, fields=dj, detail=B.excerpt(ref, sc, dj))
            continue
        H("reconf:solved:%s:evaluation-monitor-%s" % (path, shape[m]))
