"""C05 - see DESIGN.md section 5; shared machinery in solvercheck.py"""
import solvercheck, framework
PID = "C05"
MODULE = "MysticVerif.Props.Solve"
THEOREMS = ["MysticVerif.C05.no_step_when_stopped", "MysticVerif.C05.step_ran_only_if_not_stopped", "MysticVerif.C05.message_truthful", "MysticVerif.C05.step_message_truthful", "MysticVerif.C05.gens_le_maxiter", "MysticVerif.C05.gens_le_maxiter_run", "MysticVerif.C05.new_limits_from_call", "MysticVerif.C05.total_limits", "MysticVerif.C05.resolve_maxiter_isVal", "MysticVerif.C05.solve_returns", "MysticVerif.C05.evals_overshoot_lt_one_step", "MysticVerif.C05.warnflag_truthful", "MysticVerif.C05.warnflag_iff_limit_message", "MysticVerif.SolveProps.solve_always_returns", "MysticVerif.SolveProps.solve_message_truthful", "MysticVerif.SolveProps.solve_state_is_open_loop", "MysticVerif.C05.signal_exit_iff", "MysticVerif.C05.no_step_after_signal_exit"]


def run_shard(pid, seed, shard, ncases, tier, extra):
    return solvercheck.run_shard(PID, seed, shard, ncases, tier, extra)


def main(tier, seed):
    return solvercheck.main(PID, MODULE, THEOREMS, tier, seed, RULE_EXTRA, TRUSTED_EXTRA)


RULE_EXTRA = 'control-loop replay (model:ctl) of every trace without Solve; wrapper warnflag stream; exit requests injected between steps.'
TRUSTED_EXTRA = ['termination verdicts and per-step counter deltas are inputs of the Ctl model (taken from the real run)']


def replay(path):
    return solvercheck.replay(PID, path)
