"""Generators of solver-trace specs (see trace.py) - structured, mostly valid configurations of the four
solvers, with the rare branches the properties name reachable on purpose."""
import math
from common import dyadic, gfloat


def gen_cost(rng, dim, allow_vector=True):
    """('scalar', expr) | ('vector', [expr..]) ; smooth / non-smooth / ill-conditioned templates"""
    cs = [dyadic(rng, -3, 3, 4) for _ in range(dim)]
    k = rng.random()

    def sq(i, w=1.0):
        t = ("sq", ("-", ("x", i), ("c", cs[i])))
        return t if w == 1.0 else ("*", ("c", w), t)

    def ab(i):
        return ("abs", ("-", ("x", i), ("c", cs[i])))
    if k < 0.35:
        terms = [sq(i) for i in range(dim)]
    elif k < 0.5:
        terms = [ab(i) for i in range(dim)]
    elif k < 0.65:
        terms = [sq(i, float(10 ** (2 * i))) for i in range(dim)]      # ill-conditioned
    elif k < 0.8 and dim >= 2:
        terms = []
        for i in range(dim - 1):   # rosenbrock-like
            terms.append(("*", ("c", 100.0), ("sq", ("-", ("x", i + 1), ("sq", ("x", i))))))
            terms.append(("sq", ("-", ("c", 1.0), ("x", i))))
    else:
        terms = [sq(i) if (rng.random() < 0.5 or i < 2) else ab(i) for i in range(dim)]
        if dim >= 2:       # cross term dominated by the two squares: bounded below
            terms.append(("*", ("c", 0.5), ("*", ("x", 0), ("x", 1))))
    if allow_vector and rng.random() < 0.15 and len(terms) >= 2:
        if rng.random() < 0.6:
            # components that are negative near the optimum: 0 is not a neutral element of a max / selector reducer
            terms = [("-", t, ("c", float(rng.choice([1.0, 2.5, 8.0])))) for t in terms]
        return ("vector", terms)
    return ("scalar", ("sum",) + tuple(terms))


def gen_penalty(rng, dim):
    i = rng.randrange(dim)
    c = dyadic(rng, -2, 2, 2)
    k = rng.choice([1.0, 10.0, 100.0])
    kind = rng.choice(["quad_ineq", "lin_ineq", "quad_eq"])
    if kind == "quad_ineq":     # k * max(0, x_i - c)^2
        return ("*", ("c", k), ("sq", ("max", ("c", 0.0), ("-", ("x", i), ("c", c)))))
    if kind == "lin_ineq":
        return ("*", ("c", k), ("max", ("c", 0.0), ("-", ("c", c), ("x", i))))
    return ("*", ("c", k), ("sq", ("-", ("x", i), ("c", c))))


def gen_box(rng, dim, center, kind=None):
    """(lo, hi) with the requested flavour"""
    kind = kind or rng.choice(["finite", "finite", "finite", "onesided", "degenerate", "infinite", "integer"])
    lo = []; hi = []
    for i in range(dim):
        w1 = abs(dyadic(rng, 0, 4, 4)) + 0.25; w2 = abs(dyadic(rng, 0, 4, 4)) + 0.25
        a = center[i] - w1; b = center[i] + w2
        if kind == "integer":
            a = float(math.floor(a)); b = float(math.ceil(b))
        lo.append(a); hi.append(b)
    if kind == "onesided":
        j = rng.randrange(dim)
        if rng.random() < 0.5:
            lo[j] = -math.inf
        else:
            hi[j] = math.inf
    elif kind == "infinite":
        j = rng.randrange(dim)
        lo[j] = -math.inf; hi[j] = math.inf
    elif kind == "degenerate":
        j = rng.randrange(dim)
        hi[j] = lo[j]
    return lo, hi, kind


def gen_constraints(rng, dim, box):
    """an idempotent constraint compatible with the box (maps the box into itself)"""
    lo, hi = box if box else ([-math.inf] * dim, [math.inf] * dim)
    i = rng.randrange(dim)
    kinds = ["pin", "clamp", "rint", "tie", "affine"]
    kind = rng.choice(kinds)

    def inside(i):
        a = lo[i] if math.isfinite(lo[i]) else (hi[i] - 2.0 if math.isfinite(hi[i]) else -1.0)
        b = hi[i] if math.isfinite(hi[i]) else a + 2.0
        return a, b
    if kind == "pin":
        a, b = inside(i)
        v = a + (b - a) * rng.choice([0.0, 0.25, 0.5, 1.0])
        return ("pin", i, ("c", v))
    if kind == "clamp":
        a, b = inside(i)
        m = a + (b - a) * 0.5
        return ("clamp", i, a, m) if rng.random() < 0.5 else ("clamp", i, m, b)
    if kind == "rint":
        # integer rounding keeps a box with integer (or infinite) ends
        ok = all((not math.isfinite(lo[j]) or lo[j] == math.floor(lo[j])) and (not math.isfinite(hi[j]) or hi[j] == math.floor(hi[j])) for j in [i])
        if ok:
            return ("rint", i)
        return ("pin", i, ("c", inside(i)[0]))
    if kind == "tie" and dim >= 2:
        j = (i + 1) % dim
        if lo[i] <= lo[j] and hi[j] <= hi[i]:
            return ("tie", i, j, 0.0)
        if lo[j] <= lo[i] and hi[i] <= hi[j]:
            return ("tie", j, i, 0.0)
        return ("pin", i, ("c", inside(i)[0]))
    if kind == "affine" and dim >= 2:
        # x_i := clamp(0.5*x_j + c) stays in the box because of the final clamp on i
        j = (i + 1) % dim
        a, b = inside(i)
        return ("seq", ("pin", i, ("+", ("*", ("c", 0.5), ("x", j)), ("c", 0.25))), ("clamp", i, a, b))
    a, b = inside(i)
    return ("clamp", i, a, b)


def gen_termination(rng, solver):
    k = rng.random()
    if k < 0.25:
        return None
    if k < 0.45:
        return ("VTR", rng.choice([1e-2, 1e-4, 0.5]), 0.0)
    if k < 0.6:
        return ("COG", rng.choice([1e-3, 1e-6]), rng.choice([1, 2, 5]))
    if k < 0.75:
        return ("NCOG", rng.choice([1e-3, 1e-6]), rng.choice([1, 2, 5]))
    if k < 0.85:
        return ("never",)
    if k < 0.93:
        return ("Or", ("VTR", 1e-3, 0.0), ("COG", 1e-5, 3))
    return ("CRT", 1e-3, 1e-3) if solver != "Powell" else ("VTR", 1e-3, 0.0)


def gen_spec(rng, solver=None, maxdim=4, nsteps=(3, 12), flavour=None):
    solver = solver or rng.choice(["DE", "DE2", "NM", "Powell"])
    dim = rng.randint(1, maxdim)
    spec = {"solver": solver, "dim": dim}
    x0 = [dyadic(rng, -4, 4, 4) if rng.random() < 0.5 else gfloat(rng, 4.0) for _ in range(dim)]
    if solver in ("DE", "DE2"):
        spec["strategy"] = rng.choice(["Best1Bin", "Best1Exp", "Rand1Bin", "Rand1Exp", "RandToBest1Exp", "Best2Exp", "Rand2Bin"])
        spec["npop"] = rng.randint(6 if "2" in spec["strategy"] else 4, 9)
        spec["F"] = rng.choice([0.8, 0.5, 1.0]); spec["CR"] = rng.choice([0.9, 0.5, 1.0, 0.1])
        spec["init_box"] = ([v - 2.0 for v in x0], [v + 2.0 for v in x0])
    else:
        spec["x0"] = x0
    spec["cost"] = gen_cost(rng, dim)
    if spec["cost"][0] == "vector":
        spec["reducer"] = rng.choice(["sum", "max"])
    if rng.random() < 0.45:
        lo, hi, bk = gen_box(rng, dim, x0)
        if rng.random() < 0.2:
            # the start EXACTLY on a bound (the closed box includes its faces), or beyond it (the solver clips it onto the face)
            j = rng.randrange(dim)
            off = rng.choice([0.0, 0.0, 0.5])
            if rng.random() < 0.6:
                hi[j] = x0[j] - off; lo[j] = min(lo[j], hi[j] - 1.0) if math.isfinite(lo[j]) else lo[j]
            else:
                lo[j] = x0[j] + off; hi[j] = max(hi[j], lo[j] + 1.0) if math.isfinite(hi[j]) else hi[j]
            bk = bk + "+start-on-face"
        tight, clip = rng.choice([(None, None), (None, None), (True, None), (False, None), (True, True), (None, True)])
        if not any(math.isfinite(v) for v in lo + hi):
            tight, clip = None, None     # symbolic_bounds of a fully infinite box is empty text (SetStrictRanges raises)
        spec["ranges"] = (lo, hi, tight, clip); spec["box_kind"] = bk
    if rng.random() < 0.45:
        box = (spec["ranges"][0], spec["ranges"][1]) if spec.get("ranges") else None
        spec["constraints"] = gen_constraints(rng, dim, box)
        spec["inplace"] = rng.random() < 0.5
    if rng.random() < 0.35:
        spec["penalty"] = gen_penalty(rng, dim)
    spec["termination"] = gen_termination(rng, solver)
    if rng.random() < 0.6:
        spec["limits"] = (rng.choice([None, 0, 1, 2, 3, 5, 8, 20]), rng.choice([None, 0, 1, 5, 20, 50, 200]))
    n = rng.randint(*nsteps)
    flavour = flavour or rng.choice(["steps", "steps", "ops", "ops", "solve"])
    spec["flavour"] = flavour
    if flavour == "steps":
        spec["ops"] = [("step",)] * n
    elif flavour == "solve":
        ops = [("solve",)]
        if rng.random() < 0.5:
            ops += [("setlimits", rng.choice([1, 2, 5]), rng.choice([None, 10, 40]), True), ("solve",)]
        if rng.random() < 0.3:
            ops += [("step",), ("step",)]
        spec["ops"] = ops
    else:
        spec["ops"] = gen_ops(rng, spec, n)
    return spec


def gen_ops(rng, spec, n):
    """op sequences: Step mixed with Set*/Finalize/exit requests/second Solve (C02-C05).
    The hypotheses of C03 are kept true along the sequence: constraints are always generated compatible with
    the box currently in force, and the box is only changed while no constraints are installed."""
    dim = spec["dim"]
    ops = []
    cur_box = (spec["ranges"][0], spec["ranges"][1]) if spec.get("ranges") else None
    cur_cons = spec.get("constraints")
    cons_unknown = False
    for _ in range(n):
        k = rng.random()
        if k < 0.62:
            ops.append(("step",))
        elif k < 0.70:
            ops.append(("setlimits", rng.choice([None, 0, 1, 2, 3, 6]), rng.choice([None, 0, 1, 7, 30]), rng.random() < 0.6))
        elif k < 0.75:
            ops.append(("finalize",))
        elif k < 0.79:
            ops.append(("earlyexit",))
        elif k < 0.82:
            ops.append(("clearexit",))
        elif k < 0.86:
            pen_new = gen_penalty(rng, dim) if rng.random() < 0.7 else None
            if rng.random() < 0.3:
                ops.append(("step", {"penalty": pen_new}))          # the same setting handed to Step itself
            else:
                ops.append(("setpenalty", pen_new))
        elif k < 0.90:
            cur_cons = gen_constraints(rng, dim, cur_box) if rng.random() < 0.8 else None
            if rng.random() < 0.3:
                ops.append(("step", {"constraints": cur_cons}))
                cons_unknown = True       # installed only if that Step really runs an iteration
            else:
                ops.append(("setconstraints", cur_cons))
        elif k < 0.94:
            if cur_cons is not None or cons_unknown:
                ops.append(("step",)); continue
            c = spec.get("x0") or [0.5 * (a + b) for a, b in zip(*spec["init_box"])]
            lo, hi, bk = gen_box(rng, dim, c, rng.choice(["finite", "onesided", "degenerate"]))
            tight, clip = rng.choice([(None, None), (True, None), (None, True)])
            if rng.random() < 0.85:
                ops.append(("setranges", lo, hi, tight, clip)); cur_box = (lo, hi)
            else:
                ops.append(("setranges", None, None, None, None)); cur_box = None
        elif k < 0.96:
            ops.append(("settermination", gen_termination(rng, spec["solver"]) or ("never",)))
        elif k < 0.975 and spec.get("monitor_ops"):
            kindm = rng.choice(["monitor", "monitor", "none", "null", "k", "k"])
            if kindm == "k":
                # a monitor with a cost multiplier: the records it takes over from the old monitor must read back unchanged
                ops.append(("setstepmon", rng.random() < 0.2, "k", rng.choice([-1.0, 4.0, 0.5, -2.0, 1.0])))
            else:
                ops.append(("setstepmon", rng.random() < 0.2, kindm))
        elif k < 0.985 and spec.get("monitor_ops") and rng.random() < 0.3:
            ops.append(("monadd", rng.choice(["step", "eval"])))
        elif k < 0.985 and spec.get("monitor_ops"):
            if rng.random() < 0.35:
                ops.append(("setevalmon", rng.random() < 0.3, rng.choice([-1.0, 4.0, 0.5])))
            else:
                ops.append(("setevalmon", rng.random() < 0.3))
        else:
            ops.append(("solve",))
    return ops


def gen_pushing_constraints(rng, dim, box):
    """a deterministic constraints function that can move an in-box point OUT of the box (C02 must hold anyway)"""
    lo, hi = box
    i = rng.randrange(dim)
    span = (hi[i] - lo[i]) if (math.isfinite(hi[i]) and math.isfinite(lo[i])) else 4.0
    kind = rng.choice(["shift", "tie", "scale", "pinout"])
    if kind == "shift":
        return ("pin", i, ("+", ("x", i), ("c", rng.choice([-1.0, 1.0]) * (0.5 * span + 0.25))))
    if kind == "tie" and dim >= 2:
        j = (i + 1) % dim
        return ("tie", i, j, rng.choice([-1.0, 1.0]) * (span + 1.0))
    if kind == "scale":
        return ("pin", i, ("*", ("x", i), ("c", rng.choice([2.0, -1.5, 3.0]))))
    base = hi[i] if math.isfinite(hi[i]) else (lo[i] if math.isfinite(lo[i]) else 0.0)
    return ("pin", i, ("c", base + 1.5))
