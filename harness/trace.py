"""Trace engine (DESIGN.md, shared model S): drive a REAL mystic solver through an op list and record,
after every op, everything the properties C01-C07 talk about.  Nothing in /repo is instrumented: the user's
cost / penalty / constraints / callback are harness objects, and the module-level lookups
(mystic.strategy.<Name>, scipy_optimize._linesearch_powell) are wrapped from here."""
import math, copy, random as _random
import numpy as np
import common, dsl
from common import jsonable

SOLVERS = ("DE", "DE2", "NM", "Powell")
STRATEGIES = ["Best1Exp", "Best1Bin", "Rand1Exp", "Rand1Bin", "RandToBest1Exp", "RandToBest1Bin",
              "Best2Exp", "Best2Bin", "Rand2Exp", "Rand2Bin"]


class Recorder:
    """all observations of one run"""

    def __init__(self):
        self.cost_calls = []      # (x, y)          every call of the user's cost, in order
        self.pen_calls = []       # (x, p)
        self.con_calls = []       # (x_in, x_out)
        self.cb_calls = []        # x               callback arguments
        self.trials = []          # (gen_marker, candidate, trial vector) produced by the DE strategy
        self.linesearch = []      # (p, xi, fret, xnew, xinew, [(point, decorated cost)...])
        self.snaps = []           # snapshot after every op
        self.box_at_call = []     # (lo, hi) in force at each cost call (None when no strict ranges)
        self.cost_args = []       # the extra positional arguments each cost call received (ExtraArgs)
        self.monadd = []          # (which, len(left) before, len(left + other), len(other)) for every monadd op
        self.epoch = 0


def vec(x):
    return [float(v) for v in np.asarray(x, dtype=float).ravel()]


class Problem:
    """harness-side user functions built from a spec"""

    def __init__(self, spec, rec):
        self.spec = spec
        self.rec = rec
        self.solver = None
        self.cost_expr = spec["cost"]            # ('scalar', expr) | ('vector', [expr...])
        self.pen_expr = spec.get("penalty")      # expr or None
        self.con_term = spec.get("constraints")  # DSL constraint or None
        self.inplace = bool(spec.get("inplace"))
        # ONE function object for the whole run: `prob.cost is prob.cost` is False for a bound method, and a cost
        # that "is not" the stored one makes Step re-decorate the objective (and reset an NM simplex) every time
        self.cost_fn = self.cost
        self.callback_fn = self.callback

    # --- the user's cost
    def cost(self, x, *args):
        xv = vec(x)
        kind, e = self.cost_expr
        if kind == "scalar":
            y = dsl.ev(e, xv)
            for a in args:          # cost(x, *ExtraArgs): the extra arguments are shifts of the value
                y = y + a
        else:
            y = np.array([dsl.ev(t, xv) for t in e])
        self.rec.cost_args.append(tuple(float(a) for a in args))
        s = self.solver
        box = None
        if s is not None and s._useStrictRange:
            box = (vec(s._strictMin), vec(s._strictMax))
        self.rec.cost_calls.append((xv, y if kind == "scalar" else [float(t) for t in y]))
        self.rec.box_at_call.append(box)
        return y

    def penalty_fn(self, expr):
        def penalty(x):
            xv = vec(x)
            p = dsl.ev(expr, xv)
            self.rec.pen_calls.append((xv, p))
            return p
        return penalty

    def constraints_fn(self, term, inplace):
        def constraints(x):
            xin = vec(x)
            y = dsl.con_apply(term, xin)
            self.rec.con_calls.append((xin, list(y)))
            if inplace:
                try:
                    for i in range(len(y)):
                        x[i] = y[i]
                    return x
                except TypeError:
                    pass
            return y
        return constraints

    def callback(self, x):
        self.rec.cb_calls.append(vec(x))


# ---------------------------------------------------------------- terminations
def make_termination(t):
    """t: ('VTR', tol, target) | ('COG', tol, gen) | ('NCOG', tol, gen) | ('CRT', xtol, ftol) | ('VTRCOG', ftol, gtol, gen, target)
       | ('Or', t1, t2) | ('And', t1, t2) | ('never',) | None (solver default)"""
    import mystic.termination as T
    if t is None:
        return None
    k = t[0]
    if k == "VTR":
        return T.VTR(t[1], t[2])
    if k == "COG":
        return T.ChangeOverGeneration(t[1], t[2])
    if k == "NCOG":
        return T.NormalizedChangeOverGeneration(t[1], t[2])
    if k == "CRT":
        return T.CandidateRelativeTolerance(t[1], t[2])
    if k == "VTRCOG":
        return T.VTRChangeOverGeneration(t[1], t[2], t[3], t[4])
    if k == "Or":
        return T.Or(make_termination(t[1]), make_termination(t[2]))
    if k == "And":
        return T.And(make_termination(t[1]), make_termination(t[2]))
    if k == "EVL":
        return T.EvaluationLimits(generations=t[1], evaluations=t[2])
    if k == "never":
        return T.VTR(-1.0, 0.0)     # |E - 0| <= -1 is never true
    raise ValueError(t)


# ---------------------------------------------------------------- building + running
class patched:
    """wrap mystic.strategy.<Name> and scipy_optimize._linesearch_powell with recorders"""

    def __init__(self, rec):
        self.rec = rec

    def __enter__(self):
        import mystic.strategy as S, mystic.scipy_optimize as SO
        self.S, self.SO = S, SO
        self.orig = {n: getattr(S, n) for n in STRATEGIES}
        rec = self.rec
        for n, f in self.orig.items():
            def mk(f, n):
                def wrapped(inst, candidate):
                    r = f(inst, candidate)
                    ts = inst.trialSolution
                    t = ts[candidate] if (len(ts) and hasattr(ts[0], "__len__")) else ts
                    rec.trials.append((len(inst._stepmon), candidate, vec(t)))
                    return r
                wrapped.__name__ = n
                return wrapped
            setattr(S, n, mk(f, n))
        self.ls = SO._linesearch_powell

        def ls(func, p, xi, tol=1e-3, maxiter=500):
            p0 = vec(p); xi0 = vec(xi)
            pts = []          # every point Brent hands to the decorated cost, with the value it got back

            def probed(z):
                zv = vec(z)
                v = func(z)
                pts.append((zv, float(np.asarray(v, dtype=float).ravel()[0])))
                return v
            fret, xn, xin = self.ls(probed, p, xi, tol=tol, maxiter=maxiter)
            rec.linesearch.append((p0, xi0, float(fret), vec(xn), vec(xin), pts))
            return fret, xn, xin
        SO._linesearch_powell = ls
        return self

    def __exit__(self, *a):
        for n, f in self.orig.items():
            setattr(self.S, n, f)
        self.SO._linesearch_powell = self.ls


def build_solver(spec, prob):
    from mystic.solvers import (DifferentialEvolutionSolver, DifferentialEvolutionSolver2,
                                NelderMeadSimplexSolver, PowellDirectionalSolver)
    kind = spec["solver"]; dim = spec["dim"]
    if kind == "DE":
        s = DifferentialEvolutionSolver(dim, spec["npop"])
    elif kind == "DE2":
        s = DifferentialEvolutionSolver2(dim, spec["npop"])
    elif kind == "NM":
        s = NelderMeadSimplexSolver(dim)
    else:
        s = PowellDirectionalSolver(dim)
    prob.solver = s
    return s


def apply_config(s, spec, prob, which=None):
    """the Set* calls of a spec, in spec['config_order'] (default order below)"""
    order = which or spec.get("config_order") or ["ranges", "constraints", "penalty", "limits", "termination", "reducer", "monitors"]
    for item in order:
        if item == "ranges" and spec.get("ranges"):
            lo, hi, tight, clip = spec["ranges"]
            kw = {}
            if tight is not None:
                kw["tight"] = tight
            if clip is not None:
                kw["clip"] = clip
            lo, hi = list(lo), list(hi)
            for j, side in spec.get("ranges_none") or ():
                # an entry the user has no preference for: None stands for the solver default (-1e3 / +1e3), which the spec
                # carries as the number
                if side == "lo":
                    lo[j] = None
                else:
                    hi[j] = None
            s.SetStrictRanges(lo, hi, **kw)
        elif item == "constraints" and spec.get("constraints") is not None:
            s.SetConstraints(prob.constraints_fn(spec["constraints"], prob.inplace))
        elif item == "penalty" and spec.get("penalty") is not None:
            s.SetPenalty(prob.penalty_fn(spec["penalty"]))
        elif item == "limits" and spec.get("limits") is not None:
            g, e = spec["limits"]
            s.SetEvaluationLimits(g, e)
        elif item == "termination" and spec.get("termination") is not None:
            s.SetTermination(make_termination(spec["termination"]))
        elif item == "reducer" and spec.get("reducer"):
            red = spec["reducer"]
            if red == "sum":
                s.SetReducer(lambda a, b: a + b)           # python reduce: left fold
            elif red == "max":
                s.SetReducer(lambda a, b: a if a >= b else b)
            elif red == "sumsq":
                # an ARRAY-LIKE reducer (the whole result is handed over): f([y]) != y, so it matters for one residual too
                def sumsq(ys):
                    acc = None
                    for v in ys:
                        acc = v * v if acc is None else acc + v * v
                    return acc
                s.SetReducer(sumsq, arraylike=True)
        elif item == "monitors":
            from mystic.monitors import Monitor
            if spec.get("evalmon", True):
                em = Monitor()
                for j in range(int(spec.get("evalmon_prefilled") or 0)):
                    # a monitor that is shared with / reused from another run already holds records this solver did not write
                    em([float(j)] * spec["dim"], 1000.0 + j)
                s.SetEvaluationMonitor(em)
            if spec.get("stepmon"):
                # True: a plain Monitor; a number: a Monitor with that cost multiplier k (transparent to the solver)
                km = spec["stepmon"]
                s.SetGenerationMonitor(Monitor() if km is True else Monitor(k=km))


def snapshot(s, rec, op, ret):
    em = s._evalmon
    try:
        nem = len(em)
    except Exception:
        nem = -1
    sm = s._stepmon
    pop = [vec(p) for p in s.population]
    snap = {
        "op": op, "ret": ret if (ret is None or isinstance(ret, str)) else repr(ret),
        "population": pop,
        "popEnergy": [float(e) for e in np.asarray(s.popEnergy, dtype=float).ravel()],
        "bestSolution": vec(s.bestSolution),
        "bestEnergy": float(np.asarray(s.bestEnergy, dtype=float).ravel()[0]) if s.bestEnergy is not None else None,
        "evaluations": int(s.evaluations), "generations": int(s.generations),
        "n_cost_calls": len(rec.cost_calls), "n_cb": len(rec.cb_calls),
        "n_evalmon": nem, "n_stepmon": len(sm),
        "stepmon_x": [vec(x) for x in sm._x], "stepmon_y": [float(np.asarray(y, dtype=float).ravel()[0]) for y in sm.y],
        "energy_history": [float(np.asarray(y, dtype=float).ravel()[0]) for y in s.energy_history],
        "live": bool(s._live), "maxiter": s._maxiter, "maxfun": s._maxfun, "earlyexit": bool(s._EARLYEXIT),
        "n_trials": len(rec.trials), "n_ls": len(rec.linesearch), "n_con": len(rec.con_calls), "n_pen": len(rec.pen_calls),
    }
    if nem >= 0 and nem:
        ylast = em._y[-1] if getattr(em, "k", None) is None else em.y[-1]      # the cost as recorded (`y` undoes the multiplier k)
        snap["evalmon_last"] = (vec(em._x[-1]), float(np.asarray(ylast, dtype=float).ravel()[0]) if np.ndim(ylast) == 0 or len(np.ravel(ylast)) == 1 else [float(t) for t in np.ravel(ylast)])
    return snap


class _FalsyCallback(object):
    """a callback object that is empty in the sense of `bool()` / `len()` (e.g. a list-like recorder before its first
    record): `callback is not None`, so it must be called once per iteration like any other"""
    def __init__(self, f):
        self.f = f

    def __call__(self, x):
        return self.f(x)

    def __bool__(self):
        return False

    def __len__(self):
        return 0


def run_trace(spec, seed):
    """returns (Recorder, solver, problem).  spec['ops'] drives the solver."""
    common.import_mystic()
    rec = Recorder()
    prob = Problem(spec, rec)
    _random.seed(seed); np.random.seed(seed % (2**31))
    s = build_solver(spec, prob)
    if spec.get("mapper") and hasattr(s, "SetMapper"):
        # a user-supplied map (here: a serial re-implementation): DifferentialEvolutionSolver2 treats every map that is not
        # its default python_map as "foreign" (no evaluation monitor inside the map)
        def serial_map(f, *args, **kwds):
            return [f(*a) for a in zip(*args)]
        s.SetMapper(serial_map)
    if spec["solver"] in ("DE", "DE2"):
        s.strategy = spec.get("strategy", "Best1Bin")
        s.scale = spec.get("F", 0.8); s.probability = spec.get("CR", 0.9)
        if spec.get("population") is not None:
            s.population = [list(p) for p in spec["population"]]
        else:
            lo, hi = spec["init_box"]
            s.SetRandomInitialPoints(list(lo), list(hi))
    else:
        s.SetInitialPoints(list(spec["x0"]))
    apply_config(s, spec, prob)
    rec.init_population = [vec(p) for p in s.population]
    kw = {}
    if spec.get("callback", True) == "falsy":
        kw["callback"] = _FalsyCallback(prob.callback_fn)
    elif spec.get("callback", True):
        kw["callback"] = prob.callback_fn
    with patched(rec):
        for op in spec["ops"]:
            k = op[0]
            ret = None
            pre = None
            if k in ("step", "solve"):
                pre = {"n_stepmon": len(s._stepmon), "n_cost_calls": len(rec.cost_calls), "n_cb": len(rec.cb_calls),
                       "evaluations": int(s.evaluations), "generations": int(s.generations)}
                if len(s._stepmon) and k == "step":
                    # exactly what Step itself does first: (re)decorate the objective when needed, then
                    # resolve None/"*" limits and test the stop conditions at this moment
                    s._bootstrap_objective(prob.cost_fn)
                    # a termination handed to this Step (`Step(cost, termination=T)`) is registered BEFORE the stop test
                    # (abstract_solver.py l.1097): the test that decides whether this iteration begins is made with T
                    newT = make_termination(op[1]["termination"]) if (len(op) > 1 and op[1].get("termination") is not None) else None
                    pre["new_termination"] = newT
                    pre["terminated_msg"] = (s.Terminated(info=True, termination=newT) if newT is not None else s.Terminated(info=True)) or None
                    pre["term_cond"] = bool((newT or s._termination)(s))
                    pre["maxiter"] = s._maxiter; pre["maxfun"] = s._maxfun; pre["earlyexit"] = bool(s._EARLYEXIT)
            if k == "step":
                kw_step = dict(kw)
                if len(op) > 1:
                    # settings handed to Step itself (`Step(cost, constraints=c, penalty=p)`): documented one-time inputs
                    # processed by `_process_inputs` inside `_Step`, i.e. AFTER the stop test of this Step
                    for name, val in op[1].items():
                        if name == "constraints":
                            kw_step["constraints"] = prob.constraints_fn(val, prob.inplace) if val is not None else None
                        elif name == "penalty":
                            kw_step["penalty"] = prob.penalty_fn(val) if val is not None else None
                        elif name == "extra":
                            kw_step["ExtraArgs"] = tuple(val)      # Step(cost, ExtraArgs=...): the arguments in force from now on
                        elif name == "termination" and val is not None:
                            kw_step["termination"] = (pre or {}).get("new_termination") or make_termination(val)
                if pre is not None:
                    pre.pop("new_termination", None)
                ret = s.Step(prob.cost_fn, **kw_step)
            elif k == "solve":
                ret = s.Solve(prob.cost_fn, **kw)
            elif k == "setlimits":
                s.SetEvaluationLimits(op[1], op[2], new=bool(op[3]))
            elif k == "setpenalty":
                s.SetPenalty(prob.penalty_fn(op[1]) if op[1] is not None else None)
            elif k == "setconstraints":
                s.SetConstraints(prob.constraints_fn(op[1], prob.inplace) if op[1] is not None else None)
            elif k == "setranges":
                if op[1] is None:
                    s.SetStrictRanges(False, False)
                else:
                    kw2 = {}
                    if op[3] is not None:
                        kw2["tight"] = op[3]
                    if op[4] is not None:
                        kw2["clip"] = op[4]
                    s.SetStrictRanges(list(op[1]), list(op[2]), **kw2)
            elif k == "settermination":
                s.SetTermination(make_termination(op[1]))
            elif k == "finalize":
                s.Finalize()
            elif k == "earlyexit":
                s._EARLYEXIT = True
            elif k == "clearexit":
                s._EARLYEXIT = False
            elif k == "setevalmon":
                from mystic.monitors import Monitor
                s.SetEvaluationMonitor(Monitor(k=op[2]) if len(op) > 2 and op[2] is not None else Monitor(), new=bool(op[1]))
            elif k == "setstepmon":
                from mystic.monitors import Monitor, Null
                kindm = op[2] if len(op) > 2 else "monitor"
                s.SetGenerationMonitor(Monitor(k=op[3]) if kindm == "k" else {"monitor": Monitor(), "none": None, "null": Null()}[kindm], new=bool(op[1]))
            elif k == "monadd":
                # a user-level monitor operation on a monitor that is still attached: `merged = solver_monitor + other` builds a
                # NEW monitor (records of the left operand followed by those of the right); the operands stay as they are
                from mystic.monitors import Monitor
                other = Monitor()
                nd = len(s.population[0]) if len(s.population) else 1
                other([0.25] * nd, 7.0); other([0.5] * nd, 3.0)
                left = s._stepmon if op[1] == "step" else s._evalmon
                try:
                    n_left = len(left)
                    merged = left + other
                    rec.monadd.append((op[1], n_left, len(merged), len(other)))
                except Exception as exc:          # Null monitors do not add
                    rec.monadd.append((op[1], -1, -1, type(exc).__name__))
            else:
                raise ValueError(op)
            sn = snapshot(s, rec, op, ret)
            sn["pre"] = pre
            if k in ("step", "solve"):
                sn["post_term_cond"] = bool(s._termination(s)) if len(s._stepmon) else False
            if k == "solve":
                sn["stop_msg"] = s.Terminated(info=True) or None      # what the last Step of the loop returned
            rec.snaps.append(sn)
    return rec, s, prob
