"""Python twin of lean/MysticVerif/Model/Dsl.lean.  Terms are nested tuples; floats are python floats.
Every operation is a single IEEE operation in the same order as the Lean interpreter."""
from common import f2b


def py_round(x):
    if x != x or x in (float("inf"), float("-inf")):
        return x            # round() raises on non-finite floats; the DSL is total there (as the Lean twin)
    return float(round(x))


# ------------------------------------------------------------------ scalar expressions
def ev(e, v):
    op = e[0]
    if op == "c":
        return float(e[1])
    if op == "x":
        return float(v[e[1]])
    if op == "+":
        return ev(e[1], v) + ev(e[2], v)
    if op == "-":
        return ev(e[1], v) - ev(e[2], v)
    if op == "*":
        return ev(e[1], v) * ev(e[2], v)
    if op == "/":
        p = ev(e[1], v); q = ev(e[2], v)
        if q == 0.0:
            raise ZeroDivisionError("float division by zero")
        return p / q
    if op == "neg":
        return -ev(e[1], v)
    if op == "abs":
        return abs(ev(e[1], v))
    if op == "min":
        return min(ev(e[1], v), ev(e[2], v))
    if op == "max":
        return max(ev(e[1], v), ev(e[2], v))
    if op == "sq":
        p = ev(e[1], v)
        return p * p
    if op == "rint":
        return py_round(ev(e[1], v))
    if op == "sum":
        acc = 0.0
        for t in e[1:]:
            acc = acc + ev(t, v)
        return acc
    raise ValueError("bad expr %r" % (e,))


def expr_sexp(e):
    op = e[0]
    if op == "c":
        return "(c %s)" % f2b(e[1])
    if op == "x":
        return "(x %d)" % e[1]
    return "(" + op + " " + " ".join(expr_sexp(t) for t in e[1:]) + ")"


# ------------------------------------------------------------------ constraints
def con_apply(c, v):
    """pure: returns a new list"""
    v = [float(a) for a in v]
    op = c[0]
    if op == "id":
        return v
    if op == "pin":
        a = ev(c[2], v); v[c[1]] = a; return v
    if op == "clamp":
        i, lo, hi = c[1], float(c[2]), float(c[3])
        v[i] = max(lo, min(hi, v[i])); return v
    if op == "rint":
        for i in c[1:]:
            if i < len(v):
                v[i] = py_round(v[i])
        return v
    if op == "tie":
        v[c[1]] = v[c[2]] + float(c[3]); return v
    if op == "addUntil":
        i, t, s = c[1], float(c[2]), float(c[3])
        if v[i] < t:
            v[i] = v[i] + s
        return v
    if op == "rot":
        return v[1:] + v[:1]
    if op == "swap":
        i, j = c[1], c[2]
        a, b = v[i], v[j]
        v[i] = b; v[j] = a
        return v
    if op == "seq":
        for t in c[1:]:
            v = con_apply(t, v)
        return v
    raise ValueError("bad constraint %r" % (c,))


def con_sexp(c):
    op = c[0]
    if op in ("id", "rot"):
        return "(%s)" % op
    if op == "pin":
        return "(pin %d %s)" % (c[1], expr_sexp(c[2]))
    if op == "clamp":
        return "(clamp %d %s %s)" % (c[1], f2b(c[2]), f2b(c[3]))
    if op == "rint":
        return "(rint " + " ".join(str(i) for i in c[1:]) + ")"
    if op == "tie":
        return "(tie %d %d %s)" % (c[1], c[2], f2b(c[3]))
    if op == "addUntil":
        return "(addUntil %d %s %s)" % (c[1], f2b(c[2]), f2b(c[3]))
    if op == "swap":
        return "(swap %d %d)" % (c[1], c[2])
    if op == "seq":
        return "(seq " + " ".join(con_sexp(t) for t in c[1:]) + ")"
    raise ValueError(c)


def as_callable(c, inplace=False, numpy_out=False, log=None):
    """a python constraints function for term c.  inplace=True mutates its argument (and returns it)."""
    import numpy as np

    def f(x):
        y = con_apply(c, list(x))
        if log is not None:
            log.append((list(map(float, x)), list(y)))
        if inplace:
            try:
                for i in range(len(y)):
                    x[i] = y[i]
                return x
            except TypeError:
                pass
        return np.array(y) if numpy_out else y
    f.__doc__ = con_sexp(c)
    return f


# ------------------------------------------------------------------ generators
def gen_expr(rng, dim, depth=2, avoid=None, div=False):
    from common import gfloat
    if depth == 0 or rng.random() < 0.3:
        if rng.random() < 0.5 or dim == 0:
            return ("c", gfloat(rng))
        idx = [i for i in range(dim) if i != avoid]
        if not idx:
            return ("c", gfloat(rng))
        return ("x", rng.choice(idx))
    ops = ["+", "-", "*", "neg", "abs", "min", "max", "sq"] + (["/"] if div else [])
    op = rng.choice(ops)
    if op in ("neg", "abs", "sq"):
        return (op, gen_expr(rng, dim, depth - 1, avoid, div))
    return (op, gen_expr(rng, dim, depth - 1, avoid, div), gen_expr(rng, dim, depth - 1, avoid, div))
