"""C14 - compiled condition and penalty functions measure exactly the stated violation.

Per case the REAL `generate_conditions` / `generate_penalty` of /repo is run on a generated constraint text.
  * translator : every condition's `__doc__` (the very string that is eval'ed) and `__name__` (equality / inequality)
    is parsed into the expression language of lean/MysticVerif/Model/Emitted.lean (harness/symtrans.py);
  * validator  : Lean `recogniseCond` (proved in Props/C14.lean to characterise the line for ALL points) decides
    whether the emitted (kind, expression) is what the text's line `lhs <cmp> rhs` must produce;
  * correspondence: condition values and the penalty value vs the Lean evaluation, bit-exact;
  * monitor    : orientation (value <= 0 iff inequality holds, == 0 iff equality holds, strict comparators with
    their tolerance margin), penalty zero iff all satisfied / positive elsewhere / documented sum, and - for
    isolated-form systems - penalty(constraint(x)) == 0.0, all by python's own reading of the text.
45% of the cases go through the ARGUMENT-SHAPE space of generate_conditions / generate_penalty (harness/c14_shape.py, model
Model/EmittedPShape.lean, theorems Props/C14Shape.lean): tuples / lists / nestings of texts, hand-nested collections of condition
functions, every form of ptype (None, one, flat, nested, longer, too short, as long as the outer sequence), join= over groups.
"""
import sys, time, math, json, warnings
import common
from common import case_rng, fl, f2b, same_float, parse_reply, b2f
import framework, leandrv
from framework import Finding
import symtrans as T
import c13
import c14_shape

PID = "C14"
MODULE = "MysticVerif.Props.C14Shape"          # imports Props.C14
THEOREMS = [
    "MysticVerif.C14.condition_exact",
    "MysticVerif.C14.condition_kind",
    "MysticVerif.C14.condition_orientation",
    "MysticVerif.C14.strict_band_is_penalised",
    "MysticVerif.C14.penalty_is_sum",
    "MysticVerif.C14.penalty_zero_iff",
    "MysticVerif.C14.penalty_pos_of_violation",
    "MysticVerif.C14.chain_enforces_margin",
    "MysticVerif.C14.constraint_drives_penalty_to_zero",
    "MysticVerif.C14.penjoin_and_zero_iff",
    "MysticVerif.C14.penjoin_or_zero_iff",
    "MysticVerif.C14.penjoin_nonneg",
    "MysticVerif.C14.penjoin_or_empty",
    # argument shapes of generate_conditions / generate_penalty (Props/C14Shape.lean on Model/EmittedPShape.lean)
    "MysticVerif.C14.gp_shape_penalises_every_condition",
    "MysticVerif.C14.gp_shape_default_types",
    "MysticVerif.C14.gp_shape_nesting_irrelevant",
    "MysticVerif.C14.gp_shape_is_sum",
    "MysticVerif.C14.gp_shape_zero_iff",
    "MysticVerif.C14.gp_shape_default_zero_iff",
    "MysticVerif.C14.gp_shape_pos_of_violation",
    "MysticVerif.C14.gp_shape_short_ptype_drops",
    "MysticVerif.C14.gp_join_and_zero_iff",
    "MysticVerif.C14.gp_join_or_zero_iff",
    "MysticVerif.C14.gp_join_and_default_zero_iff",
    "MysticVerif.C14.gp_join_or_default_zero_iff",
    "MysticVerif.C14.gp_join_runs_dry",
    "MysticVerif.C14.gp_shape_constraint_drives_penalty_to_zero",
]
KEY_BAND = "condition/strict-tolerance-band"
EQ_TYPES = ["quadratic_equality", "linear_equality", "uniform_equality"]
IN_TYPES = ["quadratic_inequality", "linear_inequality", "uniform_inequality"]
INEQ = ("<", "<=", ">", ">=")
C15_INEQ = ["barrier_inequality", "lagrange_inequality"]
C15_EQ = ["lagrange_equality"]


# ------------------------------------------------------------------ generators
def gen_case(rng):
    kind = rng.choices(["cond", "drive"], [65, 35])[0]
    if kind == "drive":
        while True:
            case = c13.gen_case(rng)
            if case["kind"] in ("rel", "chain", "neqmix"):
                break
        c13.finalize_point(rng, case)
        case["rels2"] = [(("v", i), cmp, term) for (i, cmp, term) in case["rels"]]
        case["consts"] = case.get("consts") or {}
        case["drive"] = True
    else:
        regime = rng.choices(["small", "huge", "tiny"], [75, 17, 8])[0]
        n = rng.choice([1, 2, 3, 3, 4, 5, 6, 8, 11, 12, 13])
        scheme = c13.gen_scheme(rng, n)
        locs = c13.gen_locals(rng, regime)
        consts = {}
        rich = regime == "small" and rng.random() < 0.4          # the wider expression language (**, abs, min/max, sqrt, ...)
        if rich and scheme[0] == "names":
            scheme = ("names", rng.sample(c13.WORDS, n), scheme[2]) if n <= len(c13.WORDS) else ("base", "x", True)
        if scheme[0] == "base" and rng.random() < 0.3:
            # names bound through locals=; half of the time they shadow a math / numpy name the generated code imports
            n0, n1 = rng.choice([("K0", "K1"), ("K0", "K1"), ("e", "tau"), ("pi", "gamma"), ("K0", "e"), ("euler_gamma", "K1")])
            consts = {n0: rng.choice([2.0, -1.5, 0.25, 3.0]), n1: rng.uniform(-5, 5)}
            locs = dict(locs or {}); locs.update(consts)
        idx = list(range(n))
        pref = ([j for j in idx if j >= 10] + [1, 0]) if (n > 10 and rng.random() < 0.7) else idx
        m = rng.choice([1, 1, 2, 2, 3, 4])
        rels2 = []

        def term(avail, depth):
            if rich and rng.random() < 0.7:
                t = T.floatify(c13.gen_rich(rng, avail, max(1, depth), consts))
            else:
                t = c13.gen_term(rng, avail, depth, regime)
            if consts and rng.random() < 0.4:
                t = (rng.choice(["+", "*", "-"]), t, ("n", rng.choice(sorted(consts))))
            return t
        for _ in range(m):
            if rng.random() < 0.55:
                lhs = ("v", rng.choice(pref))
            else:
                lhs = term(pref, rng.choice([1, 1, 2]))
            rhs = term(pref, rng.choice([0, 1, 1, 2]))
            both = T.deint(("-", lhs, rhs))          # the emitted condition is `lhs - (rhs)`
            rels2.append((both[1], rng.choice(c13.CMPS), both[2]))
        x = [c13.gen_value(rng, regime) for _ in range(n)]
        if regime == "small" and rng.random() < 0.3:
            x = [float(rng.randint(-3, 3)) for _ in range(n)]
        case = {"kind": "cond", "regime": regime, "n": n, "scheme": scheme, "locals": locs, "rels2": rels2,
                "consts": consts, "x": x, "drive": False, "rich": rich}
        # boundary placement for lines with a single variable on the left that the right-hand side does not read
        tol = (locs or {}).get("tol", 1e-15); rel = (locs or {}).get("rel", 1e-15)
        for (lhs, cmp, rhs) in rels2:
            if lhs[0] == "v" and lhs[1] not in T.term_vars(rhs) and rng.random() < 0.7:
                try:
                    r = c13._safe_eval(rhs, x, consts)
                except (ZeroDivisionError, OverflowError, TypeError, ValueError):
                    continue
                x[lhs[1]] = c13.place(rng, r, c13.tolf(r, tol, rel), regime)
    # penalty configuration
    k = rng.choice([None, None, 1, 2.5, 100, 1e6, 0.125, 3])
    h = rng.choice([None, 2, 5, 10]) if k is not None else None
    nit = rng.choice([0, 0, 0, 1, 2])
    mode = rng.choice(["default", "default", "conform", "conform", "single"])
    if case["drive"]:
        mode = rng.choice(["default", "default", "conform"])
    pt = None
    n_in = sum(1 for r in case["rels2"] if r[1] in INEQ); n_eq = len(case["rels2"]) - n_in
    avail_in = IN_TYPES if k is not None else IN_TYPES[:2]
    avail_eq = EQ_TYPES if k is not None else EQ_TYPES[:2]
    if mode == "conform":
        pt = ([rng.choice(avail_in) for _ in range(n_in)], [rng.choice(avail_eq) for _ in range(n_eq)])
    elif mode == "single":
        pt = rng.choice(avail_in + avail_eq)
    case.update({"k": k, "h": h, "iter": nit, "ptype": pt, "join": rng.choice([None] * 6 + ["and_", "and_", "or_", "or_"]),
                 "grouping": rng.choice(["pair", "flat", "flat"])})
    if not case["drive"] and rng.random() < 0.012:
        case["rels2"] = []                       # no line at all (empty text, empty collections): shaped path only
        c14_shape.gen_shape(rng, case)
    elif rng.random() < 0.45:
        # HOW the lines reach generate_penalty and the form of ptype / join: the argument-shape space (harness/c14_shape.py)
        c14_shape.gen_shape(rng, case)
    return case


def case_text(case):
    nm = c13.namer(case["scheme"])
    lines = ["%s %s %s" % (T.print_expr(l, nm), cmp, T.print_expr(r, nm)) for (l, cmp, r) in case["rels2"]]
    pad = "    " if len(lines) > 1 else ""
    return "\n".join(pad + l for l in lines)


# ------------------------------------------------------------------ running the implementation
def resolve_ptypes(case, names):
    """the penalty type mystic uses for each condition of the flattened list (inequalities first)"""
    pt = case["ptype"]
    if pt is None:
        return ["quadratic_inequality" if "inequality" in nm else "quadratic_equality" for nm in names]
    if isinstance(pt, str):
        return [pt] * len(names)
    return list(pt[0]) + list(pt[1])


def run_impl(case):
    if case.get("shape"):
        return c14_shape.run_impl(case)
    from mystic import symbolic as S, penalty as P, coupler as CP
    text = case_text(case)
    kw = c13.mystic_args(case)
    obs = {"text": text}
    try:
        locs = dict(case["locals"]) if case["locals"] is not None else None
        ineqf, eqf = S.generate_conditions(text, locals=locs, **kw)
        conds = list(ineqf) + list(eqf)
        obs["conds"] = [(f.__name__, f.__doc__) for f in conds]
        pt = case["ptype"]
        if pt is None:
            ptype = None
        elif isinstance(pt, str):
            ptype = getattr(P, pt)
        else:
            ptype = (tuple(getattr(P, t) for t in pt[0]), tuple(getattr(P, t) for t in pt[1]))
        kwds = {}
        if case["k"] is not None:
            kwds["k"] = case["k"]
        if case["h"] is not None:
            kwds["h"] = case["h"]
        pen = S.generate_penalty((ineqf, eqf), ptype=ptype, **kwds)
        for _ in range(case["iter"]):
            pen.iter()
        obs["pdoc"] = pen.__doc__
        joined = None
        if case["join"]:
            jn = getattr(CP, case["join"])
            if case.get("grouping", "pair") == "pair":
                # one member penalty per kind: all inequality lines / all equality lines
                joined = S.generate_penalty((ineqf, eqf), ptype=ptype, join=jn, **kwds)
                parts = [S.generate_penalty(ineqf, ptype=(ptype[0] if isinstance(ptype, tuple) else ptype), **kwds),
                         S.generate_penalty(eqf, ptype=(ptype[1] if isinstance(ptype, tuple) else ptype), **kwds)]
            else:
                # one member penalty per line
                flat_t = (list(ptype[0]) + list(ptype[1])) if isinstance(ptype, tuple) else ptype
                joined = S.generate_penalty(list(conds), ptype=flat_t, join=jn, **kwds)
                parts = [S.generate_penalty(c, ptype=(flat_t[q] if isinstance(flat_t, list) else flat_t), **kwds)
                         for q, c in enumerate(conds)]
    except Exception as exc:
        obs["gen_raises"] = "%s: %s" % (type(exc).__name__, exc)
        return obs
    x = list(case["x"])
    if case["drive"]:
        try:
            locs = dict(case["locals"]) if case["locals"] is not None else None
            cf = S.generate_constraint(S.generate_solvers(text, locals=locs, **kw))
            with warnings.catch_warnings():
                warnings.simplefilter("ignore")
                x = [float(v) for v in cf(list(x))]
        except ZeroDivisionError:
            obs["drive_raises"] = "zerodiv"; return obs
        except Exception as exc:
            obs["gen_raises"] = "constraint: %s: %s" % (type(exc).__name__, exc); return obs
    obs["point"] = x
    with warnings.catch_warnings():
        warnings.simplefilter("ignore")
        obs["cvals"] = eval_conds(conds, x)
        try:
            obs["pen"] = float(pen(list(x)))
        except OverflowError:
            obs["pen_overflow"] = True      # python's float ** 2 raises where IEEE gives inf
        except Exception as exc:
            obs["pen_raises"] = "%s: %s" % (type(exc).__name__, exc)
        if joined is not None:
            try:
                jv = float(joined(list(x))); pv_ = [float(p(list(x))) for p in parts]
                obs["joined"] = jv; obs["parts"] = pv_
            except OverflowError:
                obs["joined_overflow"] = True
            except Exception as exc:
                obs["joined_raises"] = "%s: %s" % (type(exc).__name__, exc)
        obs["cvals_again"] = after_decoy(S, case, conds, x)
    return obs


def eval_conds(conds, x):
    cv = []
    for f in conds:
        try:
            cv.append(float(f(list(x))))
        except ZeroDivisionError:
            cv.append("raises")
        except OverflowError:
            cv.append("overflow")               # python's float ** int raises where IEEE gives inf
        except Exception as exc:
            cv.append("error %s: %s" % (type(exc).__name__, exc))
    return cv


def after_decoy(S, case, conds, x):
    """functions generated earlier must keep measuring THEIR text after another text is compiled with the same names bound
    to other values: the condition values once more, after a decoy compilation"""
    decoy = {"tol": 7.0, "rel": 3.0}
    for name in (case["locals"] or {}):
        if name not in decoy:
            decoy[name] = 11.0
    try:
        di, de = S.generate_conditions("x0 > x1 + 2\nx0 == 3", locals=decoy, nvars=max(2, case["n"]))
        S.generate_penalty((di, de))([0.0] * max(2, case["n"]))
        return eval_conds(conds, x)
    except Exception as exc:
        return "%s: %s" % (type(exc).__name__, exc)


def tie_flags(case, order, x):
    """positions of '!=' lines whose two sides agree to 1e-6 at x (python's own evaluation of the text)"""
    out = {}
    for pos, k in enumerate(order):
        lhs, cmp, rhs = case["rels2"][k]
        if cmp != "!=":
            continue
        try:
            with warnings.catch_warnings():
                warnings.simplefilter("ignore")
                L = float(T.py_eval(lhs, x, case["consts"])); R = float(T.py_eval(rhs, x, case["consts"]))
        except Exception:
            continue
        if math.isfinite(L) and math.isfinite(R) and abs(L - R) <= 1e-6 * (1 + abs(R)):
            out[pos] = True
    return out


def overflow_flags(case, obs):
    """positions whose condition raised OverflowError BECAUSE a `**` sub-expression of the emitted source overflows at the point
    while its operands evaluate: python's float ** raises where IEEE (the model) continues with +-inf - which a later
    operation may absorb (`inf**0`, `1/inf`, `min(inf, ..)`), so the model's value can be finite"""
    import ast
    out = {}
    for pos, c in enumerate(obs.get("cvals", [])):
        if c != "overflow":
            continue
        env = dict(T._PYENV); env["x"] = list(obs["point"]); env.update(case["consts"] or {})
        env["tol"] = (case["locals"] or {}).get("tol", 1e-15); env["rel"] = (case["locals"] or {}).get("rel", 1e-15)
        env["_tol"] = lambda a, tol, rel: tol + abs(a) * rel
        env["average"] = env["mean"]; env["ptp"] = env["spread"]

        def ev(node):
            return eval(compile(ast.Expression(node), "<pow>", "eval"), {"__builtins__": {}}, env)
        try:
            tree = ast.parse(obs["conds"][pos][1], mode="eval")
        except SyntaxError:
            continue
        with warnings.catch_warnings():
            warnings.simplefilter("ignore")
            for node in ast.walk(tree):
                if isinstance(node, ast.BinOp) and isinstance(node.op, ast.Pow):
                    try:
                        ev(node)
                    except OverflowError:
                        try:
                            ev(node.left); ev(node.right)
                            out[pos] = True; break
                        except Exception:
                            continue
                    except Exception:
                        continue
    return out


def build_request(case, obs):
    if case.get("shape"):
        return c14_shape.build_request(case, obs)
    rels2 = case["rels2"]; consts = case["consts"]
    names = [nm for nm, _ in obs["conds"]]
    if len(names) != len(rels2):
        return None, "%d conditions emitted for %d lines" % (len(names), len(rels2))
    order = [k for k, r in enumerate(rels2) if r[1] in INEQ] + [k for k, r in enumerate(rels2) if r[1] not in INEQ]
    try:
        exprs = [T.parse_expr(doc, consts) for _, doc in obs["conds"]]
    except T.Untranslatable as exc:
        return None, "emitted source outside the modelled language: %s" % exc
    pts = resolve_ptypes(case, names)
    if len(pts) != len(names):
        return None, "ptype list does not match the conditions"
    tol = (case["locals"] or {}).get("tol", 1e-15); rel = (case["locals"] or {}).get("rel", 1e-15)
    rs = []
    for k in order:
        lhs, cmp, rhs = rels2[k]
        # penalty_parser documents that conditions read `mean` / `spread` as numpy's `average` / `ptp` (l.975-981)
        np_names = lambda src: src.replace("mean(", "average(").replace("spread(", "ptp(")
        rs.append("(%s %s %s)" % (T.sexp(T.parse_expr(np_names(T.print_expr(lhs, T.xj)), consts)), T.CMP_SYM[cmp],
                                  T.sexp(T.parse_expr(np_names(T.print_expr(rhs, T.xj)), consts))))
    cs = ["(%s %s %s)" % (nm, pt, T.sexp(e)) for nm, pt, e in zip(names, pts, exprs)]
    kk = case["k"] if case["k"] is not None else 100
    hh = case["h"] if case["h"] is not None else 5
    line = "C14 pen (tol %s) (rel %s) (k %s) (h %s) (n %d) (x %s) (rels (%s)) (conds (%s))" % (
        f2b(tol), f2b(rel), f2b(float(kk)), f2b(float(hh)), case["iter"], fl(obs["point"]), " ".join(rs), " ".join(cs))
    def _has(e, pred):
        return isinstance(e, tuple) and (pred(e) or any(_has(t, pred) for t in e[1:]))
    npfn = any(_has(e, lambda t: t[0] == "app1") for e in exprs)
    mayraise = any(_has(e, lambda t: t[0] == "/" or (t[0] == "app2" and t[3][0] == "n" and t[3][1] < 0)) for e in exprs)
    # numpy scalars (the values of sqrt, exp, floor, ..) divide by zero / raise zero to a negative power without raising
    info = {"order": order, "ptypes": pts, "names": names, "K": float(kk) * float(hh) ** case["iter"],
            "inexact": any(T.inexact(e) for e in exprs), "np_mayraise": npfn and mayraise}
    info["tie"] = tie_flags(case, order, obs["point"]) if info["inexact"] else {}
    info["pow_overflow"] = overflow_flags(case, obs)
    if case.get("join"):
        cond_s = cs
        if case.get("grouping", "pair") == "pair":
            groups = [[q for q, nm in enumerate(names) if nm == "inequality"], [q for q, nm in enumerate(names) if nm != "inequality"]]
        else:
            groups = [[q] for q in range(len(names))]
        info["groups"] = groups
        gs = " ".join("(" + " ".join(cond_s[q] for q in g) + ")" for g in groups)
        # the joined penalty is built from fresh member penalties: iteration 0, joining multiplier 1 (coupler.and_/or_ default)
        info["jline"] = "C14 penj (tol %s) (rel %s) (k %s) (h %s) (n 0) (kj %s) (join %s) (x %s) (groups (%s))" % (
            f2b(tol), f2b(rel), f2b(float(kk)), f2b(float(hh)), f2b(1.0), case["join"].rstrip("_"), fl(obs["point"]), gs)
        info["K0"] = float(kk)
    return line, info


# ------------------------------------------------------------------ monitor
def term_value(pt, K, c):
    if pt == "quadratic_equality":
        return K * c * c
    if pt == "linear_equality":
        return K * abs(c)
    if pt == "uniform_equality":
        return K if c else 0.0
    m = max(0.0, c)
    if pt == "quadratic_inequality":
        return 2 * K * m * m
    if pt == "linear_inequality":
        return 2 * K * abs(m)
    return K if c > 0 else 0.0


def line_status(case, obs, order, names):
    """orientation / kind of EVERY condition (position `pos` of the flattening measures line `order[pos]` of the text(s)),
    by python's own reading of the text. Returns (findings, status, usable): status[pos] = (value, satisfied, kind name) or
    None where the line cannot be judged at this point (raises / not finite); usable = every line could be judged"""
    out = []
    x = obs["point"]; consts = case["consts"]
    tol = (case["locals"] or {}).get("tol", 1e-15); rel = (case["locals"] or {}).get("rel", 1e-15)
    status = []; usable = True
    for pos, k in enumerate(order):
        lhs, cmp, rhs = case["rels2"][k]
        c = obs["cvals"][pos]
        sym = T.CMP_SYM[cmp]
        status.append(None)
        if not isinstance(c, float):
            usable = False
            if isinstance(c, str) and c.startswith("error"):
                out.append(("condition/raises", "condition %r raised %s at x=%r" % (obs["conds"][pos][1], c, x)))
            continue
        try:
            L = float(T.py_eval(lhs, x, consts)); R = float(T.py_eval(rhs, x, consts))
        except (ZeroDivisionError, OverflowError):
            usable = False; continue
        if not (math.isfinite(L) and math.isfinite(R)) or c != c:
            usable = False; continue
        want_kind = "inequality" if cmp in INEQ else "equality"
        if names[pos] != want_kind:
            out.append(("condition/kind", "line %r filed as %s" % (cmp, names[pos])))
        t = c13.tolf(R, tol, rel)
        if sym in ("le", "ge", "eq", "ne"):
            holds = T.py_holds(cmp, L, R)
            s = (c <= 0) if sym in ("le", "ge") else (c == 0)
            if s != holds:
                out.append(("condition/orientation/%s" % sym, "line `lhs %s rhs` with lhs=%r rhs=%r: condition value %r (%s) but the line %s" %
                            (cmp, L, R, c, "satisfied" if s else "violated", "holds" if holds else "fails")))
        else:
            holds = T.py_holds(cmp, L, R)
            s = c <= 0
            absorbed = not (R - t < R) if sym == "lt" else not (R + t > R)
            margin = (L <= R - t) if sym == "lt" else (L >= R + t)
            if s and not (holds or (absorbed and L == R)):
                out.append(("condition/orientation/%s" % sym, "condition value %r <= 0 but lhs=%r %s rhs=%r fails" % (c, L, cmp, R)))
            if margin and not s:
                out.append(("condition/orientation/%s" % sym, "lhs=%r %s rhs=%r holds with margin %r but the condition value is %r > 0" % (L, cmp, R, t, c)))
            if holds and not margin and not s:
                out.append((KEY_BAND, "lhs=%r %s rhs=%r holds, but within the tolerance band (%r) the condition value is %r > 0 (penalised)" % (L, cmp, R, t, c)))
        status[pos] = (c, (c <= 0) if names[pos] == "inequality" else (c == 0), names[pos])
    return out, status, usable


def later_compilation(obs):
    out = []
    ca = obs.get("cvals_again")
    if ca is not None:
        def _same(a, b):
            return a == b or (isinstance(a, float) and isinstance(b, float) and a != a and b != b)
        if isinstance(ca, str) or len(ca) != len(obs["cvals"]) or not all(_same(a, b) for a, b in zip(ca, obs["cvals"])):
            out.append(("condition/changes-after-later-compilation", "the generated condition functions returned %r, and after another text was compiled (other locals) they return %r at the same point %r" % (obs["cvals"], ca, obs["point"])))
    return out


def monitor(case, obs, info):
    if case.get("shape"):
        return c14_shape.monitor(case, obs, info)
    out = []
    if "cvals" not in obs:
        return out
    x = obs["point"]; consts = case["consts"]
    tol = (case["locals"] or {}).get("tol", 1e-15); rel = (case["locals"] or {}).get("rel", 1e-15)
    out.extend(later_compilation(obs))
    if not all(math.isfinite(v) for v in x):
        return out
    order = info["order"]; pts = info["ptypes"]; names = info["names"]; K = info["K"]
    lo, status, usable = line_status(case, obs, order, names)
    out.extend(lo)
    sat = [(pts[pos], st[0], st[1], st[2]) for pos, st in enumerate(status) if st is not None]
    if "pen_overflow" in obs:
        return out
    if "pen" not in obs:
        out.append(("penalty/raises", "generate_penalty(...)(x) raised %s" % obs.get("pen_raises")))
        return out
    pv = obs["pen"]
    conform = all((p in IN_TYPES) == (nm == "inequality") for p, _, _, nm in sat)
    if usable and len(sat) == len(order) and conform and K > 0:
        if pv < 0:
            out.append(("penalty/negative", "penalty %r < 0 at x=%r" % (pv, x)))
        if all(s for _, _, s, _ in sat) and pv != 0.0:
            out.append(("penalty/zero-iff", "every line is satisfied (condition values %r) but the penalty is %r" % ([c for _, c, _, _ in sat], pv)))
        viol = [c for _, c, s, _ in sat if not s]
        if viol and all(abs(c) > 1e-100 for c in viol) and K >= 1e-3 and not (pv > 0):
            out.append(("penalty/zero-iff", "violated lines (condition values %r) but the penalty is %r" % (viol, pv)))
        if math.isfinite(K):
            want = 0.0
            for p, c, _, _ in sat:
                want += term_value(p, K, c)
            if math.isfinite(want) and abs(pv - want) > 1e-9 * max(abs(want), 1e-300):
                out.append(("penalty/sum", "penalty %r is not the documented sum of per-line terms %r (K=%r, types %r, values %r)" %
                            (pv, want, K, [p for p, _, _, _ in sat], [c for _, c, _, _ in sat])))
        if case["drive"] and pv != 0.0 and all(math.isfinite(c) for _, c, _, _ in sat):
            # absorbed '!=' step (custom tiny tolerance): the constraint cannot move the point in floating point
            absorbed = False
            for k in order:
                lhs, cmp, rhs = case["rels2"][k]
                if cmp == "!=":
                    R = float(T.py_eval(rhs, x, consts)); t = c13.tolf(R, tol, rel)
                    absorbed = absorbed or (R + t * 1.1 == R)
            if not absorbed:
                out.append(("drive/penalty-not-zero", "penalty(constraint(x)) = %r at constraint(x)=%r (text %r)" % (pv, x, obs["text"])))
    if "joined" in obs and usable:
        ps = obs["parts"]; j = obs["joined"]
        want = abs(sum(ps)) if case["join"] == "and_" else abs(min(ps))
        if not (j == want or (j != j and want != want) or (len(ps) > 2 and math.isfinite(want) and abs(j - want) <= 1e-12 * abs(want))):
            out.append(("penalty/join-%s" % case["join"], "join=%s gives %r, member penalties %r" % (case["join"], j, obs["parts"])))
        # zero set of the joined penalty (C14.penjoin_and_zero_iff / penjoin_or_zero_iff on the implementation's values)
        if len(sat) == len(order) and conform and info.get("K0", 0) > 0 and info.get("groups") is not None and j == j:
            gsat = [all(sat[q][2] for q in g) for g in info["groups"]]
            big = all(abs(c) > 1e-100 for _, c, s_, _ in sat if not s_) and info["K0"] >= 1e-3
            if j < 0:
                out.append(("penalty/join-negative", "join=%s gives %r < 0" % (case["join"], j)))
            if case["join"] == "and_":
                if all(gsat) and j != 0.0:
                    out.append(("penalty/join-and/zero-iff", "every line is satisfied (condition values %r) but the and_-joined penalty is %r" % ([c for _, c, _, _ in sat], j)))
                if not all(gsat) and big and not (j > 0):
                    out.append(("penalty/join-and/zero-iff", "a line is violated (condition values %r) but the and_-joined penalty is %r" % ([c for _, c, _, _ in sat], j)))
            else:
                if any(gsat) and j != 0.0:
                    out.append(("penalty/join-or/zero-iff", "all lines of one member are satisfied (condition values %r, members %r) but the or_-joined penalty is %r" %
                                ([c for _, c, _, _ in sat], info["groups"], j)))
                if not any(gsat) and big and not (j > 0):
                    out.append(("penalty/join-or/zero-iff", "every member has a violated line (condition values %r, members %r) but the or_-joined penalty is %r" %
                                ([c for _, c, _, _ in sat], info["groups"], j)))
    return out


# ------------------------------------------------------------------ barrier / lagrange types through generate_penalty (monitor only)
class _RefLevel:
    """an independent reading of one penalty level as documented in mystic/penalty.py (term formula + iteration state)"""
    DEFAULT_K = {"lagrange_inequality": 20, "lagrange_equality": 20}

    def __init__(self, ptype, cond, k, h):
        self.t = ptype; self.cond = cond; self.n = 0; self.ys = []
        self.k = k if k is not None else self.DEFAULT_K.get(ptype, 100)
        self.h = h if h is not None else 5

    def stored(self, i):
        try:
            return self.ys[i]
        except IndexError:
            return 0.0


def _ref_value(levels, x):
    """levels[-1] is the outermost decorator; every level returns term + inner(x), or inf without looking further in"""
    from numpy import log, inf
    if not levels:
        return 0.0
    L = levels[-1]
    try:
        c = L.cond(list(x))
    except ZeroDivisionError:
        return inf
    inner = lambda: _ref_value(levels[:-1], x)
    t = L.t
    if t == "barrier_inequality":
        if c > 0:
            return inf
        return -.5 / (L.k * pow(L.h, L.n)) * log(-c) + inner()
    if t == "lagrange_equality":
        lam = 0.; k = L.k
        for i in range(L.n):
            lam += 2. * k * L.stored(i); k *= L.h
        return float(k) * c ** 2 + lam * c + inner()
    if t == "lagrange_inequality":
        beta = 0.; k = L.k
        for i in range(L.n):
            beta += 2. * k * max(-beta / (2. * k), L.stored(i)); k *= L.h
        m = max(-beta / (2. * k), c)
        return float(k) * m ** 2 + beta * m + inner()
    K = L.k * pow(L.h, L.n)
    if t == "quadratic_equality":
        return float(K) * c ** 2 + inner()
    if t == "linear_equality":
        return float(K) * abs(c) + inner()
    if t == "quadratic_inequality":
        return float(2 * K) * max(0., c) ** 2 + inner()
    return float(2 * K) * abs(max(0., c)) + inner()          # linear_inequality


def _ref_store(levels, x, i):
    from numpy import inf
    for L in reversed(levels):                                 # outermost first; a lagrange level resolves i for the inner ones
        if L.t.startswith("lagrange"):
            try:
                y = L.cond(list(x))
            except ZeroDivisionError:
                y = inf
            if i is None:
                i = L.n
            if i >= len(L.ys):
                L.ys.extend([0.] * (i - len(L.ys)) + [y])
            else:
                L.ys[i] = y


def run_c15types(rng):
    """generate_penalty with ptype = barrier_inequality / lagrange_(in)equality (mixed with quadratic / linear types):
    value = the documented per-line terms, iteration state through pen.iter() / pen.store() / pen.clear()"""
    from mystic import symbolic as S, penalty as P
    n = rng.choice([2, 3, 4, 5])
    m = rng.choice([1, 2, 2, 3])
    idx = list(range(n))
    rels2 = []
    for _ in range(m):
        lhs = ("v", rng.choice(idx)) if rng.random() < 0.6 else c13.gen_term(rng, idx, 1, "small")
        rhs = c13.gen_term(rng, idx, rng.choice([0, 1]), "small")
        both = T.deint(("-", lhs, rhs))
        rels2.append((both[1], rng.choice(c13.CMPS), both[2]))
    case = {"scheme": ("base", "x", True), "rels2": rels2, "n": n}
    text = case_text(case)
    k = rng.choice([None, 1, 20, 100, 2.5]); h = rng.choice([None, 2, 5]) if k is not None else None
    pts_in = [rng.choice(C15_INEQ + C15_INEQ + IN_TYPES[:2]) for r in rels2 if r[1] in INEQ]
    pts_eq = [rng.choice(C15_EQ + C15_EQ + EQ_TYPES[:2]) for r in rels2 if r[1] not in INEQ]
    ops = []
    for _ in range(rng.choice([3, 4, 5, 6])):
        o = rng.choice(["eval", "eval", "iter", "iter", "store", "clear", "iterto"])
        if o in ("eval", "store"):
            ops.append((o, [rng.choice([float(rng.randint(-3, 3)), rng.randint(-16, 16) / 4.0, rng.uniform(-5, 5)]) for _ in range(n)]))
        elif o == "iterto":
            ops.append((o, rng.choice([0, 1, 2, 3])))
        else:
            ops.append((o, None))
    ops.append(("eval", [rng.uniform(-3, 3) for _ in range(n)]))
    case.update({"kind": "c15types", "text": text, "k": k, "h": h, "ptype": [pts_in, pts_eq], "ops": ops})
    return eval_c15types(case)


def eval_c15types(case):
    from mystic import symbolic as S, penalty as P
    text = case["text"]; k = case["k"]; h = case["h"]; n = case["n"]
    pts_in, pts_eq = case["ptype"]; ops = [(o[0], o[1]) for o in case["ops"]]
    out = {"case": case, "findings": [], "tag": "ok"}
    kwds = {}
    if k is not None:
        kwds["k"] = k
    if h is not None:
        kwds["h"] = h
    try:
        with warnings.catch_warnings():
            warnings.simplefilter("ignore")
            ineqf, eqf = S.generate_conditions(text, nvars=n)
            mk = lambda: S.generate_penalty((ineqf, eqf), ptype=(tuple(getattr(P, t) for t in pts_in), tuple(getattr(P, t) for t in pts_eq)), **kwds)
            pen = mk()
            conds = list(ineqf) + list(eqf)
            levels = [_RefLevel(t, c, k, h) for t, c in zip(pts_in + pts_eq, conds)]
            trace = []
            for o, a in ops:
                if o == "eval":
                    got = float(pen(list(a))); want = float(_ref_value(levels, a))
                    trace.append((o, a, got, want))
                    same = (got == want) or (got != got and want != want) or (math.isfinite(got) and math.isfinite(want) and abs(got - want) <= 1e-12 * abs(want))
                    if not same:
                        out["findings"].append(("c15types/value", "generate_penalty(%r, ptype=%r, k=%r, h=%r) after %r gives %r at %r; the documented per-line terms give %r" %
                                                (text, [pts_in, pts_eq], k, h, [q[0] for q in trace[:-1]], got, a, want)))
                        break
                elif o == "iter":
                    pen.iter()
                    for L in levels:
                        L.n += 1
                    trace.append((o,))
                elif o == "iterto":
                    pen.iter(a)
                    for L in levels:
                        L.n = a
                    trace.append((o, a))
                elif o == "store":
                    pen.store(list(a)); _ref_store(levels, a, None)
                    trace.append((o, a))
                else:
                    pen.clear()
                    for L in levels:
                        L.n = 0; L.ys = []
                    trace.append((o,))
                    xq = ops[-1][1]
                    got = float(pen(list(xq))); fresh = float(mk()(list(xq)))
                    if not (got == fresh or (got != got and fresh != fresh)):
                        out["findings"].append(("c15types/clear", "after clear() the penalty of %r gives %r at %r, a freshly generated one %r" % (text, got, xq, fresh)))
                        break
            if pen.iteration() != (levels[-1].n if levels else 0):
                out["findings"].append(("c15types/iteration", "pen.iteration() = %r, expected %r after %r" % (pen.iteration(), levels[-1].n, [q[0] for q in trace])))
    except ZeroDivisionError:
        out["tag"] = "zerodiv"
    except OverflowError:
        out["tag"] = "overflow"
    except Exception as exc:
        out["findings"].append(("c15types/raises", "generate_penalty(%r, ptype=%r) / %r raised %s: %s" % (text, [pts_in, pts_eq], [o for o, _ in ops], type(exc).__name__, exc)))
    return out


# ------------------------------------------------------------------ shard
def bump(h, k, n=1):
    h[k] = h.get(k, 0) + n


def compare_cvals(obs, info, mc, hist, cdesc):
    """condition values of the model vs the implementation; returns (findings, skip): skip = the penalties of this case are not
    compared (numpy scalar semantics / a toleranced function value may flip `c > 0`)"""
    fs = []; numpy_inf = False
    for k, (m, c) in enumerate(zip(mc, obs["cvals"])):
        if m == "raises" and isinstance(c, float) and (not math.isfinite(c) or info.get("np_mayraise")):
            bump(hist, "condition:raises-vs-numpy-inf"); numpy_inf = True      # numpy scalars divide by zero without raising
        elif c == "overflow":
            numpy_inf = True
            if m != "raises" and b2f(m) == 0.0 and obs["conds"][k][1].endswith(" == 0"):
                bump(hist, "condition:overflow-vs-inf")       # a '!=' condition `(..) == 0`: the inner value is inf, `inf == 0` is 0.0
            elif m != "raises" and math.isfinite(b2f(m)) and (info.get("pow_overflow") or {}).get(k):
                bump(hist, "condition:overflow-vs-inf(absorbed later)")       # e.g. (x**-1)**0 at a subnormal x: inf**0 == 1.0
            elif m != "raises" and math.isfinite(b2f(m)):
                fs.append(Finding("correspondence", "condition/diverges", "condition %d raised OverflowError, model gives the finite %r" % (k, b2f(m)), cdesc))
            else:
                bump(hist, "condition:overflow-vs-inf")
        elif m == "raises" or not isinstance(c, float):
            if not (m == "raises" and c == "raises"):
                fs.append(Finding("correspondence", "condition/diverges", "condition %d: model %r impl %r" % (k, m, c), cdesc))
        elif not same_float(b2f(m), c):
            if info.get("inexact") and (info.get("tie") or {}).get(k) and {b2f(m), c} == {0.0, 1.0}:
                # a '!=' condition `(lhs - (rhs)) == 0` whose two sides agree to 1e-6 through exp/log/sin/cos/**: the last ulp of the
                # function value decides `== 0`
                bump(hist, "condition:toleranced-inexact-fn"); numpy_inf = True
            elif info.get("inexact") and math.isfinite(c) and abs(b2f(m) - c) <= 1e-6 * (1 + abs(c)):
                # a last-ulp difference of exp/log/sin/cos/** can flip `c > 0` / `c == 0` (uniform types, '!=' conditions):
                # the penalties of such a case are not compared
                bump(hist, "condition:toleranced-inexact-fn"); numpy_inf = True
            else:
                fs.append(Finding("correspondence", "condition/diverges", "condition %r: model %r impl %r" % (obs["conds"][k][1], b2f(m), c), cdesc))
    return fs, numpy_inf


def check_case(case, obs, rep, info, hist=None):
    if case.get("shape"):
        return c14_shape.check_case(case, obs, rep, info, hist if hist is not None else {})
    fs = []
    hist = hist if hist is not None else {}
    cdesc = {"case": case, "impl": obs, "model": rep, "request": info.get("line")}
    r = parse_reply(rep)
    if r[0] != "ok":
        return [Finding("correspondence", "pen/model-%s" % r[0], "model replied %r" % (rep,), cdesc)]
    if any(b != "true" for b in r[1]["recog"]):
        bad = [obs["conds"][k] for k, b in enumerate(r[1]["recog"]) if b != "true"]
        fs.append(Finding("correspondence", "recogniseCond/rejected", "emitted condition(s) %r are not what the text's line must produce (recog=%r)" % (bad, r[1]["recog"]), cdesc))
    cf, numpy_inf = compare_cvals(obs, info, r[1]["cvals"], hist, cdesc)
    fs.extend(cf)
    mp = b2f(r[1]["pen"])
    jrep = info.get("jreply")
    if jrep is not None and not numpy_inf and "joined" in obs:
        jr = parse_reply(jrep)
        if jr[0] != "ok":
            fs.append(Finding("correspondence", "penj/model-%s" % jr[0], "model replied %r" % (jrep,), cdesc))
        elif jr[1]["res"] != "value":
            fs.append(Finding("correspondence", "penalty-join/diverges", "model raises, implementation gives %r" % (obs["joined"],), cdesc))
        else:
            mj = b2f(jr[1]["pen"]); ij = obs["joined"]
            mparts = [b2f(v) for v in jr[1]["parts"]]
            quad = any(p.startswith("quadratic") for p in info["ptypes"])
            def near(a, b, rt):
                return same_float(a, b) or (math.isfinite(a) and math.isfinite(b) and
                                            (abs(a - b) <= rt * abs(a) or (info.get("inexact") and abs(a - b) <= 1e-6 * (1 + abs(a)))))
            if same_float(mj, ij) and all(same_float(a, b) for a, b in zip(mparts, obs["parts"])):
                bump(hist, "join:%s:%s:bit-exact" % (case["join"], case.get("grouping")))
            elif (quad or len(mparts) > 2 or info.get("inexact")) and near(mj, ij, 1e-12) and all(near(a, b, 1e-12) for a, b in zip(mparts, obs["parts"])):
                bump(hist, "join:%s:toleranced" % case["join"])       # c**2 via C pow / python's compensated sum of > 2 members
            else:
                fs.append(Finding("correspondence", "penalty-join/diverges", "join=%s (%s): model %r members %r, implementation %r members %r" %
                                  (case["join"], case.get("grouping"), mj, mparts, ij, obs["parts"]), cdesc))
    elif jrep is not None and "joined_raises" in obs:
        fs.append(Finding("correspondence", "penalty-join/diverges", "implementation raised %s" % obs["joined_raises"], cdesc))
    if numpy_inf:
        return fs
    fs.extend(compare_pen(obs, info, mp, hist, cdesc))
    return fs


def pen_close(mp, got, info):
    """how a penalty value of the model agrees with the implementation's: None = it does not"""
    if same_float(mp, got):
        return "bit-exact"
    # python evaluates c**2 through C pow(), which is not always the correctly rounded c*c (1 ulp near ties)
    quad = any(p is not None and p.startswith("quadratic") for p in info["ptypes"])
    if quad and math.isfinite(mp) and abs(mp - got) <= 1e-14 * abs(mp):
        return "toleranced-pow"
    if info.get("inexact") and math.isfinite(mp) and abs(mp - got) <= 1e-6 * (1 + abs(mp)):
        return "toleranced-inexact-fn"
    return None


def compare_pen(obs, info, mp, hist, cdesc):
    fs = []
    if "pen_overflow" in obs:
        bump(hist, "pen:overflow")
        if math.isfinite(mp):
            fs.append(Finding("correspondence", "penalty/diverges", "implementation raised OverflowError (c**2), model gives the finite %r" % (mp,), cdesc))
    elif "pen" in obs:
        how = pen_close(mp, obs["pen"], info)
        if how:
            bump(hist, "pen:" + how)
        else:
            fs.append(Finding("correspondence", "penalty/diverges", "penalty model=%r impl=%r" % (mp, obs["pen"]), cdesc))
    return fs


def run_shard(pid, seed, shard, ncases, tier, extra):
    common.import_mystic()
    items = []; lines = []; findings = []; hist = {}; samples = []
    for k in range(ncases):
        rng = case_rng(PID, seed, shard, k)
        case = gen_case(rng)
        obs = run_impl(case)
        bump(hist, "kind:" + ("drive" if case["drive"] else "cond"))
        if "gen_raises" in obs:
            findings.append(Finding("monitor", "generate/raises", "generate_conditions/penalty raised %s on %r" % (obs["gen_raises"], obs["text"]),
                                    {"case": case, "impl": obs}))
            continue
        if "drive_raises" in obs:
            bump(hist, "drive:zerodiv"); continue
        line, info = build_request(case, obs)
        if line is None:
            findings.append(Finding("correspondence", "translator/untranslatable", str(info), {"case": case, "impl": obs}))
            continue
        with warnings.catch_warnings():
            warnings.simplefilter("ignore")
            mon = monitor(case, obs, info)
        for key, what in mon:
            findings.append(Finding("monitor", key, what, {"case": case, "impl": obs}))
        info["line"] = line
        items.append((case, obs, len(lines), info)); lines.append(line)
        if info.get("jline"):
            info["jidx"] = len(lines); lines.append(info["jline"])
    c15_items = []
    for k in range(max(4, ncases // 8)):
        rng = case_rng(PID + "/c15types", seed, shard, k)
        c15 = run_c15types(rng)
        bump(hist, "c15types:" + c15["tag"])
        for key, what in c15["findings"]:
            findings.append(Finding("monitor", key, what, {"case": c15["case"]}))
    replies = leandrv.run_driver(lines)
    nontrivial = 0
    for case, obs, li, info in items:
        if info.get("jidx") is not None:
            info["jreply"] = replies[info["jidx"]]
        fs = check_case(case, obs, replies[li], info, hist)
        if case.get("rich"):
            bump(hist, "rich-terms")
        findings.extend(fs)
        for (_, cmp, _) in case["rels2"]:
            bump(hist, "cmp:" + T.CMP_SYM[cmp])
        for p in info["ptypes"]:
            bump(hist, "ptype:" + (p or "(no entry in the list)"))
        bump(hist, "nvars>=11" if case["n"] >= 11 else "nvars<11"); bump(hist, "iter:%d" % case["iter"])
        bump(hist, "locals:" + ("extra" if case["consts"] else ("custom" if case["locals"] else "default")))
        if case["join"]:
            bump(hist, "join:" + case["join"])
        cv = [c for c in obs["cvals"] if isinstance(c, float)]
        nsat = sum(1 for (nm, _), c in zip(obs["conds"], obs["cvals"]) if isinstance(c, float) and ((c <= 0) if nm == "inequality" else (c == 0)))
        tag = "all-satisfied" if nsat == len(obs["cvals"]) else ("none-satisfied" if nsat == 0 else "mixed")
        bump(hist, "point:" + tag)
        if any(not isinstance(c, float) for c in obs["cvals"]):
            bump(hist, "condition-raises")
        if obs.get("pen", 0.0) != 0.0 or case["drive"]:
            nontrivial += 1
        if len(samples) < 2 and not fs and tag == "mixed":
            samples.append({"text": obs["text"], "variables": c13.mystic_args(case), "locals": case["locals"], "x": obs["point"],
                            "emitted": obs["conds"], "ptype": case["ptype"], "k": case["k"], "h": case["h"], "iter": case["iter"],
                            "impl_conditions": obs["cvals"], "impl_penalty": obs.get("pen"), "request": info["line"], "model": replies[li]})
    return {"evaluations": len(items), "nontrivial": nontrivial, "model_lines": len(lines), "findings": findings,
            "samples": samples, "hist": hist}


def witnesses():
    """F9 on the penalty side: a strictly feasible point inside the tolerance band is penalised"""
    common.import_mystic()
    case = {"kind": "cond", "regime": "small", "n": 2, "scheme": ("base", "x", True), "locals": None, "consts": {},
            "rels2": [(("v", 0), "<", ("v", 1))], "x": [math.nextafter(1.0, 0.0), 1.0], "drive": False,
            "k": None, "h": None, "iter": 0, "ptype": None, "join": None}
    obs = run_impl(case)
    line, info = build_request(case, obs)
    out = [Finding("monitor", key, what, {"case": case, "impl": obs}) for key, what in monitor(case, obs, info)]
    # F60: the pair generate_conditions returns + a type list of its (outer) length: the equality line gets no term
    case = {"kind": "cond", "regime": "small", "n": 3, "scheme": ("base", "x", True), "locals": None, "consts": {},
            "rels2": [(("v", 0), "<=", ("n", "1.")), (("v", 1), "<=", ("n", "2.")), (("v", 2), "=", ("n", "3."))],
            "x": [0.0, 2.0, 0.0], "drive": False, "k": None, "h": None, "iter": 0, "ptype": None, "join": None, "grouping": None,
            "shape": {"how": "pair"}, "ptype_s": ["quadratic_inequality", "quadratic_equality"], "ptype_form": "outer-length",
            "ptype_tuples": False}
    obs = run_impl(case)
    line, info = build_request(case, obs)
    out += [Finding("monitor", key, what, {"case": case, "impl": obs}) for key, what in monitor(case, obs, info)]
    return out


def replay(path):
    common.import_mystic()
    data = json.load(open(path))
    c = data.get("case")
    if c is None and data.get("correspondence_not_checking"):
        c = data["correspondence_not_checking"][0].get("case")      # a 'no-failing-input-found' replay
    case = c.get("case") if isinstance(c, dict) else None
    if not case:
        print("replay: no stored case in %s" % path); return 2

    def unj(o):
        if isinstance(o, dict) and set(o) == {"float"}:
            return float(o["float"])
        if isinstance(o, dict):
            return {k: unj(v) for k, v in o.items()}
        if isinstance(o, list):
            return [unj(v) for v in o]
        return o

    def tup(t):
        return tuple(tup(u) if isinstance(u, list) else u for u in t)
    case = unj(case)
    if case.get("kind") == "c15types":
        out = eval_c15types(case)
        known = {e["class_key"] for e in framework.load_known(PID)}
        rc = 0
        for key, what in out["findings"]:
            if key in known:
                print("KNOWN-FINDING: property=%s %s [%s]" % (PID, what, key))
            else:
                print("VIOLATION property=%s replay=%s" % (PID, path)); print("  ", key, what); rc = 1
        return rc
    case["rels2"] = [(tup(r[0]), r[1], tup(r[2])) for r in case["rels2"]]
    case["scheme"] = tuple(case["scheme"])
    if isinstance(case.get("ptype"), list):
        case["ptype"] = (case["ptype"][0], case["ptype"][1])
    obs = run_impl(case)
    print("implementation:", obs)
    rc = 0
    if "conds" not in obs or "cvals" not in obs:
        return 1
    line, info = build_request(case, obs)
    mon = monitor(case, obs, info) if line else []
    if line:
        reps = leandrv.run_driver([line] + ([info["jline"]] if info.get("jline") else []))
        rep = reps[0]
        print("model:", rep)
        if info.get("jline"):
            info["jreply"] = reps[1]; print("model (join):", reps[1])
        info["line"] = line
        for f in check_case(case, obs, rep, info):
            print("CORRESPONDENCE %s: %s" % (f["class_key"], f["what"])); rc = 1
    known = {e["class_key"] for e in framework.load_known(PID)}
    for key, what in mon:
        if key in known:
            print("KNOWN-FINDING: property=%s %s [%s]" % (PID, what, key))
        else:
            print("VIOLATION property=%s replay=%s" % (PID, path)); print("  ", key, what); rc = 1
    return rc


def main(tier, seed):
    t0 = time.time()
    proof = framework.proof_stage(PID, MODULE, THEOREMS, tier)
    nshards, per = (16, 300) if tier == "quick" else (64, 5000)
    run = framework.run_shards("c14", "run_shard", PID, seed, nshards, per, tier)
    run["findings"] = witnesses() + run["findings"]

    def search_more():
        r = framework.run_shards("c14", "run_shard", PID, seed + 7919, 32, 600, tier)
        return r["findings"]
    rule = ("cases: generated constraint texts (1-4 lines, any left-hand side, every comparator incl. '==', + - * / unary minus - and in 40% of "
            "the small-regime cases **, abs, min/max, sqrt floor ceil exp log sin cos - over "
            "int/float/huge/tiny literals and names bound through locals=, 1-13 variables, base-name and named schemes, custom tol/rel) "
            "compiled by the real generate_conditions; penalties from generate_penalty with default / per-line / single ptype out of "
            "quadratic|linear|uniform (in)equality, k, h, 0-2 iter() calls, join=None|and_|or_ (40% joined; members grouped per kind or one per line); "
            "a separate stream (1/8) drives barrier_inequality / lagrange_(in)equality through generate_penalty with iter()/iter(i)/store(x)/clear(); points on the boundary, one ulp either "
            "side, around the tolerance band, integer points (exact equalities), huge/tiny; 35% of the cases evaluate the penalty at the "
            "output of generate_constraint(generate_solvers(text)) of the same isolated-form text. non-trivial = non-zero penalty or a "
            "constraint-driven point. 45% of the cases (shape:* in the histogram) reach generate_penalty through the argument-shape space: the pair "
            "generate_conditions returns / a tuple, list or nesting of TEXTS (1-4 blocks of the lines, empty texts, one-element wrappers) / a "
            "hand-made nesting of the condition functions (tuples, lists, empty groups, depth 0-4) / a flat list / one function outside any "
            "sequence / a numpy object array / no line at all; ptype = None | one type | flat list | nested like the conditions | nested "
            "differently | longer | too short | as long as the OUTER sequence (finding F60); join=and_/or_ over the top-level items with ptype = "
            "None | one | an entry per member | one list for all members | fewer entries than members (generate_penalty raises); k, h keywords; "
            "every line of every text is judged (orientation, kind, documented sum, zero set, joined zero set, constraint of the same texts)")
    tb = ["Lean 4.33 kernel; axioms per theorem listed under coverage.theorems",
          "translator harness/symtrans.py (python ast -> Emitted.Expr) untrusted, validated per case by bit-exact agreement of every "
          "condition value and of the penalty with the Lean evaluation",
          "the line a text states is the generator's own structure printed to text (never read back from mystic)",
          "recogniseCond / condEmit (Model/Emitted.lean) characterised in Props/C14.lean; run on what the current tree emits",
          "penalty types: the six conforming types at iteration n with k' = k*h^n; join=and_/or_ modelled by Model/EmittedJoin.penJoin "
          "(member penalties at iteration 0, joining multiplier 1) and compared bit for bit together with every member penalty; "
          "barrier / lagrange types: monitored only (independent reading of the documented per-line formulas and of the iteration state)",
          "argument shapes: Model/EmittedPShape.lean (gpItems / gpMembers over EmittedShape.Nest) run by the driver on the nesting and the ptype "
          "of the case; WHICH (type, condition) pairs were stacked is compared with the generated penalty's own __doc__ (and every member's), "
          "the values bit for bit; the nesting generate_conditions returns is compared with the generator's own structure of the texts"]
    assumptions = ["IEEE binary64 + - * / and comparisons agree between Lean Float and CPython; c**2 (C pow) equals c*c except for a last-ulp "
                   "difference near ties: a penalty with quadratic terms that is not bit-identical is accepted within 1e-14 relative and "
                   "counted as pen:toleranced-pow; python's OverflowError of c**2 corresponds to the model's inf; pow(h,n) is exact for the "
                   "integer-valued h, n <= 2 used",
                   "zero-iff / positivity on the implementation are checked away from underflow of k*c^2 (|c| > 1e-100, k >= 1e-3)",
                   "points are python lists of floats (conditions then raise ZeroDivisionError rather than returning inf); numpy scalars - the values "
                   "of sqrt, exp, floor, .. - do not raise on division by zero / 0**negative: a case whose only difference is that is accepted and "
                   "counted (condition:raises-vs-numpy-inf), its penalties are not compared",
                   "exp log sin cos (numpy kernels vs libm) and ** (C pow): 1e-6 tolerance, counted separately; python's compensated sum over more "
                   "than two joined member penalties: 1e-12, counted (join:*:toleranced)"]
    return framework.finish(PID, tier, seed, t0, proof, run, rule, tb, assumptions, search_more=search_more)
