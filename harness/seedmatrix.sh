#!/bin/bash
# Run every check against every seeded change of ITS property (seeded/<id>/patch.diff) in one scratch worktree of /repo
# outside /repo and /verif; prints one line per change. Usage: harness/seedmatrix.sh [ids...]   (default: all)
# Runs with VERIF_DRIFT_SCALE=1 by default: the matrix shows what the BASE quick tier catches, without the enlarged search
# that a changed anchored file triggers (anchors.py).
# /repo itself is never modified; the scratch worktree is removed at the end.
V=$(cd "$(dirname "$0")/.." && pwd)
WT=${SEED_WT:-/tmp/seedmatrix_wt}
git -C /repo worktree remove --force $WT >/dev/null 2>&1
git -C /repo worktree add --detach $WT HEAD >/dev/null 2>&1 || { echo "cannot create worktree"; exit 2; }
[ -f /repo/mystic/__info__.py ] && cp /repo/mystic/__info__.py $WT/mystic/
ids=${@:-$(ls $V/seeded | grep -E '^C[0-9]+-[0-9]+$')}
for id in $ids; do
  pid=${id%%-*}
  git -C $WT checkout -- mystic
  if ! git -C $WT apply $V/seeded/$id/patch.diff 2>/dev/null; then echo "$id apply-failed"; continue; fi
  out=$(cd $V && VERIF_DRIFT_SCALE=${VERIF_DRIFT_SCALE:-1} MYSTIC_REPO=$WT timeout 1200 ./check $pid --tier quick 2>/dev/null); rc=$?
  nv=$(echo "$out" | grep -c '^VIOLATION')
  nf=$(echo "$out" | grep '^VIOLATION' | grep -vc 'no-failing-input-found')
  first=$(echo "$out" | grep '^VIOLATION' | grep -v 'no-failing-input-found' | head -1 | sed 's/.*replay=replays\/[^/]*\///')
  echo "$id check=$pid exit=$rc violations=$nv with-failing-input=$nf ${first}"
done
git -C $WT checkout -- mystic
git -C /repo worktree remove --force $WT
