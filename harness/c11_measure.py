"""C11, product-measure part: applied CollapseWeight / CollapsePosition collapses (constraints.impose_measure).

Streams (driven from c11.run_shard, one PRNG per case):
  mapply   detector -> constraint, as `Collapse()` does it: the REAL collapse_weight / collapse_position on a generated
           product-measure history (dead weights and coincident positions of the SAME measure sharing indices in every
           role: dead index = root of a collapsed pair / its second member / unrelated; stars, triangles, paths, two
           components), reported in ONE round or in successive rounds (the second detection runs with the first
           round's output as mask), then the REAL `impose_measure(npts, [positions], [weights])` of every round chained
           as abstract_solver.py l.852 does (new round OUTSIDE the old one) on a parameter vector; result compared with
           Model/CollapseMeasure.lean (`applyRounds`: C19's `Discrete.imposeMeasure` over `Clps.connected` of the pairs in
           the real iteration order); monitor: every collapsed weight exactly 0, every collapsed pair exactly equal
  msolver  real solvers (DE, DE2, Nelder-Mead, Powell) on product-measure problems with
           Or(stop, CollapseWeight, CollapsePosition): flat objectives from a designed start (everything is detected
           after `generations` steps; different windows for the two conditions give successive rounds) and quadratic
           objectives whose optimum has dead weights and coincident positions (converge first, or one phase); every cost
           argument after a collapse and the final solution are checked for every applied relation; the composed
           constraint is recorded (input, output) at its outermost level and compared with the model on sampled and on
           every failing input
A failing relation falls into a recorded class only when the Lean model of the UNCHANGED composition breaks the same
relation on the same input AND the mechanism is identified on the model's own groups (an older round's position
collapse whose key is the dead index; a pair left untied by tools.connected; a pair overwritten by an older round).
"""
import math, random as _random
import common
from common import f2b, fl, b2f, parse_reply, dyadic, same_vec

RTOL = 1e-9


def bump(h, k, n=1):
    h[k] = h.get(k, 0) + n


# ------------------------------------------------------------------ layout of a flattened product measure
def offsets(npts):
    out = []; o = 0
    for n in npts:
        out.append(o); o += 2 * n
    return out


def widx(npts, k, i):
    return offsets(npts)[k] + i


def pidx(npts, k, i):
    return offsets(npts)[k] + npts[k] + i


def mrel_holds(r, x, npts):
    if r["kind"] == "wzero":
        return x[widx(npts, r["k"], r["i"])] == 0.0
    return x[pidx(npts, r["k"], r["i"])] == x[pidx(npts, r["k"], r["j"])]


def mrel_text(r):
    if r["kind"] == "wzero":
        return "weight[%d][%d]==0 (round %d)" % (r["k"], r["i"], r["round"] + 1)
    return "position[%d][%d]==position[%d][%d] (round %d)" % (r["k"], r["i"], r["k"], r["j"], r["round"] + 1)


def mrel_value(r, x, npts):
    if r["kind"] == "wzero":
        return "weight %r" % (x[widx(npts, r["k"], r["i"])],)
    return "positions %r, %r" % (x[pidx(npts, r["k"], r["i"])], x[pidx(npts, r["k"], r["j"])])


# ------------------------------------------------------------------ rounds
def round_of(pos_dicts, wts_dicts):
    """what one Collapse() hands to impose_measure: the items of the CollapsePosition dicts, then of the CollapseWeight
    dicts, in the order the code visits them; pairs / indices in the iteration order of the very set objects"""
    tr = []; nw = []
    for d in pos_dicts:
        for k, ps in d.items():
            tr.append((int(k), [(int(a), int(b)) for a, b in ps]))
    for d in wts_dicts:
        for k, idx in d.items():
            nw.append((int(k), [int(i) for i in idx]))
    return {"tr": tr, "nw": nw}


def round_of_collapse(coll):
    return round_of([v for key, v in coll.items() if key.startswith("CollapsePosition")],
                    [v for key, v in coll.items() if key.startswith("CollapseWeight")])


def round_sexp(rd):
    tr = " ".join("(%d %s)" % (k, " ".join("(%d %d)" % p for p in ps)) for k, ps in rd["tr"])
    nw = " ".join("(%d %s)" % (k, " ".join(str(i) for i in idx)) for k, idx in rd["nw"])
    return "((tr%s) (nw%s))" % (" " + tr if tr else "", " " + nw if nw else "")


def measure_line(npts, rounds_chrono, x):
    """request for the composed constraint of the rounds applied so far (execution order: newest round first)"""
    return "C11 measure (npts (%s)) (rounds (%s)) (x %s)" % (" ".join(str(n) for n in npts),
                                                           " ".join(round_sexp(r) for r in reversed(rounds_chrono)), fl(x))


def rels_of_round(rd, ri):
    out = []
    for k, idx in rd["nw"]:
        for i in idx:
            out.append({"kind": "wzero", "k": k, "i": i, "round": ri})
    for k, ps in rd["tr"]:
        for a, b in ps:
            out.append({"kind": "ppair", "k": k, "i": a, "j": b, "round": ri})
    return out


def parse_items(items):
    """reply `items`: per round (execution order) per tracked item (k groups nobridge keyfree)"""
    out = []
    for rd in items:
        cur = []
        for it in rd:
            k = int(it[0])
            groups = [(int(g[0]), [int(v) for v in g[1]]) for g in it[1]]
            cur.append((k, groups, it[2] == "true", it[3] == "true"))
        out.append(cur)
    return out


# ------------------------------------------------------------------ mechanisms, read off the MODEL's groups
def sim_positions(npts, rounds_exec, items_exec):
    """positions as symbols through the composed constraint (uniform shifts keep equalities): after every round a
    snapshot; `x[member] = x[key]` group by group"""
    sym = [[("s", k, i) for i in range(n)] for k, n in enumerate(npts)]
    snaps = []
    for ri, rd in enumerate(rounds_exec):
        for ti, (k, _) in enumerate(rd["tr"]):
            if k >= len(npts):
                continue
            for key, mem in items_exec[ri][ti][1]:
                if key >= npts[k]:
                    continue
                for mm in mem:
                    if mm < npts[k]:
                        sym[k][mm] = sym[k][key]
        snaps.append([list(s) for s in sym])
    return sym, snaps


def sim_weights(npts, rounds_exec, items_exec, raw):
    """zero pattern of the weights through the composed constraint, with the step that last made an entry non-zero"""
    offs = offsets(npts)
    z = [[raw[offs[k] + i] == 0.0 for i in range(n)] for k, n in enumerate(npts)]
    cause = [[("raw", -1)] * n for n in npts]
    for ri, rd in enumerate(rounds_exec):
        for ti, (k, _) in enumerate(rd["tr"]):
            if k >= len(npts):
                continue
            n = npts[k]
            for key, mem in items_exec[ri][ti][1]:
                if key >= n:
                    continue
                allz = z[k][key]
                for mm in mem:
                    if mm < n:
                        allz = allz and z[k][mm]
                        z[k][mm] = True
                z[k][key] = allz
                if not allz:
                    cause[k][key] = ("collapse-key", ri)
        for k, idx in rd["nw"]:
            if k >= len(npts):
                continue
            n = npts[k]
            for i in idx:
                if 0 <= i < n:
                    z[k][i] = True
            if all(z[k]):
                for i in range(n):
                    if i not in idx:
                        z[k][i] = False; cause[k][i] = ("ones-fallback", ri)
    return z, cause


def classify(prefix, r, nrounds, rounds_exec, items_exec, npts, raw, model_y):
    """class key of a relation that fails on the implementation's output"""
    base = prefix + ("/weight-not-zero" if r["kind"] == "wzero" else "/position-pair-not-equal")
    if model_y is None or mrel_holds(r, model_y, npts):
        return base, "the model of the unchanged composition keeps this relation on the same input"
    ri = nrounds - 1 - r["round"]           # execution index of the relation's own round (0 = newest = runs first)
    if r["kind"] == "wzero":
        z, cause = sim_weights(npts, rounds_exec, items_exec, raw)
        c = cause[r["k"]][r["i"]]
        if not z[r["k"]][r["i"]] and c[1] > ri and c[0] == "collapse-key":
            return (base + "/older-position-collapse-moves-weight-onto-it",
                    "the position collapse of round %d (an OLDER round: it runs after round %d in the composed constraint) has this "
                    "index as the key of a group and adds the members' weights to it" % (nrounds - c[1], r["round"] + 1))
        if not z[r["k"]][r["i"]] and c[1] > ri and c[0] == "ones-fallback":
            return (base + "/older-weight-collapse-finds-no-weight-left",
                    "the weight collapse of round %d (older, runs later) finds no weight left in the measure and re-weights every "
                    "index outside its own selection" % (nrounds - c[1]))
        return base + "/model-agrees-mechanism-not-identified", "the model breaks it too"
    sym, snaps = sim_positions(npts, rounds_exec, items_exec)
    k, a, b = r["k"], r["i"], r["j"]
    if snaps[ri][k][a] != snaps[ri][k][b]:
        return (base + "/connected-groups-not-merged",
                "tools.connected built groups %r for the pairs of this collapse: a pair joined two existing groups, which are never merged"
                % ([it[1] for it in items_exec[ri] if it[0] == k],))
    if sym[k][a] != sym[k][b]:
        return (base + "/overwritten-by-older-position-collapse",
                "an older round's position collapse (it runs later in the composed constraint) overwrites one member of the pair")
    return base + "/model-agrees-mechanism-not-identified", "the model breaks it too"


def cmp_measure(my, iy, npts, rels):
    """'exact' | 'tol' | text of a divergence.  Structure is compared exactly (NaN pattern, zero pattern of the weights,
    equality of every collapsed pair), values within rel 1e-9 (python's compensated sum / numpy pairwise sum vs the
    model's sequential sums)"""
    if len(my) != len(iy):
        return "lengths %d vs %d" % (len(my), len(iy))
    if same_vec(my, iy):
        return "exact"
    for a, b in zip(my, iy):
        if (a != a) != (b != b):
            return "NaN pattern"
    offs = offsets(npts)
    for k, n in enumerate(npts):
        for i in range(n):
            if (my[offs[k] + i] == 0.0) != (iy[offs[k] + i] == 0.0):
                return "zero pattern of the weights (measure %d index %d: model %r, implementation %r)" % (k, i, my[offs[k] + i], iy[offs[k] + i])
    for r in rels:
        if r["kind"] == "ppair" and mrel_holds(r, my, npts) != mrel_holds(r, iy, npts):
            return "equality of the collapsed pair %s" % mrel_text(r)
    fin = [abs(v) for v in list(my) + list(iy) if v == v and not math.isinf(v)]
    scale = max([1.0] + fin)
    for a, b in zip(my, iy):
        if a != a and b != b:
            continue
        if math.isinf(a) or math.isinf(b):
            if a != b:
                return "values %r vs %r" % (a, b)
            continue
        if abs(a - b) > RTOL * scale:
            return "values %r vs %r" % (a, b)
    return "tol"


# ------------------------------------------------------------------ designs: which weights die, which positions coincide
def design_measure(rng, n, forced=None):
    """-> (role, dead set, coincidence classes (lists of indices, len >= 2))"""
    order = list(range(n)); rng.shuffle(order)
    roles = ["dead=root", "dead=root", "dead=second", "weights-only", "positions-only"]
    if n >= 3:
        roles += ["dead=unrelated", "dead=unrelated", "triple", "triple+dead", "dead=root+second", "dead=root"]
    if n >= 4:
        roles += ["two-pairs", "two-pairs+dead", "dead=root+unrelated", "path", "path+dead"]
    role = forced if forced in roles else rng.choice(roles)
    a, b = sorted(order[:2])
    dead = set(); classes = []
    if role in ("path", "path+dead"):
        # a CHAIN of positions: consecutive members within the tolerance, members two apart not (non-transitive);
        # returned as one class flagged by a leading None
        L = rng.randint(3, n)
        classes = [[None] + order[:L]]
        if role == "path+dead":
            dead = {rng.choice(order[:L])}
        return role, dead, classes
    if role == "dead=root":
        dead = {a}; classes = [[a, b]]
    elif role == "dead=second":
        dead = {b}; classes = [[a, b]]
    elif role == "dead=unrelated":
        dead = {order[2]}; classes = [[a, b]]
    elif role == "dead=root+unrelated":
        dead = {a, order[2]}; classes = [[a, b]]
    elif role == "weights-only":
        dead = set(order[:rng.randint(1, max(1, n - 1))])
    elif role == "positions-only":
        classes = [[a, b]]
    elif role == "triple":
        classes = [sorted(order[:3])]
    elif role == "triple+dead":
        classes = [sorted(order[:3])]; dead = {rng.choice(classes[0])}
    elif role == "dead=root+second":
        dead = {a, b}; classes = [[a, b]]
    elif role == "two-pairs":
        classes = [sorted(order[:2]), sorted(order[2:4])]
    else:
        classes = [sorted(order[:2]), sorted(order[2:4])]; dead = {rng.choice(order[:4])}
    if len(dead) >= n:
        dead = set(list(dead)[:n - 1])
    return role, dead, classes


def design_targets(rng, npts, tol_w, tol_p, forced=None):
    roles = []; W = []; P = []; deads = []; classes_all = []
    for k, n in enumerate(npts):
        role, dead, classes = design_measure(rng, n, forced)
        grid = [1.0 + 0.75 * t for t in range(n + 1)]; rng.shuffle(grid)
        p = [grid[i] for i in range(n)]
        for c in classes:
            if c[0] is None:
                for t, i in enumerate(c[1:]):
                    p[i] = p[c[1]] + t * 0.75 * tol_p
                continue
            for i in c[1:]:
                p[i] = p[c[0]]
        w = [0.0 if i in dead else rng.choice([0.25, 0.5, 0.75, 1.0]) for i in range(n)]
        roles.append(role); W.append(w); P.append(p); deads.append(sorted(dead)); classes_all.append(classes)
    return roles, W, P, deads, classes_all


def flat_vec(W, P):
    out = []
    for w, p in zip(W, P):
        out += list(w) + list(p)
    return out


# ------------------------------------------------------------------ detector -> constraint (mapply)
def mapply_case(rng, hist):
    import numpy
    from mystic import collapse as ct, constraints as cn, tools as to
    from mystic.monitors import Monitor
    m = rng.choice([1, 1, 2, 2, 3])
    npts = tuple([rng.choice([2, 3, 3, 4, 4, 5])] * m)      # the monitor's measure views need equal factor sizes
    tol_w = rng.choice([2.0 ** -8, 2.0 ** -6, 0.125]); tol_p = rng.choice([2.0 ** -8, 2.0 ** -6, 0.125])
    nrounds = rng.choice([1, 1, 2, 2, 3])
    # ---- per measure: dead indices and a graph of close positions (NOT transitive), each assigned to a round
    dead_round = []; pair_round = []; roles = []
    for k, n in enumerate(npts):
        role, dead, classes = design_measure(rng, n)
        E = set()
        for c in classes:
            if c[0] is None:
                for a, b in zip(c[1:], c[2:]):
                    E.add((min(a, b), max(a, b)))
                continue
            for ai, a in enumerate(c):
                for b in c[ai + 1:]:
                    E.add((min(a, b), max(a, b)))
        if n >= 3 and rng.random() < 0.35:        # a non-transitive chain / path / star instead of mutual closeness
            idx = list(range(n)); rng.shuffle(idx)
            L = rng.randint(2, n - 1)
            E = set()
            if rng.random() < 0.6:
                for a, b in zip(idx[:L], idx[1:L + 1]):
                    E.add((min(a, b), max(a, b)))
                role += "+path"
            else:
                for a in idx[1:L + 1]:
                    E.add((min(a, idx[0]), max(a, idx[0])))
                role += "+star"
        roles.append(role)
        dead_round.append({i: rng.randrange(nrounds) for i in dead})
        pair_round.append({p: rng.randrange(nrounds) for p in E})
    # mutually close positions reported in an earlier round stay masked; closeness is realised per round below
    out = {"findings": [], "args": {"npts": npts, "tol_w": tol_w, "tol_p": tol_p, "roles": roles, "nrounds": nrounds}}
    rounds = []; wmask = None; pmask = None
    con = lambda v: v
    dets = []
    for ri in range(nrounds):
        dead_now = [set(i for i, r0 in dead_round[k].items() if r0 <= ri) for k in range(m)]
        pairs_now = [set(p for p, r0 in pair_round[k].items() if r0 <= ri) for k in range(m)]
        rows = realize_measure_history(rng, npts, dead_now, pairs_now, tol_w, tol_p)
        mon = Monitor(npts=npts)
        for r in rows:
            mon(list(r), 0.0)
        g = rng.choice([None, len(rows), len(rows) + 3, 0])
        try:
            Wd = ct.collapse_weight(mon, tol_w, g, wmask)
            Pd = ct.collapse_position(mon, tol_p, g, pmask)
        except Exception as e:     # noqa
            out["findings"].append(("mapply/detector-raises", "detector raised %s: %s" % (type(e).__name__, e)))
            out["tag"] = "mapply:detector-raised"; out["probes"] = []
            return out
        want_w = sorted((k, i) for k in range(m) for i, r0 in dead_round[k].items() if r0 == ri)
        want_p = sorted((k, a, b) for k in range(m) for (a, b), r0 in pair_round[k].items() if r0 == ri)
        got_w = sorted((int(k), int(i)) for k, s in Wd.items() for i in s)
        got_p = sorted((int(k), int(a), int(b)) for k, s in Pd.items() for a, b in s)
        dets.append({"history": rows, "generations": g, "weight": repr(Wd), "position": repr(Pd)})
        if got_w != want_w or got_p != want_p:
            out["findings"].append(("mapply/detector-not-per-definition",
                                    "round %d: collapse_weight/collapse_position returned %r / %r, the history realises %r / %r (masks %r / %r)" % (
                                        ri + 1, got_w, got_p, want_w, want_p, wmask, pmask)))
        rd = round_of([Pd] if Pd else [], [Wd] if Wd else [])
        rounds.append(rd)
        if Pd or Wd:
            # exactly what Collapse() builds (abstract_solver.py l.849-852): lists of the reported dicts, chained OUTSIDE
            con = to.chain(cn.impose_measure(npts, [Pd] if Pd else [], [Wd] if Wd else []))(con)
        # masks grow by what was applied (dict format, as mask.update_mask extends them)
        wmask = merge_mask(wmask, Wd); pmask = merge_mask(pmask, Pd)
    rounds = [r for r in rounds]
    # ---- the parameter vector
    x = []
    for k, n in enumerate(npts):
        style = rng.choice(["generic", "generic", "dyadic", "partner-only", "some-zero"])
        if style == "generic":
            w = [rng.uniform(0.05, 1.0) for _ in range(n)]
        elif style == "dyadic":
            w = [rng.randint(1, 8) / 8.0 for _ in range(n)]
        elif style == "partner-only":
            w = [0.0] * n
            alive = [i for i in range(n) if i not in dead_round[k]] or [0]
            for i in rng.sample(alive, rng.randint(1, len(alive))):
                w[i] = rng.randint(1, 8) / 8.0
        else:
            w = [rng.choice([0.0, rng.randint(1, 8) / 8.0]) for _ in range(n)]
        alive = [i for i in range(n) if i not in dead_round[k]]
        if alive and not any(w[i] > 0 for i in alive):
            w[rng.choice(alive)] = 0.5
        vals = rng.sample(range(-40, 41), n)
        p = [v / 8.0 if style != "generic" else v / 8.0 + rng.uniform(-0.05, 0.05) for v in vals]
        if rng.random() < 0.15 and n >= 2:
            p[rng.randrange(n)] = p[rng.randrange(n)]
        x += w + p
    applied = any(rd["tr"] or rd["nw"] for rd in rounds)
    if applied and rng.random() < 0.1:
        x = x + [rng.uniform(-1, 1)]          # surplus parameter: dropped by product_measure.load
    xin = list(x)
    try:
        y = [float(v) for v in con(xin)]
        err = None
    except Exception as e:     # noqa
        y = None; err = "%s: %s" % (type(e).__name__, e)
    if xin != x:
        out["findings"].append(("mapply/input-modified", "the composed impose_measure constraints modified their argument"))
    rounds_live = [r for r in rounds]
    rels = []
    for ri, rd in enumerate(rounds_live):
        rels += rels_of_round(rd, ri)
    out["args"].update({"rounds": rounds_live, "x": x, "result": y, "error": err, "detections": dets})
    bad = []
    if y is None:
        out["findings"].append(("mapply/raises", "the composed impose_measure constraints raised %s" % err))
    elif len(y) != (2 * sum(npts) if applied else len(x)):
        out["findings"].append(("mapply/length", "result has %d entries for npts %r" % (len(y), npts)))
        y = None
    else:
        bad = [r for r in rels if not mrel_holds(r, y, npts)]
    out["probes"] = [{"line": measure_line(npts, rounds_live, x), "raw": x, "out": y, "nrounds": len(rounds_live),
                      "rounds": rounds_live, "rels": rels, "bad": bad, "prefix": "mapply", "where": "impose_measure result",
                      "npts": npts, "sample": True}]
    shared = "none"
    for k in range(m):
        for (a, b) in pair_round[k]:
            for i in dead_round[k]:
                role = "root" if i == a else ("second" if i == b else None)
                if role:
                    when = "same-round" if dead_round[k][i] == pair_round[k][(a, b)] else (
                        "weight-later" if dead_round[k][i] > pair_round[k][(a, b)] else "weight-earlier")
                    bump(hist, "mapply:dead=%s:%s" % (role, when)); shared = "shared"
    out["tag"] = "mapply:%d-rounds:%s" % (nrounds, shared)
    out["nontrivial"] = bool(rels)
    return out


def merge_mask(mask, new):
    out = {} if mask is None else {k: set(v) for k, v in mask.items()}
    for k, s in (new or {}).items():
        out.setdefault(k, set()).update(s)
    return out or None


def realize_measure_history(rng, npts, dead, pairs, tol_w, tol_p):
    """rows of a product-measure monitor on which exactly the weights in `dead` stay <= tol_w and exactly the position
    pairs in `pairs` stay within tol_p (closeness NOT transitive): every other pair gets a record that moves its two
    members apart, every other weight a record above the tolerance"""
    base_rows = []
    W0 = []; P0 = []
    for k, n in enumerate(npts):
        w = [rng.choice([0.0, tol_w / 2, tol_w]) if i in dead[k] else rng.choice([2 * tol_w, 0.25, 0.5]) for i in range(n)]
        nodes = sorted(set(v for e in pairs[k] for v in e))
        base = dyadic(rng, 1, 3, 8)
        p = [base if i in nodes else base + 8.0 * (i + 1) for i in range(n)]
        W0.append(w); P0.append(p)
    rows = [flat_vec(W0, P0) for _ in range(rng.choice([1, 2, 3]))]
    for k, n in enumerate(npts):
        nodes = sorted(set(v for e in pairs[k] for v in e))
        for ai, a in enumerate(nodes):
            for b in nodes[ai + 1:]:
                if (a, b) in pairs[k]:
                    continue
                sep = rng.choice([1.5 * tol_p, 2.0 * tol_p, tol_p + tol_p * 2.0 ** -20])     # > tol; halves <= tol
                sg = rng.choice([1.0, -1.0])
                P = [list(p) for p in P0]
                P[k][a] += sg * sep / 2; P[k][b] -= sg * sep / 2
                rows.append(flat_vec(W0, P))
        if dead[k] and rng.random() < 0.5:        # an alive weight dips below the tolerance in ONE record only
            alive = [i for i in range(n) if i not in dead[k]]
            if alive and len(rows) >= 2:
                W = [list(w) for w in W0]
                W[k][rng.choice(alive)] = 0.0
                rows.append(flat_vec(W, P0)); rows.append(flat_vec(W0, P0))
    rng.shuffle(rows)
    return rows


# ------------------------------------------------------------------ solver level
class CollapseLoopError(Exception):
    pass


def msolver_case(rng, hist, big=False, forced=None):
    import numpy
    from mystic import solvers as ms, termination as mt
    from mystic.monitors import Monitor
    m = rng.choice([1, 1, 2])
    npts = tuple([rng.choice([2, 3, 3, 4])] * m)            # the monitor's measure views need equal factor sizes
    nd = 2 * sum(npts)
    tol_w = rng.choice([2.0 ** -8, 2.0 ** -7, 1e-3]); tol_p = rng.choice([2.0 ** -8, 2.0 ** -6, 1e-3])
    roles, W, P, deads, classes = design_targets(rng, npts, tol_w, tol_p, forced)
    opt = flat_vec(W, P)
    solver_name = rng.choice(["DE", "DE", "DE2", "DE2", "NM", "Powell"])
    kind = rng.choice(["flat", "flat", "flat", "quad-converge-first", "quad-converge-first", "quad-one-phase"])
    if solver_name == "Powell" and kind == "flat":
        kind = "quad-converge-first"
    gmode = rng.choice(["same", "same", "pos-first", "weight-first"])
    g0 = rng.choice([4, 6])
    gw, gp = {"same": (g0, g0), "pos-first": (g0 + 5, g0), "weight-first": (g0, g0 + 5)}[gmode]
    wts = [rng.choice([1.0, 1.0, 4.0, 0.25]) for _ in range(nd)]

    def quad(x):
        s = 0.0
        for t in range(nd):
            s += wts[t] * (x[t] - opt[t]) ** 2
        for k, n in enumerate(npts):                 # walls: weights stay non-negative
            o = 2 * sum(npts[:k])
            for i in range(n):
                if x[o + i] < 0.0:
                    s += 100.0 * x[o + i] ** 2
        return s
    cost = (lambda x: 1.0) if kind == "flat" else quad
    gstop = 3 * max(gw, gp) + 4 if kind == "flat" else 5 * max(gw, gp)
    stop = "cog" if kind == "flat" else rng.choice(["cog", "vtr", "ncog"])
    stopc = {"cog": mt.ChangeOverGeneration(1e-13, gstop), "vtr": mt.VTR(1e-30),
             "ncog": mt.NormalizedChangeOverGeneration(1e-10, gstop)}[stop]
    order = [mt.CollapseWeight(tol_w, gw), mt.CollapsePosition(tol_p, gp), stopc]
    rng.shuffle(order)
    term = mt.Or(*order)
    seed = rng.randrange(2 ** 31)
    _random.seed(seed); numpy.random.seed(seed)
    calls = []; callio = []; events = []; io = []; rounds = []

    def cost_fn(x):
        calls.append([float(v) for v in x]); callio.append(len(io))
        return cost(x)
    if solver_name in ("DE", "DE2"):
        s = (ms.DifferentialEvolutionSolver if solver_name == "DE" else ms.DifferentialEvolutionSolver2)(nd, rng.choice([12, 16]))
    elif solver_name == "NM":
        s = ms.NelderMeadSimplexSolver(nd)
    else:
        s = ms.PowellDirectionalSolver(nd)
    x0 = None
    if kind == "flat":
        # designed start: dead weights at 0 / just inside the tolerance, coincident positions equal / just inside
        x0 = list(opt)
        for k, n in enumerate(npts):
            o = 2 * sum(npts[:k])
            for i in deads[k]:
                x0[o + i] = rng.choice([0.0, 0.0, tol_w / 2, tol_w])
            for c in classes[k]:
                if c[0] is None:
                    continue
                for i in c[1:]:
                    x0[o + n + i] = x0[o + n + c[0]] + rng.choice([0.0, 0.0, tol_p / 4])
        s.SetInitialPoints(x0)
    else:
        lo = []; hi = []
        for n in npts:
            lo += [0.0] * n + [0.0] * n; hi += [1.0] * n + [6.0] * n
        s.SetRandomInitialPoints(lo, hi)
    s.SetGenerationMonitor(Monitor(npts=npts))
    orig = s.Collapse
    universe0 = sum(npts) + sum(n * (n - 1) // 2 for n in npts)

    def recorder(inner, level):
        def rec(x, *a, **kw):
            xin = [float(v) for v in x]
            y = inner(x, *a, **kw)
            io.append((level, xin, [float(v) for v in y]))
            return y
        return rec

    def wrapped(disp=False):
        if len(events) > universe0 + 2:
            raise CollapseLoopError("Collapse() called %d times for %d weights + pairs" % (len(events) + 1, universe0))
        before = mt.state(s._termination)
        n = len(calls)
        best = [float(v) for v in s.bestSolution]
        r = orig(disp)
        ev = {"ncalls": n, "nio": len(io), "collapse": r, "before": before, "after": mt.state(s._termination), "best": best,
              "gens": s.generations, "round": None}
        if r:
            ev["round"] = round_of_collapse(r)
            rounds.append(ev["round"])
            # record (input, output) of the composed constraint at its outermost level (the next Collapse() chains its
            # decorators outside this recorder, and gets its own)
            s._constraints = recorder(s._constraints, len(rounds))
        events.append(ev)
        return r
    s.Collapse = wrapped
    findings = []
    args = {"solver": solver_name, "objective": kind, "npts": npts, "roles": roles, "target_weights": W, "target_positions": P,
            "dead": deads, "coincident": classes, "tol_w": tol_w, "tol_p": tol_p, "gen_w": gw, "gen_p": gp, "stop": stop,
            "gstop": gstop, "seed": seed, "x0": x0, "scale": wts if kind != "flat" else None,
            "termination": [c.__doc__ for c in order]}
    base = {"findings": findings, "reports": [], "ncollapses": 0, "args": args, "probes": [], "universe": universe0}
    try:
        if kind == "quad-converge-first":
            g1 = {"DE": 400, "DE2": 400, "NM": 1500, "Powell": 12}[solver_name]
            s.SetEvaluationLimits(generations=g1)
            s.Solve(cost_fn, mt.VTR(1e-14))
            x1 = [float(v) for v in s.bestSolution]
            args["phase1"] = {"generations": s.generations, "best": x1}
            s.SetEvaluationLimits(generations=s.generations + ((80 if big else 40) if solver_name != "Powell" else 8))
            s.Solve(cost_fn, term)
        elif kind == "flat":
            s.SetEvaluationLimits(generations=gstop + 12)
            s.Solve(cost_fn, term)
        else:
            s.SetEvaluationLimits(generations=(400 if big else 200) if solver_name != "Powell" else (30 if big else 16))
            s.Solve(cost_fn, term)
    except CollapseLoopError as e:
        findings.append(("msolver/collapse-loop-does-not-terminate", "%s (collapses: %r)" % (e, [repr(ev["collapse"])[:120] for ev in events[-3:]])))
        base["tag"] = "msolver:%s:%s:loop" % (solver_name, kind)
        return base
    except Exception as e:     # noqa
        import traceback
        args["trace"] = traceback.format_exc()[-800:]
        findings.append(("msolver/raises/%s" % solver_name, "Solve raised %s: %s" % (type(e).__name__, e)))
        base["tag"] = "msolver:%s:%s:raised" % (solver_name, kind)
        return base
    return analyse_mrun(s, solver_name, kind, npts, calls, callio, io, events, rounds, findings, args, hist, rng)


def analyse_mrun(s, solver_name, kind, npts, calls, callio, io, events, rounds, findings, args, hist, rng):
    import c11
    offs = offsets(npts)
    universe = sum(npts) + sum(n * (n - 1) // 2 for n in npts)
    wcode = {}; pcode = {}
    for k, n in enumerate(npts):
        for i in range(n):
            wcode[(k, i)] = len(wcode)
    for k, n in enumerate(npts):
        for a in range(n):
            for b in range(a + 1, n):
                pcode[(k, a, b)] = len(wcode) + len(pcode)
    rels = []; reports = []; seen = set(); ncoll = 0; probes = []
    first_bad = {}          # relation index -> (call index)
    rcount = 0
    for ei, e in enumerate(events):
        coll = e["collapse"]
        if not coll:
            continue
        ncoll += 1
        rep = []
        for key, val in coll.items():
            kname = key.split()[0]
            kw = e["before"].get(key)
            if kw is None or kname not in ("CollapseWeight", "CollapsePosition"):
                findings.append(("msolver/collapse-key-not-in-termination", "collapse key %r is not a measure condition of the termination %r" % (key, list(e["before"]))))
                continue
            det = "weight" if kname == "CollapseWeight" else "position"
            after = [v for k2, v in e["after"].items() if k2.startswith(kname) and
                     all(repr(v.get(p)) == repr(kw.get(p)) for p in kw if p != "mask")]
            if len(after) != 1 or not c11.covers(det, after[0].get("mask"), kw.get("mask"), val):
                findings.append(("msolver/mask-did-not-grow/" + kname, "mask before %r, applied %r, after %r" % (kw.get("mask"), val, [a.get("mask") for a in after])))
            for k, items in val.items():
                for it in items:
                    code = wcode.get((int(k), int(it))) if det == "weight" else pcode.get((int(k),) + tuple(sorted(int(v) for v in it)))
                    if code is None:
                        findings.append(("msolver/reported-out-of-range/" + kname, "%s reported %r of measure %r (npts %r)" % (kname, it, k, npts)))
                        continue
                    if code in seen:
                        findings.append(("msolver/reported-again/" + kname, "%s reported %r of measure %d again (already applied)" % (kname, it, k)))
                    seen.add(code); rep.append(code)
        reports.append(rep)
        new = rels_of_round(e["round"], rcount); rcount += 1
        for r in new:
            r["ncalls"] = e["ncalls"]
        rels += new
    # ---- every cost argument after a collapse: first failure of every relation
    for ri, r in enumerate(rels):
        for n in range(r["ncalls"], len(calls)):
            if any(v != v for v in calls[n]):
                continue      # a point with NaN entries (all weight of a measure gone: positions 0/0) admits no verdict on equalities
            if not mrel_holds(r, calls[n], npts):
                first_bad[ri] = n
                break
    by_call = {}
    for ri, n in first_bad.items():
        by_call.setdefault(n, []).append(rels[ri])

    def live_rounds(level):
        return rounds[:level]
    for n, bad in sorted(by_call.items()):
        # the outermost (input, output) record of the constraint call that produced this cost argument
        rec = None
        for t in range(callio[n] - 1, max(-1, callio[n] - 600), -1):     # DE2 constrains a whole generation, then evaluates it
            if io[t][2] == calls[n]:
                rec = io[t]; break
        if rec is None:
            findings.append(("msolver/evaluated-point/not-an-output-of-the-constraints",
                             "point #%d was evaluated after a collapse but is not an output of the installed constraints; it violates %s (x=%r)" % (
                                 n, "; ".join(mrel_text(r) for r in bad), calls[n])))
            continue
        lv = live_rounds(rec[0])
        probes.append({"line": measure_line(npts, lv, rec[1]), "raw": rec[1], "out": rec[2], "nrounds": len(lv), "rounds": lv,
                       "rels": [r for r in rels if r["round"] < len(lv)], "bad": [r for r in bad if r["round"] < len(lv)],
                       "prefix": "msolver/evaluated-point", "where": "cost argument #%d" % n, "npts": npts, "sample": False})
    # ---- sampled correspondence of the composed constraint
    top = [t for t in range(len(io)) if io[t][0] == len(rounds)] if rounds else []
    picks = []
    for e in events:
        if e["collapse"]:
            nxt = [t for t in range(e["nio"], min(len(io), e["nio"] + 6)) if io[t][0] == max(v[0] for v in io[e["nio"]:e["nio"] + 6])]
            picks += nxt[:2]
    if top:
        picks += [top[-1]] + ([rng.choice(top)] if len(top) > 2 else [])
    for t in sorted(set(picks))[:8]:
        lv = live_rounds(io[t][0])
        probes.append({"line": measure_line(npts, lv, io[t][1]), "raw": io[t][1], "out": io[t][2], "nrounds": len(lv), "rounds": lv,
                       "rels": [r for r in rels if r["round"] < len(lv)], "bad": [], "prefix": "msolver/evaluated-point",
                       "where": "constraint call #%d" % t, "npts": npts, "sample": True})
    # ---- the final solution
    final = [float(v) for v in s.bestSolution]
    shown = final
    if solver_name == "NM" and ncoll:
        shown = [float(v) for v in s._constraints(list(final))]      # F3 of C01/C03: NM reports the pre-constraint vertex
    if ncoll:
        badf = [r for r in rels if not mrel_holds(r, shown, npts)]
        if badf:
            lo = min(r["ncalls"] for r in badf)
            if solver_name != "NM" and final in calls[:lo] and final not in calls[lo:]:
                findings.append(("solver/final-solution/pre-collapse-best-survives",
                                 "the best point found before the collapse was never replaced: final solution %r violates %s" % (
                                     final, "; ".join(mrel_text(r) for r in badf))))
            else:
                rec = None
                for t in range(len(io) - 1, -1, -1):
                    if io[t][2] == shown:
                        rec = io[t]; break
                if rec is None:
                    findings.append(("msolver/final-solution/not-an-output-of-the-constraints",
                                     "final solution %r violates %s and is not an output of the installed constraints" % (
                                         shown, "; ".join(mrel_text(r) for r in badf))))
                else:
                    lv = live_rounds(rec[0])
                    probes.append({"line": measure_line(npts, lv, rec[1]), "raw": rec[1], "out": rec[2], "nrounds": len(lv), "rounds": lv,
                                   "rels": [r for r in rels if r["round"] < len(lv)], "bad": [r for r in badf if r["round"] < len(lv)],
                                   "prefix": "msolver/final-solution", "where": "final solution", "npts": npts, "sample": False})
                    late = [r for r in badf if r["round"] >= len(lv)]
                    if late:
                        findings.append(("solver/final-solution/pre-collapse-best-survives",
                                         "the reported best point was evaluated before round(s) %r were applied and never replaced: %r violates %s" % (
                                             sorted(set(r["round"] + 1 for r in late)), shown, "; ".join(mrel_text(r) for r in late))))
    if ncoll > universe:
        findings.append(("msolver/too-many-collapses", "%d collapses for %d weights + pairs" % (ncoll, universe)))
    if not s.Terminated(info=True):
        findings.append(("msolver/solve-returned-unterminated", "Solve returned but Terminated() is false"))
    # ---- coverage: which roles were actually applied, in one round or in successive rounds
    cov = "no-collapse"
    if rounds:
        cov = "%d-rounds" % min(len(rounds), 3)
        wr = {}; pr = {}
        for ri, rd in enumerate(rounds):
            for k, idx in rd["nw"]:
                for i in idx:
                    wr[(k, i)] = ri
            for k, ps in rd["tr"]:
                for a, b in ps:
                    pr[(k, a, b)] = ri
        shared = False
        for (k, a, b), rp in pr.items():
            for (k2, i), rw in wr.items():
                if k2 == k and i in (a, b):
                    when = "same-round" if rw == rp else ("weight-later" if rw > rp else "weight-earlier")
                    bump(hist, "msolver:dead=%s:%s" % ("root" if i == a else "second", when)); shared = True
        cov += ":shared-index" if shared else (":both-kinds" if wr and pr else ":one-kind")
    args.update({"final": final, "ncalls": len(calls), "nconstraint_calls": len(io), "rounds": rounds,
                 "events": [{"ncalls": e["ncalls"], "collapse": repr(e["collapse"]), "gens": e["gens"]} for e in events]})
    return {"findings": findings, "tag": "msolver:%s:%s:%s" % (solver_name, kind, cov), "cov": cov, "reports": reports,
            "ncollapses": ncoll, "universe": universe, "args": args, "probes": probes,
            "nontrivial": bool(rounds) and any(rd["tr"] for rd in rounds) and any(rd["nw"] for rd in rounds)}


# ------------------------------------------------------------------ judging probes against the model
def judge_probes(c, replies, add, hist, case):
    """compare the implementation's constraint outputs with the model and classify the failing relations"""
    stream = c["probes"][0]["prefix"].split("/")[0] if c["probes"] else "m"
    for p, rep in zip(c["probes"], replies):
        r = parse_reply(rep)
        if r[0] == "bad-op":
            raise RuntimeError("driver answered bad-op for %s" % p["line"])
        npts = p["npts"]
        pc = dict(case); pc["probe"] = {"request": p["line"], "raw": p["raw"], "out": p["out"], "rounds": p["rounds"], "model": rep,
                                        "where": p["where"]}
        my = None; items = None
        if r[0] == "ok":
            my = [b2f(t) for t in r[1]["y"]]
            items = parse_items(r[1]["items"])
        if p["out"] is None:
            if r[0] == "ok":
                add("correspondence", "%s/impose_measure/diverges" % stream, "%s: the implementation raised, the model returns %r" % (p["where"], my), pc)
            continue
        if r[0] != "ok":
            add("correspondence", "%s/impose_measure/diverges" % stream, "%s: the implementation returned %r, the model raises %s" % (p["where"], p["out"], r[1]), pc)
        else:
            how = cmp_measure(my, p["out"], npts, p["rels"])
            if how in ("exact", "tol"):
                bump(hist, "%s:model-vs-impl:%s" % (stream, how))
            else:
                add("correspondence", "%s/impose_measure/diverges" % stream,
                    "%s: composed impose_measure constraints of %d round(s) on x=%r: model %r, implementation %r (%s)" % (
                        p["where"], p["nrounds"], p["raw"], my, p["out"], how), pc)
            # the theorems on the model's own output: one round, hypotheses evaluated by the model
            if p["nrounds"] == 1 and items is not None:
                rd = p["rounds"][0]
                offs = offsets(npts)
                for ti, (k, ps) in enumerate(rd["tr"]):
                    okk = items[0][ti][2] and items[0][ti][3] and len(set(kk for kk, _ in rd["tr"])) == len(rd["tr"])
                    if okk:
                        bump(hist, "%s:TrackOK-holds" % stream)
                        for a, b in ps:
                            if my[pidx(npts, k, a)] != my[pidx(npts, k, b)] and all(v == v for v in my):
                                add("correspondence", "%s/model-contradicts-theorem" % stream,
                                    "TrackOK holds but the model leaves the pair (%d,%d) of measure %d apart: %r" % (a, b, k, rep), pc)
                    else:
                        bump(hist, "%s:TrackOK-fails" % stream)
                for k, idx in rd["nw"]:
                    n = npts[k]; w0 = p["raw"][offs[k]:offs[k] + n]
                    hyp = (all(v >= 0 for v in w0) and sum(w0) > 0 and len(set(idx)) < n and
                           all(it[3] for ti, it in enumerate(items[0]) if it[0] == k) and len(set(kk for kk, _ in rd["nw"])) == len(rd["nw"]))
                    if hyp:
                        for i in idx:
                            if my[offs[k] + i] != 0.0:
                                add("correspondence", "%s/model-contradicts-theorem" % stream,
                                    "hypotheses of measure_applied_weights_zero hold but the model gives weight %r at index %d of measure %d: %r" % (
                                        my[offs[k] + i], i, k, rep), pc)
        # ---- monitor: the failing relations
        for rel in p["bad"]:
            rounds_exec = list(reversed(p["rounds"]))
            if items is not None:
                key, why = classify(p["prefix"], rel, p["nrounds"], rounds_exec, items, npts, p["raw"], my)
            else:
                key, why = p["prefix"] + ("/weight-not-zero" if rel["kind"] == "wzero" else "/position-pair-not-equal"), "no model reply"
            add("monitor", key, "%s: %s violated (%s) after the composed impose_measure constraints of %d round(s) %r on the input %r gave %r; %s" % (
                p["where"], mrel_text(rel), mrel_value(rel, p["out"], npts), p["nrounds"], p["rounds"], p["raw"], p["out"], why), pc)
