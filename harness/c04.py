"""C04 - see DESIGN.md section 5; shared machinery in solvercheck.py"""
import solvercheck, framework
PID = "C04"
MODULE = "MysticVerif.Props.Solve"
THEOREMS = ["MysticVerif.C04.de_history_antitone", "MysticVerif.C04.de_last_history_is_best", "MysticVerif.C04.de_one_record_per_step", "MysticVerif.C04.de_log_prefix", "MysticVerif.C04.de_evalmon_records", "MysticVerif.C04.de_evals_per_step", "MysticVerif.C04.nm_history", "MysticVerif.C04.step_evals", "MysticVerif.C04.finalize_setLimits_keep_evals", "MysticVerif.C04.evals_eq_sum_of_ran", "MysticVerif.C04.pw_history_antitone", "MysticVerif.C04.pw_last_history_is_best", "MysticVerif.C04.pw_log_prefix", "MysticVerif.C04.pw_evalmon_records", "MysticVerif.C04.pw_one_record_per_step", "MysticVerif.C04.pw_at_most_one_record_per_call", "MysticVerif.SolveProps.solve_evaluations_are_the_log", "MysticVerif.SolveProps.solve_de_evaluations", "MysticVerif.Closed.stepOnce_gens", "MysticVerif.C04.brent_oracle_lsMono", "MysticVerif.C04.pw_history_antitone_brent", "MysticVerif.C04.pw_best_le_initial_guess_brent", "MysticVerif.SolveProps.solve_nm_members", "MysticVerif.SolveProps.solve_pw_history", "MysticVerif.SolveProps.solve_pw_evaluations", "MysticVerif.Reconfig.reconfigured_log_prefix", "MysticVerif.Reconfig.reconfigured_bestE_le", "MysticVerif.Reconfig.reconfigured_one_record_per_iteration", "MysticVerif.Reconfig.reconfigured_history_antitone", "MysticVerif.Reconfig.nm_reconfigured_evaluations_segmented"]


def run_shard(pid, seed, shard, ncases, tier, extra):
    return solvercheck.run_shard(PID, seed, shard, ncases, tier, extra)


def main(tier, seed):
    return solvercheck.main(PID, MODULE, THEOREMS, tier, seed, RULE_EXTRA, TRUSTED_EXTRA)


RULE_EXTRA = 'evaluation counter vs real cost calls after EVERY op; evaluation monitor content vs calls; callback log; wrapper funcalls.'
TRUSTED_EXTRA = ["Powell: the Brent line search is an oracle of the model (which points it evaluates, which one it returns), recorded from the real run; the contract 'never worse than the start' (LsMono) is checked on every recorded search; everything else of PowellDirectionalSolver._Step is computed by the model and replayed bit for bit (histogram model:pw, pw-iterations, pw-extrapolation-searches)", 'callback and monitor objects: implementation monitor only; control loop replayed by the Lean Ctl model for all four solvers']


def replay(path):
    return solvercheck.replay(PID, path)
