"""Shared helpers for the mystic verification harness (see /verif/DESIGN.md sections 1-3)."""
import os, sys, struct, json, time, random, hashlib, subprocess, traceback, math

VERIF = os.path.dirname(os.path.dirname(os.path.abspath(__file__)))
REPO = os.environ.get("MYSTIC_REPO", "/repo")
LEAN = os.path.join(VERIF, "lean")
MVDRV = os.path.join(LEAN, ".lake", "build", "bin", "mvdrv")

# the implementation under test is ALWAYS /repo's working tree
if REPO not in sys.path:
    sys.path.insert(0, REPO)
os.environ.setdefault("MYSTIC_VERIF", "1")


def import_mystic():
    import warnings
    warnings.filterwarnings("ignore")
    import mystic  # noqa
    p = os.path.realpath(os.path.dirname(mystic.__file__))
    want = os.path.realpath(os.path.join(REPO, "mystic"))
    if p != want:
        raise RuntimeError("mystic imported from %s, expected %s" % (p, want))
    return mystic


# ---------------------------------------------------------------- floats <-> protocol
def f2b(x):
    """binary64 -> decimal UInt64 bit pattern token"""
    return "f%d" % struct.unpack("<Q", struct.pack("<d", float(x)))[0]


def b2f(tok):
    assert tok[0] == "f", tok
    return struct.unpack("<d", struct.pack("<Q", int(tok[1:])))[0]


def fl(xs):
    return "(" + " ".join(f2b(x) for x in xs) + ")"


def fll(xss):
    return "(" + " ".join(fl(xs) for xs in xss) + ")"


def nl(ns):
    return "(" + " ".join(str(int(n)) for n in ns) + ")"


def same_float(a, b):
    """bit-identical (NaN payloads ignored: any NaN equals any NaN)"""
    a = float(a); b = float(b)
    if a != a and b != b:
        return True
    return struct.pack("<d", a) == struct.pack("<d", b)


def same_vec(a, b):
    a = list(a); b = list(b)
    return len(a) == len(b) and all(same_float(p, q) for p, q in zip(a, b))


# ---------------------------------------------------------------- s-expression replies
def tokenize(s):
    out = []; cur = ""
    for ch in s:
        if ch in "() \t\r\n":
            if cur:
                out.append(cur); cur = ""
            if ch in "()":
                out.append(ch)
        else:
            cur += ch
    if cur:
        out.append(cur)
    return out


def parse_sexp(s):
    """parse a reply line into nested python lists; atoms stay strings"""
    toks = tokenize(s)
    pos = 0

    def seq():
        nonlocal pos
        out = []
        while pos < len(toks):
            t = toks[pos]
            if t == "(":
                pos += 1
                out.append(seq())
                if pos >= len(toks) or toks[pos] != ")":
                    raise ValueError("unbalanced: " + s)
                pos += 1
            elif t == ")":
                return out
            else:
                out.append(t); pos += 1
        return out
    r = seq()
    if pos != len(toks):
        raise ValueError("unbalanced: " + s)
    return r


def parse_reply(line):
    """'ok k=v k=(..) word' -> ('ok', {k: parsed}, [words]) ; 'err e' -> ('err', e)"""
    line = line.strip()
    if line.startswith("err"):
        return ("err", line[3:].strip())
    if line == "bad-op":
        return ("bad-op", None)
    assert line.startswith("ok"), line
    body = line[2:].strip()
    # split top-level on spaces while respecting parens
    parts = []; depth = 0; cur = ""
    for ch in body:
        if ch == "(":
            depth += 1
        elif ch == ")":
            depth -= 1
        if ch == " " and depth == 0:
            if cur:
                parts.append(cur); cur = ""
        else:
            cur += ch
    if cur:
        parts.append(cur)
    kv = {}; words = []
    for p in parts:
        if "=" in p and not p.startswith("("):
            k, v = p.split("=", 1)
            kv[k] = parse_sexp(v)[0] if v.startswith("(") else v
        else:
            words.append(p)
    return ("ok", kv, words)


def floats_of(sx):
    return [b2f(t) for t in sx]


# ---------------------------------------------------------------- seeds
def seed_env():
    try:
        return int(os.environ.get("VERIF_SEED", "0"))
    except ValueError:
        return 0


def case_rng(pid, seed, shard, k):
    h = hashlib.sha256(("%s/%s/%s/%s" % (pid, seed, shard, k)).encode()).digest()
    return random.Random(int.from_bytes(h[:8], "little"))


def seed_mystic(rng):
    """seed the global generators mystic uses from the case stream"""
    import numpy
    s = rng.randrange(2**31)
    random.seed(s)
    numpy.random.seed(s)
    return s


# ---------------------------------------------------------------- numbers for generators
def dyadic(rng, lo=-8, hi=8, denom=8):
    """small dyadic rational (exactness regime, DESIGN 3.2)"""
    return rng.randint(lo * denom, hi * denom) / denom


def gfloat(rng, scale=10.0):
    k = rng.random()
    if k < 0.15:
        return float(rng.randint(-5, 5))
    if k < 0.30:
        return dyadic(rng)
    return rng.uniform(-scale, scale)


def ulp_up(x):
    return math.nextafter(x, math.inf)


def ulp_dn(x):
    return math.nextafter(x, -math.inf)


def jsonable(o):
    """make a case description JSON-serialisable without losing float identity"""
    import numpy
    if isinstance(o, (numpy.floating,)):
        o = float(o)
    if isinstance(o, (numpy.integer,)):
        return int(o)
    if isinstance(o, numpy.ndarray):
        return [jsonable(v) for v in o.tolist()]
    if isinstance(o, float):
        if o != o or o in (math.inf, -math.inf):
            return {"float": repr(o)}
        return o
    if isinstance(o, (list, tuple)):
        return [jsonable(v) for v in o]
    if isinstance(o, dict):
        return {str(k): jsonable(v) for k, v in o.items()}
    if isinstance(o, (str, int, bool)) or o is None:
        return o
    return repr(o)


def unjson(o):
    """inverse of jsonable for replay files ({"float": "inf"} -> float)"""
    if isinstance(o, dict):
        if set(o.keys()) == {"float"}:
            return float(o["float"])
        return {k: unjson(v) for k, v in o.items()}
    if isinstance(o, list):
        return [unjson(v) for v in o]
    return o
