"""Shared check driver for the solver properties C01-C05: real traces (trace.py) -> property monitors
(solvermon.py) + correspondence with the Lean solver model S (solvermodel.py), plus wrapper-level cases."""
import time, math, random as _random
import numpy as np
import common, dsl, trace, solvergen, solvermon, solvermodel, framework, leandrv
from common import case_rng
from framework import Finding

MON = {"C01": solvermon.mon_c01, "C02": solvermon.mon_c02, "C03": solvermon.mon_c03, "C05": solvermon.mon_c05}
CORR = {"C01": ("de", "dec", "nm", "nmc", "pw", "pwb", "solve"), "C02": ("de", "dec", "nm", "nmc", "pw", "pwb"), "C03": ("de", "dec", "nm", "nmc", "pw", "pwb"), "C04": ("ctl", "de", "dec", "nm", "nmc", "pw", "pwb", "solve"), "C05": ("ctl", "solve")}
REQ = {"de": solvermodel.de_request, "nm": solvermodel.nm_request, "ctl": solvermodel.ctl_request, "pw": solvermodel.pw_request, "solve": solvermodel.solve_request, "pwb": solvermodel.pwb_request, "dec": solvermodel.dec_request, "nmc": solvermodel.nmc_request}


def spec_view(spec):
    return {k: v for k, v in spec.items()}


def gen_for(pid, rng, tier):
    """property-directed generation: each property gets the configurations it is about more often"""
    k = rng.random()
    maxdim = 4 if tier == "quick" else 8
    nsteps = (3, 12) if tier == "quick" else (3, 40)
    if pid in ("C01",):
        spec = solvergen.gen_spec(rng, maxdim=maxdim, nsteps=nsteps, flavour="steps" if k < 0.65 else ("solve" if k < 0.8 else "ops"))
        if spec.get("flavour") == "ops":
            # the penalty is changed between iterations of a LIVE solver (SetPenalty, or penalty= handed to Step)
            ops = [("step",)] * rng.randint(2, 5)
            for _ in range(rng.randint(1, 2)):
                pn = solvergen.gen_penalty(rng, spec["dim"]) if rng.random() < 0.8 else None
                ops.append(("step", {"penalty": pn}) if rng.random() < 0.4 else ("setpenalty", pn))
                ops += [("step",)] * rng.randint(2, 6)
            spec["ops"] = ops
            spec["penalty_switch"] = True
            if rng.random() < 0.7:
                spec["limits"] = None
        elif rng.random() < 0.07 and spec["cost"][0] == "scalar" and not spec.get("penalty_switch"):
            # an array-valued cost with an ARRAY-LIKE reducer (SetReducer(f, arraylike=True)), also for ONE residual (f([y]) != y)
            terms = list(spec["cost"][1][1:]) if spec["cost"][1][0] == "sum" else [spec["cost"][1]]
            n = rng.choice([1, 1, 2, len(terms)])
            spec["cost"] = ("vector", terms[:max(1, n)])
            spec["reducer"] = "sumsq"
        elif rng.random() < 0.08 and spec["cost"][0] == "scalar":
            # ExtraArgs handed to Step, then changed on the LIVE solver - to another tuple, to the EMPTY tuple, back
            spec["penalty"] = None; spec["constraints"] = None; spec["ranges"] = None; spec["reducer"] = None
            spec["limits"] = None; spec["termination"] = ("never",)
            pool = [(1.5,), (100.0, 0.25), (), (-3.0,), (0.5, 0.5, 2.0)]
            first = rng.choice(pool)
            ops = [("step", {"extra": first})] + [("step",)] * rng.randint(1, 4)
            for _ in range(rng.randint(1, 3)):
                ops.append(("step", {"extra": rng.choice([a for a in pool if a != first] + [()])}))
                ops += [("step",)] * rng.randint(1, 4)
            spec["ops"] = ops
            spec["extra_run"] = True; spec["flavour"] = "extra"
    elif pid == "C02":
        spec = solvergen.gen_spec(rng, maxdim=maxdim, nsteps=nsteps, flavour="steps" if k < 0.5 else "ops")
        if spec["solver"] == "DE2" and rng.random() < 0.35:
            spec["mapper"] = "serial"
        if not spec.get("ranges") and rng.random() < 0.8:
            x0 = spec.get("x0") or [0.5 * (a + b) for a, b in zip(*spec["init_box"])]
            lo, hi, bk = solvergen.gen_box(rng, spec["dim"], x0)
            tight, clip = rng.choice([(None, None), (True, None), (False, None), (True, True), (None, True), (None, False), (True, False)])
            if not any(math.isfinite(v) for v in lo + hi):
                tight, clip = None, None
            if spec.get("constraints") is not None:
                spec["constraints"] = solvergen.gen_constraints(rng, spec["dim"], (lo, hi))
            spec["ranges"] = (lo, hi, tight, clip); spec["box_kind"] = bk
        if spec.get("ranges") and rng.random() < 0.3:
            # constraints that push points out of the box: the property must hold regardless (model replay skipped)
            spec["constraints"] = solvergen.gen_pushing_constraints(rng, spec["dim"], (spec["ranges"][0], spec["ranges"][1]))
            spec["inplace"] = rng.random() < 0.5
            spec["pushing"] = True
            # conflicting members make and_(constraints, bounds) cycle to its iteration cap on EVERY application (seconds per
            # Powell line search): a few iterations exercise the clause as well as many
            spec["ops"] = spec["ops"][:3]
        elif rng.random() < 0.12:
            # bounds lists with None ENTRIES ("no preference for this coordinate"): SetStrictRanges replaces them by the
            # solver's defaults -1e3 / +1e3 (abstract_solver.py l.~370), which then ARE strict ranges - with a start near that
            # default bound and an optimum beyond it
            dim = spec["dim"]
            j = rng.randrange(dim); up = rng.random() < 0.5
            c = [common.dyadic(rng, -2, 2, 2) for _ in range(dim)]
            c[j] = 1500.0 if up else -1500.0
            x0 = [ci + common.dyadic(rng, -1, 1, 2) for ci in c]
            x0[j] = (1000.0 - abs(common.dyadic(rng, 1, 6, 1))) * (1.0 if up else -1.0)
            lo = [v - 3.0 for v in x0]; hi = [v + 3.0 for v in x0]
            nones = []
            if up:
                hi[j] = 1000.0; nones.append((j, "hi"))
            else:
                lo[j] = -1000.0; nones.append((j, "lo"))
            if dim > 1 and rng.random() < 0.5:       # a second coordinate without preference on both sides (far from active)
                i2 = (j + 1) % dim
                lo[i2] = -1000.0; hi[i2] = 1000.0; nones += [(i2, "lo"), (i2, "hi")]
            spec["cost"] = ("scalar", ("sum",) + tuple(("sq", ("-", ("x", i), ("c", c[i]))) for i in range(dim)))
            spec["reducer"] = None
            spec["constraints"] = None; spec["penalty"] = None
            if spec["solver"] in ("DE", "DE2"):
                spec["population"] = None
                spec["init_box"] = ([max(a, v - 1.0) for a, v in zip(lo, x0)], [min(b, v + 1.0) for b, v in zip(hi, x0)])
            else:
                spec["x0"] = x0
            spec["ranges"] = (lo, hi, rng.choice([None, True]), None); spec["box_kind"] = "none-entries"
            spec["ranges_none"] = nones
            spec["ops"] = [("step",)] * rng.randint(6, 14)
            spec["limits"] = None; spec["termination"] = ("never",)
    elif pid == "C03":
        spec = solvergen.gen_spec(rng, maxdim=maxdim, nsteps=nsteps, flavour="steps" if k < 0.6 else "ops")
        if spec.get("constraints") is None:
            box = (spec["ranges"][0], spec["ranges"][1]) if spec.get("ranges") else None
            spec["constraints"] = solvergen.gen_constraints(rng, spec["dim"], box)
            spec["inplace"] = rng.random() < 0.5
    elif pid == "C04":
        spec = solvergen.gen_spec(rng, maxdim=maxdim, nsteps=nsteps, flavour=rng.choice(["steps", "ops", "ops", "solve"]))
        spec["monitor_ops"] = True
        if rng.random() < 0.15:
            spec["evalmon"] = False
        if rng.random() < 0.2:
            spec["stepmon"] = rng.choice([2.0, 0.5, 4.0, -1.0, -2.0])      # a step monitor with a cost multiplier k
        if rng.random() < 0.15:
            spec["callback"] = "falsy"      # a callable OBJECT whose truth value is False (an empty recorder): still a callback
    else:
        spec = solvergen.gen_spec(rng, maxdim=maxdim, nsteps=nsteps, flavour=rng.choice(["ops", "ops", "steps", "solve"]))
        if rng.random() < 0.5:
            spec["limits"] = (rng.choice([None, 0, 1, 2, 3, 5]), rng.choice([None, 0, 1, 5, 20, 50]))
        if rng.random() < 0.3:
            spec["evalmon"] = False         # the default Null evaluation monitor
        if rng.random() < 0.15:
            spec["stepmon"] = rng.choice([2.0, 0.5, -1.0])
        if rng.random() < 0.12 and spec["solver"] != "DE2" and spec.get("evalmon", True):
            # an evaluation monitor that already holds records of another run (shared / reused), and limits given with new=True
            spec["evalmon_prefilled"] = rng.choice([3, 17, 60])
            ops = [o for o in spec["ops"] if o[0] != "setevalmon"]
            at = rng.randint(0, min(4, len(ops)))
            ops = ops[:at] + [("setlimits", rng.choice([None, 3, 6]), rng.choice([4, 9, 15, 30]), True)] + [("step",)] * rng.randint(3, 8) + ops[at:]
            spec["ops"] = ops
            spec["termination"] = ("never",)
        if rng.random() < 0.15 and spec.get("flavour") in ("steps", "ops"):
            # a termination handed to Step itself on a live solver - one that already holds, or one that does not
            always = rng.choice([("VTR", 1e12, 0.0), ("Or", ("VTR", 1e12, 0.0), ("COG", 1e-9, 50)), ("EVL", 0, None)])
            never = ("never",)
            ops = list(spec["ops"])
            at = rng.randint(2, max(2, min(6, len(ops))))
            ops = ops[:at] + [("step", {"termination": rng.choice([always, always, never])})] + [("step",)] * rng.randint(1, 3) + ops[at:]
            spec["ops"] = ops
        if rng.random() < 0.18:
            # the EvaluationLimits CONDITION (not SetEvaluationLimits), alone or in an Or, with budgets that iteration
            # boundaries land on exactly: multiples of the population size / small counts
            npop = len(spec["population"]) if spec.get("population") else (spec.get("npop") or spec["dim"] + 1)
            e = rng.choice([npop * rng.randint(1, 4), spec["dim"] + 1, 2 * spec["dim"] + 1, rng.randint(1, 12), None])
            g = rng.choice([None, None, rng.randint(0, 4)])
            if e is None and g is None:
                e = npop * 2
            evl = ("EVL", g, e)
            spec["termination"] = evl if rng.random() < 0.6 else ("Or", ("VTR", 1e-9, 0.0), evl)
            spec["limits"] = None
    if spec.get("flavour") == "ops" and not spec.get("penalty_switch"):
        # the configuration may have been completed above: regenerate the op sequence so that the hypotheses of C03
        # (constraints compatible with the box in force) hold along it
        spec["ops"] = solvergen.gen_ops(rng, spec, len(spec["ops"]))
    return spec


# ------------------------------------------------------------------ wrapper-level cases (fmin, fmin_powell, diffev, diffev2)
def wrapper_case(pid, rng):
    """one-liner interfaces with full_output=1: returned (x, fval, iter, funcalls, warnflag)"""
    common.import_mystic()
    from mystic.solvers import fmin, fmin_powell, diffev, diffev2
    out = []
    dim = rng.randint(1, 3)
    cost_spec = solvergen.gen_cost(rng, dim, allow_vector=False)
    calls = []

    def cost(x):
        xv = [float(v) for v in np.ravel(x)]
        y = dsl.ev(cost_spec[1], xv)
        calls.append((xv, y))
        return y
    pen = solvergen.gen_penalty(rng, dim) if rng.random() < 0.3 else None
    kw = {}
    if pen is not None:
        kw["penalty"] = lambda x: dsl.ev(pen, [float(v) for v in np.ravel(x)])
    maxiter = rng.choice([None, 1, 2, 3, 5, 30]); maxfun = rng.choice([None, 1, 5, 20, 200])
    which = rng.choice(["fmin", "fmin_powell", "diffev", "diffev2"])
    npop = rng.randint(4, 8)
    if pid == "C05" and rng.random() < 0.35:
        # runs that do NOT converge before the solver's DEFAULT limits: slowly improving cost far above its target
        which = rng.choice(["diffev", "diffev2", "fmin"])
        dim = 2; npop = 4; pen = None; kw = {}
        cost_spec = ("scalar", ("sum", ("*", ("c", 100.0), ("sq", ("-", ("x", 1), ("sq", ("x", 0))))), ("sq", ("-", ("c", 1.0), ("x", 0))), ("c", 10.0),
                                ("*", ("c", 1e-3), ("abs", ("x", 0)))))
        maxiter = None; maxfun = rng.choice([None, 10 ** 7])
        kw["ftol"] = 1e-30
        if which == "fmin":
            kw["xtol"] = 1e-30
        else:
            kw["gtol"] = 10 ** 6
    x0 = [common.dyadic(rng, -3, 3, 4) for _ in range(dim)]
    _random.seed(rng.randrange(2**31)); np.random.seed(rng.randrange(2**31))
    try:
        if which == "fmin":
            x, f, it, fc, wf = fmin(cost, x0, maxiter=maxiter, maxfun=maxfun, full_output=1, disp=0, **kw)
        elif which == "fmin_powell":
            x, f, it, fc, wf = fmin_powell(cost, x0, maxiter=maxiter, maxfun=maxfun, full_output=1, disp=0, **kw)[:5]
        elif which == "diffev":
            x, f, it, fc, wf = diffev(cost, x0, npop=npop, maxiter=maxiter, maxfun=maxfun, full_output=1, disp=0, **kw)
        else:
            x, f, it, fc, wf = diffev2(cost, x0, npop=npop, maxiter=maxiter, maxfun=maxfun, full_output=1, disp=0, **kw)
    except Exception as exc:
        return [("wrapper/%s/raises" % which, "%s raised %r" % (which, exc), {"x0": x0})], which, None
    x = [float(v) for v in np.ravel(x)]; f = float(np.ravel(f)[0])
    case = {"wrapper": which, "x0": x0, "cost": dsl.expr_sexp(cost_spec[1]), "penalty": dsl.expr_sexp(pen) if pen else None,
            "maxiter": maxiter, "maxfun": maxfun, "returned": [x, f, int(it), int(fc), int(wf)], "real_calls": len(calls)}
    if any(y != y for _, y in calls):
        return [], which, None
    if pid in ("C01",):
        if math.isfinite(f):
            if not any(common.same_vec(x, c[0]) for c in calls):
                out.append(("wrapper/%s/best-not-evaluated" % which, "%s returned x=%r that was never passed to the cost" % (which, x), case))
            else:
                want = dsl.ev(cost_spec[1], x) + (dsl.ev(pen, x) if pen else 0.0)
                if not (want == f):
                    out.append(("wrapper/%s/energy-mismatch" % which, "%s returned fval=%r but cost(x)+penalty(x)=%r" % (which, f, want), case))
    if pid in ("C04", "C05"):
        if int(fc) != len(calls):
            out.append(("wrapper/%s/funcalls" % which, "%s reports %d function calls, %d were made" % (which, fc, len(calls)), case))
    if pid == "C05":
        # the limits in force when None is passed are the solver defaults: N * nPop * scale
        scale = {"fmin": (200, 200), "fmin_powell": (1000, 1000), "diffev": (10, 1000), "diffev2": (10, 1000)}[which]
        NP = max(npop, dim, 4) if which.startswith("diffev") else 1
        mi = maxiter if maxiter is not None else dim * NP * scale[0]
        mf = maxfun if maxfun is not None else dim * NP * scale[1]
        want = 1 if fc >= mf else (2 if it >= mi else 0)
        case["limits_in_force"] = [mi, mf]
        if int(wf) != want and which != "fmin_powell":
            out.append(("wrapper/%s/warnflag" % which, "warnflag %d but iterations=%d (limit %d) funcalls=%d (limit %d): expected %d" % (wf, it, mi, fc, mf, want), case))
        if which == "fmin_powell" and ((wf == 1 and fc < mf) or (wf == 2 and it < mi)):
            out.append(("wrapper/%s/warnflag" % which, "warnflag %d but iterations=%d (limit %d) funcalls=%d (limit %d)" % (wf, it, mi, fc, mf), case))
        if maxiter is not None and it > maxiter and which != "fmin_powell":
            out.append(("wrapper/%s/iterations-exceed" % which, "iterations %d > maxiter %d" % (it, maxiter), case))
        if which != "fmin_powell":
            # the Lean control model's warnflag for the final counters under the limits in force
            line = "C05 warn (evals %d) (gens %d) (maxiter %d) (maxfun %d)" % (fc, it, mi, mf)

            def cmp(reply, wf=int(wf), which=which, case=case):
                r = common.parse_reply(reply)
                if r[0] != "ok":
                    return [("wrapper/%s/model-%s" % (which, r[0]), "model replied %r" % (reply[:200],))]
                if int(r[1]["warnflag"]) != wf:
                    return [("wrapper/%s/warnflag-diverges" % which, "model warnflag %s, %s returned %d (iterations %d, funcalls %d, limits %r)" % (r[1]["warnflag"], which, wf, it, fc, case["limits_in_force"]))]
                return []
            return out, which, (line, cmp, case)
    return out, which, None


_ENS_CALLS = []
_ENS_EXPR = [None]


def _ens_cost(x):
    """module-level cost (ensemble members copy the objective with dill: closures would be copied by value)"""
    xv = [float(v) for v in np.ravel(x)]
    y = dsl.ev(_ENS_EXPR[0], xv)
    _ENS_CALLS.append((xv, y))
    return y


_ENS_PEN = [None]


def _ens_penalty(x):
    return dsl.ev(_ENS_PEN[0], [float(v) for v in np.ravel(x)])


_ENS_CON = [None]


def _ens_constraints(x):
    return dsl.con_apply(_ENS_CON[0], [float(v) for v in np.ravel(x)])


def ensemble_case(rng, pid="C01"):
    """C01 for ensembles of solvers: the reported best is an evaluated point carrying its own cost; C02: every member
    evaluates inside the ensemble's strict ranges; C03: every member evaluates only points the ensemble's constraints
    leave unchanged - whether the nested solver is given as a class or as a configured instance"""
    common.import_mystic()
    from mystic.solvers import LatticeSolver, BuckshotSolver, DifferentialEvolutionSolver, DifferentialEvolutionSolver2, NelderMeadSimplexSolver, PowellDirectionalSolver
    from mystic.termination import VTR
    out = []
    dim = rng.randint(1, 3)
    cost_spec = solvergen.gen_cost(rng, dim, allow_vector=False)
    _ENS_EXPR[0] = cost_spec[1]
    del _ENS_CALLS[:]
    nested = rng.choice(["NM", "Powell", "DE", "DE2", "DE", "DE2"])
    kind = rng.choice(["lattice", "buckshot"])
    _random.seed(rng.randrange(2**31)); np.random.seed(rng.randrange(2**31))
    lo = [common.dyadic(rng, -4, 0, 2) for _ in range(dim)]; hi = [a + 2.0 + abs(common.dyadic(rng, 0, 3, 2)) for a in lo]
    if kind == "lattice":
        s = LatticeSolver(dim, nbins=[rng.randint(1, 2) for _ in range(dim)])
    else:
        s = BuckshotSolver(dim, npts=rng.randint(2, 4))
    cls = {"NM": NelderMeadSimplexSolver, "Powell": PowellDirectionalSolver, "DE": DifferentialEvolutionSolver, "DE2": DifferentialEvolutionSolver2}[nested]
    instance = nested in ("DE", "DE2") or rng.random() < 0.5
    if nested in ("DE", "DE2"):
        s.SetNestedSolver(cls(dim, rng.randint(4, 6)))
    elif instance:
        s.SetNestedSolver(cls(dim))          # a configured solver INSTANCE (without an objective of its own)
    else:
        s.SetNestedSolver(cls)
    pen = solvergen.gen_penalty(rng, dim) if rng.random() < 0.5 else None
    _ENS_PEN[0] = pen
    if pen is not None:
        s.SetPenalty(_ens_penalty)           # the ensemble's penalty must reach every member
    con = None
    if pid == "C03" or (pid == "C02" and rng.random() < 0.3):
        con = solvergen.gen_constraints(rng, dim, (lo, hi))
        _ENS_CON[0] = con
        s.SetConstraints(_ens_constraints)   # the ensemble's constraints must reach every member
    s.SetStrictRanges(lo, hi)
    s.SetEvaluationLimits(generations=rng.choice([2, 3, 5, 8]))
    case = {"ensemble": kind, "nested": nested, "nested_is_instance": instance, "dim": dim, "cost": dsl.expr_sexp(cost_spec[1]),
            "penalty": dsl.expr_sexp(pen) if pen is not None else None, "lo": lo, "hi": hi,
            "constraints": dsl.con_sexp(con) if con is not None else None}
    try:
        s.Solve(_ens_cost, VTR(1e-8))
    except Exception as exc:
        return [], "%s:%s:raised-%s" % (kind, nested, type(exc).__name__)
    best = [float(v) for v in np.ravel(s.bestSolution)]; e = float(np.ravel(s.bestEnergy)[0])
    case["reported"] = [best, e]; case["real_calls"] = len(_ENS_CALLS)
    tag = "%s:%s%s%s%s" % (kind, nested, ":instance" if instance else "", ":pen" if pen is not None else "", ":con" if con is not None else "")
    if pid in ("C02", "C03"):
        # the box / constraints clauses on every real cost call of every member
        for xv, _ in _ENS_CALLS:
            if pid == "C02" and not all(l <= v <= h for v, l, h in zip(xv, lo, hi)):
                out.append(("ensemble/%s-%s/evaluated-outside-box" % (kind, nested), "a member of the ensemble called the cost at %r, outside the ensemble's strict ranges [%r, %r]" % (xv, lo, hi), case))
                break
            if pid == "C03" and con is not None and not common.same_vec(dsl.con_apply(con, xv), xv):
                out.append(("ensemble/%s-%s/evaluated-unconstrained-point" % (kind, nested), "a member of the ensemble called the cost at %r, which the ensemble's constraints map to %r" % (xv, dsl.con_apply(con, xv)), case))
                break
        # the reported best: a member given as a configured INSTANCE has no constraints / ranges of its own (they act inside
        # the decorated cost it is handed), so with constraints on the ensemble it reports the pre-constraint point (F58)
        pre = instance and con is not None
        if pid == "C02" and math.isfinite(e) and nested != "NM" and not all(l <= v <= h for v, l, h in zip(best, lo, hi)):
            out.append(("ensemble/best-outside-box/nested-instance-keeps-pre-constraint-point" if pre else "ensemble/%s-%s/best-outside-box" % (kind, nested),
                        "the ensemble reports best %r with finite energy %r outside its strict ranges" % (best, e), case))
        if pid == "C03" and con is not None and math.isfinite(e) and nested != "NM" and not common.same_vec(dsl.con_apply(con, best), best):
            out.append(("ensemble/reported-solution-unconstrained/nested-instance-keeps-pre-constraint-point" if pre else "ensemble/%s-%s/reported-solution-unconstrained" % (kind, nested),
                        "the ensemble reports best %r (energy %r), which its constraints map to %r" % (best, e, dsl.con_apply(con, best)), case))
        return out, tag
    if any(y != y for _, y in _ENS_CALLS) or not math.isfinite(e):
        return [], "%s:%s:skipped" % (kind, nested)
    if not any(common.same_vec(best, c[0]) for c in _ENS_CALLS):
        out.append(("ensemble/%s-%s/best-not-evaluated" % (kind, nested), "ensemble reports best %r that was never passed to the cost" % (best,), case))
    else:
        want = dsl.ev(cost_spec[1], best) + (dsl.ev(pen, best) if pen is not None else 0.0)
        if not (want == e):
            out.append(("ensemble/%s-%s/energy-mismatch" % (kind, nested), "ensemble reports energy %r but cost(best) + penalty(best) = %r" % (e, want), case))
    return out, "%s:%s%s%s" % (kind, nested, ":instance" if instance else "", ":pen" if pen is not None else "")


def ensemble_warn_case(rng):
    """C05 for the ensemble one-liners lattice / buckshot / sparsity (full_output=1): maxiter / maxfun are PER-MEMBER budgets,
    and the returned iterations, function calls and warnflag describe the best member - the flag must name a condition that
    is true of those returned numbers"""
    common.import_mystic()
    from mystic.solvers import lattice, buckshot, sparsity
    out = []
    dim = rng.randint(1, 2)
    cost_spec = solvergen.gen_cost(rng, dim, allow_vector=False)
    _ENS_EXPR[0] = cost_spec[1]
    del _ENS_CALLS[:]
    which = rng.choice(["lattice", "buckshot", "sparsity"])
    maxiter = rng.choice([3, 8, 30, 200]); maxfun = rng.choice([20, 60, 150, 400, 10000])
    lo = [common.dyadic(rng, -4, 0, 2) for _ in range(dim)]; hi = [a + 2.0 + abs(common.dyadic(rng, 0, 3, 2)) for a in lo]
    _random.seed(rng.randrange(2**31)); np.random.seed(rng.randrange(2**31))
    kw = {"bounds": list(zip(lo, hi)), "maxiter": maxiter, "maxfun": maxfun, "full_output": 1, "disp": 0, "ftol": rng.choice([1e-4, 1e-8])}
    try:
        if which == "lattice":
            r = lattice(_ens_cost, dim, nbins=[rng.randint(1, 3) for _ in range(dim)], **kw)
        elif which == "buckshot":
            r = buckshot(_ens_cost, dim, npts=rng.randint(2, 5), **kw)
        else:
            r = sparsity(_ens_cost, dim, npts=rng.randint(2, 4), **kw)
    except Exception as exc:
        return [], "ens-warn:%s:raised-%s" % (which, type(exc).__name__)
    x, f, it, fc, wf = r[:5]
    it = int(it); fc = int(fc); wf = int(wf)
    case = {"oneliner": which, "dim": dim, "cost": dsl.expr_sexp(cost_spec[1]), "maxiter": maxiter, "maxfun": maxfun,
            "returned": [[float(v) for v in np.ravel(x)], float(np.ravel(f)[0]), it, fc, wf], "real_calls_all_members": len(_ENS_CALLS)}
    ok = (wf == 1 and fc >= maxfun) or (wf == 2 and it >= maxiter and fc < maxfun) or (wf == 0 and fc < maxfun and it < maxiter)
    if not ok:
        out.append(("wrapper/%s/warnflag" % which, "%s(maxiter=%d, maxfun=%d) returned warnflag %d with iterations=%d and funcalls=%d of the returned (best) member" % (which, maxiter, maxfun, wf, it, fc), case))
    return out, "ens-warn:%s:wf%d" % (which, wf)


def restart_case(rng):
    """C04 across a restart: a solver run with SetSaveFrequency(1, file) is abandoned after k Steps (no stop was reached) and
    LoadSolver(file) picks the run up from the periodic dump: the restored solver's generations = completed iterations - 1,
    one step record per iteration, evaluations = the calls made so far - and the same after some more Steps"""
    common.import_mystic()
    import os, tempfile
    from mystic.solvers import DifferentialEvolutionSolver, DifferentialEvolutionSolver2, NelderMeadSimplexSolver, LoadSolver
    from mystic.termination import VTR
    from mystic.monitors import Monitor
    out = []
    dim = rng.randint(1, 3)
    cost_spec = solvergen.gen_cost(rng, dim, allow_vector=False)
    _ENS_EXPR[0] = cost_spec[1]
    del _ENS_CALLS[:]
    kind = rng.choice(["DE", "DE2", "NM"])
    _random.seed(rng.randrange(2**31)); np.random.seed(rng.randrange(2**31))
    if kind == "NM":
        s = NelderMeadSimplexSolver(dim); s.SetInitialPoints([common.dyadic(rng, -3, 3, 3) for _ in range(dim)])
    else:
        s = (DifferentialEvolutionSolver if kind == "DE" else DifferentialEvolutionSolver2)(dim, rng.randint(4, 7))
        s.SetRandomInitialPoints([-3.0] * dim, [3.0] * dim)
    s.SetEvaluationMonitor(Monitor())
    s.SetTermination(VTR(-1.0, 0.0))          # never true
    s.SetEvaluationLimits(10 ** 6, 10 ** 8)
    fd, fn = tempfile.mkstemp(suffix=".pkl", prefix="c04_restart_"); os.close(fd)
    k = rng.randint(2, 7); more = rng.randint(1, 4)
    case = {"restart": kind, "dim": dim, "cost": dsl.expr_sexp(cost_spec[1]), "steps_before": k, "steps_after": more}
    try:
        s.SetSaveFrequency(1, fn)
        for _ in range(k):
            s.Step(_ens_cost)
        calls_at_dump = len(_ENS_CALLS)
        r = LoadSolver(fn)
        def look(t, iters, calls, where):
            if t.generations != iters - 1:
                out.append(("restart/%s/generations-counter" % kind, "%s: %d iterations were completed, the restored solver reports generations = %d" % (where, iters, t.generations), case))
            elif len(t._stepmon) != iters:
                out.append(("restart/%s/stepmon-length" % kind, "%s: %d iterations were completed, the restored solver's step monitor holds %d records" % (where, iters, len(t._stepmon)), case))
            elif t.evaluations != calls:
                out.append(("restart/%s/evaluations-counter" % kind, "%s: %d cost calls were made for this run, the restored solver reports evaluations = %d" % (where, calls, t.evaluations), case))
            elif len(t._stepmon) and not (float(np.ravel(t._stepmon.y[-1])[0]) == float(np.ravel(t.bestEnergy)[0])):
                out.append(("restart/%s/stepmon-last-not-result" % kind, "%s: last step record %r is not the reported best energy %r" % (where, t._stepmon.y[-1], t.bestEnergy), case))
        look(r, k, calls_at_dump, "right after LoadSolver of the periodic dump")
        if not out:
            before = len(_ENS_CALLS)
            for _ in range(more):
                r.Step(_ens_cost)
            look(r, k + more, calls_at_dump + (len(_ENS_CALLS) - before), "after %d more Steps of the restored solver" % more)
    except Exception as exc:
        return [], "restart:%s:raised-%s" % (kind, type(exc).__name__)
    finally:
        try:
            os.remove(fn)
        except OSError:
            pass
    return out, "restart:%s" % kind


def initial_points_case(rng):
    """C02: initial points requested within given limits are generated within them"""
    common.import_mystic()
    from mystic.solvers import DifferentialEvolutionSolver, NelderMeadSimplexSolver
    out = []
    dim = rng.randint(1, 5)
    lo = [common.gfloat(rng, 5.0) for _ in range(dim)]
    hi = [a + abs(common.gfloat(rng, 3.0)) for a in lo]
    if rng.random() < 0.3:
        j = rng.randrange(dim); hi[j] = lo[j]
    s = DifferentialEvolutionSolver(dim, rng.randint(4, 10))
    _random.seed(rng.randrange(2**31))
    s.SetRandomInitialPoints(list(lo), list(hi))
    for m in s.population:
        if not all(lo[i] <= m[i] <= hi[i] for i in range(dim)):
            out.append(("initial-points/random-outside-limits", "SetRandomInitialPoints(%r,%r) produced %r" % (lo, hi, list(m)), {"lo": lo, "hi": hi}))
            break
    # one-sided requests: the given side is honoured, the other side is the solver default (+-1000)
    side = rng.choice(["min", "max"])
    lim = [common.dyadic(rng, -40, 40, 2) for _ in range(dim)]
    _random.seed(rng.randrange(2**31))
    if side == "min":
        s.SetRandomInitialPoints(min=list(lim))
    else:
        s.SetRandomInitialPoints(max=list(lim))
    for m in s.population:
        bad = [i for i in range(dim) if (m[i] < lim[i] if side == "min" else m[i] > lim[i]) or not (-1000.0 <= m[i] <= 1000.0)]
        if bad:
            out.append(("initial-points/one-sided-limit-ignored", "SetRandomInitialPoints(%s=%r) produced %r" % (side, lim, list(m)), {"side": side, "limit": lim}))
            break
    x0 = [common.gfloat(rng, 5.0) for _ in range(dim)]
    r = rng.choice([0.05, 0.5, 0.0, 1.0])
    s.SetInitialPoints(list(x0), radius=r)
    for k, m in enumerate(s.population):
        for i in range(dim):
            a, b = sorted((x0[i] * (1 - r), x0[i] * (1 + r)))
            if x0[i] * (1 - r) == 0:
                a = min(a, -r)
            if x0[i] * (1 + r) == 0:
                b = max(b, r)
            if not (a - 1e-12 <= m[i] <= b + 1e-12) and k > 0:
                out.append(("initial-points/outside-radius", "SetInitialPoints(%r, radius=%r) produced %r" % (x0, r, list(m)), {"x0": x0, "radius": r}))
                break
    if [float(v) for v in s.population[0]] != x0:
        out.append(("initial-points/guess-not-kept", "population[0] %r != x0 %r" % (list(s.population[0]), x0), {"x0": x0}))
    return out


# ------------------------------------------------------------------ the real SIGINT handler (C05)
def signal_case(rng):
    """Solve() with `enable_signal_handler()`: SIGINT is delivered to this process from inside a chosen cost call, the
    handler's prompt is answered from a script.  Checked: the handler's dialogue against the Lean model (inputs read,
    callback invocations, exit flag), and the property: after `exit` no further iteration is begun and the stop message
    names the interrupt (unless a limit is reached as well); after `cont` the run is the uninterrupted one."""
    import os, signal as _signal, builtins, io, contextlib
    common.import_mystic()
    from mystic.solvers import NelderMeadSimplexSolver, PowellDirectionalSolver, DifferentialEvolutionSolver
    from mystic.termination import VTR
    out = []
    which = rng.choice(["NM", "Powell", "DE"])
    dim = rng.randint(1, 3)
    cost_spec = solvergen.gen_cost(rng, dim, allow_vector=False)
    at_call = rng.randint(1, 25)
    script = [rng.choice(["sol", "call", "bogus", "SOL", "Call"]) for _ in range(rng.randint(0, 3))] + [rng.choice(["exit", "cont", "EXIT", "Cont"])]
    if rng.random() < 0.15:
        script = script + ["exit"]          # never read: the dialogue ended before
    has_cb = rng.random() < 0.6
    seed = rng.randrange(2 ** 31)
    x0 = [common.dyadic(rng, -3, 3, 4) for _ in range(dim)]
    maxiter = rng.choice([None, 6, 12, 40])

    def run(with_signal):
        _random.seed(seed); np.random.seed(seed)
        calls = []; state = {"fired": False, "gens_at": None, "calls_at": None, "reads": 0, "cb": 0}
        if which == "NM":
            s = NelderMeadSimplexSolver(dim); s.SetInitialPoints(list(x0))
        elif which == "Powell":
            s = PowellDirectionalSolver(dim); s.SetInitialPoints(list(x0))
        else:
            s = DifferentialEvolutionSolver(dim, 5); s.SetRandomInitialPoints([v - 2.0 for v in x0], [v + 2.0 for v in x0])
        s.SetEvaluationLimits(maxiter, 4000)
        s.SetTermination(VTR(1e-300, -1e300))
        if with_signal:
            s.enable_signal_handler()

        def cost(x):
            xv = [float(v) for v in np.ravel(x)]
            y = dsl.ev(cost_spec[1], xv)
            calls.append(xv)
            if with_signal and not state["fired"] and len(calls) == at_call:
                state["fired"] = True; state["gens_at"] = int(s.generations); state["calls_at"] = len(calls)
                os.kill(os.getpid(), _signal.SIGINT)       # delivered to the main thread before the next bytecode
            return y
        answers = iter(script)

        def fake_input(prompt=""):
            state["reads"] += 1
            return next(answers)

        def sigcb(x):
            state["cb"] += 1
        old_input = builtins.input; old_handler = _signal.getsignal(_signal.SIGINT)
        builtins.input = fake_input
        try:
            with contextlib.redirect_stdout(io.StringIO()):
                if has_cb:
                    s.Solve(cost, sigint_callback=sigcb)
                else:
                    s.Solve(cost)
        finally:
            builtins.input = old_input
            _signal.signal(_signal.SIGINT, old_handler)
        msg = s.Terminated(info=True) or None
        return s, calls, state, msg
    try:
        s, calls, st, msg = run(True)
    except (StopIteration, RuntimeError) as exc:
        if isinstance(exc, StopIteration) or "StopIteration" in repr(exc):
            # the dialogue asked for more input after a `cont` / `exit` answer had been given
            return [("signal/%s/dialogue-did-not-end" % which, "the handler kept prompting after the script %r (which ends the dialogue)" % (script,), {"script": script})], "sig:script-exhausted", None
        return [("signal/%s/raises" % which, "Solve with the signal handler raised %r" % (exc,), {"script": script})], "sig:raised", None
    except Exception as exc:
        return [("signal/%s/raises" % which, "Solve with the signal handler raised %r" % (exc,), {"script": script})], "sig:raised", None
    if any(v != v for x in calls for v in x):
        return [], "sig:nan", None
    case = {"solver": which, "x0": x0, "cost": dsl.expr_sexp(cost_spec[1]), "at_call": at_call, "script": script, "callback": has_cb,
            "maxiter": maxiter, "fired": st["fired"], "reads": st["reads"], "cb_calls": st["cb"], "generations": int(s.generations),
            "gens_at_signal": st["gens_at"], "earlyexit": bool(s._EARLYEXIT), "message": msg}
    if not st["fired"]:
        return [], "sig:not-reached", None
    norm = [t.lower() for t in script]
    ending = next((t for t in norm if t in ("exit", "cont")), None)
    tag = "sig:%s:%s" % (which, ending)
    if ending == "exit":
        if not s._EARLYEXIT:
            out.append(("signal/%s/exit-not-requested" % which, "the handler was answered `exit` but _EARLYEXIT is %r" % (s._EARLYEXIT,), case))
        # the iteration in progress completes; no further one is begun
        if int(s.generations) > st["gens_at"] + 1:
            out.append(("signal/%s/iteration-begun-after-exit" % which, "exit requested during generation %d, the solver went on to generation %d" % (st["gens_at"], s.generations), case))
        lim = (s._maxfun is not None and s.evaluations >= s._maxfun) or (s._maxiter is not None and s.generations >= s._maxiter)
        if msg is None or not (msg.startswith("SolverInterrupt") or (lim and msg.startswith("EvaluationLimits"))):
            out.append(("signal/%s/stop-message" % which, "after `exit` the stop message is %r" % (msg,), case))
    elif ending == "cont":
        s2, calls2, st2, msg2 = run(False)
        if s._EARLYEXIT:
            out.append(("signal/%s/cont-requests-exit" % which, "`cont` set _EARLYEXIT", case))
        if not (common.same_vec([float(v) for v in np.ravel(s.bestSolution)], [float(v) for v in np.ravel(s2.bestSolution)])
                and len(calls) == len(calls2) and int(s.generations) == int(s2.generations) and msg == msg2):
            out.append(("signal/%s/cont-changes-the-run" % which, "after `cont` the run differs from the uninterrupted one: generations %d vs %d, cost calls %d vs %d, message %r vs %r"
                        % (s.generations, s2.generations, len(calls), len(calls2), msg, msg2), case))
    line = "C05 sig (cb %s) (script (%s))" % ("true" if has_cb else "false", " ".join(t if t in ("sol", "cont", "call", "exit") else "x" for t in norm))

    def cmp(reply, case=case, st=st, s_exit=bool(s._EARLYEXIT)):
        r = common.parse_reply(reply)
        if r[0] != "ok":
            return [("signal/model-%s" % r[0], "model replied %r" % (reply[:200],))]
        d = r[1]; diffs = []
        if int(d["consumed"]) != st["reads"]:
            diffs.append("inputs read model=%s impl=%d" % (d["consumed"], st["reads"]))
        if int(d["called"]) != st["cb"]:
            diffs.append("sigint_callback calls model=%s impl=%d" % (d["called"], st["cb"]))
        if (d["exit"] == "true") != s_exit:
            diffs.append("exit flag model=%s impl=%s" % (d["exit"], s_exit))
        return [("signal/handler-diverges", "; ".join(diffs))] if diffs else []
    return out, tag, (line, cmp, case)


# ------------------------------------------------------------------ runs in which the solver itself installs collapse constraints
def collapse_case(pid, rng):
    """Solve() with `Or(stop, CollapseAt(0.0))`: when a parameter settles at 0 the solver turns the collapse into a
    constraint and goes on.  C03: the user's constraints (in force from the first iteration; here a tie that READS the
    collapsed parameter) hold at every evaluation, before and after the collapse.  C04: the callback is still called once
    per iteration after the collapse."""
    common.import_mystic()
    from mystic.solvers import DifferentialEvolutionSolver, DifferentialEvolutionSolver2, NelderMeadSimplexSolver, PowellDirectionalSolver
    from mystic.termination import Or, ChangeOverGeneration as COG, CollapseAt
    from mystic.termination import state as tstate
    out = []
    which = rng.choice(["DE", "DE2", "NM", "Powell"])
    inplace = rng.random() < 0.5
    off = float(rng.choice([1.0, 2.0, -1.5]))
    a = common.dyadic(rng, -2, 2, 2); b = common.dyadic(rng, -2, 2, 2)
    calls = []; cbs = []

    def cost(x):
        xv = [float(v) for v in np.ravel(x)]
        calls.append(xv)
        return xv[0] ** 2 + (xv[1] - a) ** 2 + 0.5 * (xv[2] - b) ** 2

    def tie(x):                       # x[2] = x[0] + off : idempotent, reads the parameter that will collapse
        if inplace:
            x[2] = x[0] + off
            return x
        y = list(x); y[2] = y[0] + off
        return y
    seed = rng.randrange(2 ** 31)
    _random.seed(seed); np.random.seed(seed)
    if which in ("DE", "DE2"):
        s = (DifferentialEvolutionSolver if which == "DE" else DifferentialEvolutionSolver2)(3, 12)
        s.SetRandomInitialPoints([-2.0, -2.0, -2.0], [2.0, 2.0, 2.0])
    else:
        s = (NelderMeadSimplexSolver if which == "NM" else PowellDirectionalSolver)(3)
        s.SetInitialPoints([common.dyadic(rng, -2, 2, 2) + 0.5, 1.0, -1.0])
    s.SetConstraints(tie)
    s.SetEvaluationLimits(600 if which in ("DE", "DE2") else 300, 60000)
    term = Or(COG(1e-12, 60), CollapseAt(0.0, tolerance=1e-3, generations=8))
    s.SetTermination(term)
    try:
        s.Solve(cost, callback=lambda x: cbs.append([float(v) for v in np.ravel(x)]))
    except Exception as exc:
        return [("collapse-run/%s/raises" % which, "Solve raised %r" % (exc,), {"solver": which})], "collapse:%s:raised" % which
    try:
        st = tstate(s._termination)
        collapsed = any(isinstance(v, dict) and v.get("mask") for v in st.values())
    except Exception:
        collapsed = False
    case = {"solver": which, "inplace": inplace, "offset": off, "a": a, "b": b, "seed": seed, "collapsed": bool(collapsed),
            "generations": int(s.generations), "n_cost_calls": len(calls), "n_callbacks": len(cbs)}
    tag = "collapse:%s:%s" % (which, "collapsed" if collapsed else "no-collapse")
    if pid == "C03":
        for j, xv in enumerate(calls):
            if xv[2] != xv[0] + off:
                out.append(("collapse-run/%s/evaluated-unconstrained-point" % which,
                            "cost call %d at %r violates the user's constraint x2 = x0 %+g (collapse applied: %s)" % (j, xv, off, collapsed), case))
                break
    if pid == "C04" and which != "Powell":
        nrec = len(s._stepmon)
        if len(cbs) != nrec:
            out.append(("collapse-run/%s/callback-count" % which, "%d step records (iterations incl. the initial one) but the callback was invoked %d times (collapse applied: %s)" % (nrec, len(cbs), collapsed), case))
    return out, tag


def side_cases(pid, seed, shard, k, hist, findings, wlines):
    """the streams that are not solver traces (one-liners, ensembles, initial points, runs with a collapse, the signal
    handler), for ONE case index: every random choice comes from case_rng(pid/wrap, seed, shard, k), so a stored finding
    (`case['side']`) is replayed by calling this function again"""
    rng = case_rng(pid + "/wrap", seed, shard, k)
    n0 = len(findings); w0 = len(wlines)
    if pid in ("C01", "C04", "C05"):
        res, which, req = wrapper_case(pid, rng)
        hist["wrapper:" + which] = hist.get("wrapper:" + which, 0) + 1
        for key, what, case in res:
            findings.append(Finding("monitor", key, what, case))
        if req is not None:
            wlines.append(req)
    if pid in ("C03", "C04") and k % 5 == 0:
        res, tag = collapse_case(pid, rng)
        hist[tag] = hist.get(tag, 0) + 1
        for key, what, case in res:
            findings.append(Finding("monitor", key, what, case))
    if pid == "C05" and k % 2 == 1:
        res, tag, req = signal_case(rng)
        hist[tag] = hist.get(tag, 0) + 1
        for key, what, case in res:
            findings.append(Finding("monitor", key, what, case))
        if req is not None:
            wlines.append(req)
    if pid == "C04" and k % 3 == 0:
        res, tag = restart_case(rng)
        hist[tag] = hist.get(tag, 0) + 1
        for key, what, case in res:
            findings.append(Finding("monitor", key, what, case))
    if pid == "C05" and k % 4 == 0:
        res, tag = ensemble_warn_case(rng)
        hist[tag] = hist.get(tag, 0) + 1
        for key, what, case in res:
            findings.append(Finding("monitor", key, what, case))
    if (pid == "C01" and k % 2 == 0) or (pid in ("C02", "C03") and k % 3 == 0):
        res, tag = ensemble_case(rng, pid)
        hist["ensemble:" + tag] = hist.get("ensemble:" + tag, 0) + 1
        for key, what, case in res:
            findings.append(Finding("monitor", key, what, case))
    if pid == "C02":
        hist["initial-points"] = hist.get("initial-points", 0) + 1
        for key, what, case in initial_points_case(rng):
            findings.append(Finding("monitor", key, what, case))
    for f in findings[n0:]:
        if isinstance(f.get("case"), dict):
            f["case"]["side"] = {"pid": pid, "seed": seed, "shard": shard, "k": k}
    for w in wlines[w0:]:
        if isinstance(w[2], dict):
            w[2]["side"] = {"pid": pid, "seed": seed, "shard": shard, "k": k}


# ------------------------------------------------------------------ shard
def run_shard(pid, seed, shard, ncases, tier, extra):
    common.import_mystic()
    findings = []; hist = {}; samples = []
    lines = []; cmps = []; metas = []
    nontrivial = 0; evals = 0
    for k in range(ncases):
        rng = case_rng(pid, seed, shard, k)
        spec = gen_for(pid, rng, tier)
        try:
            rec, s, prob = trace.run_trace(spec, rng.randrange(2**31))
        except Exception as exc:
            key = "%s/raises/%s" % (spec["solver"], type(exc).__name__)
            hist["raised:" + type(exc).__name__] = hist.get("raised:" + type(exc).__name__, 0) + 1
            # an exception out of Step/Solve with a valid configuration: only reported for the stop property
            if pid == "C05" and not isinstance(exc, (ValueError, TypeError, NotImplementedError)):
                findings.append(Finding("monitor", key, "solver raised %r" % (exc,), {"spec": spec_view(spec)}))
            continue
        evals += 1
        if solvermon.has_nan(rec):
            hist["nan-trace-skipped"] = hist.get("nan-trace-skipped", 0) + 1
            continue
        tag = "%s:%s%s%s%s" % (spec["solver"], spec.get("flavour"), ":box" if spec.get("ranges") else "", ":cons" if spec.get("constraints") is not None else "", ":pen" if spec.get("penalty") is not None else "")
        hist[tag] = hist.get(tag, 0) + 1
        if spec.get("ranges"):
            hist["box:%s:tight=%r:clip=%r" % (spec.get("box_kind"), spec["ranges"][2], spec["ranges"][3])] = hist.get("box:%s:tight=%r:clip=%r" % (spec.get("box_kind"), spec["ranges"][2], spec["ranges"][3]), 0) + 1
        stops = [sn["ret"].split(" ")[0] for sn in rec.snaps if sn["ret"]]
        for st in set(stops):
            hist["stop:" + st] = hist.get("stop:" + st, 0) + 1
        performed = len(solvermodel.performed_snaps(rec))
        if performed >= 3 or (spec.get("flavour") == "solve" and len(rec.cost_calls) > 3):
            nontrivial += 1
        case = {"spec": spec_view(spec), "n_cost_calls": len(rec.cost_calls),
                "final": {k2: rec.snaps[-1][k2] for k2 in ("bestSolution", "bestEnergy", "evaluations", "generations", "ret")} if rec.snaps else None}
        if pid == "C04":
            res = solvermon.mon_c04(spec, rec, s)
        else:
            res = MON[pid](spec, rec)
        for key, what, ex in res:
            c2 = dict(case); c2["where"] = ex
            findings.append(Finding("monitor", key, what, c2))
        for which in CORR[pid]:
            if spec.get("extra_run") or spec.get("reducer") == "sumsq":
                break              # ExtraArgs runs / array-like reducers: monitor only (the algorithm models take the cost as a function of x alone)
            line, cmp = REQ[which](spec, rec)
            if line is not None:
                lines.append(line); cmps.append(cmp); metas.append((which, case))
                if which == "nmc":
                    n, why, nredec, ncfg, nidle, nreset = cmp.dec_info
                    hist["nmc-redecorations-by-idle-steps"] = hist.get("nmc-redecorations-by-idle-steps", 0) + nidle
                    hist["nmc-iterations"] = hist.get("nmc-iterations", 0) + n
                    hist["nmc-redecorations-after-generation-0"] = hist.get("nmc-redecorations-after-generation-0", 0) + nredec
                    hist["nmc-simplex-resets"] = hist.get("nmc-simplex-resets", 0) + nreset
                    hist["nmc-stops-at:" + why] = hist.get("nmc-stops-at:" + why, 0) + 1
                    if ncfg > 1:
                        hist["nmc-runs-with-changed-settings"] = hist.get("nmc-runs-with-changed-settings", 0) + 1
                if which == "dec":
                    n, why, nredec, ncfg, nidle = cmp.dec_info
                    hist["dec-redecorations-by-idle-steps"] = hist.get("dec-redecorations-by-idle-steps", 0) + nidle
                    hist["dec-iterations"] = hist.get("dec-iterations", 0) + n
                    hist["dec-redecorations-after-generation-0"] = hist.get("dec-redecorations-after-generation-0", 0) + nredec
                    if ncfg > 1:
                        hist["dec-runs-with-changed-settings"] = hist.get("dec-runs-with-changed-settings", 0) + 1
                    hist["dec-stops-at:" + why] = hist.get("dec-stops-at:" + why, 0) + 1
            elif cmp is not None:
                # the recorded run does not meet the model's oracle contract: nothing to replay, report directly
                for key, what in cmp(None):
                    findings.append(Finding("correspondence", key, what, dict(case)))
        if len(samples) < 2 and performed >= 3:
            samples.append(case)
    replies = leandrv.run_driver(lines) if lines else []
    for line, cmp, rep, (which, case) in zip(lines, cmps, replies, metas):
        hist["model:" + which] = hist.get("model:" + which, 0) + 1
        for key, what in cmp(rep):
            c2 = dict(case); c2["request"] = line[:4000]; c2["model_reply"] = rep[:4000]
            findings.append(Finding("correspondence", key, what, c2))
        if which == "solve":
            r = common.parse_reply(rep)
            if r[0] == "ok":
                tag = "ties-skipped" if r[1].get("ties") == "true" else r[1]["msg"]
                hist["solve-stop:%s" % tag] = hist.get("solve-stop:%s" % tag, 0) + 1
                hist["solve-iterations"] = hist.get("solve-iterations", 0) + int(r[1]["iters"])
        if which in ("pw", "pwb"):
            its, ext = solvermodel.pw_stats(rep, case["spec"]["dim"])
            hist["pw-iterations"] = hist.get("pw-iterations", 0) + its
            hist["pw-extrapolation-searches"] = hist.get("pw-extrapolation-searches", 0) + ext
        if which == "nm":
            for b in solvermodel.nm_branches(rep):
                hist["nm-branch:%s" % b] = hist.get("nm-branch:%s" % b, 0) + 1
    # wrapper-level and initial-point cases
    wlines = []
    for k in range(max(2, ncases // 4)):
        side_cases(pid, seed, shard, k, hist, findings, wlines)
    if wlines:
        wreps = leandrv.run_driver([w[0] for w in wlines])
        for (line, cmp, case), rep in zip(wlines, wreps):
            hist["model:sig" if line.startswith("C05 sig") else "model:warn"] = hist.get("model:sig" if line.startswith("C05 sig") else "model:warn", 0) + 1
            for key, what in cmp(rep):
                c2 = dict(case); c2["request"] = line; c2["model_reply"] = rep[:400]
                findings.append(Finding("correspondence", key, what, c2))
    return {"evaluations": evals, "nontrivial": nontrivial, "model_lines": len(lines) + len(wlines), "findings": findings,
            "samples": samples, "hist": hist}


def main(pid, module, theorems, tier, seed, rule_extra, trusted_extra):
    t0 = time.time()
    proof = framework.proof_stage(pid, module, theorems, tier)
    nshards, per = (16, 120) if tier == "quick" else (64, 400)
    modname = pid.lower()
    run = framework.run_shards(modname, "run_shard", pid, seed, nshards, per, tier)

    def search_more():
        r = framework.run_shards(modname, "run_shard", pid, seed + 104729, 32, 200, tier)
        return r["findings"]
    rule = ("cases: random configurations of DifferentialEvolutionSolver(2) / NelderMeadSimplexSolver / PowellDirectionalSolver "
            "(dim 1-%d; DSL costs smooth/non-smooth/ill-conditioned, scalar or vector+reducer; penalties; idempotent box-compatible "
            "constraints pure/in-place; boxes finite/one-sided/degenerate/infinite/integer x tight x clip; terminations; limits incl. 0,1,None) "
            "driven through op sequences (Step/Solve/Set*/Finalize/exit requests); every cost call, monitor, counter and return value "
            "recorded. non-trivial = at least 3 iterations really ran (or a Solve with > 3 cost calls). " % (4 if tier == "quick" else 8)) + rule_extra
    tb = ["Lean 4.33 kernel; axioms per theorem under coverage.theorems (subset of propext, Classical.choice, Quot.sound)",
          "hand-written model S (Model/Solver.lean, Model/NelderMead.lean, Model/PowellS.lean) tied to /repo by the bit-exact replays counted under histogram model:de / model:dec / model:nm / model:pw / model:ctl",
          "reconfigured differential-evolution and Nelder-Mead runs (Set* between Steps, settings handed to Step, Steps after a stop, Steps that only re-decorate because the solver is stopped) are replayed through Model/Reconfig.lean with the settings in force at every performed iteration and every re-decoration (model:dec / model:nmc; histogram *-runs-with-changed-settings, *-redecorations-after-generation-0, *-redecorations-by-idle-steps, nmc-simplex-resets: Nelder-Mead's simplex rebuild with kept energies, known finding F20, is part of the model); the replay stops before the first event the model does not cover (histogram *-stops-at:*: a replaced monitor, a Solve op, a re-decoration that re-draws an out-of-box member at random)",
          "user functions are DSL terms evaluated identically by harness/dsl.py and Model/Dsl.lean; DE trial vectors are taken from the real strategy (recorded); Powell is replayed twice: with the line searches of the real Brent as recorded oracle (model:pw) and from the initial guess alone with the Lean model of bracket/brent (Model/Brent.lean, model:pwb)",
          ] + trusted_extra
    assumptions = ["cost/penalty never return NaN (NaN traces are skipped and counted)", "constraints deterministic, idempotent and compatible with the box (generated so)",
                   "IEEE binary64 + - * / and comparisons agree between Lean Float and numpy/CPython"]
    return framework.finish(pid, tier, seed, t0, proof, run, rule, tb, assumptions, search_more=search_more)


def replay(pid, path):
    """re-execute one stored case on the implementation and on the model, reprint the verdict"""
    import json
    common.import_mystic()
    d = json.load(open(path))
    case = common.unjson(d.get("case") or {})
    spec = case.get("spec")
    side = case.get("side")
    if spec is None and side:
        # a case of the side streams: regenerate it from its PRNG coordinates and run it again
        findings = []; hist = {}; wlines = []
        side_cases(pid, int(side["seed"]), int(side["shard"]), int(side["k"]), hist, findings, wlines)
        known = {e["class_key"] for e in framework.load_known(pid)}
        bad = 0
        for f in findings:
            if f["class_key"] in known:
                print("KNOWN-FINDING: property=%s %s [%s]" % (pid, f["what"], f["class_key"])); continue
            print("monitor: [%s] %s" % (f["class_key"], f["what"])); bad += 1
        if wlines:
            leandrv.ensure_driver()
            reps = leandrv.run_driver([w[0] for w in wlines])
            for (line, cmp, c2), rep in zip(wlines, reps):
                for key, what in cmp(rep):
                    print("correspondence: [%s] %s" % (key, what)); bad += 1
        if bad:
            print("VIOLATION property=%s replay=%s" % (pid, path))
            return 1
        print("replay: property held on this case")
        return 0
    if spec is None and d.get("correspondence_not_checking"):
        spec = common.unjson(d["correspondence_not_checking"][0]["case"]).get("spec")
    if spec is None:
        print("replay file carries no solver spec (wrapper / proof-stage finding): %s" % d.get("what", d.get("kind")))
        return 2
    bad = 0
    known = {e["class_key"] for e in framework.load_known(pid)}
    for seed in (0,):
        rec, s, prob = trace.run_trace(spec, seed)
        res = solvermon.mon_c04(spec, rec, s) if pid == "C04" else MON[pid](spec, rec)
        for key, what, ex in res:
            if key in known:
                print("KNOWN-FINDING: property=%s %s [%s]" % (pid, what, key)); continue
            print("monitor: [%s] %s" % (key, what)); bad += 1
        for which in CORR[pid]:
            line, cmp = REQ[which](spec, rec)
            if line is None:
                for key, what in (cmp(None) if cmp is not None else []):
                    print("correspondence(%s): [%s] %s" % (which, key, what)); bad += 1
                continue
            leandrv.ensure_driver()
            rep = leandrv.run_driver([line])[0]
            for key, what in cmp(rep):
                print("correspondence(%s): [%s] %s" % (which, key, what)); bad += 1
    if bad:
        print("VIOLATION property=%s replay=%s" % (pid, path))
        return 1
    print("replay: property held on this case")
    return 0
