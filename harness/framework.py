"""Check framework: proof stage (lake build + axiom audit), correspondence/monitor stage
(sharded over worker processes), known findings, replays, evidence, verdict lines.
See DESIGN.md 1.2-1.3."""
import os, sys, re, json, time, subprocess, traceback, multiprocessing, glob
import common
from common import VERIF, LEAN, seed_env, jsonable
import leandrv

ALLOWED_AXIOMS = {"propext", "Classical.choice", "Quot.sound"}
FORBIDDEN = re.compile(r"\b(sorry|admit|native_decide|bv_decide|implemented_by)\b|^\s*axiom\s|\bunsafe\s|maxHeartbeats\s+0\b")


class Finding(dict):
    """kind: 'monitor' (failing input on the implementation) | 'correspondence' (model and code differ)
       | 'proof' (obligation not discharged); class_key: narrow mechanism key; what: one line; case: replay data"""

    def __init__(self, kind, class_key, what, case):
        super().__init__(kind=kind, class_key=class_key, what=what, case=jsonable(case))


# ------------------------------------------------------------------ proof stage
def strip_comments(src):
    # remove /- ... -/ (nested) and -- line comments
    out = []; i = 0; depth = 0; n = len(src)
    while i < n:
        if src.startswith("/-", i):
            depth += 1; i += 2; continue
        if depth and src.startswith("-/", i):
            depth -= 1; i += 2; continue
        if depth:
            if src[i] == "\n":
                out.append("\n")
            i += 1; continue
        if src.startswith("--", i):
            while i < n and src[i] != "\n":
                i += 1
            continue
        out.append(src[i]); i += 1
    return "".join(out)


def grep_forbidden():
    hits = []
    for path in glob.glob(os.path.join(LEAN, "**", "*.lean"), recursive=True):
        if os.sep + ".lake" + os.sep in path:
            continue
        src = strip_comments(open(path).read())
        for ln, line in enumerate(src.splitlines(), 1):
            if FORBIDDEN.search(line):
                hits.append("%s:%d: %s" % (os.path.relpath(path, LEAN), ln, line.strip()))
    return hits


def proof_stage(pid, module, theorems, tier):
    """build the property's module, audit axioms of every listed theorem.
    returns dict(obligations, discharged, failed[list], cmds[list], axioms{thm: [..]}, log)"""
    cmds = []
    res = {"obligations": len(theorems), "discharged": 0, "failed": [], "axioms": {}, "log": ""}
    cmd = ["lake", "build", module, "mvdrv"]
    cmds.append("cd lean && " + " ".join(cmd))
    ok, out, dt = leandrv.lake_build([module, "mvdrv"])
    res["build_s"] = round(dt, 2)
    if not ok:
        res["failed"] = list(theorems)
        res["log"] = out[-6000:]
        res["cmds"] = cmds
        return res
    leandrv.private_driver()
    hits = grep_forbidden()
    res["forbidden_hits"] = hits
    # axiom audit
    audit_dir = os.path.join(LEAN, ".lake", "audit")
    os.makedirs(audit_dir, exist_ok=True)
    apath = os.path.join(audit_dir, "Audit_%s.lean" % pid)
    with open(apath, "w") as f:
        f.write("import %s\n" % module)
        for t in theorems:
            f.write("#print axioms %s\n" % t)
    cmd = ["lake", "env", "lean", apath]
    cmds.append("cd lean && lake env lean .lake/audit/Audit_%s.lean   # '#print axioms' for every listed theorem" % pid)
    p = subprocess.run(cmd, cwd=LEAN, stdout=subprocess.PIPE, stderr=subprocess.STDOUT, text=True, timeout=1800)
    text = p.stdout
    # collect per theorem
    flat = re.sub(r"\s+", " ", text)
    for t in theorems:
        m = re.search(r"'%s' depends on axioms: \[([^\]]*)\]" % re.escape(t), flat)
        if m:
            ax = [a.strip() for a in m.group(1).split(",") if a.strip()]
        elif re.search(r"'%s' does not depend on any axioms" % re.escape(t), flat):
            ax = []
        else:
            res["failed"].append(t); continue
        res["axioms"][t] = ax
        if set(ax) <= ALLOWED_AXIOMS and not hits:
            res["discharged"] += 1
        else:
            res["failed"].append(t)
    if p.returncode != 0 and not res["failed"]:
        res["failed"].append("audit-exit-%d" % p.returncode)
    res["log"] = text[-3000:] if res["failed"] else ""
    if tier == "thorough" and not res["failed"]:
        cmd = ["lake", "env", "leanchecker", module]
        cmds.append("cd lean && " + " ".join(cmd))
        try:
            p = subprocess.run(cmd, cwd=LEAN, stdout=subprocess.PIPE, stderr=subprocess.STDOUT, text=True, timeout=3000)
            res["leanchecker_exit"] = p.returncode
            if p.returncode != 0:
                res["failed"].append("leanchecker")
                res["log"] = p.stdout[-3000:]
        except subprocess.TimeoutExpired:
            res["leanchecker_exit"] = "timeout"
    res["cmds"] = cmds
    return res


# ------------------------------------------------------------------ known findings
def load_known(pid):
    out = []
    paths = [os.path.join(VERIF, "known_findings.json")] + sorted(glob.glob(os.path.join(VERIF, "known_findings.d", "*.json")))
    for path in paths:
        if not os.path.exists(path):
            continue
        data = json.load(open(path))
        out += [e for e in data.get("findings", []) if e.get("property") == pid and e.get("status") == "open"]
    return out


# ------------------------------------------------------------------ sharded execution
def _worker(args):
    fn_mod, fn_name, pid, seed, shard, ncases, tier, extra = args[:8]
    if len(args) > 8 and args[8]:
        # where is a shard that does not come back? (read by run_shards when it gives up waiting)
        try:
            import faulthandler
            _hang = open(hang_file(pid, shard), "w")
            faulthandler.dump_traceback_later(max(5, args[8] - 20), file=_hang)
        except Exception:
            pass
    try:
        mod = __import__(fn_mod)
        fn = getattr(mod, fn_name)
        return fn(pid, seed, shard, ncases, tier, extra)
    except Exception:
        return {"crash": traceback.format_exc(), "shard": shard}
    finally:
        if len(args) > 8 and args[8]:
            try:
                import faulthandler
                faulthandler.cancel_dump_traceback_later()
            except Exception:
                pass


def hang_file(pid, shard):
    d = os.path.join(VERIF, "replays", "_hang")
    os.makedirs(d, exist_ok=True)
    return os.path.join(d, "%s_%d_%d.txt" % (pid, shard, os.getppid() if multiprocessing.current_process().name != "MainProcess" else os.getpid()))


def shard_limit(tier, scale):
    """seconds run_shards waits for its shards: far above anything seen on the unchanged tree (quick <= ~90 s, thorough
    <= ~70 min), so that it only fires when the code under test (or the model driver) no longer comes back"""
    try:
        return float(os.environ["VERIF_SHARD_LIMIT"])
    except (KeyError, ValueError):
        return (900.0 if tier == "quick" else 4 * 3600.0) * max(1.0, scale)


DRIFT = {}
THOROUGH_BOOST = {"C01": 2, "C03": 2, "C04": 4, "C05": 5, "C08": 2, "C09": 4, "C12": 2, "C13": 2, "C14": 4, "C15": 3,
                  "C16": 4, "C17": 12, "C18": 4, "C19": 3, "C20": 2}


def run_shards(fn_mod, fn_name, pid, seed, nshards, ncases_per_shard, tier, extra=None, procs=None):
    """run `fn(pid, seed, shard, ncases, tier, extra) -> dict(stats..., findings=[Finding], samples=[..], hist={..})`
    in parallel and merge."""
    procs = procs or min(nshards, int(os.environ.get("VERIF_PROCS", "16")))
    # the anchored source differs from the tree the models were written against: search harder (anchors.py); never a
    # verdict by itself
    import anchors, math
    sc, changed = anchors.scale(pid, common.REPO, tier)
    DRIFT[pid] = {"anchored_files_changed_since_lock": changed, "case_count_scale": sc}
    ncases_per_shard = int(math.ceil(ncases_per_shard * sc))
    if tier == "thorough":
        # the thorough tier is "as deep as we can build": per-property multipliers bring every check to roughly
        # 5-10 minutes of exploration on 16 cores (measured on the unchanged tree; VERIF_THOROUGH_BOOST=1 switches off)
        boost = THOROUGH_BOOST.get(pid, 1) if os.environ.get("VERIF_THOROUGH_BOOST", "") != "1" else 1
        ncases_per_shard *= boost
        DRIFT[pid]["thorough_boost"] = boost
    limit = shard_limit(tier, sc)
    jobs = [(fn_mod, fn_name, pid, seed, s, ncases_per_shard, tier, extra, limit) for s in range(nshards)]
    if procs <= 1:
        outs = [_worker(j[:8]) for j in jobs]
    else:
        ctx = multiprocessing.get_context("fork")
        pool = ctx.Pool(procs)
        deadline = time.time() + limit
        pend = [pool.apply_async(_worker, (j,)) for j in jobs]
        outs = []
        for j, r in zip(jobs, pend):
            try:
                outs.append(r.get(timeout=max(1.0, deadline - time.time())))
            except multiprocessing.TimeoutError:
                where = ""
                try:
                    where = open(hang_file(pid, j[4])).read()[:3000]
                except OSError:
                    pass
                outs.append({"findings": [Finding("correspondence", "harness/shard-did-not-come-back",
                    "shard %d of the %s tier (seed %d, %d cases per shard) did not finish within %.0f s: the code under "
                    "test or the model driver no longer returns on some generated case; python stack of the worker "
                    "shortly before the limit:\n%s" % (j[4], tier, seed, ncases_per_shard, limit, where),
                    {"seed": seed, "shard": j[4], "tier": tier, "ncases_per_shard": ncases_per_shard, "limit_s": limit})]})
        pool.terminate()
        pool.join()
        for j in jobs:
            try:
                os.remove(hang_file(pid, j[4]))
            except OSError:
                pass
    merged = {"evaluations": 0, "nontrivial": 0, "model_lines": 0, "findings": [], "samples": [], "hist": {}, "crashes": []}
    for o in outs:
        if "crash" in o:
            merged["crashes"].append(o); continue
        merged["evaluations"] += o.get("evaluations", 0)
        merged["nontrivial"] += o.get("nontrivial", 0)
        merged["model_lines"] += o.get("model_lines", 0)
        merged["findings"].extend(o.get("findings", []))
        if len(merged["samples"]) < 4:
            merged["samples"].extend(o.get("samples", [])[:2])
        for k, v in o.get("hist", {}).items():
            merged["hist"][k] = merged["hist"].get(k, 0) + v
    return merged


# ------------------------------------------------------------------ verdict + evidence
def finish(pid, tier, seed, t0, proof, run, rule, trusted_base, assumptions, extra_cov=None,
           search_more=None):
    """Print verdict lines, write replays and evidence, return the exit code."""
    known = load_known(pid)
    known_keys = {e["class_key"]: e for e in known}
    findings = list(run["findings"])
    if run["crashes"]:
        sys.stderr.write("harness crash:\n" + run["crashes"][0]["crash"] + "\n")
        changed = (DRIFT.get(pid) or {}).get("anchored_files_changed_since_lock") or []
        if not changed:
            # the recorded tree: a crash is a defect of the harness, not a verdict
            write_evidence(pid, tier, seed, t0, proof, run, rule, trusted_base, assumptions, extra_cov, 0, [])
            return 2
        # the anchored source differs from the recorded tree and the harness - which runs clean on the recorded tree - can
        # no longer even evaluate a case: the correspondence is broken (the enlarged search follows; without a failing
        # input the verdict is no-failing-input-found, with the traceback as replay data)
        for cr in run["crashes"][:3]:
            findings.append(Finding("correspondence", "harness/cannot-evaluate-the-changed-code",
                                    "shard %r: the harness raised while running / judging a case on the changed source (%s):\n%s"
                                    % (cr.get("shard"), ", ".join(changed), cr["crash"][-2500:]), {"seed": seed, "shard": cr.get("shard"), "tier": tier}))
    mon = [f for f in findings if f["kind"] == "monitor"]
    cor = [f for f in findings if f["kind"] == "correspondence"]
    proof_failed = list(proof.get("failed", []))
    confirmed = {}
    new_mon = []
    for f in mon:
        if f["class_key"] in known_keys:
            confirmed.setdefault(f["class_key"], f)
        else:
            new_mon.append(f)
    # a correspondence divergence inside a known-finding class that the model mirrors is never produced
    # (the model follows the code as it is); every divergence counts.
    lines = []
    rdir = os.path.join(VERIF, "replays", pid)
    if os.path.isdir(rdir):          # replays of earlier runs are stale: this run rewrites what it reports
        for old in glob.glob(os.path.join(rdir, "*_s*.json")):
            try:
                os.remove(old)
            except OSError:
                pass
    nviol = 0
    if new_mon or cor or proof_failed:
        os.makedirs(rdir, exist_ok=True)
    # group new monitor findings by class key: one VIOLATION line per class
    by_key = {}
    for f in new_mon:
        by_key.setdefault(f["class_key"], []).append(f)
    for key, fs in by_key.items():
        path = os.path.join("replays", pid, "%s_%s_s%d.json" % (pid, _slug(key), seed))
        json.dump({"property": pid, "kind": "failing-input", "class_key": key, "what": fs[0]["what"],
                   "case": fs[0]["case"], "n_cases_in_class": len(fs)}, open(os.path.join(VERIF, path), "w"), indent=1)
        lines.append("VIOLATION property=%s replay=%s" % (pid, path))
        nviol += 1
    if (cor or proof_failed) and not new_mon:
        # broken tie or proof, no failing input yet: enlarged targeted search on the implementation
        extra_found = []
        if search_more is not None:
            try:
                extra_found = [f for f in search_more() if f["kind"] == "monitor" and f["class_key"] not in known_keys]
            except Exception:
                sys.stderr.write("enlarged search crashed:\n" + traceback.format_exc())
        if extra_found:
            f = extra_found[0]
            path = os.path.join("replays", pid, "%s_%s_s%d.json" % (pid, _slug(f["class_key"]), seed))
            json.dump({"property": pid, "kind": "failing-input", "class_key": f["class_key"], "what": f["what"],
                       "case": f["case"], "found_by": "enlarged search after broken correspondence/proof"},
                      open(os.path.join(VERIF, path), "w"), indent=1)
            lines.append("VIOLATION property=%s replay=%s" % (pid, path))
            nviol += 1
        else:
            path = os.path.join("replays", pid, "%s_unchecked_s%d.json" % (pid, seed))
            json.dump({"property": pid, "kind": "no-failing-input-found",
                       "theorems_not_checking": proof_failed, "proof_log": proof.get("log", ""),
                       "correspondence_not_checking": [{"class_key": f["class_key"], "what": f["what"], "case": f["case"]} for f in cor[:5]],
                       "n_divergences": len(cor)}, open(os.path.join(VERIF, path), "w"), indent=1)
            lines.append("VIOLATION property=%s replay=%s no-failing-input-found" % (pid, path))
            nviol += 1
    for key, f in confirmed.items():
        print("KNOWN-FINDING: property=%s %s [%s]" % (pid, known_keys[key].get("what", f["what"]), key))
    for l in lines:
        print(l)
    write_evidence(pid, tier, seed, t0, proof, run, rule, trusted_base, assumptions, extra_cov, nviol, sorted(confirmed))
    sys.stdout.flush()
    return 1 if nviol else 0


def _slug(s):
    """file-name form of a class key; keys longer than 60 characters keep a short hash so that two long keys with a
    common prefix do not share a replay file"""
    t = re.sub(r"[^A-Za-z0-9]+", "-", s).strip("-")
    if len(t) <= 60:
        return t
    import hashlib
    return t[:52] + "-" + hashlib.sha1(s.encode()).hexdigest()[:7]


def write_evidence(pid, tier, seed, t0, proof, run, rule, trusted_base, assumptions, extra_cov, nviol, confirmed):
    cov = {
        "obligations": proof["obligations"],
        "discharged": proof["discharged"],
        "checker_cmd": " && ".join(proof.get("cmds", [])),
        "trusted_base": trusted_base,
        "theorems": proof.get("axioms", {}),
        "theorems_failed": proof.get("failed", []),
        "evaluations": run["evaluations"],
        "distinct_nontrivial": run["nontrivial"],
        "rule": rule,
        "traces_validated_against_impl": run["evaluations"],
        "model_lines_compared": run.get("model_lines", 0),
        "histogram": run["hist"],
        "samples": run["samples"][:4] or ["(no cases run)"],
        "known_findings_confirmed": confirmed,
        "exhaustive": False,
    }
    if extra_cov:
        cov.update(extra_cov)
    if pid in DRIFT:
        cov["source_drift"] = DRIFT[pid]
    ev = {"property_id": pid, "tier": tier, "seed": seed, "level": "proof", "coverage": jsonable(cov),
          "assumptions": assumptions, "wall_s": round(time.time() - t0, 2), "violations": nviol}
    # evidence/ describes runs against /repo itself; a run against a scratch worktree ($MYSTIC_REPO, used to try the
    # checks on a seeded change) must not overwrite it
    evdir = os.path.join(VERIF, "evidence") if os.path.realpath(common.REPO) == "/repo" else os.path.join(VERIF, "replays", "_scratch_evidence")
    os.makedirs(evdir, exist_ok=True)
    json.dump(ev, open(os.path.join(evdir, pid + ".json"), "w"), indent=1)
