/- `mvdrv`: line-protocol driver.  Imports model/driver modules only (no Mathlib). -/
import MysticVerif.Basic.Proto
import MysticVerif.Drv.C01
import MysticVerif.Drv.C02
import MysticVerif.Drv.C03
import MysticVerif.Drv.C04
import MysticVerif.Drv.C05
import MysticVerif.Drv.C06
import MysticVerif.Drv.C07
import MysticVerif.Drv.C08
import MysticVerif.Drv.C09
import MysticVerif.Drv.C10
import MysticVerif.Drv.C11
import MysticVerif.Drv.C12
import MysticVerif.Drv.C13
import MysticVerif.Drv.C14
import MysticVerif.Drv.C15
import MysticVerif.Drv.C16
import MysticVerif.Drv.C17
import MysticVerif.Drv.C18
import MysticVerif.Drv.C19
import MysticVerif.Drv.C20

open MysticVerif

def dispatch (line : String) : String :=
  match parseLine line with
  | none => "bad-op"
  | some [] => "bad-op"
  | some (.sym p :: rest) =>
    match p with
    | "C01" => DrvC01.handle rest
    | "C02" => DrvC02.handle rest
    | "C03" => DrvC03.handle rest
    | "C04" => DrvC04.handle rest
    | "C05" => DrvC05.handle rest
    | "C06" => DrvC06.handle rest
    | "C07" => DrvC07.handle rest
    | "C08" => DrvC08.handle rest
    | "C09" => DrvC09.handle rest
    | "C10" => DrvC10.handle rest
    | "C11" => DrvC11.handle rest
    | "C12" => DrvC12.handle rest
    | "C13" => DrvC13.handle rest
    | "C14" => DrvC14.handle rest
    | "C15" => DrvC15.handle rest
    | "C16" => DrvC16.handle rest
    | "C17" => DrvC17.handle rest
    | "C18" => DrvC18.handle rest
    | "C19" => DrvC19.handle rest
    | "C20" => DrvC20.handle rest
    | "ping" => "ok pong"
    | _ => "bad-op"
  | some _ => "bad-op"

partial def loop (h : IO.FS.Stream) (out : IO.FS.Stream) : IO Unit := do
  let line ← h.getLine
  if line.isEmpty then return ()
  out.putStrLn (dispatch line)
  loop h out

def main : IO Unit := do
  let out ← IO.getStdout
  loop (← IO.getStdin) out
  out.flush
