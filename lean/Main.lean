/- `mvdrv`: line-protocol driver.  Imports model/driver modules only (no Mathlib). -/
import MysticVerif.Basic.Proto
import MysticVerif.Drv.C17

open MysticVerif

def dispatch (line : String) : String :=
  match parseLine line with
  | none => "bad-op"
  | some [] => "bad-op"
  | some (.sym p :: rest) =>
    match p with
    | "C17" => DrvC17.handle rest
    | "ping" => "ok pong"
    | _ => "bad-op"
  | some _ => "bad-op"

partial def loop (h : IO.FS.Stream) (out : IO.FS.Stream) : IO Unit := do
  let line ← h.getLine
  if line.isEmpty then return ()
  out.putStrLn (dispatch line)
  loop h out

def main : IO Unit := do
  let out ← IO.getStdout
  loop (← IO.getStdin) out
  out.flush
