/- driver for C05: the shared solver model S (Drv/SolverDrv.lean) -/
import MysticVerif.Drv.SolverDrv

namespace MysticVerif.DrvC05
open MysticVerif

def handle : Handler := SolverDrv.handle

end MysticVerif.DrvC05
