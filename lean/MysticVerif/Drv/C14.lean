/- driver for C14 (compiled condition / penalty functions): Float instantiation of Model/Emitted. -/
import MysticVerif.Basic.Proto
import MysticVerif.Model.Emitted
import MysticVerif.Drv.C13
import MysticVerif.Model.EmittedJoin
import MysticVerif.Model.EmittedPShape

namespace MysticVerif.DrvC14
open MysticVerif MysticVerif.Emitted MysticVerif.DrvC13

def parseRel2 : Val → Option (Rel2 UInt64)
  | .list [l, c, r] => do pure ⟨← parseExpr l, ← parseCmp c, ← parseExpr r⟩
  | _ => none

def parseKind : Val → Option Kind
  | .sym "inequality" => some .ineq
  | .sym "equality" => some .eq
  | _ => none

def parsePType : Val → Option PType
  | .sym "quadratic_equality" => some .qEq
  | .sym "linear_equality" => some .lEq
  | .sym "uniform_equality" => some .uEq
  | .sym "quadratic_inequality" => some .qIneq
  | .sym "linear_inequality" => some .lIneq
  | .sym "uniform_inequality" => some .uIneq
  | _ => none

def parseCond : Val → Option (Kind × PType × Expr UInt64)
  | .list [k, t, e] => do pure (← parseKind k, ← parsePType t, ← parseExpr e)
  | _ => none

def inf : Float := 1.0 / 0.0

/-- a condition of a shaped request: `(kind expr)` (the types come with the `ptype` argument) -/
def parseCond2 : Val → Option (Kind × Expr UInt64)
  | .list [k, e] => do pure (← parseKind k, ← parseExpr e)
  | _ => none

/-- a nesting of lists around penalty type names -/
partial def parseNestPType : Val → Option (Nest PType)
  | .list l => do pure (.node (← l.mapM parseNestPType))
  | v => (parsePType v).map .leaf

def parsePArg : Val → Option PArg
  | .sym "none" => some .none
  | v => (parseNestPType v).map PArg.ofNest

def showPType : PType → String
  | .qEq => "quadratic_equality" | .lEq => "linear_equality" | .uEq => "uniform_equality"
  | .qIneq => "quadratic_inequality" | .lIneq => "linear_inequality" | .uIneq => "uniform_inequality"

def handle : Handler
  | .sym "pen" :: args => Id.run do
    let some tol := (kw? args "tol").bind Val.asFloat? | return "bad-op"
    let some rel := (kw? args "rel").bind Val.asFloat? | return "bad-op"
    let some k := (kw? args "k").bind Val.asFloat? | return "bad-op"
    let some h := (kw? args "h").bind Val.asFloat? | return "bad-op"
    let some n := (kw? args "n").bind Val.asNat? | return "bad-op"
    let some x := (kw? args "x").bind Val.asFloats? | return "bad-op"
    let some rels := (kw? args "rels").bind Val.asList? |>.bind (·.mapM parseRel2) | return "bad-op"
    let some conds := (kw? args "conds").bind Val.asList? |>.bind (·.mapM parseCond) | return "bad-op"
    if rels.length != conds.length then return "bad-op"
    let env := mkEnv tol rel
    let recog := List.zipWith (fun r (c : Kind × PType × Expr UInt64) => recogniseCond r c.1 c.2.2) rels conds
    let rs := "(" ++ " ".intercalate (recog.map pB) ++ ")"
    -- does each penalty type match the kind of its condition (hypothesis of penalty_zero_iff)
    let conf := conds.map fun c => decide (c.2.1.kind = c.1)
    let cs := "(" ++ " ".intercalate (conf.map pB) ++ ")"
    let cv := conds.map fun c => if c.2.2.defined env x then pF (c.2.2.eval env x) else "raises"
    let k' := k * powN h n
    let p := penalty env k' inf (conds.map fun c => (c.2.1, c.2.2)) x
    return s!"ok recog={rs} conform={cs} cvals={pL cv} pen={pF p}"
  | .sym "penj" :: args => Id.run do       -- generate_penalty(groups, ptype, join=coupler.and_/or_)
    let some tol := (kw? args "tol").bind Val.asFloat? | return "bad-op"
    let some rel := (kw? args "rel").bind Val.asFloat? | return "bad-op"
    let some k := (kw? args "k").bind Val.asFloat? | return "bad-op"
    let some h := (kw? args "h").bind Val.asFloat? | return "bad-op"
    let some n := (kw? args "n").bind Val.asNat? | return "bad-op"
    let some kj := (kw? args "kj").bind Val.asFloat? | return "bad-op"
    let some x := (kw? args "x").bind Val.asFloats? | return "bad-op"
    let some j := (kw? args "join").bind Val.asSym? | return "bad-op"
    let some groups := (kw? args "groups").bind Val.asList? |>.bind
      (·.mapM fun g => g.asList?.bind (·.mapM parseCond)) | return "bad-op"
    let env := mkEnv tol rel
    let k' := k * powN h n
    let gs := groups.map fun g => g.map fun c => (c.2.1, c.2.2)
    let parts := gs.map fun g => penalty env k' inf g x
    let conf := groups.map fun g => g.all fun c => decide (c.2.1.kind = c.1)
    let pj := if j == "and" then PJoin.and_ else PJoin.or_
    match penJoin env k' inf kj pj gs x with
    | some v => return s!"ok res=value pen={pF v} parts={pFs parts} conform={pL (conf.map pB)}"
    | none => return s!"ok res=raises parts={pFs parts} conform={pL (conf.map pB)}"
  | .sym "pens" :: args => Id.run do       -- generate_penalty for every SHAPE of conditions / ptype (Model/EmittedPShape)
    let some tol := (kw? args "tol").bind Val.asFloat? | return "bad-op"
    let some rel := (kw? args "rel").bind Val.asFloat? | return "bad-op"
    let some k := (kw? args "k").bind Val.asFloat? | return "bad-op"
    let some h := (kw? args "h").bind Val.asFloat? | return "bad-op"
    let some n := (kw? args "n").bind Val.asNat? | return "bad-op"
    let some kj := (kw? args "kj").bind Val.asFloat? | return "bad-op"
    let some x := (kw? args "x").bind Val.asFloats? | return "bad-op"
    let some j := (kw? args "join").bind Val.asSym? | return "bad-op"
    let some rels := (kw? args "rels").bind Val.asList? |>.bind (·.mapM parseRel2) | return "bad-op"
    let some conds := (kw? args "conds").bind Val.asList? |>.bind (·.mapM parseCond2) | return "bad-op"
    let some nest := (kw? args "nest").bind parseNestNat | return "bad-op"
    let some pt := (kw? args "ptype").bind parsePArg | return "bad-op"
    if rels.length != conds.length then return "bad-op"
    if (Nest.flat nest).any (fun q => conds.length ≤ q) then return "bad-op"
    let env := mkEnv tol rel
    let recog := List.zipWith (fun r (c : Kind × Expr UInt64) => recogniseCond r c.1 c.2) rels conds
    let rs := pL (recog.map pB)
    let cv := conds.map fun c => if c.2.defined env x then pF (c.2.eval env x) else "raises"
    let k' := k * powN h n
    let kindAt := fun (q : Nat) => (conds.getD q default).1
    let exprAt := fun (q : Nat) => (conds.getD q default).2
    -- the nesting over (kind, position): the model pairs types with POSITIONS, the expressions are looked up afterwards
    let cn : Nest (Kind × Nat) := Nest.map (fun q => (kindAt q, q)) nest
    let stack := fun (ws : List (PType × (Kind × Nat))) => ws.map fun w => (w.1, exprAt w.2.2)
    let conformOf := fun (ws : List (PType × (Kind × Nat))) => ws.all fun w => decide (w.1.kind = w.2.1)
    match j with
    | "none" =>
      let items := gpItems cn pt
      let cover := decide ((Nest.flatL cn.top).length ≤ items.length)
      let p := penalty env k' inf (stack items) x
      return s!"ok recog={rs} cvals={pL cv} types={pL (items.map (showPType ·.1))} used={pNs (items.map (·.2.2))} cover={pB cover} conform={pB (conformOf items)} res=value pen={pF p}"
    | "and" | "or" =>
      match gpMembers cn pt with
      | none => return s!"ok recog={rs} cvals={pL cv} res=generr"
      | some ms =>
        let groups := pL (ms.map fun g => pNs (g.map (·.2.2)))
        let types := pL (ms.map fun g => pL (g.map (showPType ·.1)))
        let cover := decide (ms.map (fun g => g.map (·.2.2)) = cn.top.map (fun c => (Nest.flatL c.top).map (·.2)))
        let conform := ms.all conformOf
        let gs := ms.map stack
        let parts := gs.map fun g => penalty env k' inf g x
        let pj := if j == "and" then PJoin.and_ else PJoin.or_
        match penJoin env k' inf kj pj gs x with
        | some v => return s!"ok recog={rs} cvals={pL cv} groups={groups} types={types} cover={pB cover} conform={pB conform} parts={pFs parts} res=value pen={pF v}"
        | none => return s!"ok recog={rs} cvals={pL cv} groups={groups} types={types} cover={pB cover} conform={pB conform} parts={pFs parts} res=raises"
    | _ => return "bad-op"
  | _ => "bad-op"

end MysticVerif.DrvC14
