/- driver for C14 (compiled condition / penalty functions): Float instantiation of Model/Emitted. -/
import MysticVerif.Basic.Proto
import MysticVerif.Model.Emitted
import MysticVerif.Drv.C13
import MysticVerif.Model.EmittedJoin

namespace MysticVerif.DrvC14
open MysticVerif MysticVerif.Emitted MysticVerif.DrvC13

def parseRel2 : Val → Option (Rel2 UInt64)
  | .list [l, c, r] => do pure ⟨← parseExpr l, ← parseCmp c, ← parseExpr r⟩
  | _ => none

def parseKind : Val → Option Kind
  | .sym "inequality" => some .ineq
  | .sym "equality" => some .eq
  | _ => none

def parsePType : Val → Option PType
  | .sym "quadratic_equality" => some .qEq
  | .sym "linear_equality" => some .lEq
  | .sym "uniform_equality" => some .uEq
  | .sym "quadratic_inequality" => some .qIneq
  | .sym "linear_inequality" => some .lIneq
  | .sym "uniform_inequality" => some .uIneq
  | _ => none

def parseCond : Val → Option (Kind × PType × Expr UInt64)
  | .list [k, t, e] => do pure (← parseKind k, ← parsePType t, ← parseExpr e)
  | _ => none

def inf : Float := 1.0 / 0.0

def handle : Handler
  | .sym "pen" :: args => Id.run do
    let some tol := (kw? args "tol").bind Val.asFloat? | return "bad-op"
    let some rel := (kw? args "rel").bind Val.asFloat? | return "bad-op"
    let some k := (kw? args "k").bind Val.asFloat? | return "bad-op"
    let some h := (kw? args "h").bind Val.asFloat? | return "bad-op"
    let some n := (kw? args "n").bind Val.asNat? | return "bad-op"
    let some x := (kw? args "x").bind Val.asFloats? | return "bad-op"
    let some rels := (kw? args "rels").bind Val.asList? |>.bind (·.mapM parseRel2) | return "bad-op"
    let some conds := (kw? args "conds").bind Val.asList? |>.bind (·.mapM parseCond) | return "bad-op"
    if rels.length != conds.length then return "bad-op"
    let env := mkEnv tol rel
    let recog := List.zipWith (fun r (c : Kind × PType × Expr UInt64) => recogniseCond r c.1 c.2.2) rels conds
    let rs := "(" ++ " ".intercalate (recog.map pB) ++ ")"
    -- does each penalty type match the kind of its condition (hypothesis of penalty_zero_iff)
    let conf := conds.map fun c => decide (c.2.1.kind = c.1)
    let cs := "(" ++ " ".intercalate (conf.map pB) ++ ")"
    let cv := conds.map fun c => if c.2.2.defined env x then pF (c.2.2.eval env x) else "raises"
    let k' := k * powN h n
    let p := penalty env k' inf (conds.map fun c => (c.2.1, c.2.2)) x
    return s!"ok recog={rs} conform={cs} cvals={pL cv} pen={pF p}"
  | .sym "penj" :: args => Id.run do       -- generate_penalty(groups, ptype, join=coupler.and_/or_)
    let some tol := (kw? args "tol").bind Val.asFloat? | return "bad-op"
    let some rel := (kw? args "rel").bind Val.asFloat? | return "bad-op"
    let some k := (kw? args "k").bind Val.asFloat? | return "bad-op"
    let some h := (kw? args "h").bind Val.asFloat? | return "bad-op"
    let some n := (kw? args "n").bind Val.asNat? | return "bad-op"
    let some kj := (kw? args "kj").bind Val.asFloat? | return "bad-op"
    let some x := (kw? args "x").bind Val.asFloats? | return "bad-op"
    let some j := (kw? args "join").bind Val.asSym? | return "bad-op"
    let some groups := (kw? args "groups").bind Val.asList? |>.bind
      (·.mapM fun g => g.asList?.bind (·.mapM parseCond)) | return "bad-op"
    let env := mkEnv tol rel
    let k' := k * powN h n
    let gs := groups.map fun g => g.map fun c => (c.2.1, c.2.2)
    let parts := gs.map fun g => penalty env k' inf g x
    let conf := groups.map fun g => g.all fun c => decide (c.2.1.kind = c.1)
    let pj := if j == "and" then PJoin.and_ else PJoin.or_
    match penJoin env k' inf kj pj gs x with
    | some v => return s!"ok res=value pen={pF v} parts={pFs parts} conform={pL (conf.map pB)}"
    | none => return s!"ok res=raises parts={pFs parts} conform={pL (conf.map pB)}"
  | _ => "bad-op"

end MysticVerif.DrvC14
