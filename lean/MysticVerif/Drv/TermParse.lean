/- parser of termination-condition expressions for the closed-loop driver (a private copy of the C10 driver's
   request syntax, so that the solver driver does not depend on the C10 driver file) -/
import MysticVerif.Basic.Proto
import MysticVerif.Model.Termination

namespace MysticVerif.TermParse
open MysticVerif MysticVerif.Term

/-- `eta = 1e-20` of `NormalizedChangeOverGeneration` (l.224), as the bit pattern CPython parses it to -/
def eta : Float := Float.ofBits 4307583784117748259

def optInt? : Val → Option (Option Int)
  | .sym "none" => some none
  | .int i => some (some i)
  | _ => none

def optFlt? : Val → Option (Option Float)
  | .sym "none" => some none
  | v => v.asFloat?.map some

def optBool? : Val → Option (Option Bool)
  | .sym "none" => some none
  | v => v.asBool?.map some

def parsePrim : List Val → Option (Prim Float)
  | [.sym "vtr", tol, tgt] => do pure (.vtr (← tol.asFloat?) (← tgt.asFloat?))
  | [.sym "cog", tol, g] => do pure (.cog (← tol.asFloat?) (← optInt? g))
  | [.sym "ncog", tol, g] => do pure (.ncog (← tol.asFloat?) (← optInt? g) eta)
  | [.sym "crt", xt, ft] => do pure (.crt (← xt.asFloat?) (← ft.asFloat?))
  | [.sym "solimp", tol] => do pure (.solimp (← tol.asFloat?))
  | [.sym "nct", fv, tol, g] => do pure (.nct (← optFlt? fv) (← tol.asFloat?) (← optInt? g))
  | [.sym "vtrcog", ft, gt, g, tgt] => do pure (.vtrcog (← ft.asFloat?) (← gt.asFloat?) (← optInt? g) (← tgt.asFloat?))
  | [.sym "popspread", tol] => do pure (.popspread (← tol.asFloat?))
  | [.sym "gradnorm", tol] => do pure (.gradnorm (← tol.asFloat?))
  | [.sym "evallimits", g, e] => do pure (.evallimits (← optInt? g) (← optInt? e))
  | [.sym "timelimits", s, sys, s0, s1, s2] => do
      pure (.timelimits (← s.asFloat?) (← optBool? sys) (← s0.asFloat?) (← s1.asFloat?) (← s2.asFloat?))
  | [.sym "interrupt"] => some .interrupt
  | _ => none

partial def parseExpr : Val → Option (Expr Float)
  | .list (.sym "p" :: o :: d :: rest) => do pure (.prim (← o.asNat?) (← d.asNat?) (← parsePrim rest))
  | .list [.sym "when", e] => do pure (.when (← parseExpr e))
  | .list (.sym "and" :: es) => do pure (.and (← es.mapM parseExpr))
  | .list (.sym "or" :: es) => do pure (.or (← es.mapM parseExpr))
  | _ => none

end MysticVerif.TermParse
