/- driver for C06: the solver model S restarted from an EXPLICIT snapshot (the state the harness reads off a
   restored real solver) and the aliasing model of the shared counter / monitor cells.

   C06 de-resume  <setup> (pop ((..)..)) (popE (..)) (best (..)) (bestE f) (nlog n) (nstep n) (trials (((..)..)..)) (two b)
   C06 nm-resume  <setup> (sim ((..)..)) (fsim (..)) (nlog n) (nstep n) (steps k) (radius f) (inplace b)
   C06 ctl-resume (state gens evals nstep maxiter maxfun exit live) (scale i e) (powell b) (ops (..))
   C06 alias      (ops ((fresh) (call i n) (decorate i) (pickle i) (deepcopyU i) (deepcopyL i) (shallow i) (setmon i new k) ..))
   C06 sticky     (solver de) (known K) (stored name cr f) (ops ((step s c f) (solve s c f k) (set s c f) (pickle) ..))
                  (solver two) (stored a b) (ops ((step a b) (solve a b k) (set a b) (pickle) ..)): the solver-private
                  settings handed to `_process_inputs` as keywords (`none` = not given); after every op the stored fields
                  and the settings every generation of that op was made with (`deStepKw` / `deSolveKw` / `step2Kw` / `solve2Kw`)
   C06 pw-resume  <setup> (x (..)) (fval f) (x1 (..)) (fx f) (bigind n) (delta f) (direc ((..)..)) (nlog n)
                  (steplog (((..) f) ..)) (pending b) (steps k) (ls (<recorded line search> ..))
                  Powell-in-S (`Model/PowellS.lean`) restarted from an EXPLICIT `PwSnap` through `PowellS.stepAt`
   C06 pw-share   <setup> <state> (ops ((deep i) (shallow i) (step i (ls ..)) ..)): solver objects holding a POINTER to their
                  direction-set array (`PowellS.stepObj` / `deepCopyObj` / `shallowCopyObj`); after every op the state each
                  object sees
   C06 pw-dump    the same state arguments + (ls ..): the snapshot of `PowellS.midDump` (what `__save_state()` pickles
                  in the middle of the next `_Step`)
-/
import MysticVerif.Basic.Proto
import MysticVerif.Model.Checkpoint
import MysticVerif.Model.CheckpointMon
import MysticVerif.Model.PowellResume
import MysticVerif.Drv.SolverDrv

namespace MysticVerif.DrvC06
open MysticVerif MysticVerif.Solver MysticVerif.Checkpoint MysticVerif.SolverDrv

/-- a monitor of which only the length is known to the harness side: `n` placeholder records -/
def blankLog (n : Nat) : List (V × Float) := List.replicate n ([], 0.0)

def floatss? (v : Val) : Option (List V) := v.asList?.bind (·.mapM Val.asFloats?)

def handleDE (args : List Val) : String := Id.run do
  let some su := parseSetup args | return "bad-op"
  let some pop := (kw? args "pop").bind floatss? | return "bad-op"
  let some popE := (kw? args "popE").bind Val.asFloats? | return "bad-op"
  let some best := (kw? args "best").bind Val.asFloats? | return "bad-op"
  let some bestE := (kw? args "bestE").bind Val.asFloat? | return "bad-op"
  let some nlog := (kw? args "nlog").bind Val.asNat? | return "bad-op"
  let some nstep := (kw? args "nstep").bind Val.asNat? | return "bad-op"
  let some trialss := (kw? args "trials").bind Val.asList? |>.bind (·.mapM floatss?) | return "bad-op"
  let two := ((kw? args "two").bind Val.asBool?).getD false
  let o := su.obj
  -- the snapshot of the restored solver, then `restore` and the remaining generations
  let snap : DESnap V Float :=
    { population := pop, popEnergy := popE, bestSolution := best, bestEnergy := bestE,
      evalmon := blankLog nlog, stepmon := blankLog nstep }
  let mut s : DE V Float := snap.restore
  let mut outs : Array String := #[]
  for ts in trialss do
    s := DE.run two o [ts] s
    outs := outs.push (showDE s)
  return s!"ok steps=({" ".intercalate outs.toList}) hist={pFs ((s.stepLog.drop nstep).map Prod.snd)}"

def handleNM (args : List Val) : String := Id.run do
  let some su := parseSetup args | return "bad-op"
  let some sim := (kw? args "sim").bind floatss? | return "bad-op"
  let some fsim := (kw? args "fsim").bind Val.asFloats? | return "bad-op"
  let some nlog := (kw? args "nlog").bind Val.asNat? | return "bad-op"
  let some nstep := (kw? args "nstep").bind Val.asNat? | return "bad-op"
  let some steps := (kw? args "steps").bind Val.asNat? | return "bad-op"
  let some radius := (kw? args "radius").bind Val.asFloat? | return "bad-op"
  let mut_ := ((kw? args "inplace").bind Val.asBool?).getD false
  let o := su.obj
  let st : V → V := if mut_ then o.K else id
  let n := Float.ofNat (sim.headD []).length
  let c : Coef Float := { one := 1.0, rho := 1.0, chi := 2.0, psi := 0.5, sigma := 0.5, n := n }
  let clip0 : V → V := match su.box with | some b => b.clip0 | none => id
  let snap : NMSnap Float Float :=
    { population := sim, popEnergy := fsim, evalmon := blankLog nlog, stepmon := blankLog nstep }
  let mut s : NM Float Float := snap.restore
  let mut outs : Array String := #[]
  for k in [0:steps] do
    if nstep + k = 1 then
      -- the restart file was written after generation 0: the next iteration builds the simplex
      s := NM.gen1 o clip0 (mkVal su.box radius) s
      outs := outs.push (showNM s "build")
    else
      let r := NM.update o c st s
      s := r.1
      outs := outs.push (showNM s (branchName r.2))
  return s!"ok steps=({" ".intercalate outs.toList}) hist={pFs ((s.stepLog.drop nstep).map Prod.snd)}"

def parseLim : Val → Option Lim
  | .sym "none" => some .none
  | .sym "star" => some .star
  | .int i => if 0 ≤ i then some (.val i.toNat) else none
  | _ => none

def parseCtlOp : Val → Option CtlOp
  | .list [.sym "step", tpre, tpost, .int dE, .int dG, .int dS] => do
    pure (.step (← tpre.asBool?) (← tpost.asBool?) dE.toNat dG.toNat dS.toNat)
  | .list [.sym "limits", g, e, nw] => do pure (.limits (← optNat g) (← optNat e) (← nw.asBool?))
  | .list [.sym "exit", b] => do pure (.exit (← b.asBool?))
  | .list [.sym "finalize"] => some .finalize
  | _ => none

def handleCtl (args : List Val) : String := Id.run do
  let some (.list [.int g, .int e, .int n, mi, mf, ex, lv]) := kw? args "state" | return "bad-op"
  let some (.list [.int si, .int se]) := kw? args "scale" | return "bad-op"
  let some mi' := parseLim mi | return "bad-op"
  let some mf' := parseLim mf | return "bad-op"
  let some ex' := ex.asBool? | return "bad-op"
  let some lv' := lv.asBool? | return "bad-op"
  let some ops := (kw? args "ops").bind Val.asList? |>.bind (·.mapM parseCtlOp) | return "bad-op"
  let pw := ((kw? args "powell").bind Val.asBool?).getD false
  let snap : CtlSnap :=
    { generations := g.toNat, evaluations := e.toNat, nStepmon := n.toNat, maxiter := mi', maxfun := mf',
      earlyExit := ex', live := lv', scaleIter := si.toNat, scaleEval := se.toNat, powell := pw }
  let mut c : Ctl := snap.restore
  let mut outs : Array String := #[]
  for op in ops do
    let r := outOp c op
    c := applyOp c op
    outs := outs.push s!"({showMsg r.1} {pB r.2} g{c.gens} e{c.evals} n{c.nstep} {showLim c.maxiter} {showLim c.maxfun} {pB c.live})"
  return s!"ok ops=({" ".intercalate outs.toList})"

/-! ### aliasing model -/

def showObj (h : Heap) (l : Links) : String :=
  s!"({evaluations h l} {(monitor h l).length} {pB (decide l.Linked)})"

def handleAlias (args : List Val) : String := Id.run do
  let some ops := (kw? args "ops").bind Val.asList? | return "bad-op"
  let mut h : Heap := { ctr := [], mon := [] }
  let mut objs : Array Links := #[]
  let mut tag : Nat := 0
  let mut outs : Array String := #[]
  for op in ops do
    match op with
    | .list [.sym "fresh"] =>
      let r := fresh h
      h := r.1; objs := objs.push r.2
    | .list [.sym "call", .int i, .int n] =>
      let some l := objs[i.toNat]? | return "err index"
      let tags := (List.range n.toNat).map (· + tag)
      tag := tag + n.toNat
      h := calls h l tags
    | .list [.sym "decorate", .int i] =>
      let some l := objs[i.toNat]? | return "err index"
      let r := decorate h l
      h := r.1; objs := objs.set! i.toNat r.2
    | .list [.sym "pickle", .int i] =>
      let some l := objs[i.toNat]? | return "err index"
      let r := pickleCopy h l
      h := r.1; objs := objs.push r.2
    | .list [.sym "deepcopyL", .int i] =>        -- a deep copy that behaves like one pickle (a repaired __deepcopy__)
      let some l := objs[i.toNat]? | return "err index"
      let r := pickleCopy h l
      h := r.1; objs := objs.push r.2
    | .list [.sym "shallow", .int i] =>          -- __copy__: the same objects
      let some l := objs[i.toNat]? | return "err index"
      let r := shallowCopy h l
      h := r.1; objs := objs.push r.2
    | .list [.sym "setmon", .int i, nw, .int k] =>   -- SetEvaluationMonitor(m, new) with a monitor already holding k records
      let some l := objs[i.toNat]? | return "err index"
      let some nb := nw.asBool? | return "bad-op"
      let r := setMonitor h l nb ((List.range k.toNat).map (· + 1000000))
      h := r.1; objs := objs.set! i.toNat r.2
    | .list [.sym "deepcopyU", .int i] =>        -- __deepcopy__ as implemented
      let some l := objs[i.toNat]? | return "err index"
      let r := deepcopyImpl h l
      h := r.1; objs := objs.push r.2
    | _ => return "bad-op"
    outs := outs.push ("(" ++ " ".intercalate (objs.toList.map (showObj h)) ++ ")")
  return s!"ok states=({" ".intercalate outs.toList})"

/-! ### solver-private settings given as keywords -/

def optF? : Val → Option (Option Float)
  | .sym "none" => some none
  | v => v.asFloat?.map some

def optN? : Val → Option (Option Nat)
  | .sym "none" => some none
  | v => v.asNat?.map some

abbrev Used3 := List (Nat × Float × Float)
abbrev Used2 := List (Float × Float)

def genLog3 : Nat → Float → Float → Used3 → Used3 := fun s p f u => u ++ [(s, p, f)]
def genLog2 : Float → Float → Used2 → Used2 := fun a b u => u ++ [(a, b)]

def showDESet (st : DESet Float) (u : Used3) : String :=
  s!"({st.strategy} {pF st.probability} {pF st.scale} (" ++ " ".intercalate (u.map fun t => s!"({t.1} {pF t.2.1} {pF t.2.2})") ++ "))"

def showSet2 (st : Set2 Float Float) (u : Used2) : String :=
  s!"({pF st.a} {pF st.b} (" ++ " ".intercalate (u.map fun t => s!"({pF t.1} {pF t.2})") ++ "))"

def handleStickyDE (args : List Val) : String := Id.run do
  let some nK := (kw? args "known").bind Val.asNat? | return "bad-op"
  let some (.list [nm, cr, f]) := kw? args "stored" | return "bad-op"
  let some nm' := nm.asNat? | return "bad-op"
  let some cr' := cr.asFloat? | return "bad-op"
  let some f' := f.asFloat? | return "bad-op"
  let some ops := (kw? args "ops").bind Val.asList? | return "bad-op"
  let mut st : DESet Float := { strategy := nm', probability := cr', scale := f' }
  let mut outs : Array String := #[]
  for op in ops do
    match op with
    | .list [.sym "step", s, c, f] =>
      let some s' := optN? s | return "bad-op"
      let some c' := optF? c | return "bad-op"
      let some f' := optF? f | return "bad-op"
      let r := deStepKw (DESet.process nK) genLog3 { strategy := s', cr := c', f := f' } (st, [])
      st := r.1; outs := outs.push (showDESet st r.2)
    | .list [.sym "solve", s, c, f, .int k] =>
      let some s' := optN? s | return "bad-op"
      let some c' := optF? c | return "bad-op"
      let some f' := optF? f | return "bad-op"
      let r := deSolveKw (DESet.process nK) genLog3 { strategy := s', cr := c', f := f' } k.toNat (st, [])
      st := r.1; outs := outs.push (showDESet st r.2)
    | .list [.sym "set", s, c, f] =>             -- plain attribute assignment (what a configuration script does)
      let some s' := optN? s | return "bad-op"
      let some c' := optF? c | return "bad-op"
      let some f' := optF? f | return "bad-op"
      st := { strategy := s'.getD st.strategy, probability := c'.getD st.probability, scale := f'.getD st.scale }
      outs := outs.push (showDESet st [])
    | .list [.sym "pickle"] =>                   -- the fields travel; the `settings` dict never existed outside `Solve`
      outs := outs.push (showDESet st [])
    | _ => return "bad-op"
  return s!"ok states=({" ".intercalate outs.toList})"

def handleSticky2 (args : List Val) : String := Id.run do
  let some (.list [a, b]) := kw? args "stored" | return "bad-op"
  let some a' := a.asFloat? | return "bad-op"
  let some b' := b.asFloat? | return "bad-op"
  let some ops := (kw? args "ops").bind Val.asList? | return "bad-op"
  let mut st : Set2 Float Float := { a := a', b := b' }
  let mut outs : Array String := #[]
  for op in ops do
    match op with
    | .list [.sym "step", a, b] =>
      let some a' := optF? a | return "bad-op"
      let some b' := optF? b | return "bad-op"
      let r := step2Kw genLog2 { a := a', b := b' } (st, [])
      st := r.1; outs := outs.push (showSet2 st r.2)
    | .list [.sym "solve", a, b, .int k] =>
      let some a' := optF? a | return "bad-op"
      let some b' := optF? b | return "bad-op"
      let r := solve2Kw genLog2 { a := a', b := b' } k.toNat (st, [])
      st := r.1; outs := outs.push (showSet2 st r.2)
    | .list [.sym "set", a, b] =>
      let some a' := optF? a | return "bad-op"
      let some b' := optF? b | return "bad-op"
      st := { a := a'.getD st.a, b := b'.getD st.b }
      outs := outs.push (showSet2 st [])
    | .list [.sym "pickle"] =>
      outs := outs.push (showSet2 st [])
    | _ => return "bad-op"
  return s!"ok states=({" ".intercalate outs.toList})"

def handleSticky (args : List Val) : String :=
  match kw? args "solver" with
  | some (.sym "de") => handleStickyDE args
  | some (.sym "two") => handleSticky2 args
  | _ => "bad-op"

/-! ### Powell-in-S restarted from an explicit snapshot -/

def pairs? (v : Val) : Option (List (V × Float)) :=
  v.asList?.bind (·.mapM fun p => match p with
    | .list [x, y] => do pure (← x.asFloats?, ← y.asFloat?)
    | _ => none)

open MysticVerif.PowellS in
def parsePwSnap (args : List Val) : Option (PwSnap Float Float) := do
  let x ← (kw? args "x").bind Val.asFloats?
  let fval ← (kw? args "fval").bind Val.asFloat?
  let x1 ← (kw? args "x1").bind Val.asFloats?
  let fx ← (kw? args "fx").bind Val.asFloat?
  let bigind ← (kw? args "bigind").bind Val.asNat?
  let delta ← (kw? args "delta").bind Val.asFloat?
  let direc ← (kw? args "direc").bind floatss?
  let nlog ← (kw? args "nlog").bind Val.asNat?
  let steplog ← (kw? args "steplog").bind pairs?
  let pending ← (kw? args "pending").bind Val.asBool?
  pure { population0 := x, popEnergy0 := fval, x1 := x1, fx := fx, bigind := bigind, delta := delta, direc := direc,
         evalmon := blankLog nlog, stepmon := steplog, pending := pending, nls := 0 }

open MysticVerif.PowellS in
def showPwFull (s : PowellS.Pw Float Float) (nlog : Nat) : String :=
  s!"(x {pFs s.x} fval {pF s.fval} x1 {pFs s.x1} fx {pF s.fx} bigind {s.bigind} delta {pF s.delta} direc {pFss s.direc} " ++
  s!"nlog {s.log.length} nstep {s.stepLog.length} nls {s.nls} pending {pB s.pending} gens {s.generations} " ++
  s!"logsum {(logSum (s.log.drop nlog)).toNat})"

open MysticVerif.PowellS in
def lsOracle (lsl : List (LsRec Float)) : Nat → V → V → LsRec Float :=
  let lsArr := lsl.toArray
  -- an exhausted oracle answers with the start point (never happens when the model follows the real run)
  fun k p _ => lsArr.getD k { pre := [], y := p, post := [], xi := p.map fun _ => 0.0 }

open MysticVerif.PowellS in
def handlePwResume (args : List Val) : String := Id.run do
  let some su := parseSetup args | return "bad-op"
  let some snap := parsePwSnap args | return "bad-op"
  let some steps := (kw? args "steps").bind Val.asNat? | return "bad-op"
  let some lsl := (kw? args "ls").bind Val.asList? |>.bind (·.mapM parseLs) | return "bad-op"
  let o := su.obj
  let ls := lsOracle lsl
  let nlog := snap.evalmon.length
  -- `restore`, then `steps` further `_Step`s, each dispatched from the state alone
  let mut s : PowellS.Pw Float Float := snap.restore
  let mut outs : Array String := #[]
  for _ in [0:steps] do
    s := stepAt o pwCfgF ls s
    outs := outs.push (showPwFull s nlog)
  let reqs := "(" ++ " ".intercalate (s.reqs.map fun r => "(" ++ pFs r.1 ++ " " ++ pFs r.2 ++ ")") ++ ")"
  return s!"ok steps=({" ".intercalate outs.toList}) reqs={reqs} steplog={pPairs s.stepLog} hist={pFs s.hist}"

open MysticVerif.PowellS in
def handlePwDump (args : List Val) : String := Id.run do
  let some su := parseSetup args | return "bad-op"
  let some snap := parsePwSnap args | return "bad-op"
  let some lsl := (kw? args "ls").bind Val.asList? |>.bind (·.mapM parseLs) | return "bad-op"
  let o := su.obj
  let s := midDump o pwCfgF (lsOracle lsl) snap.restore
  return s!"ok dump={showPwFull s snap.evalmon.length} steplog={pPairs s.stepLog} hist={pFs s.hist}"

open MysticVerif.PowellS in
def showPwObj (h : DHeap Float) (p : PwObj Float Float) : String :=
  let s := p.load h
  s!"(x {pFs s.x} fval {pF s.fval} x1 {pFs s.x1} fx {pF s.fx} bigind {s.bigind} delta {pF s.delta} direc {pFss s.direc} nstep {s.stepLog.length} pending {pB s.pending})"

open MysticVerif.PowellS in
def handlePwShare (args : List Val) : String := Id.run do
  let some su := parseSetup args | return "bad-op"
  let some snap := parsePwSnap args | return "bad-op"
  let some ops := (kw? args "ops").bind Val.asList? | return "bad-op"
  let o := su.obj
  let mut h : DHeap Float := { cells := [snap.direc] }
  let mut objs : Array (PwObj Float Float) := #[{ s := snap.restore, dptr := 0 }]
  let mut outs : Array String := #[]
  for op in ops do
    match op with
    | .list [.sym "deep", .int i] =>
      let some p := objs[i.toNat]? | return "err index"
      let r := deepCopyObj h p
      h := r.1; objs := objs.push r.2
    | .list [.sym "shallow", .int i] =>
      let some p := objs[i.toNat]? | return "err index"
      let r := shallowCopyObj h p
      h := r.1; objs := objs.push r.2
    | .list [.sym "step", .int i, lsv] =>
      let some p := objs[i.toNat]? | return "err index"
      let some lsl := lsv.asList?.bind (·.mapM parseLs) | return "bad-op"
      -- the oracle of this Step is the recording of this Step (`powellS_restart_index`: the index may restart at 0)
      let r := stepObj o pwCfgF (lsOracle lsl) h { p with s := { p.s with nls := 0 } }
      h := r.1; objs := objs.set! i.toNat r.2
    | _ => return "bad-op"
    outs := outs.push ("(" ++ " ".intercalate (objs.toList.map (showPwObj h)) ++ ")")
  return s!"ok states=({" ".intercalate outs.toList})"

def handle : Handler
  | .sym "de-resume" :: args => handleDE args
  | .sym "nm-resume" :: args => handleNM args
  | .sym "ctl-resume" :: args => handleCtl args
  | .sym "alias" :: args => handleAlias args
  | .sym "sticky" :: args => handleSticky args
  | .sym "pw-resume" :: args => handlePwResume args
  | .sym "pw-dump" :: args => handlePwDump args
  | .sym "pw-share" :: args => handlePwShare args
  | _ => "bad-op"

end MysticVerif.DrvC06
