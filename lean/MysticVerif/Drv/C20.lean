/- driver for C20 (monitors and log files), Float instantiation of Model/Monitor -/
import MysticVerif.Basic.Proto
import MysticVerif.Model.Monitor

namespace MysticVerif.DrvC20
open MysticVerif MysticVerif.Mon

abbrev M := Mon Float

/-! ### parsing -/

def parsePV : Val → Option (PV Float)
  | .list [.sym "s", v] => do pure (.sc (← v.asFloat?))
  | .list (.sym "v" :: vs) => do pure (.vec (← vs.mapM Val.asFloat?))
  | .list (.sym "m" :: rows) => do pure (.mat (← rows.mapM Val.asFloats?))
  | _ => none

def parseOptInt : Val → Option (Option Int)
  | .sym "none" => some none
  | .int i => some (some i)
  | _ => none

def parseOptFloat : Val → Option (Option Float)
  | .sym "none" => some none
  | v => do pure (some (← v.asFloat?))

def parseBools (v : Val) : Option (List Bool) := do
  let l ← v.asList?
  l.mapM Val.asBool?

/-! ### printing -/

def pPV : PV Float → String
  | .sc v => "(s " ++ pF v ++ ")"
  | .vec l => pL ("v" :: l.map pF)
  | .mat l => pL ("m" :: l.map pFs)

def pOI : Option Int → String
  | none => "none"
  | some i => toString i

def pOF : Option Float → String
  | none => "none"
  | some f => pF f

def pStep (s : Step) : String :=
  match s.id with
  | none => s!"({s.i})"
  | some j => s!"({s.i} {pOI j})"

def pIds : Option (List Step) → String
  | none => "none"
  | some l => pL (l.map pStep)

def pFsss (l : List (List (List Float))) : String := pL (l.map pFss)

def pErr (e : Err) : String := "(e " ++ e.str ++ ")"

def pPair (p : PV Float × PV Float) : String := s!"(p {pPV p.1} {pPV p.2})"

def pDump (m : M) : String :=
  s!"(d {pL (m.x.map pPV)} {pL (m.getY.map pPV)} {pL (m.id.map pOI)} {pNs m.info} {pOF m.k})"

/-! ### the op interpreter: registers hold monitors -/

def getR (rs : Array M) (v : Val) : Option M := do
  let i ← v.asNat?
  rs[i]?

def setR (rs : Array M) (v : Val) (m : M) : Option (Array M) := do
  let i ← v.asNat?
  if i < rs.size then some (rs.set! i m) else none

/-- one op: new registers and the printed result; `none` = malformed request -/
def stepOp (rs : Array M) : Val → Option (Array M × String)
  | .list [.sym "new", r, k, l] => do
    let k ← parseOptFloat k
    let iv : Option Nat ← match l with
      | .sym "nolog" => some none
      | .int i => if 0 < i then some (some i.toNat) else some none
      | _ => none
    let rs ← setR rs r { k := k, interval := iv }
    pure (rs, "u")
  | .list [.sym "call", r, x, y, id] => do
    let m ← getR rs r
    let x ← parsePV x
    let y ← parsePV y
    let id ← parseOptInt id
    let out := match m.logOf x y id with
      | none => "u"
      | some w => s!"(w {w.step} {pOI w.id} {pPV w.y} {pPV w.x})"
    let rs ← setR rs r (m.call x y id)
    pure (rs, out)
  | .list [.sym "info", r, n] => do
    let m ← getR rs r
    let rs ← setR rs r (m.addInfo (← n.asNat?))
    pure (rs, "u")
  | .list [.sym "len", r] => do
    let m ← getR rs r
    pure (rs, s!"(n {m.len})")
  | .list [.sym "get", r, i] => do
    let m ← getR rs r
    match m.getItem (← i.asInt?) with
    | some p => pure (rs, pPair p)
    | none => pure (rs, pErr .index)
  | .list [.sym "slice", d, r, s, e, t] => do
    let m ← getR rs r
    let s ← parseOptInt s
    let e ← parseOptInt e
    let t ← parseOptInt t
    let step := t.getD 1
    if step = 0 then pure (rs, pErr .value) else
    let rs ← setR rs d (m.slice s e step)
    pure (rs, "u")
  | .list [.sym "lidx", d, r, idx] => do
    let m ← getR rs r
    let idx ← idx.asInts?
    match m.fancy (fun n => resolveIdx n idx) with
    | .ok m' => pure (← setR rs d m', "u")
    | .error e => pure (rs, pErr e)
  | .list [.sym "mask", d, r, mask] => do
    let m ← getR rs r
    let mask ← parseBools mask
    match m.fancy (fun n => maskIdx n mask) with
    | .ok m' => pure (← setR rs d m', "u")
    | .error e => pure (rs, pErr e)
  | .list [.sym "add", d, a, b] => do
    let ma ← getR rs a
    let mb ← getR rs b
    pure (← setR rs d (ma.add mb), "u")
  | .list [.sym "extend", a, b] => do
    let ma ← getR rs a
    let mb ← getR rs b
    pure (← setR rs a (ma.extend mb), "u")
  | .list [.sym "prepend", a, b] => do
    let ma ← getR rs a
    let mb ← getR rs b
    pure (← setR rs a (ma.prepend mb), "u")
  | .list [.sym "min", r] => do
    let m ← getR rs r
    match m.min with
    | .ok p => pure (rs, pPair p)
    | .error e => pure (rs, pErr e)
  | .list [.sym "dump", r] => do
    let m ← getR rs r
    pure (rs, pDump m)
  | .list [.sym "wraw", r] => do
    let m ← getR rs r
    let f := m.writeRaw
    pure (rs, s!"(f {pIds f.ids} {pL (f.params.map pPV)} {pL (f.cost.map pPV)})")
  | .list [.sym "wsup", r] => do
    let m ← getR rs r
    match m.writeSupport with
    | some f => pure (rs, s!"(f {pIds f.ids} {pFsss f.params} {pL (f.cost.map pPV)})")
    | none => pure (rs, pErr .type)
  | .list [.sym "wconv", r] => do
    let m ← getR rs r
    match m.writeConverge with
    | some f => pure (rs, s!"(f {pIds f.ids} {pFsss f.params} {pL (f.cost.map pPV)})")
    | none => pure (rs, pErr .type)
  | .list [.sym "rhist", r] => do
    let m ← getR rs r
    match m.readHistory with
    | some f => pure (rs, s!"(f {pIds f.ids} {pFsss f.params} {pL (f.cost.map pPV)})")
    | none => pure (rs, pErr .type)
  | _ => none

def runOps : Array M → List Val → List String → Option (List String)
  | _, [], acc => some acc.reverse
  | rs, op :: ops, acc =>
    match stepOp rs op with
    | none => none
    | some (rs', out) => runOps rs' ops (out :: acc)

def codes (v : Val) : Option (List Char) := do
  let l ← v.asNats?
  pure (l.map Char.ofNat)

def pCodes (s : List Char) : String := pNs (s.map Char.toNat)

/-- is `line` of the form `printLine s y x` with fields that satisfy the hypotheses of `logline_roundtrip`? -/
def lineGood (line : List Char) : Bool :=
  match split3 line with
  | [a, b, c] =>
    match a, b with
    | ' ' :: ' ' :: s, ' ' :: ' ' :: y => tokOK s && tokOK y && tailOK c && printLine s y c == line
    | _, _ => false
  | _ => false

def handle : Handler
  | .sym "prog" :: args => Id.run do
    let some ops := (kw? args "ops").bind Val.asList? | return "bad-op"
    let nreg := ((kw? args "nreg").bind Val.asNat?).getD 4
    match runOps (Array.replicate nreg ({} : M)) ops [] with
    | some outs => return "ok r=" ++ pL outs
    | none => return "bad-op"
  | .sym "sliceidx" :: args => Id.run do   -- `range(*slice(s, e, t).indices(n))`
    let some n := (kw? args "n").bind Val.asNat? | return "bad-op"
    let some s := (kw? args "s").bind parseOptInt | return "bad-op"
    let some e := (kw? args "e").bind parseOptInt | return "bad-op"
    let some t := (kw? args "t").bind Val.asInt? | return "bad-op"
    if t = 0 then return "err value"
    return "ok i=" ++ pNs (sliceIdx n s e t)
  | .sym "split" :: args => Id.run do
    let some s := (kw? args "s").bind codes | return "bad-op"
    return "ok p=" ++ pL ((split3 s).map pCodes)
  | .sym "logline" :: args => Id.run do
    let some s := (kw? args "s").bind codes | return "bad-op"
    return s!"ok p={pL ((split3 s).map pCodes)} good={pB (lineGood s)}"
  | _ => "bad-op"

end MysticVerif.DrvC20
