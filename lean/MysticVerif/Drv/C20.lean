/- driver for C20 (monitors and log files), Float instantiation of Model/Monitor -/
import MysticVerif.Basic.Proto
import MysticVerif.Model.Monitor
import MysticVerif.Model.MonitorViews
import MysticVerif.Model.MonitorHeap
import MysticVerif.Model.MungeFormats

namespace MysticVerif.DrvC20
open MysticVerif MysticVerif.Mon

abbrev M := Mon Float

/-! ### parsing -/

def parsePV : Val → Option (PV Float)
  | .list [.sym "s", v] => do pure (.sc (← v.asFloat?))
  | .list (.sym "v" :: vs) => do pure (.vec (← vs.mapM Val.asFloat?))
  | .list (.sym "m" :: rows) => do pure (.mat (← rows.mapM Val.asFloats?))
  | _ => none

def parseOptInt : Val → Option (Option Int)
  | .sym "none" => some none
  | .int i => some (some i)
  | _ => none

def parseOptFloat : Val → Option (Option Float)
  | .sym "none" => some none
  | v => do pure (some (← v.asFloat?))

def parseBools (v : Val) : Option (List Bool) := do
  let l ← v.asList?
  l.mapM Val.asBool?

/-! ### printing -/

def pPV : PV Float → String
  | .sc v => "(s " ++ pF v ++ ")"
  | .vec l => pL ("v" :: l.map pF)
  | .mat l => pL ("m" :: l.map pFs)

def pOI : Option Int → String
  | none => "none"
  | some i => toString i

def pOF : Option Float → String
  | none => "none"
  | some f => pF f

def pStep (s : Step) : String :=
  match s.id with
  | none => s!"({s.i})"
  | some j => s!"({s.i} {pOI j})"

def pIds : Option (List Step) → String
  | none => "none"
  | some l => pL (l.map pStep)

def pFsss (l : List (List (List Float))) : String := pL (l.map pFss)

def pErr (e : Err) : String := "(e " ++ e.str ++ ")"

def pPair (p : PV Float × PV Float) : String := s!"(p {pPV p.1} {pPV p.2})"

def pDump (m : M) : String :=
  s!"(d {pL (m.x.map pPV)} {pL (m.getY.map pPV)} {pL (m.id.map pOI)} {pNs m.info} {pOF m.k})"


/-! ### tuple indices, views, verbose events (Model/MonitorViews) -/

def parseSel : Val → Option Sel
  | .list [.sym "i", v] => do pure (.int (← v.asInt?))
  | .list [.sym "s", a, b, t] => do pure (.slice (← parseOptInt a) (← parseOptInt b) (← t.asInt?))
  | .list (.sym "l" :: vs) => do pure (.list (← vs.mapM Val.asInt?))
  | .list (.sym "p" :: vs) => do pure (.tup (← vs.mapM Val.asInt?))
  | _ => none

def pArr {α : Type} (p : α → String) : Arr α → String
  | .d0 v => p v
  | .d1 l => pL (l.map p)
  | .d2 l => pL (l.map (fun r => pL (r.map p)))
  | .d3 l => pL (l.map (fun q => pL (q.map (fun r => pL (r.map p)))))

def Arr.mapF (f : Float → Float) : Arr Float → Arr Float
  | .d0 v => .d0 (f v)
  | .d1 l => .d1 (l.map f)
  | .d2 l => .d2 (l.map (·.map f))
  | .d3 l => .d3 (l.map (·.map (·.map f)))

def pExL (r : Except Err (List (PV Float))) : String :=
  match r with
  | .ok l => pL (l.map pPV)
  | .error e => pErr e

def pView (r : Except Err (Option (List (List (List Float))))) : String :=
  match r with
  | .ok none => "none"
  | .ok (some v) => pFsss v
  | .error e => pErr e

def parseOptNat : Val → Option (Option Nat)
  | .sym "none" => some none
  | .int i => if 0 ≤ i then some (some i.toNat) else none
  | _ => none

def pEv (e : VEv Float) : String :=
  s!"({if e.isX then "x" else "y"} {e.gen} {pOI e.id} {pB e.best} {pPV e.val})"

def parseOptPV : Val → Option (Option (PV Float))
  | .sym "none" => some none
  | v => do pure (some (← parsePV v))

/-! ### the op interpreter: registers hold monitors -/

def getR (rs : Array M) (v : Val) : Option M := do
  let i ← v.asNat?
  rs[i]?

def setR (rs : Array M) (v : Val) (m : M) : Option (Array M) := do
  let i ← v.asNat?
  if i < rs.size then some (rs.set! i m) else none

/-- one op: new registers and the printed result; `none` = malformed request -/
def stepOp (rs : Array M) : Val → Option (Array M × String)
  | .list [.sym "new", r, k, l] => do
    let k ← parseOptFloat k
    let iv : Option Nat ← match l with
      | .sym "nolog" => some none
      | .int i => if 0 < i then some (some i.toNat) else some none
      | _ => none
    let rs ← setR rs r { k := k, interval := iv }
    pure (rs, "u")
  | .list [.sym "call", r, x, y, id] => do
    let m ← getR rs r
    let x ← parsePV x
    let y ← parsePV y
    let id ← parseOptInt id
    let out := match m.logOf x y id with
      | none => "u"
      | some w => s!"(w {w.step} {pOI w.id} {pPV w.y} {pPV w.x})"
    let rs ← setR rs r (m.call x y id)
    pure (rs, out)
  | .list [.sym "info", r, n] => do
    let m ← getR rs r
    let rs ← setR rs r (m.addInfo (← n.asNat?))
    pure (rs, "u")
  | .list [.sym "len", r] => do
    let m ← getR rs r
    pure (rs, s!"(n {m.len})")
  | .list [.sym "get", r, i] => do
    let m ← getR rs r
    match m.getItem (← i.asInt?) with
    | some p => pure (rs, pPair p)
    | none => pure (rs, pErr .index)
  | .list [.sym "slice", d, r, s, e, t] => do
    let m ← getR rs r
    let s ← parseOptInt s
    let e ← parseOptInt e
    let t ← parseOptInt t
    let step := t.getD 1
    if step = 0 then pure (rs, pErr .value) else
    let rs ← setR rs d (m.slice s e step)
    pure (rs, "u")
  | .list [.sym "lidx", d, r, idx] => do
    let m ← getR rs r
    let idx ← idx.asInts?
    match m.fancy (fun n => resolveIdx n idx) with
    | .ok m' => pure (← setR rs d m', "u")
    | .error e => pure (rs, pErr e)
  | .list [.sym "mask", d, r, mask] => do
    let m ← getR rs r
    let mask ← parseBools mask
    match m.fancy (fun n => maskIdx n mask) with
    | .ok m' => pure (← setR rs d m', "u")
    | .error e => pure (rs, pErr e)
  | .list [.sym "add", d, a, b] => do
    let ma ← getR rs a
    let mb ← getR rs b
    pure (← setR rs d (ma.add mb), "u")
  | .list [.sym "extend", a, b] => do
    let ma ← getR rs a
    let mb ← getR rs b
    pure (← setR rs a (ma.extend mb), "u")
  | .list [.sym "prepend", a, b] => do
    let ma ← getR rs a
    let mb ← getR rs b
    pure (← setR rs a (ma.prepend mb), "u")
  | .list [.sym "min", r] => do
    let m ← getR rs r
    match m.min with
    | .ok p => pure (rs, pPair p)
    | .error e => pure (rs, pErr e)
  | .list [.sym "dump", r] => do
    let m ← getR rs r
    pure (rs, pDump m)
  | .list [.sym "tidx", r, sels] => do
    let m ← getR rs r
    let sels ← (← sels.asList?).mapM parseSel
    match m.tuple sels with
    | .error e => pure (rs, pErr e)
    | .ok t =>
      let y := match m.k with
        | none => t.y
        | some k => Arr.mapF (· / k) t.y
      pure (rs, s!"(t {pArr pF t.x} {pArr pF y} {pArr pOI t.id})")
  | .list [.sym "views", r] => do
    let m ← getR rs r
    pure (rs, s!"(vw {pL (m.getX.map pPV)} {pExL m.getAx} {pL (m.getY.map pPV)} {pExL m.getAy} {pL (m.getId.map pOI)} {pNs m.getInfo})")
  | .list [.sym "mview", r, npts] => do
    let m ← getR rs r
    let np : Option (List Nat) ← match npts with
      | .sym "none" => some none
      | v => (v.asNats?).map some
    pure (rs, s!"(mv {pView (m.wtsView np)} {pView (m.posView np)})")
  | .list [.sym "callv", r, x, y, id, all, best, kflag, yint, xint] => do
    let m ← getR rs r
    let x ← parsePV x
    let y ← parsePV y
    let id ← parseOptInt id
    let all ← all.asBool?
    let best ← best.asInt?
    let kflag ← kflag.asBool?
    let yint ← parseOptNat yint
    let xint ← parseOptNat xint
    let rs ← setR rs r (m.call x y id)
    match m.logOfB all best kflag x y id with
    | .error e => pure (rs, s!"(cv {pErr e} none)")
    | .ok lg =>
      let out := match lg with
        | none => "u"
        | some w => s!"(w {w.step} {pOI w.id} {pPV w.y} {pPV w.x})"
      match m.verbOf yint xint all best kflag x y id with
      | .error e => pure (rs, s!"(cv {out} {pErr e})")
      | .ok evs => pure (rs, s!"(cv {out} {pL (evs.map pEv)})")
  | .list [.sym "wraw", r] => do
    let m ← getR rs r
    let f := m.writeRaw
    pure (rs, s!"(f {pIds f.ids} {pL (f.params.map pPV)} {pL (f.cost.map pPV)})")
  | .list [.sym "wsup", r] => do
    let m ← getR rs r
    match m.writeSupport with
    | some f => pure (rs, s!"(f {pIds f.ids} {pFsss f.params} {pL (f.cost.map pPV)})")
    | none => pure (rs, pErr .type)
  | .list [.sym "wconv", r] => do
    let m ← getR rs r
    match m.writeConverge with
    | some f => pure (rs, s!"(f {pIds f.ids} {pFsss f.params} {pL (f.cost.map pPV)})")
    | none => pure (rs, pErr .type)
  | .list [.sym "rhist", r] => do
    let m ← getR rs r
    match m.readHistory with
    | some f => pure (rs, s!"(f {pIds f.ids} {pFsss f.params} {pL (f.cost.map pPV)})")
    | none => pure (rs, pErr .type)
  | .list [.sym "rsup", r] => do          -- write_support_file then read_support_file(iter=True)
    let m ← getR rs r
    match m.supportRoundTrip with
    | some (.ok f) => pure (rs, s!"(f {pIds f.ids} {pFsss f.params} {pL (f.cost.map pPV)})")
    | some (.error e) => pure (rs, pErr e)
    | none => pure (rs, pErr .type)
  | .list [.sym "rconv", r] => do         -- write_converge_file then read_converge_file(iter=True)
    let m ← getR rs r
    match m.convergeRoundTrip with
    | some (.ok f) => pure (rs, s!"(f {pIds f.ids} {pFsss f.params} {pL (f.cost.map pPV)})")
    | some (.error e) => pure (rs, pErr e)
    | none => pure (rs, pErr .type)
  | _ => none

def runOps : Array M → List Val → List String → Option (List String)
  | _, [], acc => some acc.reverse
  | rs, op :: ops, acc =>
    match stepOp rs op with
    | none => none
    | some (rs', out) => runOps rs' ops (out :: acc)


/-! ### heap programs (Model/MonitorHeap): registers hold monitor OBJECTS -/

open MysticVerif.MonHeap in
structure HState where
  h : Heap Float
  rs : Array (Obj Float)

open MysticVerif.MonHeap in
def hGet (st : HState) (v : Val) : Option (Obj Float) := do
  let i ← v.asNat?
  st.rs[i]?

open MysticVerif.MonHeap in
def hSet (st : HState) (v : Val) (h : Heap Float) (o : Obj Float) : Option HState := do
  let i ← v.asNat?
  if i < st.rs.size then some { h := h, rs := st.rs.set! i o } else none

open MysticVerif.MonHeap in
def hStep (st : HState) : Val → Option (HState × String)
  | .list [.sym "new", r, k] => do
    let k ← parseOptFloat k
    let p := st.h.new k
    pure (← hSet st r p.1 p.2, "u")
  | .list [.sym "call", r, x, y, id] => do
    let o ← hGet st r
    pure ({ st with h := st.h.call o (← parsePV x) (← parsePV y) (← parseOptInt id) }, "u")
  | .list [.sym "info", r, n] => do
    let o ← hGet st r
    pure ({ st with h := st.h.info o (← n.asNat?) }, "u")
  | .list [.sym "slice", d, r, s, e, t] => do
    let o ← hGet st r
    let t := (← parseOptInt t).getD 1
    if t = 0 then pure (st, pErr .value) else
    let p := st.h.slice o (← parseOptInt s) (← parseOptInt e) t
    pure (← hSet st d p.1 p.2, "u")
  | .list [.sym "lidx", d, r, idx] => do
    let o ← hGet st r
    let idx ← idx.asInts?
    match st.h.fancy o (fun n => resolveIdx n idx) with
    | .ok p => pure (← hSet st d p.1 p.2, "u")
    | .error e => pure (st, pErr e)
  | .list [.sym "add", d, a, b] => do
    let p := st.h.add (← hGet st a) (← hGet st b)
    pure (← hSet st d p.1 p.2, "u")
  | .list [.sym "extend", a, b] => do
    pure ({ st with h := st.h.extend (← hGet st a) (← hGet st b) }, "u")
  | .list [.sym "prepend", a, b] => do
    pure ({ st with h := st.h.prepend (← hGet st a) (← hGet st b) }, "u")
  | .list [.sym "min", r] => do
    let o ← hGet st r
    match (st.h.view o).min with
    | .ok p => pure (st, pPair p)
    | .error e => pure (st, pErr e)
  | .list [.sym "get", r, i] => do
    let o ← hGet st r
    match (st.h.view o).getItem (← i.asInt?) with
    | some p => pure (st, pPair p)
    | none => pure (st, pErr .index)
  | .list [.sym "handover", s, r, nw] => do
    let p := st.h.handOver (← hGet st s) (some (← hGet st r)) (← nw.asBool?)
    pure (← hSet st s p.1 p.2, "u")
  | .list [.sym "handnull", s, nw] => do
    let p := st.h.handOver (← hGet st s) none (← nw.asBool?)
    pure (← hSet st s p.1 p.2, "u")
  | .list [.sym "dump", r] => do
    let o ← hGet st r
    pure (st, pDump (st.h.view o))
  | .list [.sym "probe", r, tag] => do       -- one more record and one more info line through register r; the lengths everyone shows
    let o ← hGet st r
    let t ← tag.asNat?
    let f := Float.ofNat t
    let h := (st.h.call o (.sc f) (.sc f) none).info o t
    let st' := { st with h := h }
    let lens := st'.rs.toList.map (fun q => s!"({(h.view q).len} {(h.view q).y.length} {(h.view q).id.length} {(h.view q).info.length})")
    pure (st', pL lens)
  | _ => none

def hRun : HState → List Val → List String → Option (List String)
  | _, [], acc => some acc.reverse
  | st, op :: ops, acc =>
    match hStep st op with
    | none => none
    | some (st', out) => hRun st' ops (out :: acc)

open MysticVerif.MonHeap in
def hInit : Nat → HState → HState
  | 0, st => st
  | n + 1, st => let p := st.h.new none; hInit n { h := p.1, rs := st.rs.push p.2 }

def codes (v : Val) : Option (List Char) := do
  let l ← v.asNats?
  pure (l.map Char.ofNat)

def pCodes (s : List Char) : String := pNs (s.map Char.toNat)

/-- is `line` of the form `printLine s y x` with fields that satisfy the hypotheses of `logline_roundtrip`? -/
def lineGood (line : List Char) : Bool :=
  match split3 line with
  | [a, b, c] =>
    match a, b with
    | ' ' :: ' ' :: s, ' ' :: ' ' :: y => tokOK s && tokOK y && tailOK c && printLine s y c == line
    | _, _ => false
  | _ => false

def handle : Handler
  | .sym "prog" :: args => Id.run do
    let some ops := (kw? args "ops").bind Val.asList? | return "bad-op"
    let nreg := ((kw? args "nreg").bind Val.asNat?).getD 4
    match runOps (Array.replicate nreg ({} : M)) ops [] with
    | some outs => return "ok r=" ++ pL outs
    | none => return "bad-op"
  | .sym "fmt" :: args => Id.run do        -- raw_to_converge / raw_to_support on arbitrary recorded values
    let some st := (kw? args "steps").bind Val.asList? | return "bad-op"
    let some steps := st.mapM parsePV | return "bad-op"
    let p := fun (r : Except Err (List (List (List Float)))) => match r with
      | .ok v => pFsss v
      | .error e => pErr e
    return s!"ok conv={p (rawToConvergePV steps)} sup={p (rawToSupportPV steps)}"
  | .sym "loghist" :: args => Id.run do    -- a LoggingMonitor over a call sequence, its file read by read_history
    let some k := (kw? args "k").bind parseOptFloat | return "bad-op"
    let some iv := (kw? args "iv").bind Val.asNat? | return "bad-op"
    let some cs := (kw? args "calls").bind Val.asList? | return "bad-op"
    let some calls := cs.mapM (fun c => match c with
      | .list [x, y, id] => do pure ((← parsePV x), (← parsePV y), (← parseOptInt id))
      | _ => none) | return "bad-op"
    let rows := logRun ({ k := k, interval := (if iv = 0 then none else some iv) } : M) calls
    let prow := fun (w : LogRec Float) => s!"(w {w.step} {pOI w.id} {pPV w.y} {pPV w.x})"
    let hist := match readLogHistory rows with
      | .ok (ids, p) => s!"(h {pIds (some ids)} {pFsss p})"
      | .error e => pErr e
    return s!"ok rows={pL (rows.map prow)} hist={hist}"
  | .sym "pidsl" :: args => Id.run do      -- _process_ids(mon.id, n)
    let some ids := (kw? args "ids").bind Val.asList? | return "bad-op"
    let some ids := ids.mapM parseOptInt | return "bad-op"
    let some n := (kw? args "n").bind Val.asNat? | return "bad-op"
    return "ok s=" ++ pIds (some (processIdsL ids n))
  | .sym "idfile" :: args => Id.run do     -- the `id` entry of a parameter file: what is written, what is read back
    let some ids := (kw? args "ids").bind Val.asList? | return "bad-op"
    let some ids := ids.mapM parseOptInt | return "bad-op"
    let n := ids.length
    let w := match idsWritten ids with
      | .absent => "absent"
      | .single v => s!"(single {pOI v})"
      | .many l => pL ("many" :: l.map pOI)
    let back := processIds (idsWritten ids) n
    return s!"ok w={w} s={pIds back} col={pL ((idColumn back n).map pOI)} it={pNs (perIdIter ids)}"
  | .sym "hprog" :: args => Id.run do
    let some ops := (kw? args "ops").bind Val.asList? | return "bad-op"
    let nreg := ((kw? args "nreg").bind Val.asNat?).getD 5
    match hRun (hInit nreg { h := {}, rs := #[] }) ops [] with
    | some outs => return "ok r=" ++ pL outs
    | none => return "bad-op"
  | .sym "cmon" :: args => Id.run do      -- CustomMonitor: `n` declared fields, every call a list of optional values
    let some n := (kw? args "n").bind Val.asNat? | return "bad-op"
    let some cs := (kw? args "calls").bind Val.asList? | return "bad-op"
    let some calls := cs.mapM (fun c => c.asList?.bind (·.mapM parseOptPV)) | return "bad-op"
    let c := (CMon.new n : CMon (PV Float)).calls calls
    return "ok f=" ++ pL (c.fields.map (fun f => pL (f.map pPV)))
  | .sym "sliceidx" :: args => Id.run do   -- `range(*slice(s, e, t).indices(n))`
    let some n := (kw? args "n").bind Val.asNat? | return "bad-op"
    let some s := (kw? args "s").bind parseOptInt | return "bad-op"
    let some e := (kw? args "e").bind parseOptInt | return "bad-op"
    let some t := (kw? args "t").bind Val.asInt? | return "bad-op"
    if t = 0 then return "err value"
    return "ok i=" ++ pNs (sliceIdx n s e t)
  | .sym "split" :: args => Id.run do
    let some s := (kw? args "s").bind codes | return "bad-op"
    return "ok p=" ++ pL ((split3 s).map pCodes)
  | .sym "logline" :: args => Id.run do
    let some s := (kw? args "s").bind codes | return "bad-op"
    return s!"ok p={pL ((split3 s).map pCodes)} good={pB (lineGood s)}"
  | _ => "bad-op"

end MysticVerif.DrvC20
