/- driver for C09 (ensemble solvers: point generators and bookkeeping), Float instantiation of Model/Ensemble -/
import MysticVerif.Basic.Proto
import MysticVerif.Model.Ensemble

namespace MysticVerif.DrvC09
open MysticVerif MysticVerif.Ens

instance : NatCast Float := ⟨Float.ofNat⟩

def parseFss (v : Val) : Option (List (List Float)) := do
  let l ← v.asList?
  l.mapM Val.asFloats?

def showErr : Ens.Err → String
  | .index => "err index"
  | .zerodiv => "err zerodiv"
  | .type => "err type"
  | .value => "err value"
  | .runtime => "err runtime"

def parseOptNat : Val → Option (Option Nat)
  | .sym "none" => some none
  | v => (v.asNat?).map some

/-- `(e x evals gens id)` -/
def parseMember : Val → Option (Member (List Float) Float)
  | .list [e, x, ev, g, i] => do
    pure ⟨← e.asFloat?, ← x.asFloats?, ← ev.asNat?, ← g.asNat?, ← i.asNat?⟩
  | _ => none

def showMember (m : Member (List Float) Float) : String :=
  s!"id={m.id} e={pF m.bestE} x={pFs m.bestX} evals={m.evals} gens={m.gens}"

/-- state of a (nested / member) solver as far as the template model is concerned -/
structure SolverSt where
  evals : Nat
  gens : Nat
  id : Option Nat

def showSt (s : SolverSt) : String :=
  let i : Int := match s.id with | some i => (i : Int) | none => -1
  s!"({s.evals} {s.gens} {i})"

def parsePair : Val → Option (Nat × Nat)
  | .list [a, b] => do pure (← a.asNat?, ← b.asNat?)
  | _ => none

/-- `(at n ((evals gens) ...))`: one new ensemble built on the template, with the members' REAL final counters -/
def parseEns : Val → Option (Nat × Nat × List (Nat × Nat))
  | .list [a, n, res] => do
    let l ← res.asList?
    pure (← a.asNat?, ← n.asNat?, ← l.mapM parsePair)
  | _ => none

/-- consecutive new ensembles on the template at address `t`; returns the final store and the member addresses -/
def runEnsembles (t : Nat) : Store SolverSt → List (Nat × Nat × List (Nat × Nat)) → Store SolverSt × List (List Nat)
  | h, [] => (h, [])
  | h, (at_, n, res) :: rest =>
    let ra := res.toArray
    let r := solveNew (fun (s : SolverSt) i => { s with id := some i })
      (fun i (s : SolverSt) => match ra[i]? with
        | some (e, g) => { s with evals := e, gens := g }
        | none => s) t at_ n h
    let r2 := runEnsembles t r.1 rest
    (r2.1, r.2 :: r2.2)

def handle : Handler
  | .sym "dsamples" :: args => Id.run do
    -- random_samples / samplepts with a distribution: initial draw (dim x npts) and the recorded redraw calls
    let some lb := (kw? args "lb").bind Val.asFloats? | return "bad-op"
    let some ub := (kw? args "ub").bind Val.asFloats? | return "bad-op"
    let some npts := (kw? args "npts").bind Val.asNat? | return "bad-op"
    let some clip := (kw? args "clip").bind Val.asBool? | return "bad-op"
    let some tr := (kw? args "T").bind Val.asBool? | return "bad-op"
    let some init := (kw? args "init").bind parseFss | return "bad-op"
    let some calls := (kw? args "calls").bind parseFss | return "bad-op"
    let ca := (calls.map List.toArray).toArray
    let draw : Nat → Nat → Float := fun c k => (ca.getD c #[]).getD k 0.0
    let r := if tr then sampleptsDist draw lb ub npts init 1000 else randomSamplesDist draw lb ub init clip 1000
    match r with
    | .error e => return showErr e
    | .ok (c, pts) => return s!"ok n={pts.length} calls={c} pts={pFss pts}"
  | .sym "template" :: args => Id.run do
    let some t0 := (kw? args "t").bind parsePair | return "bad-op"
    let some ens := (kw? args "ens").bind Val.asList? |>.bind (·.mapM parseEns) | return "bad-op"
    -- address 0 = the configured nested solver instance handed to SetNestedSolver
    let h0 : Store SolverSt := ⟨fun _ => ⟨t0.1, t0.2, none⟩, 1⟩
    let r := runEnsembles 0 h0 ens
    let states := r.2.map fun ms => pL (ms.map fun a => showSt (r.1.get a))
    return s!"ok tmpl={showSt (r.1.get 0)} next={r.1.next} members={pL (r.2.map pNs)} states={pL states}"
  | .sym "grid" :: args => Id.run do
    let some q := (kw? args "q").bind parseFss | return "bad-op"
    match gridpts q with
    | none => return "err index"
    | some pts => return s!"ok n={pts.length} pts={pFss pts}"
  | .sym "lattice" :: args => Id.run do
    let some dim := (kw? args "dim").bind Val.asNat? | return "bad-op"
    let some lo := (kw? args "lower").bind Val.asFloats? | return "bad-op"
    let some hi := (kw? args "upper").bind Val.asFloats? | return "bad-op"
    let some nb := (kw? args "nbins").bind Val.asNats? | return "bad-op"
    let some strict := (kw? args "strict").bind Val.asBool? | return "bad-op"
    match latticePoints (!strict) dim lo hi nb with
    | .error e => return showErr e
    | .ok pts => return s!"ok n={pts.length} pts={pFss pts}"
  | .sym "latticeN" :: args => Id.run do
    -- ensemble.py l.61-65: an integer `nbins` goes through `randomly_bin(nbins, nDim, ones=True, exact=True)` first
    let some n := (kw? args "N").bind Val.asNat? | return "bad-op"
    let some dim := (kw? args "dim").bind Val.asNat? | return "bad-op"
    let some lo := (kw? args "lower").bind Val.asFloats? | return "bad-op"
    let some hi := (kw? args "upper").bind Val.asFloats? | return "bad-op"
    let some keys := (kw? args "keys").bind Val.asFloats? | return "bad-op"
    let some strict := (kw? args "strict").bind Val.asBool? | return "bad-op"
    let ka := keys.toArray
    match randomlyBin (fun i => ka.getD i 0.0) n (some dim) true true with
    | .typeError => return "err type"
    | .ok bins draws =>
      match latticePoints (!strict) dim lo hi bins with
      | .error e => return showErr e
      | .ok pts => return s!"ok n={pts.length} draws={draws} bins={pNs bins} pts={pFss pts}"
  | .sym "samples" :: args => Id.run do
    let some lb := (kw? args "lb").bind Val.asFloats? | return "bad-op"
    let some ub := (kw? args "ub").bind Val.asFloats? | return "bad-op"
    let some npts := (kw? args "npts").bind Val.asNat? | return "bad-op"
    let some us := (kw? args "us").bind parseFss | return "bad-op"
    match samplepts lb ub npts us with
    | .error e => return showErr e
    | .ok pts => return s!"ok n={pts.length} pts={pFss pts}"
  | .sym "rbin" :: args => Id.run do
    let some n := (kw? args "N").bind Val.asNat? | return "bad-op"
    let some ndim := (kw? args "ndim").bind parseOptNat | return "bad-op"
    let some ones := (kw? args "ones").bind Val.asBool? | return "bad-op"
    let some exact := (kw? args "exact").bind Val.asBool? | return "bad-op"
    let some keys := (kw? args "keys").bind Val.asFloats? | return "bad-op"
    let ka := keys.toArray
    match randomlyBin (fun i => ka.getD i 0.0) n ndim ones exact with
    | .typeError => return "err type"
    | .ok bins draws => return s!"ok bins={pNs bins} draws={draws}"
  | .sym "best" :: args => Id.run do
    let some ms := (kw? args "members").bind Val.asList? |>.bind (·.mapM parseMember) | return "bad-op"
    let some pv := kw? args "prev" | return "bad-op"
    let prev : Option (Option (Member (List Float) Float)) :=
      match pv with
      | .sym "none" => some none
      | v => (parseMember v).map some
    let some prev := prev | return "bad-op"
    match updateBest prev ms with
    | none => return "err index"
    | some b =>
      return s!"ok {showMember b} total={totalEvals ms} iters={totalIters ms} all={pNs (allEvals ms)} n={ms.length}"
  | .sym "count" :: args => Id.run do
    let c : Option Count :=
      match kw? args "npts", kw? args "nbinsInt", kw? args "nbins" with
      | some v, _, _ => v.asNat?.map Count.npts
      | _, some v, _ => v.asNat?.map Count.nbinsInt
      | _, _, some v => v.asNats?.map Count.nbinsTuple
      | _, _, _ => none
    let some c := c | return "bad-op"
    match memberCount c with
    | none => return "err type"
    | some n => return s!"ok n={n}"
  | _ => "bad-op"

end MysticVerif.DrvC09
