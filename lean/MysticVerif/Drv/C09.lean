/- driver for C09 (ensemble solvers: point generators and bookkeeping), Float instantiation of Model/Ensemble -/
import MysticVerif.Basic.Proto
import MysticVerif.Model.Ensemble

namespace MysticVerif.DrvC09
open MysticVerif MysticVerif.Ens

instance : NatCast Float := ⟨Float.ofNat⟩

def parseFss (v : Val) : Option (List (List Float)) := do
  let l ← v.asList?
  l.mapM Val.asFloats?

def showErr : Ens.Err → String
  | .index => "err index"
  | .zerodiv => "err zerodiv"
  | .type => "err type"

def parseOptNat : Val → Option (Option Nat)
  | .sym "none" => some none
  | v => (v.asNat?).map some

/-- `(e x evals gens id)` -/
def parseMember : Val → Option (Member (List Float) Float)
  | .list [e, x, ev, g, i] => do
    pure ⟨← e.asFloat?, ← x.asFloats?, ← ev.asNat?, ← g.asNat?, ← i.asNat?⟩
  | _ => none

def showMember (m : Member (List Float) Float) : String :=
  s!"id={m.id} e={pF m.bestE} x={pFs m.bestX} evals={m.evals} gens={m.gens}"

def handle : Handler
  | .sym "grid" :: args => Id.run do
    let some q := (kw? args "q").bind parseFss | return "bad-op"
    match gridpts q with
    | none => return "err index"
    | some pts => return s!"ok n={pts.length} pts={pFss pts}"
  | .sym "lattice" :: args => Id.run do
    let some dim := (kw? args "dim").bind Val.asNat? | return "bad-op"
    let some lo := (kw? args "lower").bind Val.asFloats? | return "bad-op"
    let some hi := (kw? args "upper").bind Val.asFloats? | return "bad-op"
    let some nb := (kw? args "nbins").bind Val.asNats? | return "bad-op"
    let some strict := (kw? args "strict").bind Val.asBool? | return "bad-op"
    match latticePoints (!strict) dim lo hi nb with
    | .error e => return showErr e
    | .ok pts => return s!"ok n={pts.length} pts={pFss pts}"
  | .sym "latticeN" :: args => Id.run do
    -- ensemble.py l.61-65: an integer `nbins` goes through `randomly_bin(nbins, nDim, ones=True, exact=True)` first
    let some n := (kw? args "N").bind Val.asNat? | return "bad-op"
    let some dim := (kw? args "dim").bind Val.asNat? | return "bad-op"
    let some lo := (kw? args "lower").bind Val.asFloats? | return "bad-op"
    let some hi := (kw? args "upper").bind Val.asFloats? | return "bad-op"
    let some keys := (kw? args "keys").bind Val.asFloats? | return "bad-op"
    let some strict := (kw? args "strict").bind Val.asBool? | return "bad-op"
    let ka := keys.toArray
    match randomlyBin (fun i => ka.getD i 0.0) n (some dim) true true with
    | .typeError => return "err type"
    | .ok bins draws =>
      match latticePoints (!strict) dim lo hi bins with
      | .error e => return showErr e
      | .ok pts => return s!"ok n={pts.length} draws={draws} bins={pNs bins} pts={pFss pts}"
  | .sym "samples" :: args => Id.run do
    let some lb := (kw? args "lb").bind Val.asFloats? | return "bad-op"
    let some ub := (kw? args "ub").bind Val.asFloats? | return "bad-op"
    let some npts := (kw? args "npts").bind Val.asNat? | return "bad-op"
    let some us := (kw? args "us").bind parseFss | return "bad-op"
    match samplepts lb ub npts us with
    | .error e => return showErr e
    | .ok pts => return s!"ok n={pts.length} pts={pFss pts}"
  | .sym "rbin" :: args => Id.run do
    let some n := (kw? args "N").bind Val.asNat? | return "bad-op"
    let some ndim := (kw? args "ndim").bind parseOptNat | return "bad-op"
    let some ones := (kw? args "ones").bind Val.asBool? | return "bad-op"
    let some exact := (kw? args "exact").bind Val.asBool? | return "bad-op"
    let some keys := (kw? args "keys").bind Val.asFloats? | return "bad-op"
    let ka := keys.toArray
    match randomlyBin (fun i => ka.getD i 0.0) n ndim ones exact with
    | .typeError => return "err type"
    | .ok bins draws => return s!"ok bins={pNs bins} draws={draws}"
  | .sym "best" :: args => Id.run do
    let some ms := (kw? args "members").bind Val.asList? |>.bind (·.mapM parseMember) | return "bad-op"
    let some pv := kw? args "prev" | return "bad-op"
    let prev : Option (Option (Member (List Float) Float)) :=
      match pv with
      | .sym "none" => some none
      | v => (parseMember v).map some
    let some prev := prev | return "bad-op"
    match updateBest prev ms with
    | none => return "err index"
    | some b =>
      return s!"ok {showMember b} total={totalEvals ms} iters={totalIters ms} all={pNs (allEvals ms)} n={ms.length}"
  | .sym "count" :: args => Id.run do
    let c : Option Count :=
      match kw? args "npts", kw? args "nbinsInt", kw? args "nbins" with
      | some v, _, _ => v.asNat?.map Count.npts
      | _, some v, _ => v.asNat?.map Count.nbinsInt
      | _, _, some v => v.asNats?.map Count.nbinsTuple
      | _, _, _ => none
    let some c := c | return "bad-op"
    match memberCount c with
    | none => return "err type"
    | some n => return s!"ok n={n}"
  | _ => "bad-op"

end MysticVerif.DrvC09
