/- driver for C08: Float instantiation of Model/Strategy (the ten DE strategies), of the reference / mystic
Nelder-Mead loops (Model/RefFmin) and of Powell's direction-set bookkeeping (Model/Powell); the shared
solver commands `de`, `nm`, `ctl` are forwarded to Drv/SolverDrv -/
import MysticVerif.Basic.Proto
import MysticVerif.Model.Dsl
import MysticVerif.Model.Strategy
import MysticVerif.Model.RefFmin
import MysticVerif.Model.NMInit
import MysticVerif.Model.Powell
import MysticVerif.Model.Brent
import MysticVerif.Drv.SolverDrv

namespace MysticVerif.DrvC08
open MysticVerif MysticVerif.Strategy MysticVerif.Solver

def parseName : String → Option Name
  | "Best1Exp" => some .Best1Exp | "Best1Bin" => some .Best1Bin | "Rand1Exp" => some .Rand1Exp
  | "RandToBest1Exp" => some .RandToBest1Exp | "Best2Exp" => some .Best2Exp | "Rand2Exp" => some .Rand2Exp
  | "Rand1Bin" => some .Rand1Bin | "RandToBest1Bin" => some .RandToBest1Bin | "Best2Bin" => some .Best2Bin
  | "Rand2Bin" => some .Rand2Bin
  | _ => none

def asFloatss? (v : Val) : Option (List (List Float)) := do
  let l ← v.asList?
  l.mapM Val.asFloats?

/-- `strat (name N) (map b) (cand c) (np n) (nd d) (F f) (CR f) (pop ((..)..)) (best (..)) (trial ((..)..))
          (ps (..)) (n k) (us (..))` -/
def handleStrat (args : List Val) : String := Id.run do
  let some nm := (kw? args "name").bind Val.asSym? |>.bind parseName | return "bad-op"
  let some mp := (kw? args "map").bind Val.asBool? | return "bad-op"
  let some cand := (kw? args "cand").bind Val.asNat? | return "bad-op"
  let some np := (kw? args "np").bind Val.asNat? | return "bad-op"
  let some nd := (kw? args "nd").bind Val.asNat? | return "bad-op"
  let some f := (kw? args "F").bind Val.asFloat? | return "bad-op"
  let some cr := (kw? args "CR").bind Val.asFloat? | return "bad-op"
  let some pop := (kw? args "pop").bind asFloatss? | return "bad-op"
  let some best := (kw? args "best").bind Val.asFloats? | return "bad-op"
  let some trial := (kw? args "trial").bind asFloatss? | return "bad-op"
  let some ps := (kw? args "ps").bind Val.asNats? | return "bad-op"
  let some n0 := (kw? args "n").bind Val.asNat? | return "bad-op"
  let some us := (kw? args "us").bind Val.asFloats? | return "bad-op"
  let I : Inst Float := { pop := pop, best := best, scale := f, prob := cr, nDim := nd, nPop := np,
                          mapSolver := mp, trial := trial }
  let r := trialOf nm I cand ps n0 us
  let I' := call nm I cand ps n0 us
  let rs := getRandomCandidates np cand (ps.take nm.kind.ncand)
  let cross := match nm.cross with | .exp => "exp" | .bin => "bin"
  return s!"ok trial={pFss I'.trial} rs={pNs rs} used={r.2} cross={cross} namedbin={pB nm.namedBin}"

/-! ### Nelder-Mead: `fmin (which ref|mystic) (cost (scalar e)) (x0 (..)) (xtol f) (ftol f) (maxiter n) (maxfun n)
                          (zdelt f) (radius f)` -/

/-- `max(ravel(abs(sim[1:]-sim[0]))) <= xtol and max(abs(fsim[0]-fsim[1:])) <= ftol`: Model/NMInit.lean `crtConv` at Float -/
def convF (xtol ftol : Float) (sim : List (List Float × Float)) : Bool :=
  crtConv Float.abs Float.abs xtol ftol sim

/-- the exact-zero test of both programs at Float: `y != 0` / `val == 0` (both signed zeros, nothing else) -/
def isZeroF (v : Float) : Bool := v == 0.0

/-- reference l.196-201: `(1+nonzdelt)*y[k]` if `y[k] != 0` else `zdelt` (Model/NMInit.lean `refInitVal`, nonzdelt = 0.05) -/
def refVal (nonzdelt zdelt : Float) (x0 : List Float) : List Float :=
  refInitVal isZeroF 1.0 nonzdelt zdelt x0

/-- mystic l.136-137: `val = x0*(1+radius); val[val==0] = radius**2 * 0.1` (Model/NMInit.lean `mysticInitVal`) -/
def mysticVal (radius : Float) (x0 : List Float) : List Float :=
  mysticInitVal isZeroF 1.0 radius 0.1 x0

def hasTie (sim : List (List Float × Float)) : Bool :=
  let es := sim.map Prod.snd
  es.any fun e => (es.filter (· == e)).length > 1

/-- did any simplex of the run carry two equal energies?  (replays `sim_{k+1} = sort (body sim_k)`) -/
def tieScan (f : List Float → Float) (c : Coef Float) (mkVal : List Float → List Float) (x0 : List Float) (n : Nat) : Bool := Id.run do
  let mut sim := sortByE ((x0, f x0) :: refRows f x0 (mkVal x0) 0)
  let mut t := hasTie sim
  for _ in [0:n] do
    sim := sortByE (refBody f c sim).1
    t := t || hasTie sim
  return t

def handleFmin (args : List Val) : String := Id.run do
  let some which := (kw? args "which").bind Val.asSym? | return "bad-op"
  let some cost := (kw? args "cost").bind SolverDrv.parseCost | return "bad-op"
  let some x0 := (kw? args "x0").bind Val.asFloats? | return "bad-op"
  let some xtol := (kw? args "xtol").bind Val.asFloat? | return "bad-op"
  let some ftol := (kw? args "ftol").bind Val.asFloat? | return "bad-op"
  let some maxiter := (kw? args "maxiter").bind Val.asNat? | return "bad-op"
  let some maxfun := (kw? args "maxfun").bind Val.asNat? | return "bad-op"
  let some zdelt := (kw? args "zdelt").bind Val.asFloat? | return "bad-op"
  let some radius := (kw? args "radius").bind Val.asFloat? | return "bad-op"
  -- `(adaptive true)`: the coefficient selection of `_Step` (Model/NMInit.lean `mysticCoef`) at Float; both programs
  -- get the same set ("the reference with the published adaptive coefficients")
  let adaptive := ((kw? args "adaptive").bind Val.asBool?).getD false
  let c : Coef Float := mysticCoef 1.0 2.0 0.5 0.75 adaptive (Float.ofNat x0.length)
  -- ties between energies make the order `numpy.argsort` returns unspecified: report them (every sorted simplex
  -- passes through the convergence oracle)
  let su : SolverDrv.Setup := { cost := cost, pen := none, cons := none, box := none }
  let out : FminOut Float Float × Bool :=
    if which == "ref" then
      let r := refFmin cost.eval c (convF xtol ftol) (refVal radius zdelt) x0 maxiter maxfun
      (r, tieScan cost.eval c (refVal radius zdelt) x0 (r.iterations - 1))
    else
      let r := mysticFmin su.obj c 0.0 (convF xtol ftol) (mysticVal radius) x0 maxiter maxfun
      (r, tieScan (fun y => cost.eval y + 0.0) c (mysticVal radius) x0 (r.iterations - 1))
  let r := out.1
  let x := (r.sim.head?.map Prod.fst).getD []
  let fhead := (r.sim.head?.map Prod.snd).getD (0.0 / 0.0)
  let fmin := (minE (r.sim.map Prod.snd)).getD (0.0 / 0.0)
  return s!"ok x={pFs x} fval={pF fhead} fmin={pF fmin} iter={r.iterations} fcalls={r.funcalls} warn={r.warnflag} tie={pB out.2} fsim={pFs (r.sim.map Prod.snd)}"

/-! ### Powell: `powell (which ref|mystic) (x0 (..)) (direc ((..)..)) (ftol f) (maxiter n) (maxfun n) (fuel n)
     (ls (((p..) (xi..) fret (x..) (xi..) ncalls) ..)) (fx (((x..) y) ..))`
the line searches and the cost values are TABLES recorded from the real run (keys compared bit for bit); a miss
poisons the run with NaN and shows up as a diverging request log -/

def bitsEq (a b : List Float) : Bool := a.map Float.toBits == b.map Float.toBits

structure LsRow where
  p : List Float
  xi : List Float
  out : Powell.LsOut Float Float

def parseLsRow : Val → Option LsRow
  | .list [p, xi, fret, x, xi', .int n] => do
    pure { p := ← p.asFloats?, xi := ← xi.asFloats?,
           out := { fret := ← fret.asFloat?, x := ← x.asFloats?, xi := ← xi'.asFloats?, ncalls := n.toNat } }
  | _ => none

def parseFxRow : Val → Option (List Float × Float)
  | .list [x, y] => do pure (← x.asFloats?, ← y.asFloat?)
  | _ => none

def nan : Float := 0.0 / 0.0

def pReqs (l : List (List Float × List Float)) : String :=
  "(" ++ " ".intercalate (l.map fun r => "(" ++ pFs r.1 ++ " " ++ pFs r.2 ++ ")") ++ ")"

def handlePowell (args : List Val) : String := Id.run do
  let some which := (kw? args "which").bind Val.asSym? | return "bad-op"
  let some x0 := (kw? args "x0").bind Val.asFloats? | return "bad-op"
  let some direc := (kw? args "direc").bind asFloatss? | return "bad-op"
  let some ftol := (kw? args "ftol").bind Val.asFloat? | return "bad-op"
  let some maxiter := (kw? args "maxiter").bind Val.asNat? | return "bad-op"
  let some maxfun := (kw? args "maxfun").bind Val.asNat? | return "bad-op"
  let some fuel := (kw? args "fuel").bind Val.asNat? | return "bad-op"
  let some lsT := (kw? args "ls").bind Val.asList? |>.bind (·.mapM parseLsRow) | return "bad-op"
  let some fxT := (kw? args "fx").bind Val.asList? |>.bind (·.mapM parseFxRow) | return "bad-op"
  let ls : List Float → List Float → Powell.LsOut Float Float := fun p xi =>
    match lsT.find? (fun r => bitsEq r.p p && bitsEq r.xi xi) with
    | some r => r.out
    | none => { fret := nan, x := p, xi := xi, ncalls := 0 }
  let f : List Float → Float := fun x =>
    match fxT.find? (fun r => bitsEq r.1 x) with
    | some r => r.2
    | none => nan
  let conv : Float → Float → Bool := fun fx fval =>
    fx == fval || decide (2.0 * (fx - fval) ≤ ftol * (fx.abs + fval.abs) + 1e-20)
  let c : Powell.Cfg Float Float := { ls := ls, f := f, conv := conv, two := 2.0, twoE := 2.0, zeroE := 0.0,
                                      maxiter := maxiter, maxfun := maxfun }
  let r := if which == "ref" then Powell.refPowell c fuel x0 direc else Powell.mysticPowell c fuel x0 direc
  match r with
  | none => return "err fuel"
  | some o =>
    let s := o.st
    return s!"ok x={pFs s.x} fval={pF s.fval} iter={s.iter} fcalls={s.fcalls} warn={o.warnflag} direc={pFss s.direc} reqs={pReqs s.reqs} exts={pFss s.exts}"

/-! ### Brent: the Float instantiation of Model/Brent.lean

`bracket (cost (scalar e)) (box none|((lo..) (hi..))) (xa f) (xb f) (grow f) (maxiter n)`   (1-D: `func(a) = cost([a])`)
`brent (mode direct|along) (cost ..) (box ..) (plus0 b) (p (..)) (xi (..)) (brack none|bad|(a b)|(a b c)) (tol f)
       (maxiter n) (bmax n)`    (`direct`: `func(a) = cost([a])`; `along`: `_linesearch_powell`, `func(a) = cost(p + a*xi)`)
`powellb (which ref|mystic) (cost ..) (x0 (..)) (direc ((..)..)) (xtol f) (ftol f) (maxiter n) (maxfun n) (imax n) (fuel n)`
   a whole `fmin_powell` run from `x0` alone: the line searches are the modelled Brent, the cost is the DSL twin -/

def brentK (grow : Float) : Brent.K Float := Brent.floatK grow

def posInf : Float := 1.0 / 0.0

/-- strict ranges as mystic's `wrap_bounds` applies them: outside `lo < x < hi` (any coordinate) the cost is `inf` -/
def boxed (box : Option (List Float × List Float)) (f : List Float → Float) (x : List Float) : Float :=
  match box with
  | none => f x
  | some (lo, hi) =>
    if (List.zipWith (fun v l => decide (l < v)) x lo).all id && (List.zipWith (fun v h => decide (v < h)) x hi).all id
    then f x else posInf

def parseBox2 : Val → Option (Option (List Float × List Float))
  | .sym "none" => some none
  | .list [lo, hi] => do pure (some (← lo.asFloats?, ← hi.asFloats?))
  | _ => none

def pLog (l : Brent.Log Float) : String :=
  "(" ++ " ".intercalate (l.map fun e => "(" ++ pF e.1 ++ " " ++ pF e.2 ++ ")") ++ ")"

def errName : Brent.Err → String
  | .tooMany => "tooMany" | .notBracketX => "notBracketX" | .notBracketF => "notBracketF" | .badBrack => "badBrack"
  | .unbound => "unbound" | .fuel => "fuel"

def handleBracket (args : List Val) : String := Id.run do
  let some cost := (kw? args "cost").bind SolverDrv.parseCost | return "bad-op"
  let some box := (kw? args "box").bind parseBox2 | return "bad-op"
  let some xa := (kw? args "xa").bind Val.asFloat? | return "bad-op"
  let some xb := (kw? args "xb").bind Val.asFloat? | return "bad-op"
  let some grow := (kw? args "grow").bind Val.asFloat? | return "bad-op"
  let some maxiter := (kw? args "maxiter").bind Val.asNat? | return "bad-op"
  let f : Float → Float := fun a => boxed box cost.eval [a]
  match Brent.bracket (brentK grow) f xa xb maxiter (maxiter + 2) with
  | .ok b => return s!"ok exc=none xa={pF b.xa} xb={pF b.xb} xc={pF b.xc} fa={pF b.fa} fb={pF b.fb} fc={pF b.fc} n={b.funcalls} log={pLog b.log}"
  | .error e => return s!"ok exc={errName e.1} log={pLog e.2}"

def parseBrack : Val → Option (Brent.Brack Float)
  | .sym "none" => some .none
  | .sym "bad" => some .bad
  | .list [a, b] => do pure (.two (← a.asFloat?) (← b.asFloat?))
  | .list [a, b, c] => do pure (.three (← a.asFloat?) (← b.asFloat?) (← c.asFloat?))
  | _ => none

def handleBrent (args : List Val) : String := Id.run do
  let some mode := (kw? args "mode").bind Val.asSym? | return "bad-op"
  let some cost := (kw? args "cost").bind SolverDrv.parseCost | return "bad-op"
  let some box := (kw? args "box").bind parseBox2 | return "bad-op"
  let some plus0 := (kw? args "plus0").bind Val.asBool? | return "bad-op"
  let some p := (kw? args "p").bind Val.asFloats? | return "bad-op"
  let some xi := (kw? args "xi").bind Val.asFloats? | return "bad-op"
  let some brack := (kw? args "brack").bind parseBrack | return "bad-op"
  let some tol := (kw? args "tol").bind Val.asFloat? | return "bad-op"
  let some maxiter := (kw? args "maxiter").bind Val.asNat? | return "bad-op"
  let some bmax := (kw? args "bmax").bind Val.asNat? | return "bad-op"
  let func : List Float → Float := fun x => if plus0 then boxed box cost.eval x + 0.0 else boxed box cost.eval x
  let f : Float → Float := if mode == "direct" then fun a => func [a] else fun a => func (Brent.along p xi a)
  match Brent.brent (brentK 110.0) f brack tol maxiter bmax (bmax + 2) with
  | .ok o =>
    return s!"ok exc=none xmin={pF o.xmin} fval={pF o.fval} iter={o.iter} funcalls={o.funcalls} nbracket={o.nbracket} log={pLog o.log} x={pFs (Solver.vadd p (Solver.vscale o.xmin xi))} xi={pFs (Solver.vscale o.xmin xi)}"
  | .error e => return s!"ok exc={errName e.1} log={pLog e.2}"

def handlePowellB (args : List Val) : String := Id.run do
  let some which := (kw? args "which").bind Val.asSym? | return "bad-op"
  let some cost := (kw? args "cost").bind SolverDrv.parseCost | return "bad-op"
  let some x0 := (kw? args "x0").bind Val.asFloats? | return "bad-op"
  let some direc := (kw? args "direc").bind asFloatss? | return "bad-op"
  let some xtol := (kw? args "xtol").bind Val.asFloat? | return "bad-op"
  let some ftol := (kw? args "ftol").bind Val.asFloat? | return "bad-op"
  let some maxiter := (kw? args "maxiter").bind Val.asNat? | return "bad-op"
  let some maxfun := (kw? args "maxfun").bind Val.asNat? | return "bad-op"
  let some imax := (kw? args "imax").bind Val.asNat? | return "bad-op"
  let some fuel := (kw? args "fuel").bind Val.asNat? | return "bad-op"
  -- mystic evaluates `1*cost(x) + penalty(x)` with the default penalty `0.0` (tools.wrap_function / wrap_penalty)
  let f : List Float → Float := if which == "ref" then cost.eval else fun x => cost.eval x + 0.0
  let bad : List Float → List Float → Powell.LsOut Float Float := fun p xi => { fret := nan, x := p.map (fun _ => nan), xi := xi, ncalls := 0 }
  let ls := Brent.lsOut (brentK 110.0) f (xtol * 100.0) imax 1000 1002 bad
  let conv : Float → Float → Bool := fun fx fval =>
    fx == fval || decide (2.0 * (fx - fval) ≤ ftol * (fx.abs + fval.abs) + 1e-20)
  let c : Powell.Cfg Float Float := { ls := ls, f := f, conv := conv, two := 2.0, twoE := 2.0, zeroE := 0.0,
                                      maxiter := maxiter, maxfun := maxfun }
  let r := if which == "ref" then Powell.refPowell c fuel x0 direc else Powell.mysticPowell c fuel x0 direc
  match r with
  | none => return "err fuel"
  | some o =>
    let s := o.st
    let lss := s.reqs.map fun q => ls q.1 q.2
    return s!"ok x={pFs s.x} fval={pF s.fval} iter={s.iter} fcalls={s.fcalls} warn={o.warnflag} direc={pFss s.direc} reqs={pReqs s.reqs} exts={pFss s.exts} frets={pFs (lss.map (·.fret))} ncalls={pNs (lss.map (·.ncalls))}"

def handle : Handler
  | .sym "powell" :: args => handlePowell args
  | .sym "powellb" :: args => handlePowellB args
  | .sym "bracket" :: args => handleBracket args
  | .sym "brent" :: args => handleBrent args
  | .sym "fmin" :: args => handleFmin args
  | .sym "strat" :: args => handleStrat args
  | .sym "de" :: args => SolverDrv.handle (.sym "de" :: args)
  | .sym "nm" :: args => SolverDrv.handle (.sym "nm" :: args)
  | _ => "bad-op"

end MysticVerif.DrvC08
