/- driver for C08: Float instantiation of Model/Strategy (the ten DE strategies), of the reference / mystic
Nelder-Mead loops (Model/RefFmin) and of Powell's direction-set bookkeeping (Model/Powell); the shared
solver commands `de`, `nm`, `ctl` are forwarded to Drv/SolverDrv -/
import MysticVerif.Basic.Proto
import MysticVerif.Model.Dsl
import MysticVerif.Model.Strategy
import MysticVerif.Drv.SolverDrv

namespace MysticVerif.DrvC08
open MysticVerif MysticVerif.Strategy

def parseName : String → Option Name
  | "Best1Exp" => some .Best1Exp | "Best1Bin" => some .Best1Bin | "Rand1Exp" => some .Rand1Exp
  | "RandToBest1Exp" => some .RandToBest1Exp | "Best2Exp" => some .Best2Exp | "Rand2Exp" => some .Rand2Exp
  | "Rand1Bin" => some .Rand1Bin | "RandToBest1Bin" => some .RandToBest1Bin | "Best2Bin" => some .Best2Bin
  | "Rand2Bin" => some .Rand2Bin
  | _ => none

def asFloatss? (v : Val) : Option (List (List Float)) := do
  let l ← v.asList?
  l.mapM Val.asFloats?

/-- `strat (name N) (map b) (cand c) (np n) (nd d) (F f) (CR f) (pop ((..)..)) (best (..)) (trial ((..)..))
          (ps (..)) (n k) (us (..))` -/
def handleStrat (args : List Val) : String := Id.run do
  let some nm := (kw? args "name").bind Val.asSym? |>.bind parseName | return "bad-op"
  let some mp := (kw? args "map").bind Val.asBool? | return "bad-op"
  let some cand := (kw? args "cand").bind Val.asNat? | return "bad-op"
  let some np := (kw? args "np").bind Val.asNat? | return "bad-op"
  let some nd := (kw? args "nd").bind Val.asNat? | return "bad-op"
  let some f := (kw? args "F").bind Val.asFloat? | return "bad-op"
  let some cr := (kw? args "CR").bind Val.asFloat? | return "bad-op"
  let some pop := (kw? args "pop").bind asFloatss? | return "bad-op"
  let some best := (kw? args "best").bind Val.asFloats? | return "bad-op"
  let some trial := (kw? args "trial").bind asFloatss? | return "bad-op"
  let some ps := (kw? args "ps").bind Val.asNats? | return "bad-op"
  let some n0 := (kw? args "n").bind Val.asNat? | return "bad-op"
  let some us := (kw? args "us").bind Val.asFloats? | return "bad-op"
  let I : Inst Float := { pop := pop, best := best, scale := f, prob := cr, nDim := nd, nPop := np,
                          mapSolver := mp, trial := trial }
  let r := trialOf nm I cand ps n0 us
  let I' := call nm I cand ps n0 us
  let rs := getRandomCandidates np cand (ps.take nm.kind.ncand)
  let cross := match nm.cross with | .exp => "exp" | .bin => "bin"
  return s!"ok trial={pFss I'.trial} rs={pNs rs} used={r.2} cross={cross} namedbin={pB nm.namedBin}"

def handle : Handler
  | .sym "strat" :: args => handleStrat args
  | .sym "de" :: args => SolverDrv.handle (.sym "de" :: args)
  | .sym "nm" :: args => SolverDrv.handle (.sym "nm" :: args)
  | _ => "bad-op"

end MysticVerif.DrvC08
