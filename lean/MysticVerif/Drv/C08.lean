/- driver for C08 : to be filled in (stub keeps Main.lean compiling) -/
import MysticVerif.Basic.Proto

namespace MysticVerif.DrvC08
open MysticVerif

def handle : Handler
  | _ => "bad-op"

end MysticVerif.DrvC08
