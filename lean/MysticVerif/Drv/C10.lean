/- driver for C10 (termination conditions), Float instantiation of Model/Termination -/
import MysticVerif.Basic.Proto
import MysticVerif.Model.Termination

namespace MysticVerif.DrvC10
open MysticVerif MysticVerif.Term

/-- `eta = 1e-20` of `NormalizedChangeOverGeneration` (l.224), as the bit pattern CPython parses it to -/
def eta : Float := Float.ofBits 4307583784117748259

def optInt? : Val → Option (Option Int)
  | .sym "none" => some none
  | .int i => some (some i)
  | _ => none

def optFlt? : Val → Option (Option Float)
  | .sym "none" => some none
  | v => v.asFloat?.map some

def optBool? : Val → Option (Option Bool)
  | .sym "none" => some none
  | v => v.asBool?.map some

def parsePrim : List Val → Option (Prim Float)
  | [.sym "vtr", tol, tgt] => do pure (.vtr (← tol.asFloat?) (← tgt.asFloat?))
  | [.sym "cog", tol, g] => do pure (.cog (← tol.asFloat?) (← optInt? g))
  | [.sym "ncog", tol, g] => do pure (.ncog (← tol.asFloat?) (← optInt? g) eta)
  | [.sym "crt", xt, ft] => do pure (.crt (← xt.asFloat?) (← ft.asFloat?))
  | [.sym "solimp", tol] => do pure (.solimp (← tol.asFloat?))
  | [.sym "nct", fv, tol, g] => do pure (.nct (← optFlt? fv) (← tol.asFloat?) (← optInt? g))
  | [.sym "vtrcog", ft, gt, g, tgt] => do pure (.vtrcog (← ft.asFloat?) (← gt.asFloat?) (← optInt? g) (← tgt.asFloat?))
  | [.sym "popspread", tol] => do pure (.popspread (← tol.asFloat?))
  | [.sym "gradnorm", tol] => do pure (.gradnorm (← tol.asFloat?))
  | [.sym "evallimits", g, e] => do pure (.evallimits (← optInt? g) (← optInt? e))
  | [.sym "timelimits", s, sys, s0, s1, s2] => do
      pure (.timelimits (← s.asFloat?) (← optBool? sys) (← s0.asFloat?) (← s1.asFloat?) (← s2.asFloat?))
  | [.sym "interrupt"] => some .interrupt
  | _ => none

partial def parseExpr : Val → Option (Expr Float)
  | .list (.sym "p" :: o :: d :: rest) => do pure (.prim (← o.asNat?) (← d.asNat?) (← parsePrim rest))
  | .list [.sym "when", e] => do pure (.when (← parseExpr e))
  | .list (.sym "and" :: es) => do pure (.and (← es.mapM parseExpr))
  | .list (.sym "or" :: es) => do pure (.or (← es.mapM parseExpr))
  | _ => none

def parseRows (v : Val) : Option (List (List Float)) := do
  let l ← v.asList?
  l.mapM Val.asFloats?

def parseView (args : List Val) : Option (View Float) := do
  let hist ← (kw? args "hist").bind Val.asFloats?
  let pop ← (kw? args "pop").bind parseRows
  let popE ← (kw? args "pope").bind Val.asFloats?
  let best ← (kw? args "best").bind Val.asFloats?
  let trial ← (kw? args "trial").bind parseRows
  let trial2d ← (kw? args "trial2d").bind Val.asBool?
  let grad ← (kw? args "grad").bind Val.asFloats?
  let gens ← (kw? args "gens").bind Val.asInt?
  let fcalls ← (kw? args "fcalls").bind Val.asInt?
  let early ← (kw? args "early").bind Val.asBool?
  let clock ← (kw? args "clock").bind Val.asFloats?
  match clock with
  | [t0, t1, t2] =>
    pure { hist, pop, popE, best, trial, trial2d, grad, gens, fcalls, earlyExit := early,
           tTime := t0, tPerf := t1, tProc := t2 }
  | _ => none

def pOut : POut → String
  | .unsat => "unsat" | .sat => "sat" | .warn => "warn"

def pErr : Err → String
  | .index => "index" | .value => "value"

/-- canonical info set: doc ids ascending, then `warn` -/
def pAtoms (l : List Atom) : String :=
  let ds := (l.filterMap fun | .doc d => some d | .warn => none).mergeSort (· ≤ ·)
  let w := if l.contains .warn then ["warn"] else []
  pL (ds.map (fun d => "d" ++ toString d) ++ w)

def pIdx (l : List Nat) : String := pNs (l.mergeSort (· ≤ ·))

/-- the object structure after `__new__`: class names and object ids -/
partial def pCond : Cond Float → String
  | .prim o _ _ => "o" ++ toString o
  | .node k cs =>
    let nm := match k with | .when => "when" | .and => "and" | .or => "or"
    "(" ++ " ".intercalate (nm :: cs.map pCond) ++ ")"

/-- primitives of an expression in the order written (with repetitions) -/
partial def exprPrims : Expr Float → List (Prim Float)
  | .prim _ _ p => [p]
  | .when e => exprPrims e
  | .and es => (es.map exprPrims).flatten
  | .or es => (es.map exprPrims).flatten

def handle : Handler
  | .sym "run" :: args => Id.run do
    let some v := parseView args | return "bad-op"
    let some e := (kw? args "expr").bind parseExpr | return "bad-op"
    let some rclock := (kw? args "rclock").bind Val.asFloats? | return "bad-op"
    let (r0, r1, r2) := match rclock with
      | [a, b, c] => (a, b, c)
      | _ => (0.0, 0.0, 0.0)
    let some same := (kw? args "sameclock").bind Val.asBool? | return "bad-op"
    let c := e.build
    let ps := exprPrims e
    -- each primitive on its own: the exception it raises or what it returns
    let pouts := ps.map fun p => match p.err v with
      | some er => "err-" ++ pErr er
      | none => pOut (p.out v)
    -- each primitive rebuilt from its reported type and state
    let starts : Prim Float → Float × Float × Float := fun p =>
      match same, p with
      | true, .timelimits _ _ s0 s1 s2 => (s0, s1, s2)   -- rebuilt at the same clock reading as the original
      | _, _ => (r0, r1, r2)
    let rb := ps.map fun p => match Prim.make p.kind p.state eta (starts p).1 (starts p).2.1 (starts p).2.2 with
      | none => "none"
      | some q => match q.err v with
        | some er => "err-" ++ pErr er
        | none => pOut (q.out v)
    let built := pCond c
    match c.firstErr v with
    | some er => return s!"ok raised={pErr er} prims={pL pouts} rb={pL rb} built={built}"
    | none =>
      return s!"ok b={pB (c.evalB v)} info={pAtoms (c.info v)} self={pIdx (c.selfRes v)} not={pIdx (c.notRes v)} den={pB (e.den v)} prims={pL pouts} rb={pL rb} built={built}"
  | _ => "bad-op"

end MysticVerif.DrvC10
