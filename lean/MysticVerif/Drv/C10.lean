/- driver for C10 (termination conditions), Float instantiation of Model/Termination -/
import MysticVerif.Basic.Proto
import MysticVerif.Model.Termination

namespace MysticVerif.DrvC10
open MysticVerif MysticVerif.Term

/-- `eta = 1e-20` of `NormalizedChangeOverGeneration` (l.224), as the bit pattern CPython parses it to -/
def eta : Float := Float.ofBits 4307583784117748259

/-- `_epsilon = sqrt(numpy.finfo(float).eps)` = 2^-26 (_scipy060optimize.py l.47) -/
def epsilon : Float := Float.ofBits 4490088828488384512

/-! #### `Lnorm` at binary64: numpy's power, its floating-point exceptions -/

def isFin (x : Float) : Bool := !(x.isNaN || x.isInf)

/-- `weights**p` elementwise: numpy takes the scalar-exponent fast paths (square, identity, sqrt, reciprocal),
otherwise `pow` -/
def powF (p x : Float) : Float :=
  if p == 2.0 then x * x else if p == 1.0 then x else if p == 0.5 then Float.sqrt x
  else if p == -1.0 then 1.0 / x else Float.pow x p

/-- IEEE overflow / invalid of one `x**p` (division by zero is not raised) -/
def powRaises (p x : Float) : Bool :=
  let r := powF p x
  (r.isInf && isFin x && x != 0.0) || (r.isNaN && !x.isNaN && !p.isNaN)

/-- overflow of the sequential sum -/
def sumRaises : List Float → Float → Bool
  | [], _ => false
  | t :: ts, acc => let a := acc + t
                    (a.isInf && isFin acc && isFin t) || sumRaises ts a

def rootF (p s : Float) : Float := Float.pow s (1.0 / p)

/-- does `sum(abs(w**p), axis=0)**(1./p)` raise under `seterr(over='raise', invalid='raise')` -/
def raisesF (p : Float) (w : List Float) : Bool :=
  let ts := w.map (fun x => absR (powF p x))
  let s := addReduce ts
  let r := rootF p s
  w.any (powRaises p) || (match ts with | [] => false | t :: rest => sumRaises rest t)
    || (r.isInf && isFin s && s != 0.0) || (r.isNaN && !s.isNaN && !p.isNaN)

def parseNorm : Val → Option (Norm Float)
  | .sym "zero" => some (.zero Float.ofNat)
  | .sym "inf" => some .inf
  | .sym "neginf" => some .neginf
  | .list [.sym "fin", p] => do
      let pf ← p.asFloat?
      pure (.fin (powF pf) (rootF pf) (raisesF pf))
  | _ => none

/-- the harness's cost family: `c0 + sum_i (a_i x_i + b_i x_i^2)`, accumulated left to right -/
def costF (c0 : Float) (a b : List Float) (x : List Float) : Float :=
  ((x.zip (a.zip b)).foldl (fun s t => (s + t.2.1 * t.1) + t.2.2 * (t.1 * t.1)) c0)

def parseCost : Val → Option (Option (List Float → Float))
  | .sym "none" => some none
  | .list [c0, a, b] => do pure (some (costF (← c0.asFloat?) (← a.asFloats?) (← b.asFloats?)))
  | _ => none

/-! #### Collapse* settings (same encodings as the C11 driver) -/

def parseTarget : Val → Option (Clps.Target Float)
  | .sym "none" => some .none
  | .list [.sym "s", t] => do pure (.scalar (← t.asFloat?))
  | .list [.sym "v", ts] => do pure (.vec (← ts.asFloats?))
  | _ => none

def parseElem : Val → Option Clps.MElem
  | .int i => some (.idx i)
  | .list (.sym "q" :: is) => do pure (.seq (← is.mapM Val.asInt?))
  | _ => none

def parseSetMask : Val → Option Clps.SetMask
  | .sym "none" => some .none
  | .sym "other" => some .other
  | .list [.sym "set", .list es] => do pure (.set (← es.mapM parseElem))
  | _ => none

def optInt? : Val → Option (Option Int)
  | .sym "none" => some none
  | .int i => some (some i)
  | _ => none

def optFlt? : Val → Option (Option Float)
  | .sym "none" => some none
  | v => v.asFloat?.map some

def optBool? : Val → Option (Option Bool)
  | .sym "none" => some none
  | v => v.asBool?.map some

def parsePrim : List Val → Option (Prim Float)
  | [.sym "vtr", tol, tgt] => do pure (.vtr (← tol.asFloat?) (← tgt.asFloat?))
  | [.sym "cog", tol, g] => do pure (.cog (← tol.asFloat?) (← optInt? g))
  | [.sym "ncog", tol, g] => do pure (.ncog (← tol.asFloat?) (← optInt? g) eta)
  | [.sym "crt", xt, ft] => do pure (.crt (← xt.asFloat?) (← ft.asFloat?))
  | [.sym "solimp", tol] => do pure (.solimp (← tol.asFloat?))
  | [.sym "nct", fv, tol, g] => do pure (.nct (← optFlt? fv) (← tol.asFloat?) (← optInt? g))
  | [.sym "vtrcog", ft, gt, g, tgt] => do pure (.vtrcog (← ft.asFloat?) (← gt.asFloat?) (← optInt? g) (← tgt.asFloat?))
  | [.sym "popspread", tol] => do pure (.popspread (← tol.asFloat?))
  | [.sym "gradnorm", tol] => do pure (.gradnorm (← tol.asFloat?))
  | [.sym "collapseAt", tgt, tols, .int g, m] => do
      pure (.collapseAt (← parseTarget tgt) (← tols.asFloats?) g (← parseSetMask m))
  | [.sym "collapseAs", off, tol, .int g, m] => do
      pure (.collapseAs (← off.asBool?) (← tol.asFloat?) g (← parseSetMask m))
  | [.sym "gradnormP", tol, n] => do pure (.gradnormP (← tol.asFloat?) (← parseNorm n) epsilon)
  | [.sym "evallimits", g, e] => do pure (.evallimits (← optInt? g) (← optInt? e))
  | [.sym "timelimits", s, sys, s0, s1, s2] => do
      pure (.timelimits (← s.asFloat?) (← optBool? sys) (← s0.asFloat?) (← s1.asFloat?) (← s2.asFloat?))
  | [.sym "interrupt"] => some .interrupt
  | _ => none

partial def parseExpr : Val → Option (Expr Float)
  | .list (.sym "p" :: o :: d :: rest) => do pure (.prim (← o.asNat?) (← d.asNat?) (← parsePrim rest))
  | .list [.sym "when", e] => do pure (.when (← parseExpr e))
  | .list (.sym "and" :: es) => do pure (.and (← es.mapM parseExpr))
  | .list (.sym "or" :: es) => do pure (.or (← es.mapM parseExpr))
  | _ => none

def parseRows (v : Val) : Option (List (List Float)) := do
  let l ← v.asList?
  l.mapM Val.asFloats?

def parseView (args : List Val) : Option (View Float) := do
  let hist ← (kw? args "hist").bind Val.asFloats?
  let pop ← (kw? args "pop").bind parseRows
  let popE ← (kw? args "pope").bind Val.asFloats?
  let best ← (kw? args "best").bind Val.asFloats?
  let trial ← (kw? args "trial").bind parseRows
  let trial2d ← (kw? args "trial2d").bind Val.asBool?
  let grad ← (kw? args "grad").bind Val.asFloats?
  let gens ← (kw? args "gens").bind Val.asInt?
  let fcalls ← (kw? args "fcalls").bind Val.asInt?
  let early ← (kw? args "early").bind Val.asBool?
  let clock ← (kw? args "clock").bind Val.asFloats?
  -- optional extensions (absent in requests of other drivers)
  let gradNone := ((kw? args "gradnone").bind Val.asBool?).getD false
  let cost := ((kw? args "cost").bind parseCost).getD none
  let steps := ((kw? args "steps").bind parseRows).getD []
  match clock with
  | [t0, t1, t2] =>
    pure { hist, pop, popE, best, trial, trial2d, grad, gens, fcalls, earlyExit := early,
           tTime := t0, tPerf := t1, tProc := t2, gradNone, cost, steps }
  | _ => none

def pOut : POut → String
  | .unsat => "unsat" | .sat => "sat" | .warn => "warn"

def pErr : Err → String
  | .index => "index" | .value => "value" | .type => "type" | .attr => "attr"

/-- the factory constant a rebuilt primitive gets: `eta` (NormalizedChangeOverGeneration), `_epsilon` -/
def constOf : Prim Float → Float
  | .gradnormP .. => epsilon
  | _ => eta

/-- canonical info set: doc ids ascending, then `warn` -/
def pAtoms (l : List Atom) : String :=
  let ds := (l.filterMap fun | .doc d => some d | .warn => none).mergeSort (· ≤ ·)
  let w := if l.contains .warn then ["warn"] else []
  pL (ds.map (fun d => "d" ++ toString d) ++ w)

def pIdx (l : List Nat) : String := pNs (l.mergeSort (· ≤ ·))

/-- the object structure after `__new__`: class names and object ids -/
partial def pCond : Cond Float → String
  | .prim o _ _ => "o" ++ toString o
  | .node k cs =>
    let nm := match k with | .when => "when" | .and => "and" | .or => "or"
    "(" ++ " ".intercalate (nm :: cs.map pCond) ++ ")"

/-- primitives of an expression in the order written (with repetitions) -/
partial def exprPrims : Expr Float → List (Prim Float)
  | .prim _ _ p => [p]
  | .when e => exprPrims e
  | .and es => (es.map exprPrims).flatten
  | .or es => (es.map exprPrims).flatten

def handle : Handler
  | .sym "run" :: args => Id.run do
    let some v := parseView args | return "bad-op"
    let some e := (kw? args "expr").bind parseExpr | return "bad-op"
    let some rclock := (kw? args "rclock").bind Val.asFloats? | return "bad-op"
    let (r0, r1, r2) := match rclock with
      | [a, b, c] => (a, b, c)
      | _ => (0.0, 0.0, 0.0)
    let some same := (kw? args "sameclock").bind Val.asBool? | return "bad-op"
    let c := e.build
    let ps := exprPrims e
    -- each primitive on its own: the exception it raises or what it returns
    let pouts := ps.map fun p => match p.err v with
      | some er => "err-" ++ pErr er
      | none => pOut (p.out v)
    -- each primitive rebuilt from its reported type and state
    let starts : Prim Float → Float × Float × Float := fun p =>
      match same, p with
      | true, .timelimits _ _ s0 s1 s2 => (s0, s1, s2)   -- rebuilt at the same clock reading as the original
      | _, _ => (r0, r1, r2)
    let rb := ps.map fun p => match Prim.make p.kind p.state (constOf p) (starts p).1 (starts p).2.1 (starts p).2.2 with
      | none => "none"
      | some q => match q.err v with
        | some er => "err-" ++ pErr er
        | none => pOut (q.out v)
    let built := pCond c
    -- what a satisfied Collapse* condition reports after ' at ' (`n`: nothing)
    let pay := ps.map fun p => match p.err v with
      | some _ => "n"
      | none => match p.payload v with
        | [] => "n"
        | l => "(" ++ " ".intercalate (l.map pNs) ++ ")"
    match c.firstErr v with
    | some er => return s!"ok raised={pErr er} prims={pL pouts} rb={pL rb} pay={pL pay} skeys={pNs c.stateKeys} built={built}"
    | none =>
      return s!"ok b={pB (c.evalB v)} info={pAtoms (c.info v)} self={pIdx (c.selfRes v)} not={pIdx (c.notRes v)} den={pB (e.den v)} prims={pL pouts} rb={pL rb} pay={pL pay} skeys={pNs c.stateKeys} built={built}"
  | .sym "eq" :: args => Id.run do
    -- `c1 == c2` of two constructed conditions (functions by identity, tuples element-wise whatever their class)
    let some e1 := (kw? args "a").bind parseExpr | return "bad-op"
    let some e2 := (kw? args "b").bind parseExpr | return "bad-op"
    return s!"ok eq={pB (Cond.keyEq e1.build e2.build)}"
  | .sym "approx" :: args => Id.run do
    -- approx_fprime(best, cost, _epsilon): the evaluation points in order and the gradient
    let some best := (kw? args "best").bind Val.asFloats? | return "bad-op"
    let some (some f) := (kw? args "cost").bind parseCost | return "bad-op"
    return s!"ok pts={pFss (approxPoints best epsilon)} grad={pFs (approxFprime f best epsilon)}"
  | .sym "lnorm" :: args => Id.run do
    let some w := (kw? args "w").bind Val.asFloats? | return "bad-op"
    let some n := (kw? args "norm").bind parseNorm | return "bad-op"
    match lnorm n w with
    | .ok x => return s!"ok norm={pF x}"
    | .error e => return s!"err {pErr e}"
  | _ => "bad-op"

end MysticVerif.DrvC10
