/- driver for C12 (symbolic rewriting): `Rat` instantiation of Model/Symbolic (exact arithmetic; numbers cross
the protocol as integers or `(num den)` pairs, i.e. the exact value of the binary64 / integer / decimal
literal that Python's `eval` would use - never decimal text) -/
import MysticVerif.Basic.Proto
import MysticVerif.Model.Symbolic
import MysticVerif.Model.Symbolic2
import MysticVerif.Model.SymbolicTop

namespace MysticVerif.DrvC12
open MysticVerif MysticVerif.Sym

def parseNum : Val → Option Rat
  | .int i => some (i : Rat)
  | .list [.int n, .int d] => if d = 0 then none else some ((n : Rat) / (d : Rat))
  | _ => none

def parseNums (v : Val) : Option (List Rat) := do (← v.asList?).mapM parseNum

def parseCmp : Val → Option Cmp
  | .sym "lt" => some .lt | .sym "le" => some .le | .sym "gt" => some .gt
  | .sym "ge" => some .ge | .sym "eq" => some .eq | .sym "ne" => some .ne
  | _ => none

def showCmp : Cmp → String
  | .lt => "lt" | .le => "le" | .gt => "gt" | .ge => "ge" | .eq => "eq" | .ne => "ne"

/-- `(c co0 co1 ...)` : constant first, then the dense coefficient list -/
def parseForm (v : Val) : Option (Form Rat) := do
  match ← parseNums v with
  | c :: co => some ⟨co, c⟩
  | [] => none

/-- `(cmp lhs rhs)` -/
def parseLine : Val → Option (Line Rat)
  | .list [c, l, r] => do some ⟨← parseForm l, ← parseCmp c, ← parseForm r⟩
  | _ => none

def parseLines (v : Val) : Option (List (Line Rat)) := do (← v.asList?).mapM parseLine

/-- `(lin cmp lhs rhs)` | `(rat cmp p q r)` -/
def parseItem : Val → Option (Item Rat)
  | .list [.sym "lin", c, l, r] => do some (.lin ⟨← parseForm l, ← parseCmp c, ← parseForm r⟩)
  | .list [.sym "rat", c, p, q, r] => do some (.rat (← parseForm p) (← parseForm q) (← parseCmp c) (← parseNum r))
  | _ => none

/-- `(c form)` : one term `c * abs(form)` -/
def parseAbsTerm : Val → Option (Rat × Form Rat)
  | .list [c, f] => do some (← parseNum c, ← parseForm f)
  | _ => none

/-- `(absl (terms...) item)` | `(rat2 cmp p a b i c d j m r)` -/
def parseXItem : Val → Option (XItem Rat)
  | .list [.sym "absl", ts, it] => do some (.absl (← (← ts.asList?).mapM parseAbsTerm) (← parseItem it))
  | .list [.sym "rat2", cmp, p, a, b, i, c, d, j, m, r] => do
    some (.rat2 (← parseForm p) (← parseNum a) (← parseNum b) (← i.asNat?) (← parseNum c) (← parseNum d) (← j.asNat?)
      (← m.asNat?) (← parseCmp cmp) (← parseNum r))
  | _ => none

def parseTri : Val → Option (Option Bool)
  | .sym "zde" => some none
  | v => do some (some (← v.asBool?))

def showCTok : Option CTok → String
  | some .le => "le" | some .lt => "lt" | some .ge => "ge" | some .gt => "gt" | some .ne => "ne"
  | some .eqeq => "eqeq" | some .eq => "eq" | none => "none"

def parseOpt : Val → Option (Option Rat)
  | .sym "none" => some none
  | v => do some (some (← parseNum v))

def pR (q : Rat) : String := if q.den = 1 then toString q.num else toString q.num ++ "/" ++ toString q.den
def pCL (l : CLine Rat) : String := "(" ++ " ".intercalate (showCmp l.cmp :: pR l.c :: l.co.map pR) ++ ")"
def pCase (s : List (CLine Rat)) : String := "(" ++ " ".intercalate (s.map pCL) ++ ")"
def pDnf (d : List (List (CLine Rat))) : String := "(" ++ " ".intercalate (d.map pCase) ++ ")"

def parseTLine : Val → Option (TLine Int)
  | .list [.int e, c] => do some ⟨e, ← parseCmp c⟩
  | _ => none
def pTL (l : TLine Int) : String := s!"({l.e} {showCmp l.cmp})"

/-- `none` | `(one t)` | `(many t1 t2 ...)` : a returned value, texts interned as numbers by the harness -/
def parseRet : Val → Option (Ret Nat)
  | .sym "none" => some .none
  | .list [.sym "one", t] => do some (.one (← t.asNat?))
  | .list (.sym "many" :: ts) => do some (.many (← ts.mapM Val.asNat?))
  | _ => none

/-- `(t ret)` : `_simplify` was called with case text `t` and returned `ret` -/
def parsePart : Val → Option (Nat × Ret Nat)
  | .list [t, r] => do some (← t.asNat?, ← parseRet r)
  | _ => none

def pON : Option Nat → String
  | some n => toString n
  | none => "none"

def handle : Handler
  | .sym "top" :: args => Id.run do
    let some all := (kw? args "all").bind Val.asBool? | return "bad-op"
    let some r := (kw? args "r").bind Val.asNat? | return "bad-op"
    let some cons := (kw? args "abs").bind parseRet | return "bad-op"
    let some parts := (kw? args "parts").bind Val.asList? |>.bind (·.mapM parsePart) | return "bad-op"
    -- the model needs the value `_simplify` returned IN THIS CALL for every case text of absval
    if cons.texts.any (fun t => (lookupRet parts t).isNone) then return "err case-without-_simplify-call"
    let simple := fun t => (lookupRet parts t).getD .none
    match simplifyTop all r cons simple with
    | .tuple l => return s!"ok kind=tuple cases={pL (l.map pON)}"
    | .single a => return s!"ok kind=single cases={pL [pON a]}"
    | .empty => return "ok kind=empty cases=()"
  | .sym "validate" :: args => Id.run do
    let some inp := (kw? args "inp").bind Val.asList? |>.bind (·.mapM parseItem) | return "bad-op"
    let some out := (kw? args "out").bind Val.asList? |>.bind (·.mapM parseLines) | return "bad-op"
    let ci := (expand inp).map canonSys
    let co := out.map canonSys
    return s!"ok accept={pB (dnfEquiv ci co)} nin={ci.length} nout={co.length} cin={pDnf ci} cout={pDnf co}"
  | .sym "validatex" :: args => Id.run do
    let some inp := (kw? args "inp").bind Val.asList? |>.bind (·.mapM parseXItem) | return "bad-op"
    let some out := (kw? args "out").bind Val.asList? |>.bind (·.mapM parseLines) | return "bad-op"
    let ci := (expandX inp).map canonSys
    let co := out.map canonSys
    return s!"ok accept={pB (dnfEquiv ci co)} nin={ci.length} nout={co.length} cin={pDnf ci} cout={pDnf co}"
  | .sym "comparator" :: args => Id.run do
    let some t := (kw? args "toks").bind Val.asList? |>.bind (·.mapM Val.asBool?) | return "bad-op"
    match t with
    | [a, b, c, d, e, f, g] => return s!"ok cmp={showCTok (comparatorOf ⟨a, b, c, d, e, f, g⟩)}"
    | _ => return "bad-op"
  | .sym "equals" :: args => Id.run do
    let some errors := (kw? args "errors").bind Val.asBool? | return "bad-op"
    let some before := (kw? args "before").bind parseTri | return "bad-op"
    let some after := (kw? args "after").bind parseTri | return "bad-op"
    let some c := (kw? args "cmp").bind parseCmp | return "bad-op"
    match equalsM errors before after with
    | .zde => return "ok res=zde"
    | .val b => return s!"ok res={pB b} dec={showCmp (flipDecision c b)}"
  | .sym "cert" :: args => Id.run do
    let some inp := (kw? args "inp").bind parseLines | return "bad-op"
    let some out := (kw? args "out").bind parseLines | return "bad-op"
    let some A := (kw? args "A").bind Val.asList? |>.bind (·.mapM parseNums) | return "bad-op"
    let some B := (kw? args "B").bind Val.asList? |>.bind (·.mapM parseNums) | return "bad-op"
    return s!"ok accept={pB (solveOK inp out A B)}"
  | .sym "matrix" :: args => Id.run do
    let some A := (kw? args "A").bind Val.asList? |>.bind (·.mapM parseNums) | return "bad-op"
    let some b := (kw? args "b").bind parseNums | return "bad-op"
    let some G := (kw? args "G").bind Val.asList? |>.bind (·.mapM parseNums) | return "bad-op"
    let some h := (kw? args "h").bind parseNums | return "bad-op"
    let some txt := (kw? args "txt").bind parseLines | return "bad-op"
    if A.length != b.length || G.length != h.length then return "err length"
    let want := matrixRows A b G h
    return s!"ok accept={pB (sameSystem want txt)} rows={want.length} cin={pCase (canonSys want)} cout={pCase (canonSys txt)}"
  | .sym "bounds" :: args => Id.run do
    let some lo := (kw? args "lo").bind Val.asList? |>.bind (·.mapM parseOpt) | return "bad-op"
    let some hi := (kw? args "hi").bind Val.asList? |>.bind (·.mapM parseOpt) | return "bad-op"
    let some txt := (kw? args "txt").bind parseLines | return "bad-op"
    if lo.length != hi.length then return "err length"
    let want := boundRows lo hi
    return s!"ok accept={pB (sameSystem want txt)} rows={want.length} cin={pCase (canonSys want)} cout={pCase (canonSys txt)}"
  | .sym "flip" :: args => Id.run do
    let some c := (kw? args "cmp").bind parseCmp | return "bad-op"
    return s!"ok flip={showCmp c.flip} flipB={showCmp c.flipB}"
  | .sym "merge" :: args => Id.run do
    let some incl := (kw? args "inclusive").bind Val.asBool? | return "bad-op"
    let some eqs := (kw? args "eqs").bind Val.asList? |>.bind (·.mapM parseTLine) | return "bad-op"
    if incl then
      return s!"ok out={pL ((mergeIncl eqs).map pTL)}"
    else
      match mergeExcl eqs with
      | none => return "ok none"
      | some o => return s!"ok out={pL (o.map pTL)}"
  | _ => "bad-op"

end MysticVerif.DrvC12
