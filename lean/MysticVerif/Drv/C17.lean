/- driver for C17 (constraint combinators), Float instantiation of Model/Combinators -/
import MysticVerif.Basic.Proto
import MysticVerif.Model.Dsl
import MysticVerif.Model.Combinators
import MysticVerif.Model.CombinatorsX
import MysticVerif.Model.CombinatorsSeq
import MysticVerif.Model.PenaltyTree
import MysticVerif.Model.Couplers

namespace MysticVerif.DrvC17
open MysticVerif MysticVerif.Comb MysticVerif.Dsl

/-- `[(i + rnd.randint(-1,1)) * rnd.random() for i in x]` -/
def randVec (d : List (Int × Float)) (x : List Float) : List Float :=
  List.zipWith (fun xi (ru : Int × Float) => (xi + Float.ofInt ru.1) * ru.2) x d

def parseDrawVec (v : Val) : Option (List (Int × Float)) := do
  let l ← v.asList?
  l.mapM fun
    | .list [.int r, u] => do pure (r, ← u.asFloat?)
    | _ => none

def showRes (r : Res (List Float) × Stats) : String :=
  match r with
  | (.success y t links, st) => s!"ok success y={pFs y} t={t} links={links} calls={st.calls} draws={st.draws}"
  | (.fail y, st) => s!"ok fail y={pFs y} calls={st.calls} draws={st.draws}"
  | (.stuck, _) => "err stuck"

def member (ms : Array Con) (i : Nat) (x : List Float) : Option (List Float) :=
  match ms[i]? with
  | some c => c.apply x
  | none => some x

/-! ### extended model (Model/CombinatorsX): guarded DSL members and recorded oracles -/

open MysticVerif.CombX (Out ResX)

/-- a DSL member behind a guard: when `x[i] > thr` the call does `act` instead of applying the term -/
inductive Act where
  | zdiv | tverr | raise | short | long
structure GCon where
  guard : Option (Act × Nat × Float)
  con : Con

def parseAct : Val → Option Act
  | .sym "zdiv" => some .zdiv | .sym "tverr" => some .tverr | .sym "raise" => some .raise
  | .sym "short" => some .short | .sym "long" => some .long
  | _ => none

def parseGCon : Val → Option GCon
  | .list [.sym "g", .sym "none", c] => do pure { guard := none, con := ← parseCon c }
  | .list [.sym "g", a, .int i, thr, c] => do
    pure { guard := some (← parseAct a, i.toNat, ← thr.asFloat?), con := ← parseCon c }
  | _ => none

def ofOptX (o : Option (List Float)) : Out (List Float) :=
  match o with
  | some y => .ret y
  | none => .zdiv

def GCon.run (g : GCon) (x : List Float) : Out (List Float) :=
  let fire : Bool := match g.guard with
    | some (_, i, thr) => (match x[i]? with | some v => decide (v > thr) | none => false)
    | none => false
  if fire then
    match g.guard with
    | some (.zdiv, _, _) => .zdiv
    | some (.tverr, _, _) => .tverr
    | some (.raise, _, _) => .raise
    | some (.short, _, _) => .ret x.dropLast
    | some (.long, _, _) => .ret (x ++ [1.0])
    | none => .raise
  else ofOptX (g.con.apply x)

def xmember (ms : Array GCon) (j : Nat) (x : List Float) : Out (List Float) :=
  match ms[j % ms.size]? with
  | some g => g.run x
  | none => .ret x

def showResX (r : ResX (List Float) × Stats) : String :=
  match r with
  | (.success y t links, st) => s!"ok success y={pFs y} t={t} links={links} calls={st.calls} draws={st.draws}"
  | (.fail y, st) => s!"ok fail y={pFs y} calls={st.calls} draws={st.draws}"
  | (.raised, st) => s!"ok raised calls={st.calls} draws={st.draws}"
  | (.stuck, _) => "err stuck"

/-- recorded call `j` of a real run: the vector the member received and what it did -/
def parseOut : Val → Option (Out (List Float))
  | .sym "zdiv" => some .zdiv | .sym "tverr" => some .tverr | .sym "raise" => some .raise
  | .list [.sym "ret", y] => do pure (.ret (← y.asFloats?))
  | _ => none

def parseRec : Val → Option (List Float × Out (List Float))
  | .list [inp, o] => do pure (← inp.asFloats?, ← parseOut o)
  | _ => none

def sameBits (a b : List Float) : Bool := a.map Float.toBits == b.map Float.toBits

/-- the oracle: call `j` behaves as recorded PROVIDED the model hands it the vector the real member received
(otherwise the model's run stops with `raised` at a call the implementation survived: a visible divergence) -/
def oracle (recs : Array (List Float × Out (List Float))) (j : Nat) (x : List Float) : Out (List Float) :=
  match recs[j]? with
  | some (inp, o) => if sameBits inp x then o else .raise
  | none => .raise


/-! ### one combinator OBJECT called several times (Model/CombinatorsSeq) -/

/-- recorded member call number `g` (global, over all calls of the object): the member index it was made to, the
vector it received, what it did -/
def parseRecI : Val → Option (Nat × List Float × Out (List Float))
  | .list [.int i, inp, o] => do pure (i.toNat, ← inp.asFloats?, ← parseOut o)
  | _ => none

/-- the oracle of a call sequence: global call `g` behaves as recorded PROVIDED the model makes it to the member
the real call went to AND hands it the vector the real member received -/
def oracleI (recs : Array (Nat × List Float × Out (List Float))) (g i : Nat) (x : List Float) : Out (List Float) :=
  match recs[g]? with
  | some (idx, inp, o) => if idx == i && sameBits inp x then o else .raise
  | none => .raise

/-- pure (guarded DSL) members: the behaviour does not depend on the global call number -/
def pureI (ms : Array GCon) (_g i : Nat) (x : List Float) : Out (List Float) :=
  match ms[i]? with
  | some g => g.run x
  | none => .ret x

def showResS (r : ResX (List Float) × Stats) : String :=
  match r with
  | (.success y t links, st) => s!"(success {pFs y} {t} {links} {st.calls} {st.draws})"
  | (.fail y, st) => s!"(fail {pFs y} {st.calls} {st.draws})"
  | (.raised, st) => s!"(raised {st.calls} {st.draws})"
  | (.stuck, st) => s!"(stuck {st.calls} {st.draws})"

/-- `(members (..))` (pure guarded DSL members) or `(recs (..))` (recorded oracle with member indices) -/
def parseBehaviour (args : List Val) : Option (Nat → Nat → List Float → Out (List Float)) :=
  match (kw? args "members").bind Val.asList? |>.bind (·.mapM parseGCon) with
  | some ms => some (pureI ms.toArray)
  | none =>
    match (kw? args "recs").bind Val.asList? |>.bind (·.mapM parseRecI) with
    | some recs => some (oracleI recs.toArray)
    | none => none

def parseCallV : Val → Option (List Float × List (List (Int × Float)))
  | .list [x, ds] => do pure (← x.asFloats?, ← ds.asList? |>.bind (·.mapM parseDrawVec))
  | _ => none

def parseCallN : Val → Option (List Float × List Nat)
  | .list [x, ds] => do pure (← x.asFloats?, ← ds.asNats?)
  | _ => none

def showSeq (rs : List (ResX (List Float) × Stats)) : String :=
  "ok r=(" ++ " ".intercalate (rs.map showResS) ++ ")"

/-! ### penalty trees (Model/PenaltyTree, built by C15): C17's own stream -/

open MysticVerif.Pen in
instance : PenOps Float where
  powi h n := Float.pow h (Float.ofInt n)
  sq x := Float.pow x 2.0
  root x := Float.pow x 0.5
  abs := Float.abs
  log := Float.log
  inf := 1.0 / 0.0

section pen
open MysticVerif.Pen

def parsePType : Val → Option PType
  | .sym "qEq" => some .qEq | .sym "lEq" => some .lEq | .sym "uEq" => some .uEq
  | .sym "uIneq" => some .uIneq | .sym "barrier" => some .barrier | .sym "qIneq" => some .qIneq
  | .sym "lIneq" => some .lIneq | .sym "lagIneq" => some .lagIneq | .sym "lagEq" => some .lagEq
  | _ => none

mutual
partial def parsePT : Val → Option (PT Float)
  | .list [.sym "base", .int j] => some (.base j.toNat)
  | .list [.sym "pen", .list [t, k, h, .int n, ys], c, inner] => do
    pure (.pen { t := ← parsePType t, k := ← k.asFloat?, h := ← h.asFloat?, n := n, y := ← ys.asFloats? }
      (← parsePC c) (← parsePT inner))
  | _ => none
partial def parsePC : Val → Option (PC Float)
  | .list [.sym "leaf", .int i] => some (.leaf i.toNat)
  | .list [.sym "not", t, c] => do pure (.not (← parsePType t) (← parsePC c))
  | .list (.sym "and" :: ms) => do pure (.and (← parsePL ms))
  | .list (.sym "or" :: m :: ms) => do pure (.or (← parsePT m) (← parsePL ms))
  | _ => none
partial def parsePL : List Val → Option (PL Float)
  | [] => some .nil
  | m :: ms => do pure (.cons (← parsePT m) (← parsePL ms))
end

inductive LeafT where
  | e (ex : Expr)
  | rnorm (c : Con)

def parseLeaf : Val → Option LeafT
  | .list [.sym "e", ex] => do pure (.e (← parseExpr ex))
  | .list [.sym "rnorm", c] => do pure (.rnorm (← parseCon c))
  | _ => none

def envAt (leaves : Array LeafT) (x : List Float) : Env Float where
  c i := match leaves[i]? with
    | some (.e ex) => ex.eval x
    | some (.rnorm con) => asPenaltyCond x (con.apply x)
    | none => none
  f _ := 0.0

def pVal : Except Err Float → String
  | .ok v => s!"(v {pF v})"
  | .error .zerodiv => "(raise zerodiv)"
  | .error .index => "(raise index)"

end pen

/-! ### couplers with arguments (Model/Couplers): `c(x, a) = con(x)` then `+ a` on every entry,
`f(v, b) = e(v) * b`, `g(v, b) = [t * b for t in v]`, `p(x, a) = e2(x) - a` -/

def cArg (c : Con) (x : List Float) (a : Float) : List Float := ((c.apply x).getD x).map (· + a)
def fArg (e : Expr) (v : List Float) (b : Float) : Float := ((e.eval v).getD 0.0) * b
def gArg (v : List Float) (b : Float) : List Float := v.map (· * b)
def pArg (e : Expr) (x : List Float) (a : Float) : Float := ((e.eval x).getD 0.0) - a

def handle : Handler
  | .sym "and" :: args => Id.run do
    let some cap := (kw? args "cap").bind Val.asNat? | return "bad-op"
    let some x := (kw? args "x").bind Val.asFloats? | return "bad-op"
    let some ms := (kw? args "members").bind Val.asList? |>.bind (·.mapM parseCon) | return "bad-op"
    let some draws := (kw? args "draws").bind Val.asList? |>.bind (·.mapM parseDrawVec) | return "bad-op"
    let ma := ms.toArray
    return showRes (and_ (member ma) randVec ms.length cap x draws)
  | .sym "or" :: args => Id.run do
    let some cap := (kw? args "cap").bind Val.asNat? | return "bad-op"
    let some x := (kw? args "x").bind Val.asFloats? | return "bad-op"
    let some ms := (kw? args "members").bind Val.asList? |>.bind (·.mapM parseCon) | return "bad-op"
    let some draws := (kw? args "draws").bind Val.asNats? | return "bad-op"
    let ma := ms.toArray
    return showRes (or_ (member ma) id ms.length cap x draws)
  | .sym "not" :: args => Id.run do
    let some cap := (kw? args "cap").bind Val.asNat? | return "bad-op"
    let some x := (kw? args "x").bind Val.asFloats? | return "bad-op"
    let some m := (kw? args "member").bind parseCon | return "bad-op"
    let some draws := (kw? args "draws").bind Val.asList? |>.bind (·.mapM parseDrawVec) | return "bad-op"
    return showRes (not_ m.apply randVec cap x draws)
  | .sym "xand" :: args => Id.run do
    let some cap := (kw? args "cap").bind Val.asNat? | return "bad-op"
    let some x := (kw? args "x").bind Val.asFloats? | return "bad-op"
    let some ms := (kw? args "members").bind Val.asList? |>.bind (·.mapM parseGCon) | return "bad-op"
    let some draws := (kw? args "draws").bind Val.asList? |>.bind (·.mapM parseDrawVec) | return "bad-op"
    return showResX (CombX.and_ (xmember ms.toArray) randVec ms.length cap x draws)
  | .sym "xor" :: args => Id.run do
    let some cap := (kw? args "cap").bind Val.asNat? | return "bad-op"
    let some x := (kw? args "x").bind Val.asFloats? | return "bad-op"
    let some ms := (kw? args "members").bind Val.asList? |>.bind (·.mapM parseGCon) | return "bad-op"
    let some draws := (kw? args "draws").bind Val.asNats? | return "bad-op"
    return showResX (CombX.or_ (xmember ms.toArray) id ms.length cap x draws)
  | .sym "xnot" :: args => Id.run do
    let some cap := (kw? args "cap").bind Val.asNat? | return "bad-op"
    let some x := (kw? args "x").bind Val.asFloats? | return "bad-op"
    let some m := (kw? args "member").bind parseGCon | return "bad-op"
    let some draws := (kw? args "draws").bind Val.asList? |>.bind (·.mapM parseDrawVec) | return "bad-op"
    return showResX (CombX.not_ (fun _ v => m.run v) randVec cap x draws)
  | .sym "oand" :: args => Id.run do
    let some n := (kw? args "n").bind Val.asNat? | return "bad-op"
    let some cap := (kw? args "cap").bind Val.asNat? | return "bad-op"
    let some x := (kw? args "x").bind Val.asFloats? | return "bad-op"
    let some recs := (kw? args "recs").bind Val.asList? |>.bind (·.mapM parseRec) | return "bad-op"
    let some draws := (kw? args "draws").bind Val.asList? |>.bind (·.mapM parseDrawVec) | return "bad-op"
    return showResX (CombX.and_ (oracle recs.toArray) randVec n cap x draws)
  | .sym "oor" :: args => Id.run do
    let some n := (kw? args "n").bind Val.asNat? | return "bad-op"
    let some cap := (kw? args "cap").bind Val.asNat? | return "bad-op"
    let some x := (kw? args "x").bind Val.asFloats? | return "bad-op"
    let some recs := (kw? args "recs").bind Val.asList? |>.bind (·.mapM parseRec) | return "bad-op"
    let some draws := (kw? args "draws").bind Val.asNats? | return "bad-op"
    return showResX (CombX.or_ (oracle recs.toArray) id n cap x draws)
  | .sym "onot" :: args => Id.run do
    let some cap := (kw? args "cap").bind Val.asNat? | return "bad-op"
    let some x := (kw? args "x").bind Val.asFloats? | return "bad-op"
    let some recs := (kw? args "recs").bind Val.asList? |>.bind (·.mapM parseRec) | return "bad-op"
    let some draws := (kw? args "draws").bind Val.asList? |>.bind (·.mapM parseDrawVec) | return "bad-op"
    return showResX (CombX.not_ (oracle recs.toArray) randVec cap x draws)
  | .sym "sand" :: args => Id.run do   -- ONE and_ object called on every entry of `calls` in turn
    let some n := (kw? args "n").bind Val.asNat? | return "bad-op"
    let some cap := (kw? args "cap").bind Val.asNat? | return "bad-op"
    let some c := parseBehaviour args | return "bad-op"
    let some calls := (kw? args "calls").bind Val.asList? |>.bind (·.mapM parseCallV) | return "bad-op"
    return showSeq (CombSeq.andSeq c randVec n cap 0 calls)
  | .sym "sor" :: args => Id.run do
    let some n := (kw? args "n").bind Val.asNat? | return "bad-op"
    let some cap := (kw? args "cap").bind Val.asNat? | return "bad-op"
    let some c := parseBehaviour args | return "bad-op"
    let some calls := (kw? args "calls").bind Val.asList? |>.bind (·.mapM parseCallN) | return "bad-op"
    return showSeq (CombSeq.orSeq c id n cap 0 calls)
  | .sym "snot" :: args => Id.run do
    let some cap := (kw? args "cap").bind Val.asNat? | return "bad-op"
    let some c := parseBehaviour args | return "bad-op"
    let some calls := (kw? args "calls").bind Val.asList? |>.bind (·.mapM parseCallV) | return "bad-op"
    return showSeq (CombSeq.notSeq c randVec cap 0 calls)
  | .sym "pen" :: args => Id.run do   -- values of a penalty tree (and of sub-objects) at points
    let some leaves := (kw? args "leaves").bind Val.asList? |>.bind (·.mapM parseLeaf) | return "bad-op"
    let some t := (kw? args "t").bind parsePT | return "bad-op"
    let some pts := (kw? args "pts").bind Val.asList? |>.bind (·.mapM Val.asFloats?) | return "bad-op"
    let vals := pts.map fun x => pVal (Pen.evalT (envAt leaves.toArray x) t)
    return "ok r=(" ++ " ".intercalate vals ++ ")"
  | .sym "cpl" :: args => Id.run do   -- couplers with decorator-time (a) and call-time (b) arguments
    let some x := (kw? args "x").bind Val.asFloats? | return "bad-op"
    let some c := (kw? args "c").bind parseCon | return "bad-op"
    let some e := (kw? args "f").bind parseExpr | return "bad-op"
    let some e2 := (kw? args "p").bind parseExpr | return "bad-op"
    let some a := (kw? args "a").bind Val.asFloat? | return "bad-op"
    let some b := (kw? args "b").bind Val.asFloat? | return "bad-op"
    let i1 := Cpl.inner (cArg c) a (fArg e) x b
    let o1 := Cpl.outer (cArg c) a gArg x b
    let i2 := Cpl.innerProxy (cArg c) a (fArg e) x b
    let o2 := Cpl.outerProxy (cArg c) a gArg x b
    let a1 := Cpl.additive (pArg e2) a (fArg e) x b
    let a2 := Cpl.additiveProxy (pArg e2) a (fArg e) x b
    let w1 := Cpl.withConstraintInner (cArg c) a x
    let w2 := Cpl.withConstraintOuter (cArg c) a x
    let w3 := Cpl.withConstraintInnerProxy (cArg c) x b
    let w4 := Cpl.withConstraintOuterProxy (cArg c) x b
    return s!"ok inner={pF i1} outer={pFs o1} innerp={pF i2} outerp={pFs o2} add={pF a1} addp={pF a2} wi={pFs w1} wo={pFs w2} wip={pFs w3} wop={pFs w4}"
  | .sym "con" :: args => Id.run do   -- plain DSL evaluation (twin test of harness/dsl.py)
    let some x := (kw? args "x").bind Val.asFloats? | return "bad-op"
    let some m := (kw? args "member").bind parseCon | return "bad-op"
    match m.apply x with
    | some y => return s!"ok y={pFs y}"
    | none => return "err zerodiv"
  | _ => "bad-op"

end MysticVerif.DrvC17
