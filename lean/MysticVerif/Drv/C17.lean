/- driver for C17 (constraint combinators), Float instantiation of Model/Combinators -/
import MysticVerif.Basic.Proto
import MysticVerif.Model.Dsl
import MysticVerif.Model.Combinators

namespace MysticVerif.DrvC17
open MysticVerif MysticVerif.Comb MysticVerif.Dsl

/-- `[(i + rnd.randint(-1,1)) * rnd.random() for i in x]` -/
def randVec (d : List (Int × Float)) (x : List Float) : List Float :=
  List.zipWith (fun xi (ru : Int × Float) => (xi + Float.ofInt ru.1) * ru.2) x d

def parseDrawVec (v : Val) : Option (List (Int × Float)) := do
  let l ← v.asList?
  l.mapM fun
    | .list [.int r, u] => do pure (r, ← u.asFloat?)
    | _ => none

def showRes (r : Res (List Float) × Stats) : String :=
  match r with
  | (.success y t links, st) => s!"ok success y={pFs y} t={t} links={links} calls={st.calls} draws={st.draws}"
  | (.fail y, st) => s!"ok fail y={pFs y} calls={st.calls} draws={st.draws}"
  | (.raised, st) => s!"ok raised calls={st.calls} draws={st.draws}"
  | (.stuck, _) => "err stuck"

def ofOpt (o : Option (List Float)) : Out (List Float) :=
  match o with
  | some y => .ret y
  | none => .zdiv

/-- deterministic DSL members: call number `j` goes to member `j % n` -/
def member (ms : Array Con) (j : Nat) (x : List Float) : Out (List Float) :=
  match ms[j % ms.size]? with
  | some c => ofOpt (c.apply x)
  | none => .ret x

def handle : Handler
  | .sym "and" :: args => Id.run do
    let some cap := (kw? args "cap").bind Val.asNat? | return "bad-op"
    let some x := (kw? args "x").bind Val.asFloats? | return "bad-op"
    let some ms := (kw? args "members").bind Val.asList? |>.bind (·.mapM parseCon) | return "bad-op"
    let some draws := (kw? args "draws").bind Val.asList? |>.bind (·.mapM parseDrawVec) | return "bad-op"
    let ma := ms.toArray
    return showRes (and_ (member ma) randVec ms.length cap x draws)
  | .sym "or" :: args => Id.run do
    let some cap := (kw? args "cap").bind Val.asNat? | return "bad-op"
    let some x := (kw? args "x").bind Val.asFloats? | return "bad-op"
    let some ms := (kw? args "members").bind Val.asList? |>.bind (·.mapM parseCon) | return "bad-op"
    let some draws := (kw? args "draws").bind Val.asNats? | return "bad-op"
    let ma := ms.toArray
    return showRes (or_ (member ma) id ms.length cap x draws)
  | .sym "not" :: args => Id.run do
    let some cap := (kw? args "cap").bind Val.asNat? | return "bad-op"
    let some x := (kw? args "x").bind Val.asFloats? | return "bad-op"
    let some m := (kw? args "member").bind parseCon | return "bad-op"
    let some draws := (kw? args "draws").bind Val.asList? |>.bind (·.mapM parseDrawVec) | return "bad-op"
    return showRes (not_ (fun _ v => ofOpt (m.apply v)) randVec cap x draws)
  | .sym "con" :: args => Id.run do   -- plain DSL evaluation (twin test of harness/dsl.py)
    let some x := (kw? args "x").bind Val.asFloats? | return "bad-op"
    let some m := (kw? args "member").bind parseCon | return "bad-op"
    match m.apply x with
    | some y => return s!"ok y={pFs y}"
    | none => return "err zerodiv"
  | _ => "bad-op"

end MysticVerif.DrvC17
