/- driver for C19 (discrete measures), Float instantiation of Model/Discrete -/
import MysticVerif.Basic.Proto
import MysticVerif.Model.Dsl
import MysticVerif.Model.Discrete
import MysticVerif.Model.DiscreteExt

namespace MysticVerif.DrvC19
open MysticVerif MysticVerif.Discrete MysticVerif.Dsl

def finf : Float := 1.0 / 0.0
def fnan : Float := 0.0 / 0.0

def asFloatss? (v : Val) : Option (List (List Float)) := do
  let l ← v.asList?
  l.mapM Val.asFloats?

/-- a measure travels as `(W X)` (two float lists of equal length) -/
def parseMeasure (v : Val) : Option (Measure Float) :=
  match v with
  | .list [w, x] => do
    let ws ← w.asFloats?
    let xs ← x.asFloats?
    if ws.length = xs.length then some (List.zipWith (fun a b => ⟨a, b⟩) ws xs) else none
  | _ => none

def parsePM (v : Val) : Option (PM Float) := do
  let l ← v.asList?
  l.mapM parseMeasure

def pM (m : Measure Float) : String := "(" ++ pFs (mweights m) ++ " " ++ pFs (mpositions m) ++ ")"
def pPM (c : PM Float) : String := "(" ++ " ".intercalate (c.map pM) ++ ")"
def pErr : Err → String
  | .index => "err index"
  | .value => "err value"
def pOF : Option Float → String
  | some f => pF f
  | none => "none"

def getF (args : List Val) (k : String) : Option Float := (kw? args k).bind Val.asFloat?
def getFs (args : List Val) (k : String) : Option (List Float) := (kw? args k).bind Val.asFloats?
def getFss (args : List Val) (k : String) : Option (List (List Float)) := (kw? args k).bind asFloatss?
def getNs (args : List Val) (k : String) : Option (List Nat) := (kw? args k).bind Val.asNats?
def getPM (args : List Val) (k : String) : Option (PM Float) := (kw? args k).bind parsePM

def evalF (e : Expr) (v : List Float) : Float := (e.eval v).getD fnan

def handle : Handler
  | .sym "flatten" :: args => Id.run do
    let some c := getPM args "c" | return "bad-op"
    return s!"ok y={pFs (flatten c)}"
  | .sym "unflatten" :: args => Id.run do
    let some p := getFs args "params" | return "bad-op"
    let some n := getNs args "npts" | return "bad-op"
    match unflatten p n with
    | some c => return s!"ok c={pPM c}"
    | none => return "err index"
  | .sym "load" :: args => Id.run do
    let some c := getPM args "c" | return "bad-op"
    let some p := getFs args "params" | return "bad-op"
    let some n := getNs args "npts" | return "bad-op"
    match load c p n with
    | some c => return s!"ok c={pPM c}"
    | none => return "err index"
  | .sym "update" :: args => Id.run do
    let some c := getPM args "c" | return "bad-op"
    let some p := getFs args "params" | return "bad-op"
    match update c p with
    | some c => return s!"ok c={pPM c}"
    | none => return "err index"
  | .sym "sload" :: args => Id.run do
    let some c := getPM args "c" | return "bad-op"
    let some v := getFs args "values" | return "bad-op"
    let some p := getFs args "params" | return "bad-op"
    let some n := getNs args "npts" | return "bad-op"
    match sload ⟨c, v⟩ p n with
    | some s => return s!"ok c={pPM s.pm} values={pFs s.values}"
    | none => return "err index"
  | .sym "supdate" :: args => Id.run do
    let some c := getPM args "c" | return "bad-op"
    let some v := getFs args "values" | return "bad-op"
    let some p := getFs args "params" | return "bad-op"
    match supdate ⟨c, v⟩ p with
    | some s => return s!"ok c={pPM s.pm} values={pFs s.values}"
    | none => return "err index"
  | .sym "sflatten" :: args => Id.run do
    let some c := getPM args "c" | return "bad-op"
    let some v := getFs args "values" | return "bad-op"
    let some a := (kw? args "all").bind Val.asBool? | return "bad-op"
    return s!"ok y={pFs (sflatten ⟨c, v⟩ a)}"
  | .sym "mkscen" :: args => Id.run do
    let some c := getPM args "c" | return "bad-op"
    let some v := getFs args "values" | return "bad-op"
    match mkScen c v with
    | some s => return s!"ok c={pPM s.pm} values={pFs s.values}"
    | none => return "err index"
  | .sym "compose" :: args => Id.run do
    let some x := getFss args "x" | return "bad-op"
    let some w := getFss args "w" | return "bad-op"
    match compose x w with
    | some c => return s!"ok c={pPM c}"
    | none => return "err index"
  | .sym "composeu" :: args => Id.run do
    let some x := getFss args "x" | return "bad-op"
    match composeU x with
    | some c => return s!"ok c={pPM c}"
    | none => return "err index"
  | .sym "decompose" :: args => Id.run do
    let some c := getPM args "c" | return "bad-op"
    let xw := decompose c
    return s!"ok x={pFss xw.1} w={pFss xw.2}"
  | .sym "nested" :: args => Id.run do
    let some p := getFs args "params" | return "bad-op"
    let some n := getNs args "npts" | return "bad-op"
    let wx := nestedSplit p n
    return s!"ok p={pFss (nested p n)} flat={pFs (flat (nested p n))} w={pFss wx.1} x={pFss wx.2}"
  | .sym "pack" :: args => Id.run do
    let some s := getFss args "s" | return "bad-op"
    return s!"ok p={pFss (pack s)}"
  | .sym "unpack" :: args => Id.run do
    let some p := getFss args "p" | return "bad-op"
    let some n := getNs args "npts" | return "bad-op"
    match unpack p n with
    | .ok s => return s!"ok s={pFss s}"
    | .error e => return pErr e
  | .sym "setpos" :: args => Id.run do
    let some c := getPM args "c" | return "bad-op"
    let some p := getFss args "p" | return "bad-op"
    match setPositions c p with
    | .ok c => return s!"ok c={pPM c}"
    | .error e => return pErr e
  | .sym "stats" :: args => Id.run do
    let some c := getPM args "c" | return "bad-op"
    let some e := (kw? args "f").bind parseExpr | return "bad-op"
    let some tol := getF args "tol" | return "bad-op"
    let f := evalF e
    let sup := match support c tol with
      | some l => pFss l
      | none => "none"
    return s!"ok weights={pFs (weights c)} positions={pFss (positions c)} npts={npts c} mass={pFs (mass c)} " ++
      s!"expect={pF (expect finf c f)} expectvar={pF (expectVar finf c f)} pof={pF (pof c f)} " ++
      s!"support={sup} sindex={pNs (supportIndex c tol)}"
  | .sym "mstats" :: args => Id.run do
    let some m := (kw? args "m").bind parseMeasure | return "bad-op"
    return s!"ok mean={pF (centerMass finf m)} range={pOF (range m)} var={pF (variance finf m)} mass={pF (sumL (mweights m))}"
  | .sym "mset" :: args => Id.run do
    let some m := (kw? args "m").bind parseMeasure | return "bad-op"
    let some which := (kw? args "which").bind Val.asSym? | return "bad-op"
    let some v := getF args "v" | return "bad-op"
    match which with
    | "mean" => return s!"ok m={pM (setCenterMass finf m v)}"
    | "range" =>
      match setRange finf fnan m v with
      | some m' => return s!"ok m={pM m'}"
      | none => return "err value"
    | "var" => return s!"ok m={pM (setVar finf fnan Float.sqrt m v)}"
    | _ => return "bad-op"
  | .sym "impose" :: args => Id.run do
    let some n := getNs args "npts" | return "bad-op"
    let some x := getFs args "x" | return "bad-op"
    let some tr := (kw? args "tracking").bind Val.asList? | return "bad-op"
    let some nw := (kw? args "noweight").bind Val.asList? | return "bad-op"
    let parseGroup : Val → Option (Nat × List Nat) := fun v => do
      let l ← v.asNats?
      match l with
      | i :: js => some (i, js)
      | [] => none
    let some tracking := tr.mapM (fun v => match v with
      | .list (k :: gs) => do pure ((← k.asNat?), (← gs.mapM parseGroup))
      | _ => none) | return "bad-op"
    let some noweight := nw.mapM parseGroup | return "bad-op"
    match imposeMeasure finf n tracking noweight x with
    | some y => return s!"ok y={pFs y}"
    | none => return "err index"
  | .sym "mstats2" :: args => Id.run do
    let some m := (kw? args "m").bind parseMeasure | return "bad-op"
    let some e := (kw? args "f").bind parseExpr | return "bad-op"
    let some tol := getF args "tol" | return "bad-op"
    let f := evalF e
    let sup := match mSupport m tol with
      | some l => pFs l
      | none => "none"
    return s!"ok max={pOF (mMaximum f m)} min={pOF (mMinimum f m)} ptp={pOF (mPtp f m)} " ++
      s!"essmax={pOF (mEssMaximum f tol m)} essmin={pOF (mEssMinimum f tol m)} essptp={pOF (mEssPtp f tol m)} " ++
      s!"expect={pF (mExpect finf m f)} expectvar={pF (mExpectVar finf m f)} support={sup} " ++
      s!"sindex={pNs (mSupportIndex m tol)}"
  | .sym "pmstats2" :: args => Id.run do
    let some c := getPM args "c" | return "bad-op"
    let some e := (kw? args "f").bind parseExpr | return "bad-op"
    let some tol := getF args "tol" | return "bad-op"
    let f := evalF e
    return s!"ok max={pOF (pmMaximum f c)} min={pOF (pmMinimum f c)} ptp={pOF (pmPtp f c)} " ++
      s!"essmax={pOF (pmEssMaximum f tol c)} essmin={pOF (pmEssMinimum f tol c)} essptp={pOF (pmEssPtp f tol c)} " ++
      s!"cm={pFs (pmCenterMass finf c)}"
  | .sym "setcm" :: args => Id.run do
    let some c := getPM args "c" | return "bad-op"
    let some v := getFs args "v" | return "bad-op"
    match pmSetCenterMass finf c v with
    | some c' => return s!"ok c={pPM c'}"
    | none => return "err index"
  | .sym "normalize" :: args => Id.run do
    let some m := (kw? args "m").bind parseMeasure | return "bad-op"
    return s!"ok m={pM (mNormalize finf m)}"
  | .sym "vstats" :: args => Id.run do
    let some c := getPM args "c" | return "bad-op"
    let some v := getFs args "values" | return "bad-op"
    let some e := (kw? args "f").bind parseExpr | return "bad-op"
    let some t := getF args "m" | return "bad-op"
    let s : Scen Float := ⟨c, v⟩
    return s!"ok pofv={pF (pofValue s (fun y => evalF e [y]))} meanv={pF (meanValue finf s)} " ++
      s!"setmean={pFs (setMeanValue finf s t).values}"
  | _ => "bad-op"

end MysticVerif.DrvC19
