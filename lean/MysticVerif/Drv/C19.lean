/- driver for C19 : to be filled in (stub keeps Main.lean compiling) -/
import MysticVerif.Basic.Proto

namespace MysticVerif.DrvC19
open MysticVerif

def handle : Handler
  | _ => "bad-op"

end MysticVerif.DrvC19
