/- driver for C19 (discrete measures), Float instantiation of Model/Discrete -/
import MysticVerif.Basic.Proto
import MysticVerif.Model.Dsl
import MysticVerif.Model.Discrete
import MysticVerif.Model.DiscreteExt
import MysticVerif.Model.DiscreteHeap

namespace MysticVerif.DrvC19
open MysticVerif MysticVerif.Discrete MysticVerif.Dsl MysticVerif.DiscreteHeap

def finf : Float := 1.0 / 0.0
def fnan : Float := 0.0 / 0.0

def asFloatss? (v : Val) : Option (List (List Float)) := do
  let l ← v.asList?
  l.mapM Val.asFloats?

/-- a measure travels as `(W X)` (two float lists of equal length) -/
def parseMeasure (v : Val) : Option (Measure Float) :=
  match v with
  | .list [w, x] => do
    let ws ← w.asFloats?
    let xs ← x.asFloats?
    if ws.length = xs.length then some (List.zipWith (fun a b => ⟨a, b⟩) ws xs) else none
  | _ => none

def parsePM (v : Val) : Option (PM Float) := do
  let l ← v.asList?
  l.mapM parseMeasure

def pM (m : Measure Float) : String := "(" ++ pFs (mweights m) ++ " " ++ pFs (mpositions m) ++ ")"
def pPM (c : PM Float) : String := "(" ++ " ".intercalate (c.map pM) ++ ")"
def pErr : Err → String
  | .index => "err index"
  | .value => "err value"
def pOF : Option Float → String
  | some f => pF f
  | none => "none"

def getF (args : List Val) (k : String) : Option Float := (kw? args k).bind Val.asFloat?
def getFs (args : List Val) (k : String) : Option (List Float) := (kw? args k).bind Val.asFloats?
def getFss (args : List Val) (k : String) : Option (List (List Float)) := (kw? args k).bind asFloatss?
def getNs (args : List Val) (k : String) : Option (List Nat) := (kw? args k).bind Val.asNats?
def getPM (args : List Val) (k : String) : Option (PM Float) := (kw? args k).bind parsePM

def evalF (e : Expr) (v : List Float) : Float := (e.eval v).getD fnan

/-! ### object-graph programs (Model/DiscreteHeap): `heap (cells (W X)) (meas (ids..)) (colls ((s|p ids values)..))
(pool ..) (ops (op..))`; the reply lists the status of every operation and what python would show for ALL
collections and ALL named measures after every operation -/

structure HSt where
  h : Heap Float
  names : List Nat

def hResolve (s : HSt) (a : Val) : Option Nat :=
  match a with
  | .list [.sym "m", k] => do
    let k ← k.asNat?
    if s.names.isEmpty then none else s.names[k % s.names.length]?
  | .list [.sym "f", c, i] => do
    let c ← c.asNat?
    let i ← i.asNat?
    let f := factors s.h (c % s.h.colls.length)
    if f.isEmpty then (if s.names.isEmpty then none else s.names[i % s.names.length]?) else f[i % f.length]?
  | _ => none

def hParams (pool : List Float) (mode : String) (k L : Nat) : List Float :=
  let n := if mode == "full" then L else if mode == "plus" then L + k else k
  pool.take (min n pool.length)

def hLen (delta : Int) (n : Nat) : Nat := (Int.ofNat n + delta).toNat

def hObs (s : HSt) : String :=
  let cs := (List.range s.h.colls.length).map fun cid => "(" ++ pPM (obsC s.h cid) ++ " " ++ pFs (valsOf s.h cid) ++ ")"
  let ms := s.names.map fun mid => pM (obsM s.h mid)
  "((" ++ " ".intercalate cs ++ ") (" ++ " ".intercalate ms ++ "))"

def hStep (pool : List Float) (s : HSt) (op : Val) : Option (HSt × String) :=
  let h := s.h
  let nc := h.colls.length
  match op with
  | .list [.sym "update", c, .sym mode, k] => do
    let cid := (← c.asNat?) % nc
    let k ← k.asNat?
    let params := hParams pool mode k (2 * (pts (obsC h cid)).sum)
    match (if h.scen.getD cid false then hSUpdate h cid params else hUpdate h cid params) with
    | some h' => some ({ s with h := h' }, "ok")
    | none => some (s, "index")
  | .list [.sym "load", c, .sym mode, k, p] => do
    let cid := (← c.asNat?) % nc
    let k ← k.asNat?
    let p ← p.asNats?
    let params := hParams pool mode k (2 * p.sum)
    match (if h.scen.getD cid false then hSLoad h cid params p else hLoad h cid params p) with
    | some h' => some ({ s with h := h' }, "ok")
    | none => some (s, "index")
  | .list [.sym "flatten", _] => some (s, "ok")
  | .list [.sym "cshare", c, keep] => do
    let cid := (← c.asNat?) % nc
    let keep ← keep.asBool?
    if keep then some ({ s with h := pushColl h (factors h cid) (valsOf h cid) (h.scen.getD cid false) }, "ok")
    else some ({ s with h := pushColl h (factors h cid) [] false }, "ok")
  | .list [.sym "cscen", c, n] => do
    let cid := (← c.asNat?) % nc
    let n ← n.asNat?
    match hMkScen h cid (pool.take n) with
    | some h' => some ({ s with h := h' }, "ok")
    | none => some ({ s with h := pushColl h [] [] true }, "index")
  | .list [.sym "cnew", .list addrs] =>
    some ({ s with h := pushColl h (addrs.filterMap (hResolve s)) [] false }, "ok")
  | .list [.sym "mcopy", a] => do
    let mid ← hResolve s a
    some ({ h := shareM h mid, names := s.names ++ [h.meas.length] }, "ok")
  | .list [.sym "msetpos", a, .int delta, off] => do
    let mid ← hResolve s a
    let off ← off.asNat?
    let r := hSetMPos h mid ((pool.drop off).take (hLen delta (h.meas.getD mid []).length))
    some ({ s with h := r.1 }, if r.2 then "index" else "ok")
  | .list [.sym "msetwts", a, .int delta, off] => do
    let mid ← hResolve s a
    let off ← off.asNat?
    let r := hSetMWts h mid ((pool.drop off).take (hLen delta (h.meas.getD mid []).length))
    some ({ s with h := r.1 }, if r.2 then "index" else "ok")
  | .list [.sym "mset", a, .sym which, v] => do
    let mid ← hResolve s a
    let v ← v.asFloat?
    let m := obsM h mid
    let xs := mpositions m
    let ws := mweights m
    let nx ← (if which == "mean" then some (some (imposeMean finf v xs ws))
      else if which == "range" then some (imposeSpread finf fnan v xs ws)
      else if which == "var" then some (some (imposeVariance finf fnan Float.sqrt v xs ws)) else none)
    match nx with
    | none => some (s, "value")
    | some p =>
      let r := hSetMPos h mid p
      some ({ s with h := r.1 }, if r.2 then "index" else "ok")
  | .list [.sym "mnorm", a] => do
    let mid ← hResolve s a
    let m := obsM h mid
    let xs := mpositions m
    let ws := mweights m
    let w' := normalizeMass 1 ws
    let r := hSetMPos h mid (imposeMean finf (mean finf xs ws) xs w')
    let r2 := hSetMWts r.1 mid w'
    some ({ s with h := r2.1 }, if r.2 || r2.2 then "index" else "ok")
  | .list [.sym "csetpos", c, off, misfit] => do
    let cid := (← c.asNat?) % nc
    let off ← off.asNat?
    let misfit ← misfit.asBool?
    let S := ((pts (obsC h cid)).foldl (fun (acc : List (List Float) × Nat) n =>
      (acc.1 ++ [(pool.drop acc.2).take n], acc.2 + n)) ([], off)).1
    let P := pack S
    let P := if misfit && P.length > 1 then P.dropLast else P
    let r := hSetCPos h cid P
    some ({ s with h := r.1 }, match r.2 with
      | none => "ok"
      | some .index => "index"
      | some .value => "value")
  | .list [.sym "csetcm", c, .int delta, off] => do
    let cid := (← c.asNat?) % nc
    let off ← off.asNat?
    let vs := (pool.drop off).take (hLen delta (factors h cid).length)
    let r := hSetCM finf h cid vs
    some ({ s with h := r.1 }, if r.2 then "index" else "ok")
  | _ => none

def hRun (pool : List Float) : HSt → List Val → Option (List String × List String)
  | _, [] => some ([], [])
  | s, op :: ops => do
    let r ← hStep pool s op
    let rest ← hRun pool r.1 ops
    some (r.2 :: rest.1, hObs r.1 :: rest.2)

def handleHeap (args : List Val) : String := Id.run do
  let some cells := (kw? args "cells").bind parseMeasure | return "bad-op"
  let some ml := (kw? args "meas").bind Val.asList? | return "bad-op"
  let some meas := ml.mapM Val.asNats? | return "bad-op"
  let some cl := (kw? args "colls").bind Val.asList? | return "bad-op"
  let some colls := cl.mapM (fun v => match v with
    | .list [.sym k, f, vs] => do pure (k == "s", (← f.asNats?), (← vs.asFloats?))
    | _ => none) | return "bad-op"
  let some pool := getFs args "pool" | return "bad-op"
  let some ops := (kw? args "ops").bind Val.asList? | return "bad-op"
  let h : Heap Float := { cells := cells, meas := meas, colls := colls.map (·.2.1), vals := colls.map (·.2.2),
                          scen := colls.map (·.1) }
  if h.colls.isEmpty then return "bad-op"
  match hRun pool ⟨h, List.range meas.length⟩ ops with
  | some (st, obs) => return s!"ok st={pL st} obs={pL obs}"
  | none => return "bad-op"

def handle : Handler
  | .sym "heap" :: args => handleHeap args
  | .sym "flatten" :: args => Id.run do
    let some c := getPM args "c" | return "bad-op"
    return s!"ok y={pFs (flatten c)}"
  | .sym "unflatten" :: args => Id.run do
    let some p := getFs args "params" | return "bad-op"
    let some n := getNs args "npts" | return "bad-op"
    match unflatten p n with
    | some c => return s!"ok c={pPM c}"
    | none => return "err index"
  | .sym "load" :: args => Id.run do
    let some c := getPM args "c" | return "bad-op"
    let some p := getFs args "params" | return "bad-op"
    let some n := getNs args "npts" | return "bad-op"
    match load c p n with
    | some c => return s!"ok c={pPM c}"
    | none => return "err index"
  | .sym "update" :: args => Id.run do
    let some c := getPM args "c" | return "bad-op"
    let some p := getFs args "params" | return "bad-op"
    match update c p with
    | some c => return s!"ok c={pPM c}"
    | none => return "err index"
  | .sym "sload" :: args => Id.run do
    let some c := getPM args "c" | return "bad-op"
    let some v := getFs args "values" | return "bad-op"
    let some p := getFs args "params" | return "bad-op"
    let some n := getNs args "npts" | return "bad-op"
    match sload ⟨c, v⟩ p n with
    | some s => return s!"ok c={pPM s.pm} values={pFs s.values}"
    | none => return "err index"
  | .sym "supdate" :: args => Id.run do
    let some c := getPM args "c" | return "bad-op"
    let some v := getFs args "values" | return "bad-op"
    let some p := getFs args "params" | return "bad-op"
    match supdate ⟨c, v⟩ p with
    | some s => return s!"ok c={pPM s.pm} values={pFs s.values}"
    | none => return "err index"
  | .sym "sflatten" :: args => Id.run do
    let some c := getPM args "c" | return "bad-op"
    let some v := getFs args "values" | return "bad-op"
    let some a := (kw? args "all").bind Val.asBool? | return "bad-op"
    return s!"ok y={pFs (sflatten ⟨c, v⟩ a)}"
  | .sym "mkscen" :: args => Id.run do
    let some c := getPM args "c" | return "bad-op"
    let some v := getFs args "values" | return "bad-op"
    match mkScen c v with
    | some s => return s!"ok c={pPM s.pm} values={pFs s.values}"
    | none => return "err index"
  | .sym "compose" :: args => Id.run do
    let some x := getFss args "x" | return "bad-op"
    let some w := getFss args "w" | return "bad-op"
    match compose x w with
    | some c => return s!"ok c={pPM c}"
    | none => return "err index"
  | .sym "composeu" :: args => Id.run do
    let some x := getFss args "x" | return "bad-op"
    match composeU x with
    | some c => return s!"ok c={pPM c}"
    | none => return "err index"
  | .sym "decompose" :: args => Id.run do
    let some c := getPM args "c" | return "bad-op"
    let xw := decompose c
    return s!"ok x={pFss xw.1} w={pFss xw.2}"
  | .sym "nested" :: args => Id.run do
    let some p := getFs args "params" | return "bad-op"
    let some n := getNs args "npts" | return "bad-op"
    let wx := nestedSplit p n
    return s!"ok p={pFss (nested p n)} flat={pFs (flat (nested p n))} w={pFss wx.1} x={pFss wx.2}"
  | .sym "pack" :: args => Id.run do
    let some s := getFss args "s" | return "bad-op"
    return s!"ok p={pFss (pack s)}"
  | .sym "unpack" :: args => Id.run do
    let some p := getFss args "p" | return "bad-op"
    let some n := getNs args "npts" | return "bad-op"
    match unpack p n with
    | .ok s => return s!"ok s={pFss s}"
    | .error e => return pErr e
  | .sym "setpos" :: args => Id.run do
    let some c := getPM args "c" | return "bad-op"
    let some p := getFss args "p" | return "bad-op"
    match setPositions c p with
    | .ok c => return s!"ok c={pPM c}"
    | .error e => return pErr e
  | .sym "stats" :: args => Id.run do
    let some c := getPM args "c" | return "bad-op"
    let some e := (kw? args "f").bind parseExpr | return "bad-op"
    let some tol := getF args "tol" | return "bad-op"
    let f := evalF e
    let sup := match support c tol with
      | some l => pFss l
      | none => "none"
    return s!"ok weights={pFs (weights c)} positions={pFss (positions c)} npts={npts c} mass={pFs (mass c)} " ++
      s!"expect={pF (expect finf c f)} expectvar={pF (expectVar finf c f)} pof={pF (pof c f)} " ++
      s!"support={sup} sindex={pNs (supportIndex c tol)}"
  | .sym "mstats" :: args => Id.run do
    let some m := (kw? args "m").bind parseMeasure | return "bad-op"
    return s!"ok mean={pF (centerMass finf m)} range={pOF (range m)} var={pF (variance finf m)} mass={pF (sumL (mweights m))}"
  | .sym "mset" :: args => Id.run do
    let some m := (kw? args "m").bind parseMeasure | return "bad-op"
    let some which := (kw? args "which").bind Val.asSym? | return "bad-op"
    let some v := getF args "v" | return "bad-op"
    match which with
    | "mean" => return s!"ok m={pM (setCenterMass finf m v)}"
    | "range" =>
      match setRange finf fnan m v with
      | some m' => return s!"ok m={pM m'}"
      | none => return "err value"
    | "var" => return s!"ok m={pM (setVar finf fnan Float.sqrt m v)}"
    | _ => return "bad-op"
  | .sym "impose" :: args => Id.run do
    let some n := getNs args "npts" | return "bad-op"
    let some x := getFs args "x" | return "bad-op"
    let some tr := (kw? args "tracking").bind Val.asList? | return "bad-op"
    let some nw := (kw? args "noweight").bind Val.asList? | return "bad-op"
    let parseGroup : Val → Option (Nat × List Nat) := fun v => do
      let l ← v.asNats?
      match l with
      | i :: js => some (i, js)
      | [] => none
    let some tracking := tr.mapM (fun v => match v with
      | .list (k :: gs) => do pure ((← k.asNat?), (← gs.mapM parseGroup))
      | _ => none) | return "bad-op"
    let some noweight := nw.mapM parseGroup | return "bad-op"
    match imposeMeasure finf n tracking noweight x with
    | some y => return s!"ok y={pFs y}"
    | none => return "err index"
  | .sym "mstats2" :: args => Id.run do
    let some m := (kw? args "m").bind parseMeasure | return "bad-op"
    let some e := (kw? args "f").bind parseExpr | return "bad-op"
    let some tol := getF args "tol" | return "bad-op"
    let f := evalF e
    let sup := match mSupport m tol with
      | some l => pFs l
      | none => "none"
    return s!"ok max={pOF (mMaximum f m)} min={pOF (mMinimum f m)} ptp={pOF (mPtp f m)} " ++
      s!"essmax={pOF (mEssMaximum f tol m)} essmin={pOF (mEssMinimum f tol m)} essptp={pOF (mEssPtp f tol m)} " ++
      s!"expect={pF (mExpect finf m f)} expectvar={pF (mExpectVar finf m f)} support={sup} " ++
      s!"sindex={pNs (mSupportIndex m tol)}"
  | .sym "pmstats2" :: args => Id.run do
    let some c := getPM args "c" | return "bad-op"
    let some e := (kw? args "f").bind parseExpr | return "bad-op"
    let some tol := getF args "tol" | return "bad-op"
    let f := evalF e
    return s!"ok max={pOF (pmMaximum f c)} min={pOF (pmMinimum f c)} ptp={pOF (pmPtp f c)} " ++
      s!"essmax={pOF (pmEssMaximum f tol c)} essmin={pOF (pmEssMinimum f tol c)} essptp={pOF (pmEssPtp f tol c)} " ++
      s!"cm={pFs (pmCenterMass finf c)}"
  | .sym "setcm" :: args => Id.run do
    let some c := getPM args "c" | return "bad-op"
    let some v := getFs args "v" | return "bad-op"
    match pmSetCenterMass finf c v with
    | some c' => return s!"ok c={pPM c'}"
    | none => return "err index"
  | .sym "normalize" :: args => Id.run do
    let some m := (kw? args "m").bind parseMeasure | return "bad-op"
    return s!"ok m={pM (mNormalize finf m)}"
  | .sym "vstats" :: args => Id.run do
    let some c := getPM args "c" | return "bad-op"
    let some v := getFs args "values" | return "bad-op"
    let some e := (kw? args "f").bind parseExpr | return "bad-op"
    let some t := getF args "m" | return "bad-op"
    let s : Scen Float := ⟨c, v⟩
    return s!"ok pofv={pF (pofValue s (fun y => evalF e [y]))} meanv={pF (meanValue finf s)} " ++
      s!"setmean={pFs (setMeanValue finf s t).values}"
  | _ => "bad-op"

end MysticVerif.DrvC19
