/- driver for C01: the shared solver model S (Drv/SolverDrv.lean) -/
import MysticVerif.Drv.SolverDrv

namespace MysticVerif.DrvC01
open MysticVerif

def handle : Handler := SolverDrv.handle

end MysticVerif.DrvC01
