/- driver for C04: the shared solver model S (Drv/SolverDrv.lean) -/
import MysticVerif.Drv.SolverDrv

namespace MysticVerif.DrvC04
open MysticVerif

def handle : Handler := SolverDrv.handle

end MysticVerif.DrvC04
