/- driver for C04 : to be filled in (stub keeps Main.lean compiling) -/
import MysticVerif.Basic.Proto

namespace MysticVerif.DrvC04
open MysticVerif

def handle : Handler
  | _ => "bad-op"

end MysticVerif.DrvC04
