/- driver for C03: the shared solver model S (Drv/SolverDrv.lean) -/
import MysticVerif.Drv.SolverDrv

namespace MysticVerif.DrvC03
open MysticVerif

def handle : Handler := SolverDrv.handle

end MysticVerif.DrvC03
