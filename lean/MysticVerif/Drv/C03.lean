/- driver for C03 : to be filled in (stub keeps Main.lean compiling) -/
import MysticVerif.Basic.Proto

namespace MysticVerif.DrvC03
open MysticVerif

def handle : Handler
  | _ => "bad-op"

end MysticVerif.DrvC03
