/- Float instantiation of the shared solver model S: commands `de`, `nm`, `ctl` (used by C01-C05, C08) -/
import MysticVerif.Basic.Proto
import MysticVerif.Model.Dsl
import MysticVerif.Model.Combinators
import MysticVerif.Model.Solver
import MysticVerif.Model.NelderMead
import MysticVerif.Model.PowellS
import MysticVerif.Model.ClosedLoop
import MysticVerif.Model.Brent
import MysticVerif.Model.Signal
import MysticVerif.Model.Reconfig
import MysticVerif.Drv.TermParse

namespace MysticVerif.SolverDrv
open MysticVerif MysticVerif.Dsl MysticVerif.Solver

abbrev V := List Float

def inf : Float := 1.0 / 0.0

/-- the user's cost: scalar expression, or a vector of expressions with a reducer (python `reduce`: left fold) -/
inductive CostSpec where
  | scalar (e : Expr)
  | vsum (es : List Expr)
  | vmax (es : List Expr)

def CostSpec.eval (c : CostSpec) (x : V) : Float :=
  match c with
  | .scalar e => (e.eval x).getD (0.0 / 0.0)
  | .vsum es =>
    match es.map (fun e => (e.eval x).getD (0.0 / 0.0)) with
    | [] => 0.0
    | y :: ys => ys.foldl (· + ·) y
  | .vmax es =>
    match es.map (fun e => (e.eval x).getD (0.0 / 0.0)) with
    | [] => 0.0
    | y :: ys => ys.foldl (fun a b => if a ≥ b then a else b) y

def parseCost : Val → Option CostSpec
  | .list [.sym "scalar", e] => (parseExpr e).map .scalar
  | .list (.sym "vsum" :: es) => (es.mapM parseExpr).map .vsum
  | .list (.sym "vmax" :: es) => (es.mapM parseExpr).map .vmax
  | _ => none

/-- strict ranges: (lo, hi, mode) with mode 0 = coupled (bounds constraint is the identity), 1 = tight symbolic,
    2 = clip=True (impose_bounds) -/
structure Box where
  lo : V
  hi : V
  mode : Nat

def Box.inBox (b : Box) (x : V) : Bool :=
  !((List.zipWith (fun xi l => decide (xi < l)) x b.lo).any id || (List.zipWith (fun xi h => decide (xi > h)) x b.hi).any id)

/-- the compiled symbolic bounds `x[i] = max(lo + 0.0, x[i])`, `x[i] = min(hi - 0.0, x[i])` (infinite sides omitted) -/
def Box.clipSym (b : Box) (x : V) : V :=
  let x1 := List.zipWith (fun xi h => if h == inf then xi else pyMin (h - 0.0) xi) x b.hi
  List.zipWith (fun xi l => if l == -inf then xi else pyMax (l + 0.0) xi) x1 b.lo

/-- numpy clip (impose_bounds with clip=True) -/
def Box.clipNp (b : Box) (x : V) : V :=
  let x1 := List.zipWith (fun xi l => if xi < l then l else xi) x b.lo
  List.zipWith (fun xi h => if xi > h then h else xi) x1 b.hi

def Box.bnd (b : Box) (x : V) : V :=
  match b.mode with
  | 1 => b.clipSym x
  | 2 => b.clipNp x
  | _ => x

/-- `x0.clip(lo, hi)` of `_clipGuessWithinRangeBoundary` -/
def Box.clip0 (b : Box) (x : V) : V :=
  let x1 := List.zipWith (fun xi l => if xi < l then l else xi) x b.lo
  List.zipWith (fun xi h => if xi > h then h else xi) x1 b.hi

def parseBox : Val → Option Box
  | .list [lo, hi, .int m] => do pure { lo := ← lo.asFloats?, hi := ← hi.asFloats?, mode := m.toNat }
  | _ => none

structure Setup where
  cost : CostSpec
  pen : Option Expr
  cons : Option Con
  box : Option Box

def Setup.consF (s : Setup) (x : V) : V :=
  match s.cons with
  | some c => (c.apply x).getD x
  | none => x

/-- the constraints as applied before an evaluation: `cons`, or `and_(cons, bounds, onfail=bounds)` -/
def Setup.K (s : Setup) (x : V) : V :=
  match s.box with
  | none => s.consF x
  | some b =>
    let member : Nat → V → Option V := fun i v => if i = 0 then some (s.consF v) else some (b.bnd v)
    match (Comb.and_ member (fun (_ : Unit) v => v) 2 200 x ([] : List Unit)).1 with
    | .success y _ _ => y
    | .fail y => b.bnd y
    | .stuck => x.map (fun _ => 0.0 / 0.0)          -- randomisation needed: not reproducible, poisons the run

def Setup.obj (s : Setup) : Obj V Float :=
  { raw := s.cost.eval
    pen := fun x => match s.pen with | some e => (e.eval x).getD (0.0 / 0.0) | none => 0.0
    K := s.K
    inBox := fun x => match s.box with | some b => b.inBox x | none => true
    useRange := s.box.isSome
    top := inf
    add := (· + ·) }

def parseSetup (args : List Val) : Option Setup := do
  let cost ← (kw? args "cost").bind parseCost
  let pen ← match kw? args "pen" with
    | some (.sym "none") => some none
    | some e => (parseExpr e).map some
    | none => some none
  let cons ← match kw? args "cons" with
    | some (.sym "none") => some none
    | some c => (parseCon c).map some
    | none => some none
  let box ← match kw? args "box" with
    | some (.sym "none") => some none
    | some b => (parseBox b).map some
    | none => some none
  pure { cost, pen, cons, box }

def pPairs (l : List (V × Float)) : String :=
  "(" ++ " ".intercalate (l.map fun p => "(" ++ pFs p.1 ++ " " ++ pF p.2 ++ ")") ++ ")"

/-! ### DE: `de (cost ..) (pen ..) (cons ..) (box ..) (pop ((..) ..)) (trials (((..) ..) ..)) (two true|false)` -/

def showDE (s : DE V Float) : String :=
  s!"(pop {pFss s.pop} popE {pFs s.popE} best {pFs s.best} bestE {pF s.bestE} nlog {s.log.length} nstep {s.stepLog.length})"

def handleDE (args : List Val) : String := Id.run do
  let some su := parseSetup args | return "bad-op"
  let some pop := (kw? args "pop").bind Val.asList? |>.bind (·.mapM Val.asFloats?) | return "bad-op"
  let some trialss := (kw? args "trials").bind Val.asList? |>.bind (·.mapM fun g => g.asList?.bind (·.mapM Val.asFloats?)) | return "bad-op"
  let two := ((kw? args "two").bind Val.asBool?).getD false
  let o := su.obj
  -- `_decorate_objective` under strict ranges: generation 0 clips every member at the bounds
  let pop := match su.box with | some b => pop.map b.clip0 | none => pop
  let x0 := pop.headD []
  let mut s : DE V Float := DE.init o pop x0
  let mut outs : Array String := #[]
  -- generation 0: the members themselves are the trials
  let mut first := true
  for ts in ([pop] ++ trialss) do
    let _ := first
    s := if two then DE.step2 o ts s else DE.step1 o ts s
    first := false
    outs := outs.push (showDE s)
  let last := match s.log.getLast? with | some p => "(" ++ pFs p.1 ++ " " ++ pF p.2 ++ ")" | none => "none"
  return s!"ok steps=({" ".intercalate outs.toList}) lastlog={last} hist={pFs (s.stepLog.map Prod.snd)}"


/-! ### Nelder-Mead: `nm (cost ..) .. (x0 (..)) (radius f) (steps n)` -/

/-- `_setSimplexWithinRangeBoundary(radius)` on the (already clipped) guess -/
def mkVal (box : Option Box) (radius : Float) (x0 : V) : V :=
  let val0 := x0.map fun x => let v := x * (1.0 + radius); if v == 0.0 then (radius * radius) * 0.1 else v
  match box with
  | none => val0
  | some b =>
    let r := if radius < 0.0 then 0.0 else if radius > 0.5 then 0.5 else radius
    let rows := List.zip (List.zip x0 val0) (List.zip b.lo b.hi)
    rows.map fun ((x, v0), (lo, hi)) =>
      let bounded := !(lo == inf || lo == -inf) && !(hi == inf || hi == -inf)
      let v1 := if bounded then x + (hi - lo) * r else v0
      let v2 := if v1 < lo then lo else v1
      let v3 := if v2 > hi then hi else v2
      if v3 == x then
        let rv0 := x * (1.0 - r)
        let rv1 := if rv0 == 0.0 then -r else rv0
        if bounded then x - (hi - lo) * r else rv1
      else v3

def showNM (s : NM Float Float) (b : String) : String :=
  s!"({b} sim {pFss (s.simplex.map Prod.fst)} fsim {pFs (s.simplex.map Prod.snd)} nlog {s.log.length} nstep {s.stepLog.length})"

def branchName : Branch → String
  | .init => "init" | .build => "build" | .expand => "expand" | .reflect1 => "reflect1" | .reflect2 => "reflect2"
  | .contractOut => "contractOut" | .contractIn => "contractIn" | .shrink => "shrink"

def handleNM (args : List Val) : String := Id.run do
  let some su := parseSetup args | return "bad-op"
  let some x0 := (kw? args "x0").bind Val.asFloats? | return "bad-op"
  let some radius := (kw? args "radius").bind Val.asFloat? | return "bad-op"
  let some steps := (kw? args "steps").bind Val.asNat? | return "bad-op"
  let mut_ := ((kw? args "inplace").bind Val.asBool?).getD false
  let o := su.obj
  let st : V → V := if mut_ then o.K else id
  let n := Float.ofNat x0.length
  let c : Coef Float := { one := 1.0, rho := 1.0, chi := 2.0, psi := 0.5, sigma := 0.5, n := n }
  let clip0 : V → V := match su.box with | some b => b.clip0 | none => id
  let mut outs : Array String := #[]
  let mut s : NM Float Float := default
  for k in [0:steps] do
    if k = 0 then
      -- with strict ranges `_decorate_objective` first clips the guess (generation 0: at the bounds)
      s := NM.gen0 o 0.0 (clip0 x0)
      outs := outs.push (showNM s "init")
    else if k = 1 then
      s := NM.gen1 o clip0 (mkVal su.box radius) s
      outs := outs.push (showNM s "build")
    else
      let r := NM.update o c st s
      s := r.1
      outs := outs.push (showNM s (branchName r.2))
  return s!"ok steps=({" ".intercalate outs.toList}) log={pPairs (s.log.drop (s.log.length - 3))} hist={pFs (s.stepLog.map Prod.snd)}"

/-! ### control loop: `ctl (scale i e) (ops ((step tpre tpost dE dG dS fin) (limits g e new) (exit b) (finalize) ..))` -/

def optNat : Val → Option (Option Nat)
  | .sym "none" => some none
  | .int i => if 0 ≤ i then some (some i.toNat) else none
  | _ => none

def showLim : Lim → String
  | .none => "none" | .star => "star" | .val n => toString n

def showMsg : Option Msg → String
  | none => "none" | some .lim => "lim" | some .sig => "sig" | some .cond => "cond"

def handleCtl (args : List Val) : String := Id.run do
  let some (.list [.int si, .int se]) := kw? args "scale" | return "bad-op"
  let some ops := (kw? args "ops").bind Val.asList? | return "bad-op"
  let pw := ((kw? args "powell").bind Val.asBool?).getD false
  let mut c : Ctl := { scaleIter := si.toNat, scaleEval := se.toNat, powell := pw }
  let mut outs : Array String := #[]
  for op in ops do
    match op with
    | .list [.sym "step", tpre, tpost, .int dE, .int dG, .int dS] =>
      let some a := tpre.asBool? | return "bad-op"
      let some b := tpost.asBool? | return "bad-op"
      let r := c.step a b { dEvals := dE.toNat, dGens := dG.toNat, dStep := dS.toNat }
      c := r.1
      outs := outs.push s!"(step {showMsg r.2.1} {pB r.2.2} g{c.gens} e{c.evals} n{c.nstep} {showLim c.maxiter} {showLim c.maxfun} {pB c.live})"
    | .list [.sym "limits", g, e, nw] =>
      let some g' := optNat g | return "bad-op"
      let some e' := optNat e | return "bad-op"
      let some n' := nw.asBool? | return "bad-op"
      c := c.setLimits g' e' n'
      outs := outs.push s!"(limits {showLim c.maxiter} {showLim c.maxfun})"
    | .list [.sym "exit", b] =>
      let some b' := b.asBool? | return "bad-op"
      c := { c with earlyExit := b' }
      outs := outs.push "(exit)"
    | .list [.sym "setevals", .int n] =>         -- DE2 only: `_fcalls[0] = len(evalmon)` (counter re-read from the monitor, F21b)
      c := { c with evals := n.toNat }
      outs := outs.push "(setevals)"
    | .list [.sym "stepmon", nw] =>
      let some n' := nw.asBool? | return "bad-op"
      c := c.setStepMon n'
      outs := outs.push s!"(stepmon g{c.gens} n{c.nstep})"
    | .list [.sym "finalize"] =>                 -- Finalize(), also reached through every Set* that re-decorates
      c := c.finalize
      outs := outs.push s!"(finalize g{c.gens} n{c.nstep} {pB c.live})"
    | _ => return "bad-op"
  return s!"ok ops=({" ".intercalate outs.toList})"


/-! ### Powell on the decorated objective:
`pw (cost ..) (pen ..) (cons ..) (box ..) (x0 (..)) (record b) (steps n) (ls ((pre (..) ..) (y ..) (post (..) ..) (xi ..)) ..)`
the k-th recorded line search is the oracle's answer to the k-th request, whatever `(p, xi)` the model asks for:
the requests are printed (`reqs`) and compared with the recorded ones by the harness. -/

open MysticVerif.PowellS in
def pwCfgF : PwCfg Float Float :=
  { diff := fun a b => a - b
    gain := fun fx2 fval delta => !(fx2.isInf && fval.isInf) && decide (fx2 - fval > delta)
    tneg := fun fx fx2 fval delta =>
      let t := 2.0 * (fx + fx2 - 2.0 * fval)
      let temp := fx - fval - delta
      let t := t * (temp * temp)
      let temp := fx - fx2
      let t := t - delta * temp * temp
      decide (t < 0.0)
    zeroE := 0.0
    two := 2.0 }

/-- order-sensitive checksum of the evaluation log (NaN canonicalised) -/
def logSum (l : List (V × Float)) : UInt64 :=
  let bits := fun (f : Float) => if f != f then (0x7ff8000000000000 : UInt64) else f.toBits
  let mix := fun (h : UInt64) (b : UInt64) => h * 6364136223846793005 + b + 1442695040888963407
  l.foldl (fun h p => mix (p.1.foldl (fun h v => mix h (bits v)) h) (bits p.2)) 0

open MysticVerif.PowellS in
def parseLs : Val → Option (LsRec Float)
  | .list args => do
    let pre ← (kw? args "pre").bind Val.asList? |>.bind (·.mapM Val.asFloats?)
    let y ← (kw? args "y").bind Val.asFloats?
    let post ← (kw? args "post").bind Val.asList? |>.bind (·.mapM Val.asFloats?)
    let xi ← (kw? args "xi").bind Val.asFloats?
    pure { pre, y, post, xi }
  | _ => none


/-- the line-search oracle of a `pw` / `solve` request: the recorded searches `(ls (...))`, or - with `(brent true)` - the
    MODELLED Brent search (Model/Brent.lean) on the decorated objective with `tol = xtol*100` and `maxiter = imax`:
    then nothing of the real run's line searches is used -/
def pwOracle (o : Obj V Float) (args : List Val) : Option (Nat → V → V → PowellS.LsRec Float) := do
  let useBrent := ((kw? args "brent").bind Val.asBool?).getD false
  if useBrent then
    let tol ← (kw? args "tol").bind Val.asFloat?
    let imax ← (kw? args "imax").bind Val.asNat?
    let bitsEq : V → V → Bool := fun a b => a.length == b.length && (List.zipWith (fun x y => x.toBits == y.toBits) a b).all id
    let bad : V → V → PowellS.LsRec Float := fun p _ => { pre := [], y := p.map (fun _ => 0.0 / 0.0), post := [], xi := p.map fun _ => 0.0 }
    pure (Brent.lsRec (Brent.floatK) bitsEq (fun z => (o.objK z []).1) tol imax 1000 1002 bad)
  else
    let lsl ← (kw? args "ls").bind Val.asList? |>.bind (·.mapM parseLs)
    let lsArr := lsl.toArray
    pure fun k p _ => lsArr.getD k { pre := [], y := p, post := [], xi := p.map fun _ => 0.0 }

open MysticVerif.PowellS in
def showPw (s : Pw Float Float) : String :=
  s!"(x {pFs s.x} fval {pF s.fval} nlog {s.log.length} nstep {s.stepLog.length} nls {s.nls} bigind {s.bigind} delta {pF s.delta})"

open MysticVerif.PowellS in
def handlePw (args : List Val) : String := Id.run do
  let some su := parseSetup args | return "bad-op"
  let some x0 := (kw? args "x0").bind Val.asFloats? | return "bad-op"
  let some steps := (kw? args "steps").bind Val.asNat? | return "bad-op"
  let record := ((kw? args "record").bind Val.asBool?).getD true
  let o := su.obj
  let some ls := pwOracle o args | return "bad-op"
  let clip0 : V → V := match su.box with | some b => b.clip0 | none => id
  let n := x0.length
  let eye : List V := (List.range n).map fun i => (List.range n).map fun j => if i = j then 1.0 else 0.0
  let mut outs : Array String := #[]
  let mut s : Pw Float Float := default
  for k in [0:steps] do
    if k = 0 then s := gen0 o pwCfgF record (clip0 x0) eye
    else if k = 1 then s := gen1 o pwCfgF ls s
    else s := genN o pwCfgF ls s
    outs := outs.push (showPw s)
  let reqs := "(" ++ " ".intercalate (s.reqs.map fun r => "(" ++ pFs r.1 ++ " " ++ pFs r.2 ++ ")") ++ ")"
  return s!"ok steps=({" ".intercalate outs.toList}) reqs={reqs} direc={pFss s.direc} logsum={(logSum s.log).toNat} steplog={pPairs s.stepLog} hist={pFs s.hist}"

/-! ### the closed loop: `solve (cost ..) (pen ..) (cons ..) (box ..) (kind de|de2|nm) (term <C10 expression>)
`(scale i e) (limits g e) (fuel n)` + `(pop ..) (trials ..)` for DE, `(x0 ..) (radius f) (inplace b)` for Nelder-Mead.
Everything - how many iterations run, the stop message, the counters, the final state - is decided by the model. -/

open MysticVerif.Closed in
def handleSolve (args : List Val) : String := Id.run do
  let some su := parseSetup args | return "bad-op"
  let some (.sym kind) := kw? args "kind" | return "bad-op"
  let some e := (kw? args "term").bind TermParse.parseExpr | return "bad-op"
  let some (.list [.int si, .int se]) := kw? args "scale" | return "bad-op"
  let some (.list [lg, le]) := kw? args "limits" | return "bad-op"
  let some g := optNat lg | return "bad-op"
  let some ev := optNat le | return "bad-op"
  let some fuel := (kw? args "fuel").bind Val.asNat? | return "bad-op"
  let cond := e.build
  let o := su.obj
  let c0 : Ctl := ({ scaleIter := si.toNat, scaleEval := se.toNat } : Ctl).setLimits g ev false
  let showOut := fun (c : Ctl) (msg : Option Msg) (iters steps : Nat) (best : V) (bestE : Float) (nlog nstep : Nat) =>
    s!"ok iters={iters} steps={steps} msg={showMsg msg} gens={c.gens} evals={c.evals} nstep={c.nstep} maxiter={showLim c.maxiter} maxfun={showLim c.maxfun} live={pB c.live} best={pFs best} bestE={pF bestE} nlog={nlog} nsteplog={nstep}"
  if kind == "pw" then
    let some x0 := (kw? args "x0").bind Val.asFloats? | return "bad-op"
    let record := ((kw? args "record").bind Val.asBool?).getD true
    let some ls := pwOracle o args | return "bad-op"
    let clip0 : V → V := match su.box with | some b => b.clip0 | none => id
    let n := x0.length
    let eye : List V := (List.range n).map fun i => (List.range n).map fun j => if i = j then 1.0 else 0.0
    let a := pwAlg o pwCfgF ls cond record (clip0 x0) eye
    let c0 := { c0 with powell := true }
    let r := solve a fuel c0 (default : PowellS.Pw Float Float) 0 0
    let reqs := "(" ++ " ".intercalate (r.st.reqs.map fun q => "(" ++ pFs q.1 ++ " " ++ pFs q.2 ++ ")") ++ ")"
    return showOut r.ctl r.msg r.iters r.steps r.st.x r.st.fval r.st.log.length r.st.stepLog.length ++ s!" nls={r.st.nls} reqs={reqs}"
  if kind == "nm" then
    let some x0 := (kw? args "x0").bind Val.asFloats? | return "bad-op"
    let some radius := (kw? args "radius").bind Val.asFloat? | return "bad-op"
    let mut_ := ((kw? args "inplace").bind Val.asBool?).getD false
    let st : V → V := if mut_ then o.K else id
    let coef : Coef Float := { one := 1.0, rho := 1.0, chi := 2.0, psi := 0.5, sigma := 0.5, n := Float.ofNat x0.length }
    let clip0 : V → V := match su.box with | some b => b.clip0 | none => id
    let a := nmAlg o coef st clip0 (mkVal su.box radius) cond x0
    -- equal vertex energies: `numpy.argsort` leaves the order of ties unspecified - flag the run (the harness skips it)
    let hasTie := fun (s : NM Float Float) =>
      let es := s.simplex.map Prod.snd
      es.zipIdx.any fun (e, i) => (es.drop (i + 1)).any (· == e)
    let a' : Alg (NM Float Float × Bool) :=
      { step := fun p k => let s' := a.step p.1 k; (s', p.2 || (decide (k ≥ 1) && hasTie s')),
        nlog := fun p => a.nlog p.1, nrec := fun p => a.nrec p.1, term := fun p c => a.term p.1 c }
    let r := solve a' fuel c0 ((default : NM Float Float), false) 0 0
    let hd := r.st.1.simplex.headD ([], inf)
    return showOut r.ctl r.msg r.iters r.steps hd.1 hd.2 r.st.1.log.length r.st.1.stepLog.length ++ s!" ties={pB r.st.2}"
  else
    let some pop := (kw? args "pop").bind Val.asList? |>.bind (·.mapM Val.asFloats?) | return "bad-op"
    let some trialss := (kw? args "trials").bind Val.asList? |>.bind (·.mapM fun g => g.asList?.bind (·.mapM Val.asFloats?)) | return "bad-op"
    let pop := match su.box with | some b => pop.map b.clip0 | none => pop
    let a := deAlg (kind == "de2") o cond pop trialss
    let r := solve a fuel c0 (DE.init o pop (pop.headD [])) 0 0
    return showOut r.ctl r.msg r.iters r.steps r.st.best r.st.bestE r.st.log.length r.st.stepLog.length

/-! ### DE, reconfigured: `dec (pop ((..) ..)) (gens ((gen (cfg <setup>) (redec b) (allclip b) (two b) (trials members|((..) ..))) ..))`
    one `gen` per PERFORMED iteration, with the settings in force at that iteration (Model/Reconfig.lean) -/

/-- `_decorate_objective` under strict ranges (differential_evolution.py l.237-242 / l.486-491): every member goes through
    `_clipGuessWithinRangeBoundary(member, (not generations) or i == index of bestEnergy in popEnergy)`; with `at = True` it
    is clipped at the bounds, with `at = False` out-of-range coordinates are re-drawn at random - the harness hands the model
    only histories in which those members lie in the box (identity) -/
def redecPop (b : Box) (allclip : Bool) (s : DE V Float) (pop : List V) : List V :=
  if allclip then pop.map b.clip0
  else
    let idx := (s.popE.zipIdx.find? (fun p => p.1 == s.bestE)).map (·.2)
    match idx with
    | some i => pop.zipIdx.map (fun p => if p.2 = i then b.clip0 p.1 else p.1)
    | none => pop

def handleDEC (args : List Val) : String := Id.run do
  let some pop := (kw? args "pop").bind Val.asList? |>.bind (·.mapM Val.asFloats?) | return "bad-op"
  let some gens := (kw? args "gens").bind Val.asList? | return "bad-op"
  let mut s : DE V Float := { pop := pop, popE := pop.map (fun _ => inf), best := pop.headD [], bestE := inf, log := [], stepLog := [] }
  let mut outs : Array String := #[]
  for g in gens do
    let some (.sym tag :: gargs) := g.asList? | return "bad-op"
    let some cfg := (kw? gargs "cfg").bind Val.asList? | return "bad-op"
    let some su := parseSetup cfg | return "bad-op"
    let allclip := ((kw? gargs "allclip").bind Val.asBool?).getD false
    if tag == "redec" then
      -- a Step that re-decorated the objective and then found the solver stopped: only the population surgery happens
      match su.box with
      | some b => s := { s with pop := redecPop b allclip s s.pop }
      | none => pure ()
      continue
    let redec := ((kw? gargs "redec").bind Val.asBool?).getD false
    let two := ((kw? gargs "two").bind Val.asBool?).getD false
    let s0 := s
    let pre : List V → List V := match su.box with
      | some b => if redec then redecPop b allclip s0 else id
      | none => id
    let trialsOpt : Option (List V) := match kw? gargs "trials" with
      | some (.sym "members") => some (pre s.pop)
      | some v => v.asList?.bind (·.mapM Val.asFloats?)
      | none => none
    let some trials := trialsOpt | return "bad-op"
    s := DE.genStep { o := su.obj, pre := pre, trials := trials, two := two } s
    outs := outs.push (showDE s)
  let last := match s.log.getLast? with | some p => "(" ++ pFs p.1 ++ " " ++ pF p.2 ++ ")" | none => "none"
  return s!"ok steps=({" ".intercalate outs.toList}) lastlog={last} hist={pFs (s.stepLog.map Prod.snd)} logsum={logSum s.log}"

/-! ### Nelder-Mead, reconfigured: `nmc (x0 (..)) (radius f) (gens ((gen (cfg <setup>) (redec b) (inplace b)) ..))`
    one `gen` per PERFORMED iteration with the settings in force at that iteration.  Re-decoration under strict ranges
    (scipy_optimize.py l.201-212): before generation 1 only `population[0]` is clipped; from generation 1 on the whole
    simplex is REBUILT around the clipped `population[0]` (`_setSimplexWithinRangeBoundary()`, default radius) while
    `popEnergy` is kept - the model follows the code (known finding F20: members then carry stale energies). -/

def redecSimplex (b : Box) (k : Nat) (sx : List (V × Float)) : List (V × Float) :=
  NM.redecorate b.clip0 (mkVal (some b) 0.05) 0.0 k sx

def handleNMC (args : List Val) : String := Id.run do
  let some x0 := (kw? args "x0").bind Val.asFloats? | return "bad-op"
  let some radius := (kw? args "radius").bind Val.asFloat? | return "bad-op"
  let some gens := (kw? args "gens").bind Val.asList? | return "bad-op"
  let n := Float.ofNat x0.length
  let c : Coef Float := { one := 1.0, rho := 1.0, chi := 2.0, psi := 0.5, sigma := 0.5, n := n }
  let mut outs : Array String := #[]
  let mut s : NM Float Float := default
  let mut k := 0
  for g in gens do
    let some (.sym tag :: gargs) := g.asList? | return "bad-op"
    let some cfg := (kw? gargs "cfg").bind Val.asList? | return "bad-op"
    let some su := parseSetup cfg | return "bad-op"
    if tag == "redec" then
      match su.box with
      | some b => s := { s with simplex := redecSimplex b k s.simplex }
      | none => pure ()
      continue
    let redec := ((kw? gargs "redec").bind Val.asBool?).getD false
    let mut_ := ((kw? gargs "inplace").bind Val.asBool?).getD false
    let o := su.obj
    let st : V → V := if mut_ then o.K else id
    let clip0 : V → V := match su.box with | some b => b.clip0 | none => id
    if k = 0 then
      s := NM.gen0 o 0.0 (clip0 x0)
      outs := outs.push (showNM s "init")
    else
      let s0 : NM Float Float := match su.box with
        | some b => if redec then { s with simplex := redecSimplex b k s.simplex } else s
        | none => s
      if k = 1 then
        s := NM.gen1 o clip0 (mkVal su.box radius) s0
        outs := outs.push (showNM s "build")
      else
        let r := NM.update o c st s0
        s := r.1
        outs := outs.push (showNM s (branchName r.2))
    k := k + 1
  return s!"ok steps=({" ".intercalate outs.toList}) log={pPairs (s.log.drop (s.log.length - 3))} hist={pFs (s.stepLog.map Prod.snd)} logsum={logSum s.log}"

def handle : Handler
  | .sym "de" :: args => handleDE args
  | .sym "dec" :: args => handleDEC args
  | .sym "nmc" :: args => handleNMC args
  | .sym "nm" :: args => handleNM args
  | .sym "ctl" :: args => handleCtl args
  | .sym "pw" :: args => handlePw args
  | .sym "solve" :: args => handleSolve args
  | .sym "warn" :: args => Id.run do         -- the one-liners' warnflag from the final counters and resolved limits
    let some (.int e) := kw? args "evals" | return "bad-op"
    let some (.int g) := kw? args "gens" | return "bad-op"
    let some (.int mi) := kw? args "maxiter" | return "bad-op"
    let some (.int mf) := kw? args "maxfun" | return "bad-op"
    let c : Ctl := { evals := e.toNat, gens := g.toNat, maxiter := .val mi.toNat, maxfun := .val mf.toNat }
    return s!"ok warnflag={c.warnflag} msg={showMsg (c.message false)}"
  | .sym "sig" :: args => Id.run do          -- one delivery of SIGINT: `sig (cb true|false) (script (sol cont call exit x ..))`
    let cb := ((kw? args "cb").bind Val.asBool?).getD false
    let some toks := (kw? args "script").bind Val.asList? | return "bad-op"
    let sw : Val → Signal.Switch := fun v => match v with
      | .sym "sol" => .sol | .sym "cont" => .cont | .sym "call" => .call | .sym "exit" => .exit | _ => .other
    let e := Signal.deliver cb (toks.map sw)
    return s!"ok exit={pB e.earlyExit} consumed={e.consumed} printed={e.printed} called={e.called} unknown={e.unknown} finished={pB e.finished}"
  | .sym "K" :: args => Id.run do            -- twin test of the constraints coupling
    let some su := parseSetup args | return "bad-op"
    let some x := (kw? args "x").bind Val.asFloats? | return "bad-op"
    return s!"ok y={pFs (su.K x)} cost={pF (su.obj.raw x)}"
  | _ => "bad-op"

end MysticVerif.SolverDrv
