/- driver for C16 (constraint transforms / decorators), Float instantiation of Model/Transforms -/
import MysticVerif.Basic.Proto
import MysticVerif.Model.Transforms

namespace MysticVerif.DrvC16
open MysticVerif MysticVerif.Trans

def showR (r : Except Err (List Float)) : String :=
  match r with
  | .ok y => s!"ok y={pFs y}"
  | .error e => s!"err {e.str}"

/-- `none` or a list of ints -/
def parseIdx (v : Val) : Option (Option (List Int)) :=
  match v with
  | .sym "none" => some none
  | _ => v.asInts?.map some

def parseOptF (v : Val) : Option (Option Float) :=
  match v with
  | .sym "none" => some none
  | _ => v.asFloat?.map some

def parsePairsF (v : Val) : Option (List (Float × Float)) := do
  let l ← v.asList?
  l.mapM fun
    | .list [a, b] => do pure (← a.asFloat?, ← b.asFloat?)
    | _ => none

def parseIF (v : Val) : Option (List (Int × Float)) := do
  let l ← v.asList?
  l.mapM fun
    | .list [.int i, b] => do pure (i, ← b.asFloat?)
    | _ => none

def parseII (v : Val) : Option (List (Int × Int)) := do
  let l ← v.asList?
  l.mapM fun
    | .list [.int i, .int j] => some (i, j)
    | _ => none

def parseTrack (v : Val) : Option (List (Int × Track Float)) := do
  let l ← v.asList?
  l.mapM fun
    | .list [.int i, .int j] => some (i, Track.idx j)
    | .list [.int i, .int j0, c] => do pure (i, Track.scaled j0 (← c.asFloat?))
    | _ => none

def parseSpec (v : Val) : Option (List (Option Int × List (Float × Float))) := do
  let l ← v.asList?
  l.mapM fun
    | .list [.sym "none", ivs] => do pure (none, ← parsePairsF ivs)
    | .list [.int i, ivs] => do pure (some i, ← parsePairsF ivs)
    | _ => none

def parseFss (v : Val) : Option (List (List Float)) := do
  let l ← v.asList?
  l.mapM Val.asFloats?

def fRint : Float → Float := rintHE Float.floor
/-- `astype(int)` seen as a float again (finite inputs only) -/
def fTrunc (a : Float) : Float := if a < 0 then a.ceil else a.floor
def fNaN : Float := 0.0 / 0.0
def seqSum (l : List Float) : Float := l.foldl (· + ·) 0

/-- constraints.py l.1221-1222: `None`/NaN bounds become -inf / inf -/
def normIv (iv : Float × Float) : Float × Float :=
  (if iv.1.isNaN then -(1.0 / 0.0) else iv.1, if iv.2.isNaN then 1.0 / 0.0 else iv.2)
/-- l.1237-1238 (clip=False only): limit to plus or minus 1e300 -/
def limitIv (iv : Float × Float) : Float × Float :=
  (if iv.1 < -1e300 then -1e300 else iv.1, if iv.2 > 1e300 then 1e300 else iv.2)

def pickSum (v : Option Val) : List Float → Float :=
  match v with
  | some (.sym "np") => npSum
  | _ => seqSum

def handle : Handler
  | .sym op :: args => Id.run do
    let some x := (kw? args "x").bind Val.asFloats? | return "bad-op"
    let idx? := (kw? args "idx").bind parseIdx
    match op with
    | "discrete" =>
      let some idx := idx? | return "bad-op"
      let some s := (kw? args "samples").bind Val.asFloats? | return "bad-op"
      return showR (discrete s idx x)
    | "integers" =>
      let some idx := idx? | return "bad-op"
      let some c := (kw? args "cast").bind Val.asSym? | return "bad-op"
      return showR (.ok (integers fRint (if c == "int" then fTrunc else id) idx x))
    | "rounded" =>
      let some idx := idx? | return "bad-op"
      let some d := (kw? args "digits").bind Val.asInt? | return "bad-op"
      let some p := (kw? args "p").bind Val.asFloat? | return "bad-op"
      return showR (.ok (rounded fRint d p idx x))
    | "unique" =>
      let some new := (kw? args "new").bind Val.asFloats? | return "bad-op"
      let some full := (kw? args "full").bind Val.asFloats? | return "bad-op"
      -- the pool contract (`new` is `list(set(full) - set(x))` in some order) is reported beside the result
      let pool := if uniquePoolOk full x new then "ok" else "bad"
      match unique full x new with
      | .ok y => return s!"ok y={pFs y} pool={pool}"
      | .error e => return s!"err {e.str}"
    | "bounds" =>
      let some spec := (kw? args "spec").bind parseSpec | return "bad-op"
      return showR (.ok (imposeBounds (spec.map fun e => (e.1, e.2.map normIv)) x))
    | "bounded" =>
      let some idx := idx? | return "bad-op"
      let some ivs := (kw? args "ivs").bind parsePairsF | return "bad-op"
      let some mode := (kw? args "mode").bind Val.asSym? | return "bad-op"
      let picks := ((kw? args "picks").bind Val.asNats?).getD []
      let draws := ((kw? args "draws").bind parseFss).getD []
      if ivs.isEmpty then return showR (.ok x)
      let ivs := ivs.map normIv
      let ivs := if mode == "randnear" || mode == "randpick" then ivs.map limitIv else ivs
      match mode with
      | "near" => return showR (.ok (bounded ivs idx x))
      | "pick" => return showR (.ok (boundedPickGo ivs idx x 0 picks))
      | "randnear" => return showR (.ok (boundedRandGo ivs idx true draws x 0 0 []))
      | "randpick" => return showR (.ok (boundedRandGo ivs idx false draws x 0 0 picks))
      | _ => return "bad-op"
    | "sorting" =>
      let some idx := idx? | return "bad-op"
      let some asc := (kw? args "asc").bind Val.asBool? | return "bad-op"
      return showR (sorting asc idx x)
    | "monotonic" =>
      let some idx := idx? | return "bad-op"
      let some asc := (kw? args "asc").bind Val.asBool? | return "bad-op"
      return showR (monotonic asc idx x)
    | "at" =>
      let some index := (kw? args "index").bind Val.asInts? | return "bad-op"
      match (kw? args "target").bind Val.asFloat?, (kw? args "targets").bind Val.asFloats? with
      | some t, _ => return showR (imposeAt index (.inl t) x)
      | none, some ts => return showR (imposeAt index (.inr ts) x)
      | _, _ => return "bad-op"
    | "as" =>
      let some mask := (kw? args "mask").bind parseII | return "bad-op"
      let some off := (kw? args "offset").bind Val.asFloat? | return "bad-op"
      return showR (imposeAs mask off x)
    | "partial" =>
      let some mask := (kw? args "mask").bind parseIF | return "bad-op"
      return showR (.ok (partialMask mask x))
    | "sync" =>
      let some mask := (kw? args "mask").bind parseTrack | return "bad-op"
      let some arr := (kw? args "array").bind Val.asBool? | return "bad-op"
      return showR (.ok (synchronized arr mask x))
    | "clipped" =>
      let some lo := (kw? args "lo").bind parseOptF | return "bad-op"
      let some hi := (kw? args "hi").bind parseOptF | return "bad-op"
      return showR (.ok (clipped lo hi x))
    | "suppress" =>
      let some tol := (kw? args "tol").bind Val.asFloat? | return "bad-op"
      return showR (.ok (suppress tol x))
    | "suppressspread" =>
      let some tol := (kw? args "tol").bind Val.asFloat? | return "bad-op"
      return showR (suppressSpread Float.ofNat tol x)
    | "masked" =>
      let some mask := (kw? args "mask").bind parseIF | return "bad-op"
      return showR (masked mask x)
    | "mean" | "spread" | "norm" | "var" =>
      let some target := (kw? args "target").bind Val.asFloat? | return "bad-op"
      let some atol := (kw? args "atol").bind Val.asFloat? | return "bad-op"
      let some rtol := (kw? args "rtol").bind Val.asFloat? | return "bad-op"
      let sm := pickSum (kw? args "sum")
      match op with
      | "mean" => return showR (withMean sm Float.ofNat atol rtol target x)
      | "spread" => return showR (withSpread sm Float.ofNat atol rtol fNaN target x)
      | "norm" => return showR (.ok (normalized sm atol rtol target x))
      | _ => return showR (withVariance sm Float.ofNat Float.sqrt atol rtol fNaN target x)
    | "npsum" => return s!"ok s={pF (npSum x)}"
    | _ => return "bad-op"
  | _ => "bad-op"

end MysticVerif.DrvC16
