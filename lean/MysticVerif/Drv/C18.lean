/- driver for C18 (moment-imposing transforms, statistical definitions, norms and metrics):
   Float instantiation of Model/Measures -/
import MysticVerif.Basic.Proto
import MysticVerif.Model.Dsl
import MysticVerif.Model.Measures
import MysticVerif.Model.Trimmed
import MysticVerif.Model.MeasuresX

namespace MysticVerif.DrvC18
open MysticVerif MysticVerif.Meas MysticVerif.Dsl

instance : NatCast Float := ⟨Float.ofNat⟩

/-- `t ** (1./p)`: exact for p = 1, `sqrt` for p = 2 (numpy's array fast path), libm `pow` otherwise -/
def rootF (p : Nat) (t : Float) : Float :=
  if p = 1 then t else if p = 2 then Float.sqrt t else Float.pow t (1.0 / Float.ofNat p)

def CF : Consts Float := { inf := 1.0 / 0.0, nan := 0.0 / 0.0, sqrt := Float.sqrt, root := rootF }

def optFloats? (v : Val) : Option (Option (List Float)) :=
  match v with
  | .sym "none" => some none
  | _ => (v.asFloats?).map some

def parsePts (v : Val) : Option (List (List Float)) := do
  let l ← v.asList?
  l.mapM Val.asFloats?

def parsePairs (v : Val) : Option (List (Int × Int)) := do
  let l ← v.asList?
  l.mapM fun
    | .list [.int i, .int j] => some (i, j)
    | _ => none

def evalF (e : Expr) (p : List Float) : Float := (e.eval p).getD (0.0 / 0.0)

def showGroups (g : Groups) : String :=
  pL (g.map fun kv => "(" ++ toString kv.1 ++ " " ++ pIs kv.2 ++ ")")

/-- all normalised indices of the pairs inside `[0, n)` -/
def pairsInRange (n : Nat) (pairs : List (Int × Int)) : Bool :=
  pairs.all fun p =>
    let i := normIdx n p.1; let j := normIdx n p.2
    decide (0 ≤ i) && decide (i < n) && decide (0 ≤ j) && decide (j < n)

def distOf (kind : String) (p : Nat) (x y : List Float) : Option Float :=
  match kind with
  | "chebyshev" => if x.isEmpty || y.isEmpty then none else some (chebyshev x y)
  | "hamming" => some (hamming x y)
  | "minkowski" => some (minkowski CF p x y)
  | "euclidean" => some (euclidean CF x y)
  | "manhattan" => some (manhattan CF x y)
  | _ => none


/-- `numpy.rint` (round half to even); every binary64 of magnitude >= 2^52 is an integer -/
def rintF (y : Float) : Float :=
  if y.isNaN || y.abs ≥ 4503599627370496.0 then y
  else
    let f := y.floor
    let d := y - f                                   -- exact
    if d < 0.5 then f else if d > 0.5 then f + 1.0
    else if (f / 2.0).floor * 2.0 == f then f else f + 1.0

/-- `ndarray.round(15)`: numpy multiplies by `10**15`, applies `rint`, divides by `10**15`;
`.01` is given by its bit pattern -/
def TF : TConsts Float :=
  { rnd := fun x => rintF (x * Float.ofBits 4831355200913801216) / Float.ofBits 4831355200913801216,
    c01 := Float.ofBits 4576918229304087675,
    fin := Float.isFinite }

/-- the `ValueError`s of `_k` (l.1557-1562) on the percentages -/
def kBadPercent (klo khi : Float) : Bool := klo + khi > 100.0 || klo < 0.0 || khi < 0.0

/-- `_k` raises `IndexError` for the sorted weights of this sample -/
def trimRaises (xs : List Float) (ws : Option (List Float)) (klo khi : Float) (clip : Bool) : Bool :=
  kRaises TF ((sortedOf xs ws).map (·.2)) klo khi clip


/-- `skew=None|True|False` -/
def optBool? (v : Val) : Option (Option Bool) :=
  match v with
  | .sym "none" => some none
  | _ => v.asBool?.map some

/-- an ndarray from its shape and its values in row-major order -/
def flatIndex (shape ix : List Nat) : Nat := (List.zip shape ix).foldl (fun acc p => acc * p.1 + p.2) 0
def ofFlat (shape : List Nat) (data : List Float) : NArr Float := ⟨shape, fun ix => data.getD (flatIndex shape ix) 0.0⟩

def parseArr (args : List Val) (ks kd : String) : Option (NArr Float) := do
  let sh ← (kw? args ks).bind Val.asNats?
  let d ← (kw? args kd).bind Val.asFloats?
  if sh.foldl (· * ·) 1 != d.length then none else some (ofFlat sh d)

def showDRes : DRes Float → String
  | .ok a => s!"ok shape={pNs a.shape} d={pFs a.ravel}"
  | .errValue => "err value"
  | .errAxis => "err index"
  | .errZeroDiv => "err zerodiv"

def optAxis? (v : Val) : Option (Option Int) :=
  match v with
  | .sym "none" => some none
  | _ => v.asInt?.map some

def handle : Handler
  | .sym "mean" :: args => Id.run do
    let some xs := (kw? args "xs").bind Val.asFloats? | return "bad-op"
    let some ws := (kw? args "ws").bind optFloats? | return "bad-op"
    let some tol := (kw? args "tol").bind Val.asFloat? | return "bad-op"
    if ws.isNone && xs.isEmpty then return "err zerodiv"
    return s!"ok v={pF (mean CF xs ws tol)}"
  | .sym "moment" :: args => Id.run do
    let some xs := (kw? args "xs").bind Val.asFloats? | return "bad-op"
    let some ws := (kw? args "ws").bind optFloats? | return "bad-op"
    let some tol := (kw? args "tol").bind Val.asFloat? | return "bad-op"
    let some order := (kw? args "order").bind Val.asNat? | return "bad-op"
    if order ≥ 2 && ws.isNone && xs.isEmpty then return "err zerodiv"
    return s!"ok v={pF (moment CF xs ws order tol)}"
  | .sym "variance" :: args => Id.run do
    let some xs := (kw? args "xs").bind Val.asFloats? | return "bad-op"
    let some ws := (kw? args "ws").bind optFloats? | return "bad-op"
    if ws.isNone && xs.isEmpty then return "err zerodiv"
    return s!"ok v={pF (variance CF xs ws)} sd={pF (std CF xs ws)}"
  | .sym "spread" :: args => Id.run do
    let some xs := (kw? args "xs").bind Val.asFloats? | return "bad-op"
    if xs.isEmpty then return "err value"
    return s!"ok v={pF (spread xs)}"
  | .sym "support" :: args => Id.run do
    let some ws := (kw? args "ws").bind Val.asFloats? | return "bad-op"
    let some tol := (kw? args "tol").bind Val.asFloat? | return "bad-op"
    let some pts := (kw? args "pts").bind parsePts | return "bad-op"
    if pts.length < ws.length then return "bad-op"
    return s!"ok idx={pNs (supportIndex ws tol)} pts={pFss (support pts ws tol)}"
  | .sym "ess" :: args => Id.run do
    let some kind := (kw? args "kind").bind Val.asSym? | return "bad-op"
    let some e := (kw? args "f").bind parseExpr | return "bad-op"
    let some pts := (kw? args "pts").bind parsePts | return "bad-op"
    let some ws := (kw? args "ws").bind optFloats? | return "bad-op"
    let some tol := (kw? args "tol").bind Val.asFloat? | return "bad-op"
    let r := match kind with
      | "max" => essMaximum (evalF e) pts ws tol
      | "min" => essMinimum (evalF e) pts ws tol
      | _ => essPtp (evalF e) pts ws tol
    match r with
    | some v => return s!"ok v={pF v}"
    | none => return "err value"
  | .sym "expectation" :: args => Id.run do
    let some e := (kw? args "f").bind parseExpr | return "bad-op"
    let some pts := (kw? args "pts").bind parsePts | return "bad-op"
    let some ws := (kw? args "ws").bind optFloats? | return "bad-op"
    let some tol := (kw? args "tol").bind Val.asFloat? | return "bad-op"
    if ws.isNone && pts.isEmpty then return "err zerodiv"
    return s!"ok v={pF (expectation CF (evalF e) pts ws tol)}"
  | .sym "expected_moment" :: args => Id.run do
    let some e := (kw? args "f").bind parseExpr | return "bad-op"
    let some pts := (kw? args "pts").bind parsePts | return "bad-op"
    let some ws := (kw? args "ws").bind optFloats? | return "bad-op"
    let some tol := (kw? args "tol").bind Val.asFloat? | return "bad-op"
    let some order := (kw? args "order").bind Val.asNat? | return "bad-op"
    if order ≥ 2 && ws.isNone && pts.isEmpty then return "err zerodiv"
    return s!"ok v={pF (expectedMoment CF (evalF e) pts ws order tol)}"
  | .sym "impose" :: args => Id.run do
    let some kind := (kw? args "kind").bind Val.asSym? | return "bad-op"
    let some t := (kw? args "t").bind Val.asFloat? | return "bad-op"
    let some xs := (kw? args "xs").bind Val.asFloats? | return "bad-op"
    let some ws := (kw? args "ws").bind optFloats? | return "bad-op"
    if ws.isNone && xs.isEmpty then return "err zerodiv"
    match kind with
    | "mean" => return s!"ok y={pFs (imposeMean CF t xs ws)}"
    | "variance" => return s!"ok y={pFs (imposeVariance CF t xs ws)}"
    | "std" => return s!"ok y={pFs (imposeStd CF t xs ws)}"
    | "spread" => if xs.isEmpty then return "err value" else return s!"ok y={pFs (imposeSpread CF t xs ws)}"
    | _ => return "bad-op"
  | .sym "normalize" :: args => Id.run do
    let some ws := (kw? args "ws").bind Val.asFloats? | return "bad-op"
    let some zsum := (kw? args "zsum").bind Val.asBool? | return "bad-op"
    match kw? args "lp" with
    | some v =>
      let some p := v.asNat? | return "bad-op"
      return s!"ok w={pFs (normalizeL CF ws p zsum)}"
    | none =>
      let some mass := (kw? args "mass").bind Val.asFloat? | return "bad-op"
      let some zmass := (kw? args "zmass").bind Val.asFloat? | return "bad-op"
      return s!"ok w={pFs (normalize CF ws mass zsum zmass)}"
  | .sym "weight_norm" :: args => Id.run do
    let some xs := (kw? args "xs").bind Val.asFloats? | return "bad-op"
    let some ws := (kw? args "ws").bind Val.asFloats? | return "bad-op"
    let some mass := (kw? args "mass").bind Val.asFloat? | return "bad-op"
    let r := imposeWeightNorm CF xs ws mass
    return s!"ok y={pFs r.1} w={pFs r.2}"
  | .sym "support_surgery" :: args => Id.run do
    let some kind := (kw? args "kind").bind Val.asSym? | return "bad-op"
    let some xs := (kw? args "xs").bind Val.asFloats? | return "bad-op"
    let some ws := (kw? args "ws").bind Val.asFloats? | return "bad-op"
    let some index := (kw? args "index").bind Val.asInts? | return "bad-op"
    let nullable := ((kw? args "nullable").bind Val.asBool?).getD true
    let r := match kind with
      | "support" => imposeSupport CF index xs ws
      | _ => imposeUnweighted CF index xs ws nullable
    return s!"ok y={pFs r.1} w={pFs r.2}"
  | .sym "connected" :: args => Id.run do
    let some pairs := (kw? args "pairs").bind parsePairs | return "bad-op"
    return s!"ok groups={showGroups (connected pairs)}"
  | .sym "collapse" :: args => Id.run do
    let some xs := (kw? args "xs").bind Val.asFloats? | return "bad-op"
    let some ws := (kw? args "ws").bind Val.asFloats? | return "bad-op"
    let some pairs := (kw? args "pairs").bind parsePairs | return "bad-op"
    if !pairsInRange ws.length pairs || xs.length != ws.length then return "err index"
    let r := imposeCollapse CF pairs xs ws
    return s!"ok y={pFs r.1} w={pFs r.2} groups={showGroups (connected (pairs.map fun p => (normIdx ws.length p.1, normIdx ws.length p.2)))}"
  | .sym "lnorm" :: args => Id.run do
    let some ws := (kw? args "ws").bind Val.asFloats? | return "bad-op"
    match kw? args "p" with
    | some (.sym "inf") => if ws.isEmpty then return "err value" else return s!"ok v={pF (lnormInf ws)}"
    | some v =>
      let some p := v.asNat? | return "bad-op"
      return s!"ok v={pF (lnorm CF ws p)}"
    | none => return "bad-op"
  | .sym "lnormr" :: args => Id.run do
    let some ws := (kw? args "ws").bind Val.asFloats? | return "bad-op"
    match kw? args "p" with
    | some (.sym "inf") => if ws.isEmpty then return "err value" else return s!"ok v={pF (lnormInf ws)}"
    | some v =>
      let some p := v.asNat? | return "bad-op"
      return s!"ok v={pF (lnormA CF Float.isFinite ws p)}"
    | none => return "bad-op"
  | .sym "dist" :: args => Id.run do
    let some kind := (kw? args "kind").bind Val.asSym? | return "bad-op"
    let some p := (kw? args "p").bind Val.asNat? | return "bad-op"
    let some x := (kw? args "x").bind parsePts | return "bad-op"
    let some y := (kw? args "y").bind parsePts | return "bad-op"
    let some pair := (kw? args "pair").bind Val.asBool? | return "bad-op"
    if pair then
      if x.length != y.length then return "bad-op"
      let some r := (List.zipWith (distOf kind p) x y).mapM id | return "err value"
      return s!"ok d={pFs r}"
    else
      let some r := (x.map fun a => (y.map fun b => distOf kind p a b).mapM id).mapM id | return "err value"
      return s!"ok d={pFss r}"
  | .sym "stat2" :: args => Id.run do
    let some kind := (kw? args "kind").bind Val.asSym? | return "bad-op"
    let some xs := (kw? args "xs").bind Val.asFloats? | return "bad-op"
    let some ws := (kw? args "ws").bind optFloats? | return "bad-op"
    let some tol := (kw? args "tol").bind Val.asFloat? | return "bad-op"
    let some order := (kw? args "order").bind Val.asNat? | return "bad-op"
    match kind with
    | "standard_moment" =>
      if order != 2 && ws.isNone && xs.isEmpty then return "err zerodiv"
      return s!"ok v={pF (standardMoment CF xs ws order tol)}"
    | "skewness" => if ws.isNone && xs.isEmpty then return "err zerodiv" else return s!"ok v={pF (skewness CF xs ws)}"
    | "kurtosis" => if ws.isNone && xs.isEmpty then return "err zerodiv" else return s!"ok v={pF (kurtosis CF xs ws)}"
    | _ => return "bad-op"
  | .sym "expected2" :: args => Id.run do
    let some e := (kw? args "f").bind parseExpr | return "bad-op"
    let some pts := (kw? args "pts").bind parsePts | return "bad-op"
    let some ws := (kw? args "ws").bind optFloats? | return "bad-op"
    let some tol := (kw? args "tol").bind Val.asFloat? | return "bad-op"
    if ws.isNone && pts.isEmpty then return "err zerodiv"
    return s!"ok v={pF (expectedVariance CF (evalF e) pts ws tol)} sd={pF (expectedStd CF (evalF e) pts ws tol)}"
  | .sym "impose_moment" :: args => Id.run do
    let some t := (kw? args "t").bind Val.asFloat? | return "bad-op"
    let some xs := (kw? args "xs").bind Val.asFloats? | return "bad-op"
    let some ws := (kw? args "ws").bind optFloats? | return "bad-op"
    let some tol := (kw? args "tol").bind Val.asFloat? | return "bad-op"
    let some order := (kw? args "order").bind Val.asNat? | return "bad-op"
    let some skew := (kw? args "skew").bind optBool? | return "bad-op"
    if order ≥ 2 && !(order % 2 == 0 && t < 0.0) && ws.isNone && xs.isEmpty then return "err zerodiv"
    return s!"ok y={pFs (imposeMoment CF t xs ws order tol skew)}"
  | .sym "impose_product" :: args => Id.run do
    let some mass := (kw? args "mass").bind Val.asFloat? | return "bad-op"
    let some ws := (kw? args "ws").bind Val.asFloats? | return "bad-op"
    let some zsum := (kw? args "zsum").bind Val.asBool? | return "bad-op"
    let some zmass := (kw? args "zmass").bind Val.asFloat? | return "bad-op"
    if truthy (lprod ws) then
      if truthy mass then
        if ws.isEmpty then return "err zerodiv"
      else if zsum then
        if ws.isEmpty then return "err index"
        if ws.length == 1 then return "err zerodiv"
    return s!"ok w={pFs (imposeProduct CF mass ws zsum zmass)}"
  | .sym "dista" :: args => Id.run do
    let some kind := (kw? args "kind").bind Val.asSym? | return "bad-op"
    let some x := parseArr args "xshape" "x" | return "bad-op"
    let some y := parseArr args "yshape" "y" | return "bad-op"
    let some pair := (kw? args "pair").bind Val.asBool? | return "bad-op"
    let some dmin := (kw? args "dmin").bind Val.asNat? | return "bad-op"
    let some axis := (kw? args "axis").bind optAxis? | return "bad-op"
    let pinf := match kw? args "p" with
      | some (.sym "inf") => true
      | _ => false
    let p := ((kw? args "p").bind Val.asNat?).getD 0
    match kind with
    | "chebyshev" => return showDRes (chebyshevA x y pair dmin axis)
    | "hamming" => return showDRes (hammingA x y pair dmin axis)
    | "manhattan" => return showDRes (minkowskiA CF Float.isFinite x y pair dmin 1 axis)
    | "euclidean" => return showDRes (minkowskiA CF Float.isFinite x y pair dmin 2 axis)
    | "minkowski" =>
      if pinf then return showDRes (chebyshevA x y pair dmin axis)
      else return showDRes (minkowskiA CF Float.isFinite x y pair dmin p axis)
    | _ => return "bad-op"
  | .sym "tolerance" :: args => Id.run do
    let some x := (kw? args "x").bind Val.asFloat? | return "bad-op"
    let some tol := (kw? args "tol").bind Val.asFloat? | return "bad-op"
    let some rel := (kw? args "rel").bind Val.asFloat? | return "bad-op"
    return s!"ok v={pF (tolerance x tol rel)}"
  | .sym "almost" :: args => Id.run do
    let some x := (kw? args "x").bind Val.asFloats? | return "bad-op"
    let some y := (kw? args "y").bind Val.asFloats? | return "bad-op"
    let some tol := (kw? args "tol").bind Val.asFloat? | return "bad-op"
    let some rel := (kw? args "rel").bind Val.asFloat? | return "bad-op"
    if x.length != y.length then return "bad-op"
    return s!"ok b={pB (almostEqual x y tol rel)}"
  | .sym "trim" :: args => Id.run do
    let some kind := (kw? args "kind").bind Val.asSym? | return "bad-op"
    let some xs := (kw? args "xs").bind Val.asFloats? | return "bad-op"
    let some ws := (kw? args "ws").bind optFloats? | return "bad-op"
    let some klo := (kw? args "klo").bind Val.asFloat? | return "bad-op"
    let some khi := (kw? args "khi").bind Val.asFloat? | return "bad-op"
    let some clip := (kw? args "clip").bind Val.asBool? | return "bad-op"
    let t := ((kw? args "t").bind Val.asFloat?).getD 0.0
    if xs.isEmpty then return "bad-op"
    match ws with
    | some w => if w.length != xs.length then return "bad-op"
    | none => pure ()
    if kBadPercent klo khi then return "err value"
    if trimRaises xs ws klo khi clip then return "err index"
    match kind with
    | "k" =>
      let norm := ((kw? args "norm").bind Val.asBool?).getD false
      return s!"ok x={pFs (sortedX xs ws)} w={pFs (kTrim TF ((sortedOf xs ws).map (·.2)) klo khi clip norm)}"
    | "stat" =>
      return s!"ok tmean={pF (tmean TF xs ws klo khi clip)} tvar={pF (tvariance CF TF xs ws klo khi clip)} tstd={pF (tstd CF TF xs ws klo khi clip)}"
    | "impose_tmean" => return s!"ok y={pFs (imposeTmean TF t xs ws klo khi clip)}"
    | "impose_tvariance" | "impose_tstd" =>
      let v := if kind == "impose_tstd" then t * t else t
      let tv := tvariance CF TF xs ws klo khi clip
      if truthy tv && trimRaises (xs.map (· * Float.sqrt (v / tv))) ws klo khi clip then return "err index"
      return s!"ok y={pFs (imposeTvariance CF TF v xs ws klo khi clip)}"
    | _ => return "bad-op"
  | .sym "robust" :: args => Id.run do
    let some kind := (kw? args "kind").bind Val.asSym? | return "bad-op"
    let some xs := (kw? args "xs").bind Val.asFloats? | return "bad-op"
    let some ws := (kw? args "ws").bind optFloats? | return "bad-op"
    let some t := (kw? args "t").bind Val.asFloat? | return "bad-op"
    if xs.isEmpty then return "bad-op"
    match kind with
    | "median" => return s!"ok v={pF (median CF xs ws)} mad={pF (mad CF xs ws)}"
    | "impose_median" => return s!"ok y={pFs (imposeMedian CF t xs ws)}"
    | "impose_mad" => return s!"ok y={pFs (imposeMad CF t xs ws)}"
    | _ => return "bad-op"
  | _ => "bad-op"

end MysticVerif.DrvC18
