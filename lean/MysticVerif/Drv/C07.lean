/- driver for C07: Float instantiation of Model/Config.lean (`cfg`) and of the DE2 step with an evaluation order
   (`de2map`, on top of the shared solver driver), and the control logic of an ensemble's mapped member calls (`ensctl`) -/
import MysticVerif.Basic.Proto
import MysticVerif.Model.Config
import MysticVerif.Model.Schedule
import MysticVerif.Drv.SolverDrv

namespace MysticVerif.DrvC07
open MysticVerif MysticVerif.Config MysticVerif.Solver MysticVerif.Sched

abbrev V := List Float

/-! ### parsing -/

def optNat? : Val → Option (Option Nat)
  | .sym "none" => some none
  | v => v.asNat?.map some

def optBool? : Val → Option (Option Bool)
  | .sym "none" => some none
  | v => v.asBool?.map some

def optVec? : Val → Option (Option V)
  | .sym "none" => some none
  | v => v.asFloats?.map some

def kind? : Val → Option Kind
  | .sym "abstract" => some .abstract
  | .sym "de" => some .de
  | .sym "powell" => some .powell
  | .sym "ensemble" => some .ensemble
  | _ => none

def mon? : Val → Option Mon
  | .list [i, n, r] => do pure { id := ← i.asNat?, null := ← n.asBool?, recs := ← r.asNats? }
  | _ => none

def optMon? : Val → Option (Option Mon)
  | .sym "none" => some none
  | v => (mon? v).map some

def lim? : Val → Option Lim
  | .sym "none" => some .none
  | .sym "star" => some .star
  | v => v.asNat?.map .val

def bnd? : Val → Option BndMode
  | .sym "ident" => some .ident
  | .sym "symbolic" => some .symbolic
  | .sym "clip" => some (.impose true)
  | .sym "rand" => some (.impose false)
  | _ => none

def op? : Val → Option (Op Float)
  | .list [.sym "red", .sym "none", al] => do pure (.setReducer none (← al.asBool?))
  | .list [.sym "red", f, al] => do pure (.setReducer (some (← f.asNat?)) (← al.asBool?))
  | .list [.sym "pen", p] => do pure (.setPenalty (← optNat? p))
  | .list [.sym "con", c] => do pure (.setConstraints (← optNat? c))
  | .list [.sym "smon", m, nw] => do pure (.setGenerationMonitor (← optMon? m) (← nw.asBool?))
  | .list [.sym "emon", m, nw] => do pure (.setEvaluationMonitor (← optMon? m) (← nw.asBool?))
  | .list [.sym "ranges", off, mn, mx, t, c] => do
    pure (.setStrictRanges (← off.asBool?) (← optVec? mn) (← optVec? mx) (← optBool? t) (← optBool? c))
  | .list [.sym "limits", g, e, nw] => do pure (.setEvaluationLimits (← optNat? g) (← optNat? e) (← nw.asBool?))
  | .list [.sym "term", t, c] => do pure (.setTermination (← optNat? t) (← c.asBool?))
  | .list [.sym "obj", c] => do pure (.setObjective (← c.asNat?))
  | .list [.sym "save", g, f] => do pure (.setSaveFrequency (← optNat? g) (← optNat? f))
  | .list [.sym "map", m, c] => do pure (.setMapper (← m.asNat?) (← c.asNat?))
  | .list [.sym "sig", b] => do pure (.setSigint (← b.asBool?))
  | .list [.sym "init", x0, r] => do pure (.setInitialPoints (← x0.asFloats?) (← r.asFloat?))
  | .list [.sym "rand", mn, mx] => do pure (.setRandomInitialPoints (← optVec? mn) (← optVec? mx))
  | _ => none

/-- a `Set*` call or `(boot c)`: the prelude of `Step(cost c)` -/
def act? : Val → Option (Act Float)
  | .list [.sym "boot", c] => do pure (.boot (← c.asNat?))
  | v => (op? v).map .set

def parseCfg (args : List Val) : Option (Cfg Float) := do
  let kind ← (kw? args "kind").bind kind?
  let nDim ← (kw? args "ndim").bind Val.asNat?
  let dmin ← (kw? args "dmin").bind Val.asFloats?
  let dmax ← (kw? args "dmax").bind Val.asFloats?
  let best ← (kw? args "best").bind Val.asNat?
  let fcalls ← (kw? args "fcalls").bind Val.asNat?
  let bestIdx ← (kw? args "bidx").bind Val.asNat?
  let ndec ← (kw? args "ndec").bind Val.asNat?
  let reducer ← match kw? args "red" with
    | some (.sym "none") => some none
    | some (.list [i, al]) => do pure (some ((← i.asNat?), (← al.asBool?)))
    | _ => none
  let penalty ← (kw? args "pen").bind optNat?
  let constraints ← (kw? args "con").bind optNat?
  let termination ← (kw? args "term").bind optNat?
  let collapse ← (kw? args "col").bind Val.asBool?
  let stepmon ← (kw? args "smon").bind mon?
  let evalmon ← (kw? args "emon").bind mon?
  let ehist ← (kw? args "eh").bind optNat?
  let shist ← (kw? args "sh").bind optNat?
  let useStrict ← (kw? args "us").bind Val.asBool?
  let tight ← (kw? args "tight").bind optBool?
  let clip ← (kw? args "clip").bind optBool?
  let smin ← (kw? args "smin").bind Val.asFloats?
  let smax ← (kw? args "smax").bind Val.asFloats?
  let bnd ← (kw? args "bnd").bind bnd?
  let maxiter ← (kw? args "mi").bind lim?
  let maxfun ← (kw? args "mf").bind lim?
  let raw ← (kw? args "cost").bind optNat?
  let decorated ← (kw? args "dec").bind Val.asBool?
  let live ← (kw? args "live").bind Val.asBool?
  let saveiter ← (kw? args "si").bind optNat?
  let state ← (kw? args "st").bind optNat?
  let map ← (kw? args "map").bind Val.asNat?
  let mapcfg ← (kw? args "mcfg").bind Val.asNat?
  let sigint ← (kw? args "sig").bind Val.asBool?
  let population ← (kw? args "pop").bind Val.asList? |>.bind (·.mapM Val.asFloats?)
  let rngPos ← (kw? args "rng").bind Val.asNat?
  pure { kind, nDim, dmin, dmax, best, fcalls, bestIdx, ndec, reducer, penalty, constraints,
         term := { termination, collapse }, stepmon, evalmon, hist := { ehist, shist },
         ranges := { useStrict, tight, clip, smin, smax, bnd }, limits := { maxiter, maxfun },
         cost := { raw, decorated }, live, save := { saveiter, state }, mapc := { map, mapcfg }, sigint,
         pop := { population, rngPos } }

/-! ### printing (the harness prints its observation of the real solver in the same format) -/

def pON : Option Nat → String
  | none => "none" | some n => toString n

def pOB : Option Bool → String
  | none => "none" | some b => pB b

def pMon (m : Mon) : String := s!"({m.id} {pB m.null} {pNs m.recs})"

def pLim : Lim → String
  | .none => "none" | .star => "star" | .val n => toString n

/-- symbolic clipping and `impose_bounds(clip=True)` are observed alike: both clip at the bounds -/
def pBnd : BndMode → String
  | .ident => "ident" | .symbolic => "clip" | .impose true => "clip" | .impose false => "rand"

def showCfg (c : Cfg Float) : String :=
  let red := match c.reducer with | none => "none" | some (i, al) => s!"({i} {pB al})"
  let kind := match c.kind with | .abstract => "abstract" | .de => "de" | .powell => "powell" | .ensemble => "ensemble"
  s!"(kind {kind}) (red {red}) (pen {pON c.penalty}) (con {pON c.constraints}) (term {pON c.term.termination}) " ++
  s!"(col {pB c.term.collapse}) (smon {pMon c.stepmon}) (emon {pMon c.evalmon}) (eh {pON c.hist.ehist}) " ++
  s!"(sh {pON c.hist.shist}) (us {pB c.ranges.useStrict}) (tight {pOB c.ranges.tight}) (clip {pOB c.ranges.clip}) " ++
  s!"(smin {pFs c.ranges.smin}) (smax {pFs c.ranges.smax}) (bnd {pBnd c.ranges.bnd}) (mi {pLim c.limits.maxiter}) " ++
  s!"(mf {pLim c.limits.maxfun}) (cost {pON c.cost.raw}) (dec {pB c.cost.decorated}) (live {pB c.live}) " ++
  s!"(si {pON c.save.saveiter}) (st {pON c.save.state}) (map {c.mapc.map}) (mcfg {c.mapc.mapcfg}) (sig {pB c.sigint}) " ++
  s!"(pop {pFss c.pop.population}) (rng {c.pop.rngPos}) (ndec {c.ndec})"

/-- all pairs `i < j` of calls that the footprint table does NOT declare independent (`boot` depends on everything) -/
def depPairs (pl : Bool) (k : Kind) (acts : List (Act Float)) : List (Nat × Nat) :=
  let idx := (List.range acts.length).zip acts
  idx.flatMap fun (i, a) => idx.filterMap fun (j, b) =>
    match a, b with
    | .set a, .set b => if i < j && !(Independent pl k a b) then some (i, j) else none
    | _, _ => if i < j then some (i, j) else none

/-- positions `i` such that calls `i` and `i+1` are both `Set*` calls the footprint table declares independent IN THE
    STATE THE FIRST OF THEM IS MADE IN (a `boot` makes the solver live again: the "live Powell" flag is not monotone
    any more) - the hypothesis of `setters_commute` at that state -/
def adjIndep (u : Nat → Float) : Cfg Float → Nat → List (Act Float) → List Nat
  | s, i, .set a :: .set b :: rest =>
    (if Independent s.pl s.kind a b then [i] else []) ++ adjIndep u (apply u s a).1 (i + 1) (.set b :: rest)
  | s, i, a :: rest => adjIndep u (act u s a).1 (i + 1) rest
  | _, _, [] => []

def handleCfg (args : List Val) : String := Id.run do
  let some c := parseCfg args | return "bad-op"
  let some acts := (kw? args "ops").bind Val.asList? |>.bind (·.mapM act?) | return "bad-op"
  let some us := (kw? args "u").bind Val.asFloats? | return "bad-op"
  let ua := us.toArray
  let u : Nat → Float := fun n => ua.getD n (0.0 / 0.0)
  let fin := actsAfter u c acts
  let raised := raisedActs u c acts
  let sets := acts.filterMap fun a => match a with | .set op => some op | .boot _ => none
  let pure_ := sets.length == acts.length
  let deps := depPairs c.pl c.kind acts
  let depS := "(" ++ " ".intercalate (deps.map fun (i, j) => s!"({i} {j})") ++ ")"
  let adj := adjIndep u c 0 acts
  -- coverage: random numbers drawn and decorations performed by the `boot` acts
  let mut t := c
  let mut bootDraws := 0
  let mut bootDecs := 0
  for a in acts do
    let t' := (act u t a).1
    match a with
    | .boot _ =>
      bootDraws := bootDraws + (t'.pop.rngPos - t.pop.rngPos)
      bootDecs := bootDecs + (t'.ndec - t.ndec)
    | _ => pure ()
    t := t'
  return s!"ok cfg=({showCfg fin}) raised={pL (raised.map pB)} dep={depS} adj={pNs adj} " ++
    s!"pw={pB (pure_ && PairwiseIndependent c.pl c.kind sets)} " ++
    s!"consumed={fin.pop.rngPos - c.pop.rngPos} pl={pB c.pl} bootdraws={bootDraws} bootdecs={bootDecs}"

/-! ### `de2map (cost ..) (pen ..) (cons ..) (box ..) (pop ..) (trials ((..) ..)) (orders ((..) ..))`:
    generation 0 evaluates the members themselves; `orders` has one evaluation order per generation -/

/-- what a "tidying" objective does to the vector it is handed, in place (harness/c07.py `dirty_apply`) -/
def dirtyOf : String → V → V
  | "abs" => fun x => x.map Float.abs                                   -- `x[i] = abs(x[i])`
  | "sort" => fun x => x.mergeSort (fun a b => decide (a ≤ b))          -- `x[:] = sorted(x)` (both stable)
  | "clamp" => fun x => x.map fun v => if v < -1.0 then -1.0 else if v > 1.0 then 1.0 else v
  | _ => id

def handleDE2 (args : List Val) : String := Id.run do
  let some su := SolverDrv.parseSetup args | return "bad-op"
  let some pop := (kw? args "pop").bind Val.asList? |>.bind (·.mapM Val.asFloats?) | return "bad-op"
  let some trialss := (kw? args "trials").bind Val.asList? |>.bind (·.mapM fun g => g.asList?.bind (·.mapM Val.asFloats?)) | return "bad-op"
  let some orders := (kw? args "orders").bind Val.asList? |>.bind (·.mapM Val.asNats?) | return "bad-op"
  -- `(dirty <cost> <penalty>)`: in-place modification made by the user's cost / penalty; `(shared (b ..))`: per map
  -- call, whether the workers received the trial vectors themselves (in-process map) or copies
  let (dc, dp) := match kw? args "dirty" with
    | some (.list [.sym a, .sym b]) => (a, b)
    | _ => ("none", "none")
  let shared := ((kw? args "shared").bind Val.asList? |>.bind (·.mapM Val.asBool?)).getD []
  let o := su.obj
  let cost : Proc V Float := fun y => (o.raw (dirtyOf dc y), dirtyOf dc y)
  let pen : Proc V Float := fun z => (o.pen (dirtyOf dp z), dirtyOf dp z)
  let o' := objOfProcs o.K o.inBox o.useRange o.top o.add cost pen
  let pop := match su.box with | some b => pop.map b.clip0 | none => pop
  let x0 := pop.headD []
  let mut s : DE V Float := DE.init o' pop x0
  let mut outs : Array String := #[]
  let mut g := 0
  for (ts, π) in ([pop] ++ trialss).zip orders do
    let sh := shared.getD g true
    s := step2Proc o.K o.inBox o.useRange o.top o.add cost pen (fun _ => sh) π ts s
    g := g + 1
    outs := outs.push (SolverDrv.showDE s)
  return s!"ok steps=({" ".intercalate outs.toList}) log={SolverDrv.pPairs s.log} hist={pFs (s.stepLog.map Prod.snd)}"

/-! ### `ensctl (n (n0 n1 ..)) (calls (step solve ..)) (fuel F)`: the control logic of the ensemble's mapped member calls
    (`mStep` / `mSolve` / `toggled` of Model/Schedule.lean).  Member `i` is a fresh nested solver (not live, no step
    record) whose termination verdict turns true after `n_i` iterations - the ORACLE taken from the run-to-completion
    run; the model predicts, for every ensemble `_Step` (`step`) / run-to-completion `_Solve` (`solve`) of the sequence,
    how often each member has decorated its objective and iterated so far, its `_live` flag and its verdict, and whether
    the ensemble's `Terminated()` (every member terminated) holds after the call. -/

/-- state = (iterations done, iterations after which `Terminated()` holds); a decoration does not change the verdict -/
def ctlAlg : MAlg (Nat × Nat) :=
  { dec := id, iter := fun s => (s.1 + 1, s.2), fin := id, term := fun s => decide (s.2 ≤ s.1),
    started := fun s => decide (0 < s.1) }

def handleEnsCtl (args : List Val) : String := Id.run do
  let some ns := (kw? args "n").bind Val.asNats? | return "bad-op"
  let some calls := (kw? args "calls").bind Val.asList? |>.bind (·.mapM Val.asSym?) | return "bad-op"
  let fuel := ((kw? args "fuel").bind Val.asNat?).getD 100000
  let mut ms : List (Mem (Nat × Nat)) := ns.map fun n => { st := (0, n), live := false }
  let mut outs : Array String := #[]
  let mut alls : Array String := #[]
  for c in calls do
    if c == "step" then ms := ensStepL ctlAlg ms
    else if c == "solve" then ms := ensSolveL ctlAlg fuel ms
    else return "bad-op"
    outs := outs.push (pL (ms.map fun m => s!"({m.ndec} {m.niter} {pB m.live} {pB (ctlAlg.term m.st)})"))
    alls := alls.push (pB (allTerm ctlAlg ms))
  return s!"ok calls={pL outs.toList} all={pL alls.toList}"

def handle : Handler
  | .sym "cfg" :: args => handleCfg args
  | .sym "de2map" :: args => handleDE2 args
  | .sym "ensctl" :: args => handleEnsCtl args
  | _ => "bad-op"

end MysticVerif.DrvC07
