/- driver for C15 (penalty methods), Float instantiation of Model/Penalty + Model/PenaltyTree.
Nothing but the user's callables (DSL leaves) is evaluated outside the model. -/
import MysticVerif.Basic.Proto
import MysticVerif.Model.Dsl
import MysticVerif.Model.Penalty
import MysticVerif.Model.PenaltyTree

namespace MysticVerif.DrvC15
open MysticVerif MysticVerif.Pen MysticVerif.Dsl

/-- CPython's `float ** float` / `pow(float, int)` call the C library `pow`, as `Float.pow` does
(same `libm`, so the results are bit-identical; `x*x` and `sqrt` are NOT: ~0.08% of inputs differ) -/
instance : PenOps Float where
  powi h n := Float.pow h (Float.ofInt n)
  sq x := Float.pow x 2.0
  root x := Float.pow x 0.5
  abs := Float.abs
  log := Float.log
  inf := 1.0 / 0.0

def parsePType : Val → Option PType
  | .sym "qEq" => some .qEq | .sym "lEq" => some .lEq | .sym "uEq" => some .uEq
  | .sym "uIneq" => some .uIneq | .sym "barrier" => some .barrier | .sym "qIneq" => some .qIneq
  | .sym "lIneq" => some .lIneq | .sym "lagIneq" => some .lagIneq | .sym "lagEq" => some .lagEq
  | _ => none

def pErr : Err → String
  | .zerodiv => "(raise zerodiv)"
  | .index => "(raise index)"

def pState (ls : List (Level Float)) : String :=
  "(st " ++ " ".intercalate (ls.map fun l => s!"({l.n} {pFs l.y})") ++ ")"

def pVal : Except Err Float → String
  | .ok v => s!"(v {pF v})"
  | .error e => pErr e

/-! ### penalty trees (Model/PenaltyTree): the user's callables are the only thing evaluated here -/

inductive LeafT where
  | e (ex : Expr)
  | rnorm (c : Con)

def parseLeaf : Val → Option LeafT
  | .list [.sym "e", ex] => do pure (.e (← parseExpr ex))
  | .list [.sym "rnorm", c] => do pure (.rnorm (← parseCon c))
  | _ => none

/-- the values of the user's callables at `x` -/
def envAt (leaves : Array LeafT) (fns : Array Expr) (x : List Float) : Env Float where
  c i := match leaves[i]? with
    | some (.e ex) => ex.eval x
    | some (.rnorm con) => asPenaltyCond x (con.apply x)
    | none => none
  f j := match fns[j]? with
    | some g => (g.eval x).getD 0.0
    | none => 0.0

mutual
partial def parsePT : Val → Option (PT Float)
  | .list [.sym "base", .int j] => some (.base j.toNat)
  | .list [.sym "pen", .list [t, k, h, .int n, ys], c, inner] => do
    pure (.pen { t := ← parsePType t, k := ← k.asFloat?, h := ← h.asFloat?, n := n, y := ← ys.asFloats? }
      (← parsePC c) (← parsePT inner))
  | _ => none
partial def parsePC : Val → Option (PC Float)
  | .list [.sym "leaf", .int i] => some (.leaf i.toNat)
  | .list [.sym "not", t, c] => do pure (.not (← parsePType t) (← parsePC c))
  | .list (.sym "and" :: ms) => do pure (.and (← parsePL ms))
  | .list (.sym "or" :: m :: ms) => do pure (.or (← parsePT m) (← parsePL ms))
  | _ => none
partial def parsePL : List Val → Option (PL Float)
  | [] => some .nil
  | m :: ms => do pure (.cons (← parsePT m) (← parsePL ms))
end

def parsePath : Val → Option (List Step)
  | .list l => l.mapM fun
    | .sym "d" => some Step.down
    | .list [.sym "m", .int k] => some (Step.member k.toNat)
    | _ => none
  | _ => none

structure StT where
  t : PT Float
  held : List (List Float) := []      -- the caller's lists (Model/PenaltyTree `Sess`)
  out : Array String := #[]

def stepT (leaves : Array LeafT) (fns : Array Expr) (s : StT) (op : Val) : Option StT := do
  let env := envAt leaves fns
  let mut' (o : TOp Float) : StT :=
    let s' := (SOp.tree o).apply ⟨s.t, s.held⟩
    let st := pState (allLevels s'.t)
    { t := s'.t, held := s'.held, out := s.out.push (match o.err s.t with | some e => pErr e ++ " " ++ st | none => st) }
  match op with
  | .list [.sym "call", pv, xv] =>
    let x ← xv.asFloats?
    let sub ← getT (← parsePath pv) s.t
    pure { s with out := s.out.push (pVal (evalT (env x) sub)) }
  | .list [.sym "additive", pv, xv, gv] =>
    let x ← xv.asFloats?
    let g ← parseExpr gv
    let sub ← getT (← parsePath pv) s.t
    let r := match evalT (env x) sub with
      | .ok px => Except.ok (additive px ((g.eval x).getD 0.0))
      | .error e => .error e
    pure { s with out := s.out.push (pVal r) }
  | .list [.sym "error", pv, xv] =>
    let x ← xv.asFloats?
    let sub ← getT (← parsePath pv) s.t
    pure { s with out := s.out.push (pVal (.ok (errT (env x) sub))) }
  | .list [.sym "iter", pv] => pure (mut' (.iter (← parsePath pv) none))
  | .list [.sym "iterI", pv, .int i] => pure (mut' (.iter (← parsePath pv) (some i)))
  | .list [.sym "clear", pv] => pure (mut' (.clear (← parsePath pv)))
  | .list [.sym "store", pv, xv] => pure (mut' (.store (← parsePath pv) (env (← xv.asFloats?)) none))
  | .list [.sym "storeI", pv, xv, .int i] => pure (mut' (.store (← parsePath pv) (env (← xv.asFloats?)) (some i)))
  | .list [.sym "stored", pv] =>
    let sub ← getT (← parsePath pv) s.t
    pure { s with out := s.out.push s!"(ys {pFs (storedT sub)})" }
  | .list [.sym "storedI", pv, .int i] =>
    let sub ← getT (← parsePath pv) s.t
    pure { s with out := s.out.push s!"(v {pF (storedAt (storedT sub) i)})" }
  | .list [.sym "hold", pv] =>          -- r = obj.stored() kept by the caller; reply: the list it received
    let p ← parsePath pv
    let _ ← getT p s.t
    let s' := (SOp.hold p).apply ⟨s.t, s.held⟩
    pure { s with t := s'.t, held := s'.held, out := s.out.push s!"(ys {pFs (s'.held.getLastD [])})" }
  | .list [.sym "hmut", .int i, ys] =>   -- the caller edited its list i (contents now ys); reply: the state of the whole tree
    let s' := (SOp.hmut i.toNat (← ys.asFloats?)).apply ⟨s.t, s.held⟩
    pure { s with t := s'.t, held := s'.held, out := s.out.push (pState (allLevels s'.t)) }
  | .list [.sym "held", .int i] =>       -- the caller looks at its list i
    pure { s with out := s.out.push s!"(ys {pFs (s.held.getD i.toNat [])})" }
  | .list [.sym "iteration", pv] =>
    let sub ← getT (← parsePath pv) s.t
    pure { s with out := s.out.push s!"(n {iterationT sub})" }
  | _ => none

def handle : Handler
  | .sym "tree" :: args => Id.run do
    let some leaves := (kw? args "leaves").bind Val.asList? |>.bind (·.mapM parseLeaf) | return "bad-op"
    let some fns := (kw? args "fns").bind Val.asList? |>.bind (·.mapM parseExpr) | return "bad-op"
    let some t := (kw? args "t").bind parsePT | return "bad-op"
    let some ops := (kw? args "ops").bind Val.asList? | return "bad-op"
    let mut s : StT := { t := t }
    for op in ops do
      match stepT leaves.toArray fns.toArray s op with
      | some s' => s := s'
      | none => return "bad-op"
    return "ok r=(" ++ " ".intercalate s.out.toList ++ ")"
  | _ => "bad-op"

end MysticVerif.DrvC15
