/- driver for C15 (penalty methods), Float instantiation of Model/Penalty -/
import MysticVerif.Basic.Proto
import MysticVerif.Model.Dsl
import MysticVerif.Model.Penalty

namespace MysticVerif.DrvC15
open MysticVerif MysticVerif.Pen MysticVerif.Dsl

/-- CPython's `float ** float` / `pow(float, int)` call the C library `pow`, as `Float.pow` does
(same `libm`, so the results are bit-identical; `x*x` and `sqrt` are NOT: ~0.08% of inputs differ) -/
instance : PenOps Float where
  powi h n := Float.pow h (Float.ofInt n)
  sq x := Float.pow x 2.0
  root x := Float.pow x 0.5
  abs := Float.abs
  log := Float.log
  inf := 1.0 / 0.0

/-! conditions: DSL expressions, `as_penalty`'s rnorm of a DSL constraint, and the `coupler` combinators
over member penalty stacks (plumbing only; the theorems take condition values as parameters) -/
mutual
inductive CondT where
  | e (ex : Expr)
  | rnorm (c : Con)
  | and (ms : List StackT)
  | or (ms : List StackT)
  | not (t : PType) (c : CondT)
inductive StackT where
  | mk (levels : List (Level Float × CondT)) (f : Expr)
end

instance : Inhabited CondT := ⟨.e (.c 0.0)⟩
instance : Inhabited StackT := ⟨.mk [] (.c 0.0)⟩

mutual
partial def evalCond (c : CondT) (x : List Float) : Option Float :=
  match c with
  | .e ex => ex.eval x
  | .rnorm con => (con.apply x).map (fun cx => rnorm x cx)
  | .and ms =>
    match ms.mapM (fun s => (evalStackT s x).toOption) with
    | none => none                      -- a member raised ZeroDivisionError inside the condition
    | some vals => some (andCond vals)
  | .or ms =>
    match ms.mapM (fun s => (evalStackT s x).toOption) with
    | none => none
    | some [] => none                   -- never generated (python: ValueError)
    | some (v :: vals) => some (orCond v vals)
  | .not t c => (evalCond c x).map (notCond t)
partial def evalStackT (s : StackT) (x : List Float) : Except Err Float :=
  match s with
  | .mk levels f => evalStack (levels.map fun lc => (lc.1, evalCond lc.2 x)) ((f.eval x).getD 0.0)
end

def parsePType : Val → Option PType
  | .sym "qEq" => some .qEq | .sym "lEq" => some .lEq | .sym "uEq" => some .uEq
  | .sym "uIneq" => some .uIneq | .sym "barrier" => some .barrier | .sym "qIneq" => some .qIneq
  | .sym "lIneq" => some .lIneq | .sym "lagIneq" => some .lagIneq | .sym "lagEq" => some .lagEq
  | _ => none

mutual
partial def parseCond : Val → Option CondT
  | .list [.sym "e", ex] => do pure (.e (← parseExpr ex))
  | .list [.sym "rnorm", c] => do pure (.rnorm (← parseCon c))
  | .list (.sym "and" :: ms) => do pure (.and (← ms.mapM parseStack))
  | .list (.sym "or" :: ms) => do pure (.or (← ms.mapM parseStack))
  | .list [.sym "not", t, c] => do pure (.not (← parsePType t) (← parseCond c))
  | _ => none
/-- level: `(T k h n (y...) cond)` -/
partial def parseLevel : Val → Option (Level Float × CondT)
  | .list [t, k, h, .int n, ys, c] => do
    pure ({ t := ← parsePType t, k := ← k.asFloat?, h := ← h.asFloat?, n := n, y := ← ys.asFloats? }, ← parseCond c)
  | _ => none
/-- stack: `(stack (level*) fexpr)` -/
partial def parseStack : Val → Option StackT
  | .list [.sym "stack", .list ls, f] => do pure (.mk (← ls.mapM parseLevel) (← parseExpr f))
  | _ => none
end

def pErr : Err → String
  | .zerodiv => "(raise zerodiv)"
  | .index => "(raise index)"

def pState (ls : List (Level Float)) : String :=
  "(st " ++ " ".intercalate (ls.map fun l => s!"({l.n} {pFs l.y})") ++ ")"

def pVal : Except Err Float → String
  | .ok v => s!"(v {pF v})"
  | .error e => pErr e

structure St where
  ls : List (Level Float)
  out : Array String := #[]

/-- one operation on the live stack; `conds` are the (immutable) conditions of the levels -/
def step (conds : List CondT) (f : Expr) (s : St) (op : Val) : Option St := do
  let pairs (j : Nat) (x : List Float) : List (Level Float × Option Float) :=
    ((s.ls.zip conds).drop j).map fun lc => (lc.1, evalCond lc.2 x)
  match op with
  | .list [.sym "call", .int j, xv] =>
    let x ← xv.asFloats?
    pure { s with out := s.out.push (pVal (evalStack (pairs j.toNat x) ((f.eval x).getD 0.0))) }
  | .list [.sym "additive", .int j, xv, gv] =>
    let x ← xv.asFloats?
    let g ← parseExpr gv
    let r := match evalStack (pairs j.toNat x) ((f.eval x).getD 0.0) with
      | .ok px => Except.ok (additive px ((g.eval x).getD 0.0))
      | .error e => .error e
    pure { s with out := s.out.push (pVal r) }
  | .list [.sym "error", .int j, xv] =>
    let x ← xv.asFloats?
    pure { s with out := s.out.push (pVal (.ok (errStack (pairs j.toNat x)))) }
  | .list [.sym "iter", .int j] =>
    let ls := onFrom j.toNat (iterStack none) s.ls
    pure { ls := ls, out := s.out.push (pState ls) }
  | .list [.sym "iterI", .int j, .int i] =>
    let ls := onFrom j.toNat (iterStack (some i)) s.ls
    pure { ls := ls, out := s.out.push (pState ls) }
  | .list [.sym "clear", .int j] =>
    let ls := onFrom j.toNat clearStack s.ls
    pure { ls := ls, out := s.out.push (pState ls) }
  | .list [.sym "store", .int j, xv] =>
    let x ← xv.asFloats?
    let r := storeStack none (pairs j.toNat x)
    let ls := s.ls.take j.toNat ++ r.1
    pure { ls := ls, out := s.out.push (match r.2 with | some e => pErr e ++ " " ++ pState ls | none => pState ls) }
  | .list [.sym "storeI", .int j, xv, .int i] =>
    let x ← xv.asFloats?
    let r := storeStack (some i) (pairs j.toNat x)
    let ls := s.ls.take j.toNat ++ r.1
    pure { ls := ls, out := s.out.push (match r.2 with | some e => pErr e ++ " " ++ pState ls | none => pState ls) }
  | .list [.sym "stored", .int j] =>
    let l ← s.ls[j.toNat]?
    pure { s with out := s.out.push s!"(ys {pFs l.y})" }
  | .list [.sym "storedI", .int j, .int i] =>
    let l ← s.ls[j.toNat]?
    pure { s with out := s.out.push s!"(v {pF (storedAt l.y i)})" }
  | .list [.sym "iteration", .int j] =>
    pure { s with out := s.out.push s!"(n {iteration (s.ls.drop j.toNat)})" }
  | _ => none

def handle : Handler
  | .sym "run" :: args => Id.run do
    let some lv := (kw? args "levels").bind Val.asList? |>.bind (·.mapM parseLevel) | return "bad-op"
    let some f := (kw? args "f").bind parseExpr | return "bad-op"
    let some ops := (kw? args "ops").bind Val.asList? | return "bad-op"
    let conds := lv.map (·.2)
    let mut s : St := { ls := lv.map (·.1) }
    for op in ops do
      match step conds f s op with
      | some s' => s := s'
      | none => return "bad-op"
    return "ok r=(" ++ " ".intercalate s.out.toList ++ ")"
  | _ => "bad-op"

end MysticVerif.DrvC15
