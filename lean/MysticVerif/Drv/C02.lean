/- driver for C02: the shared solver model S (Drv/SolverDrv.lean) -/
import MysticVerif.Drv.SolverDrv

namespace MysticVerif.DrvC02
open MysticVerif

def handle : Handler := SolverDrv.handle

end MysticVerif.DrvC02
