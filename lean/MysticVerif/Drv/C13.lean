/- driver for C13 (compiled constraint functions): Float instantiation of Model/Emitted.
   Numerals are UInt64 bit patterns (`C := UInt64`, `ι := Float.ofBits`). -/
import MysticVerif.Basic.Proto
import MysticVerif.Model.Emitted

namespace MysticVerif.DrvC13
open MysticVerif MysticVerif.Emitted

partial def parseExpr : Val → Option (Expr UInt64)
  | .list [.sym "n", .flt f] => some (.num f.toBits)
  | .list [.sym "v", .int j] => if 0 ≤ j then some (.var j.toNat) else none
  | .list [.sym "+", a, b] => do pure (.add (← parseExpr a) (← parseExpr b))
  | .list [.sym "-", a, b] => do pure (.sub (← parseExpr a) (← parseExpr b))
  | .list [.sym "*", a, b] => do pure (.mul (← parseExpr a) (← parseExpr b))
  | .list [.sym "/", a, b] => do pure (.div (← parseExpr a) (← parseExpr b))
  | .list [.sym "neg", a] => do pure (.neg (← parseExpr a))
  | .list [.sym "max", a, b] => do pure (.max (← parseExpr a) (← parseExpr b))
  | .list [.sym "min", a, b] => do pure (.min (← parseExpr a) (← parseExpr b))
  | .list [.sym "tol", a] => do pure (.tol (← parseExpr a))
  | .list [.sym "equal", a, b] => do pure (.equal (← parseExpr a) (← parseExpr b))
  | .list [.sym "bor", a, b] => do pure (.bor (← parseExpr a) (← parseExpr b))
  | .list [.sym "false"] => some .false_
  | .list [.sym "iszero", a] => do pure (.isZero (← parseExpr a))
  | _ => none

def parseCmp : Val → Option Cmp
  | .sym "eq" => some .eq
  | .sym "le" => some .le
  | .sym "ge" => some .ge
  | .sym "lt" => some .lt
  | .sym "gt" => some .gt
  | .sym "ne" => some .ne
  | _ => none

def parseRel : Val → Option (Rel UInt64)
  | .list [.int i, c, e] => do
      if i < 0 then none else pure ⟨i.toNat, ← parseCmp c, ← parseExpr e⟩
  | _ => none

def parseAssign : Val → Option (Assign UInt64)
  | .list [.int i, e] => do
      if i < 0 then none else pure ⟨i.toNat, ← parseExpr e⟩
  | _ => none

def mkEnv (tol rel : Float) : Env UInt64 Float := ⟨Float.ofBits, tol, rel⟩

def isPosBits (c : UInt64) : Bool := decide ((0 : Float) < Float.ofBits c)

/-- the bit pattern of 1.0 (any positive numeral will do as the default scale) -/
def oneBits : UInt64 := (1.0 : Float).toBits

def handle : Handler
  | .sym "chain" :: args => Id.run do
    let some tol := (kw? args "tol").bind Val.asFloat? | return "bad-op"
    let some rel := (kw? args "rel").bind Val.asFloat? | return "bad-op"
    let some x := (kw? args "x").bind Val.asFloats? | return "bad-op"
    let some rels := (kw? args "rels").bind Val.asList? |>.bind (·.mapM parseRel) | return "bad-op"
    let some codes := (kw? args "codes").bind Val.asList? |>.bind (·.mapM parseAssign) | return "bad-op"
    if rels.length != codes.length then return "bad-op"
    let env := mkEnv tol rel
    let recog := List.zipWith (fun r (c : Assign UInt64) => recognise isPosBits oneBits r c.canon) rels codes
    let rs := "(" ++ " ".intercalate (recog.map pB) ++ ")"
    -- hypotheses of the theorems that concern the program text: x_i occurs neither in rhs nor in the != factor
    let free := List.zipWith (fun (r : Rel UInt64) (c : Assign UInt64) =>
      !(r.rhs.mentions r.i) && !(c.canon.factor.mentions r.i)) rels codes
    let fs := "(" ++ " ".intercalate (free.map pB) ++ ")"
    match chain? env codes x with
    | some y => return s!"ok recog={rs} free={fs} res=value y={pFs y}"
    | none => return s!"ok recog={rs} free={fs} res=raises"
  | .sym "eval" :: args => Id.run do      -- plain evaluation of one expression (translator twin test)
    let some tol := (kw? args "tol").bind Val.asFloat? | return "bad-op"
    let some rel := (kw? args "rel").bind Val.asFloat? | return "bad-op"
    let some x := (kw? args "x").bind Val.asFloats? | return "bad-op"
    let some e := (kw? args "e").bind parseExpr | return "bad-op"
    let env := mkEnv tol rel
    if e.defined env x then return s!"ok res=value v={pF (e.eval env x)}" else return "ok res=raises"
  | _ => "bad-op"

end MysticVerif.DrvC13
