/- driver for C13 (compiled constraint functions): Float instantiation of Model/Emitted.
   Numerals are UInt64 bit patterns (`C := UInt64`, `ι := Float.ofBits`). -/
import MysticVerif.Basic.Proto
import MysticVerif.Model.Emitted
import MysticVerif.Model.EmittedJoin
import MysticVerif.Model.EmittedShape

namespace MysticVerif.DrvC13
open MysticVerif MysticVerif.Emitted

partial def parseExpr : Val → Option (Expr UInt64)
  | .list [.sym "n", .flt f] => some (.num f.toBits)
  | .list [.sym "v", .int j] => if 0 ≤ j then some (.var j.toNat) else none
  | .list [.sym "+", a, b] => do pure (.add (← parseExpr a) (← parseExpr b))
  | .list [.sym "-", a, b] => do pure (.sub (← parseExpr a) (← parseExpr b))
  | .list [.sym "*", a, b] => do pure (.mul (← parseExpr a) (← parseExpr b))
  | .list [.sym "/", a, b] => do pure (.div (← parseExpr a) (← parseExpr b))
  | .list [.sym "neg", a] => do pure (.neg (← parseExpr a))
  | .list [.sym "max", a, b] => do pure (.max (← parseExpr a) (← parseExpr b))
  | .list [.sym "min", a, b] => do pure (.min (← parseExpr a) (← parseExpr b))
  | .list [.sym "tol", a] => do pure (.tol (← parseExpr a))
  | .list [.sym "equal", a, b] => do pure (.equal (← parseExpr a) (← parseExpr b))
  | .list [.sym "bor", a, b] => do pure (.bor (← parseExpr a) (← parseExpr b))
  | .list [.sym "false"] => some .false_
  | .list [.sym "iszero", a] => do pure (.isZero (← parseExpr a))
  | .list [.sym "abs", a] => do pure (.abs (← parseExpr a))
  | .list [.sym "app1", .int f, a] => do if f < 0 then none else pure (.app1 f.toNat (← parseExpr a))
  | .list [.sym "app2", .int f, a, b] => do if f < 0 then none else pure (.app2 f.toNat (← parseExpr a) (← parseExpr b))
  | _ => none

/-- a nesting of lists around integers (`conds`: positions in `codes`) -/
partial def parseNestNat : Val → Option (Nest Nat)
  | .int j => if 0 ≤ j then some (.leaf j.toNat) else none
  | .list l => do pure (.node (← l.mapM parseNestNat))
  | _ => none

/-- a nesting of lists around coupler names -/
partial def parseNestCType : Val → Option (Nest CType)
  | .sym "inner" => some (.leaf .inner)
  | .sym "outer" => some (.leaf .outer)
  | .list l => do pure (.node (← l.mapM parseNestCType))
  | _ => none

def parseCArg : Val → Option CArg
  | .sym "none" => some .none
  | v => (parseNestCType v).map CArg.ofNest

def parseCmp : Val → Option Cmp
  | .sym "eq" => some .eq
  | .sym "le" => some .le
  | .sym "ge" => some .ge
  | .sym "lt" => some .lt
  | .sym "gt" => some .gt
  | .sym "ne" => some .ne
  | _ => none

def parseRel : Val → Option (Rel UInt64)
  | .list [.int i, c, e] => do
      if i < 0 then none else pure ⟨i.toNat, ← parseCmp c, ← parseExpr e⟩
  | _ => none

def parseAssign : Val → Option (Assign UInt64)
  | .list [.int i, e] => do
      if i < 0 then none else pure ⟨i.toNat, ← parseExpr e⟩
  | _ => none

/-- the function symbols of the generated namespace: numpy's `sqrt`, `floor`, `ceil` (IEEE-exact), `exp`, `log`, `sin`, `cos`
(libm here, numpy's own kernels there: compared with a tolerance, in a separately counted stream) -/
def fn1 (f : Nat) (a : Float) : Float :=
  match f with
  | 0 => Float.sqrt a
  | 1 => Float.floor a
  | 2 => Float.ceil a
  | 3 => Float.exp a
  | 4 => Float.log a
  | 5 => Float.sin a
  | 6 => Float.cos a
  | _ => a

/-- `a ** b` = C `pow` (CPython's float_pow and Lean's `Float.pow` both call libm) -/
def fn2 (f : Nat) (a b : Float) : Float :=
  match f with
  | 0 => Float.pow a b
  | _ => a

def mkEnv (tol rel : Float) : Env UInt64 Float := { ι := Float.ofBits, tol := tol, rel := rel, f1 := fn1, f2 := fn2 }

def isPosBits (c : UInt64) : Bool := decide ((0 : Float) < Float.ofBits c)

/-- the bit pattern of 1.0 (any positive numeral will do as the default scale) -/
def oneBits : UInt64 := (1.0 : Float).toBits

def handle : Handler
  | .sym "chain" :: args => Id.run do
    let some tol := (kw? args "tol").bind Val.asFloat? | return "bad-op"
    let some rel := (kw? args "rel").bind Val.asFloat? | return "bad-op"
    let some x := (kw? args "x").bind Val.asFloats? | return "bad-op"
    let some rels := (kw? args "rels").bind Val.asList? |>.bind (·.mapM parseRel) | return "bad-op"
    let some codes := (kw? args "codes").bind Val.asList? |>.bind (·.mapM parseAssign) | return "bad-op"
    if rels.length != codes.length then return "bad-op"
    let env := mkEnv tol rel
    let recog := List.zipWith (fun r (c : Assign UInt64) => recognise isPosBits oneBits r c.canon) rels codes
    let rs := "(" ++ " ".intercalate (recog.map pB) ++ ")"
    -- hypotheses of the theorems that concern the program text: x_i occurs neither in rhs nor in the != factor
    let free := List.zipWith (fun (r : Rel UInt64) (c : Assign UInt64) =>
      !(r.rhs.mentions r.i) && !(c.canon.factor.mentions r.i)) rels codes
    let fs := "(" ++ " ".intercalate (free.map pB) ++ ")"
    match chain? env codes x with
    | some y => return s!"ok recog={rs} free={fs} res=value y={pFs y}"
    | none => return s!"ok recog={rs} free={fs} res=raises"
  | .sym "gc" :: args => Id.run do        -- generate_constraint with ctype= / join=
    let some tol := (kw? args "tol").bind Val.asFloat? | return "bad-op"
    let some rel := (kw? args "rel").bind Val.asFloat? | return "bad-op"
    let some x := (kw? args "x").bind Val.asFloats? | return "bad-op"
    let some rels := (kw? args "rels").bind Val.asList? |>.bind (·.mapM parseRel) | return "bad-op"
    let some codes := (kw? args "codes").bind Val.asList? |>.bind (·.mapM parseAssign) | return "bad-op"
    let some mode := (kw? args "mode").bind Val.asSym? | return "bad-op"
    if rels.length != codes.length then return "bad-op"
    let env := mkEnv tol rel
    let recog := List.zipWith (fun r (c : Assign UInt64) => recognise isPosBits oneBits r c.canon) rels codes
    let rs := "(" ++ " ".intercalate (recog.map pB) ++ ")"
    let free := List.zipWith (fun (r : Rel UInt64) (c : Assign UInt64) =>
      !(r.rhs.mentions r.i) && !(c.canon.factor.mentions r.i)) rels codes
    let fs := "(" ++ " ".intercalate (free.map pB) ++ ")"
    let showRes := fun (r : Comb.Res (List Float) × Comb.Stats) =>
      match r.1 with
      | .success y t links => s!"res=success y={pFs y} t={t} links={links} calls={r.2.calls} draws={r.2.draws}"
      | .fail y => s!"res=fail y={pFs y} calls={r.2.calls} draws={r.2.draws}"
      | .stuck => s!"res=stuck calls={r.2.calls} draws={r.2.draws}"
    match mode with
    | "ctype" =>
      let some ws := (kw? args "ctypes").bind Val.asList? |>.bind (·.mapM fun v => match v with
        | .sym "inner" => some CType.inner
        | .sym "outer" => some CType.outer
        | _ => none) | return "bad-op"
      if ws.length != codes.length then return "bad-op"
      let ord := order (ws.zip codes)
      match compose? env (ws.zip codes) x with
      | some y => return s!"ok recog={rs} free={fs} res=value y={pFs y} order={pNs (ord.map (·.i))}"
      | none => return s!"ok recog={rs} free={fs} res=raises"
    | "and" => return s!"ok recog={rs} free={fs} {showRes (joinAnd env codes x [])}"
    | "or" => return s!"ok recog={rs} free={fs} {showRes (joinOr env codes x [])}"
    | _ => return "bad-op"
  | .sym "gcs" :: args => Id.run do       -- generate_constraint for every SHAPE of conditions / ctype (Model/EmittedShape)
    let some tol := (kw? args "tol").bind Val.asFloat? | return "bad-op"
    let some rel := (kw? args "rel").bind Val.asFloat? | return "bad-op"
    let some x := (kw? args "x").bind Val.asFloats? | return "bad-op"
    let some rels := (kw? args "rels").bind Val.asList? |>.bind (·.mapM parseRel) | return "bad-op"
    let some codes := (kw? args "codes").bind Val.asList? |>.bind (·.mapM parseAssign) | return "bad-op"
    let some mode := (kw? args "mode").bind Val.asSym? | return "bad-op"
    let some conds := (kw? args "conds").bind parseNestNat | return "bad-op"
    let some ct := (kw? args "ctype").bind parseCArg | return "bad-op"
    if rels.length != codes.length then return "bad-op"
    if (Nest.flat conds).any (fun k => codes.length ≤ k) then return "bad-op"
    let env := mkEnv tol rel
    let recog := List.zipWith (fun r (c : Assign UInt64) => recognise isPosBits oneBits r c.canon) rels codes
    let rs := "(" ++ " ".intercalate (recog.map pB) ++ ")"
    let free := List.zipWith (fun (r : Rel UInt64) (c : Assign UInt64) =>
      !(r.rhs.mentions r.i) && !(c.canon.factor.mentions r.i)) rels codes
    let fs := "(" ++ " ".intercalate (free.map pB) ++ ")"
    let code := fun (k : Nat) => codes.getD k default
    let showRes := fun (r : Comb.Res (List Float) × Comb.Stats) =>
      match r.1 with
      | .success y t links => s!"res=success y={pFs y} t={t} links={links} calls={r.2.calls} draws={r.2.draws}"
      | .fail y => s!"res=fail y={pFs y} calls={r.2.calls} draws={r.2.draws}"
      | .stuck => s!"res=stuck calls={r.2.calls} draws={r.2.draws}"
    match mode with
    | "none" =>
      let items := gcItems conds ct                      -- (coupler, position in codes)
      let ws := items.map fun w => (w.1, code w.2)
      let used := pNs (items.map (·.2))
      let ord := order ws
      match compose? env ws x with
      | some y => return s!"ok recog={rs} free={fs} res=value y={pFs y} order={pNs (ord.map (·.i))} used={used}"
      | none => return s!"ok recog={rs} free={fs} res=raises used={used}"
    | "and" | "or" =>
      match gcMembers conds ct with
      | none => return s!"ok recog={rs} free={fs} res=generr"
      | some ms =>
        let groups := "(" ++ " ".intercalate (ms.map fun g => pNs (g.map (·.2))) ++ ")"
        let mws := ms.map fun g => g.map fun w => (w.1, code w.2)
        if mode == "and" then return s!"ok recog={rs} free={fs} {showRes (joinAndG env mws x [])} groups={groups}"
        else return s!"ok recog={rs} free={fs} {showRes (joinOrG env mws x [])} groups={groups}"
    | _ => return "bad-op"
  | .sym "eval" :: args => Id.run do      -- plain evaluation of one expression (translator twin test)
    let some tol := (kw? args "tol").bind Val.asFloat? | return "bad-op"
    let some rel := (kw? args "rel").bind Val.asFloat? | return "bad-op"
    let some x := (kw? args "x").bind Val.asFloats? | return "bad-op"
    let some e := (kw? args "e").bind parseExpr | return "bad-op"
    let env := mkEnv tol rel
    if e.defined env x then return s!"ok res=value v={pF (e.eval env x)}" else return "ok res=raises"
  | _ => "bad-op"

end MysticVerif.DrvC13
