/- driver for C11 : to be filled in (stub keeps Main.lean compiling) -/
import MysticVerif.Basic.Proto

namespace MysticVerif.DrvC11
open MysticVerif

def handle : Handler
  | _ => "bad-op"

end MysticVerif.DrvC11
