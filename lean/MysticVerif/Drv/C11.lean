/- driver for C11 (dimensional collapse), Float instantiation of Model/Collapse -/
import MysticVerif.Basic.Proto
import MysticVerif.Model.Collapse
import MysticVerif.Model.CollapseApply
import MysticVerif.Model.CollapseMeasure
import MysticVerif.Model.CollapseCost

namespace MysticVerif.DrvC11
open MysticVerif MysticVerif.Clps

def parseRows (v : Val) : Option (List (List Float)) := do
  let l ← v.asList?
  l.mapM Val.asFloats?

def optInt? : Val → Option (Option Int)
  | .sym "none" => some none
  | .int i => some (some i)
  | _ => none

def parseTarget : Val → Option (Target Float)
  | .sym "none" => some .none
  | .list [.sym "s", t] => do pure (.scalar (← t.asFloat?))
  | .list [.sym "v", ts] => do pure (.vec (← ts.asFloats?))
  | _ => none

def parseElem : Val → Option MElem
  | .int i => some (.idx i)
  | .list (.sym "q" :: is) => do pure (.seq (← is.mapM Val.asInt?))
  | _ => none

def parseSetMask : Val → Option SetMask
  | .sym "none" => some .none
  | .sym "other" => some .other
  | .list [.sym "set", .list es] => do pure (.set (← es.mapM parseElem))
  | _ => none

def parseNpts : Val → Option (Option (List Nat))
  | .sym "none" => some none
  | .list [.sym "p", ns] => do pure (some (← ns.asNats?))
  | _ => none

def parseWMask : Val → Option WMask
  | .sym "none" => some .none
  | .sym "other" => some .other
  | .sym "empty" => some .empty
  | .list [.sym "set", .list es] => do
      pure (.set (← es.mapM fun
        | .sym "bad" => some none
        | .list [.int a, .int b] => some (some (a, b))
        | _ => none))
  | .list [.sym "dict", .list es] => do
      pure (.dict (← es.mapM fun
        | .sym "bad" => some none
        | .list [.int a, is] => do pure (some (a, ← is.asInts?))
        | _ => none))
  | .list [.sym "where", ms, is] => do pure (.wher (← ms.asInts?) (← is.asInts?))
  | _ => none

def parsePair : Val → Option (Int × Int)
  | .list [.int a, .int b] => some (a, b)
  | _ => none

def parsePMask : Val → Option PMask
  | .sym "none" => some .none
  | .sym "other" => some .other
  | .sym "empty" => some .empty
  | .list [.sym "set", .list es] => do
      pure (.set (← es.mapM fun
        | .sym "bad" => some none
        | .list [.int a, is] => do pure (some (a, ← is.asInts?))
        | _ => none))
  | .list [.sym "dict", .list es] => do
      pure (.dict (← es.mapM fun
        | .sym "bad" => some none
        | .list [.int a, .list ps] => do pure (some (a, ← ps.mapM parsePair))
        | _ => none))
  | .list [.sym "where", ms, .list ps, t] => do
      pure (.wher (← ms.asInts?) (← ps.mapM Val.asInts?) (← t.asBool?))
  | _ => none

def pPairs (l : List (Nat × Nat)) : String :=
  "(" ++ " ".intercalate (l.map fun p => s!"({p.1} {p.2})") ++ ")"

def pTriples (l : List (Nat × Nat × Nat)) : String :=
  "(" ++ " ".intercalate (l.map fun p => s!"({p.1} {p.2.1} {p.2.2})") ++ ")"

/-! masks of `update_mask` requests: elements are integer tuples -/
abbrev El := List Int

def parseEls (v : Val) : Option (List El) := do
  let l ← v.asList?
  l.mapM Val.asInts?

def parseMaskV : Val → Option (MaskV El)
  | .sym "none" => some .none
  | .sym "emptyseq" => some .emptyseq
  | .list [.sym "set", es] => do pure (.set (← parseEls es))
  | .list [.sym "dict", .list kvs] => do
      pure (.dict (← kvs.mapM fun
        | .list [.int k, es] => do pure (k, ← parseEls es)
        | _ => none))
  | .list [.sym "where", t, ms, es] => do pure (.wher (← t.asBool?) (← ms.asInts?) (← parseEls es))
  | _ => none

def parsePrim : Val → Option (Prim El)
  | .list [.sym "p", ty, kw, hm, m] => do
      pure { ty := ← ty.asNat?, kw := ← kw.asNat?, hasMask := ← hm.asBool?, mask := ← parseMaskV m }
  | _ => none

partial def parseCond : Val → Option (Cond El)
  | .list (.sym "n" :: w :: cs) => do pure (.node (← w.asBool?) (← cs.mapM parseCond))
  | v => do pure (.prim (← parsePrim v))

def pEl (e : El) : String := "(" ++ " ".intercalate (e.map toString) ++ ")"
def pEls (l : List El) : String := "(" ++ " ".intercalate (l.map pEl) ++ ")"

def pMaskV : MaskV El → String
  | .none => "none"
  | .emptyseq => "emptyseq"
  | .set es => s!"(set {pEls es})"
  | .dict d => "(dict (" ++ " ".intercalate (d.map fun kv => s!"({kv.1} {pEls kv.2})") ++ "))"
  | .wher t ms es => s!"(where {pB t} {pIs ms} {pEls es})"

partial def pCond : Cond El → String
  | .prim p => s!"(p {p.ty} {p.kw} {pB p.hasMask} {pMaskV p.mask})"
  | .node w cs => "(n " ++ pB w ++ String.join (cs.map fun c => " " ++ pCond c) ++ ")"

def finf : Float := 1.0 / 0.0

def parseNatPair : Val → Option (Nat × Nat)
  | .list [a, b] => do pure (← a.asNat?, ← b.asNat?)
  | _ => none

/-- `((tr (k (i j) (i j) ..) ..) (nw (k i i ..) ..))` -/
def parseMRound : Val → Option MRound
  | .list [.list (.sym "tr" :: ts), .list (.sym "nw" :: ns)] => do
      let tr ← ts.mapM fun
        | .list (k :: ps) => do pure (← k.asNat?, ← ps.mapM parseNatPair)
        | _ => none
      let nw ← ns.mapM fun
        | .list (k :: is) => do pure (← k.asNat?, ← is.mapM Val.asNat?)
        | _ => none
      pure { tracking := tr, noweight := nw }
  | _ => none

def pGroups (groups : Groups) : String :=
  "(" ++ " ".intercalate (groups.map fun g => s!"({g.1} {pNs g.2})") ++ ")"


/-! `collapse_cost` requests -/
def parseIvs (v : Val) : Option (Ivs Float) := do
  let l ← v.asList?
  l.mapM fun
    | .list [a, b] => do pure (← a.asFloat?, ← b.asFloat?)
    | _ => none

def parseCMask : Val → Option (CMask Float)
  | .sym "none" => some .none
  | .sym "other" => some .other
  | .list [.sym "dict", .list es] => do
      pure (.dict (← es.mapM fun
        | .list [k, v] => do
            let key ← (match k with
              | .sym "none" => some CKey.none
              | .sym "bad" => some CKey.bad
              | .int i => some (CKey.int i)
              | _ => none)
            let val ← (match v with
              | .sym "bad" => some CVal.bad
              | .list [.sym "flat", a, b] => do pure (CVal.flat (← a.asFloat?) (← b.asFloat?))
              | .list [.sym "list", l] => do pure (CVal.list (← parseIvs l))
              | _ => none)
            pure (key, val)
        | _ => none))
  | _ => none

/-- the mask with the spelling of every value: `(flat lo hi)` a tuple, `(flatl lo hi)` a list `[lo, hi]`, `(list ivs)` a
list of tuples, `(listl ivs)` a list of lists, `(tup ivs)` a tuple of tuples, `(tupl ivs)` a tuple of lists -/
def parseCMaskS : Val → Option (CMaskS Float)
  | .sym "none" => some .none
  | .sym "other" => some .other
  | .list [.sym "dict", .list es] => do
      pure (.dict (← es.mapM fun
        | .list [k, v] => do
            let key ← (match k with
              | .sym "none" => some CKey.none
              | .sym "bad" => some CKey.bad
              | .int i => some (CKey.int i)
              | _ => none)
            let val ← (match v with
              | .sym "bad" => some ({ val := CVal.bad, outerList := false, innerTuples := false } : SVal Float)
              | .list [.sym "flat", a, b] => do pure { val := CVal.flat (← a.asFloat?) (← b.asFloat?), outerList := false, innerTuples := false }
              | .list [.sym "flatl", a, b] => do pure { val := CVal.flat (← a.asFloat?) (← b.asFloat?), outerList := true, innerTuples := false }
              | .list [.sym "list", l] => do pure { val := CVal.list (← parseIvs l), outerList := true, innerTuples := true }
              | .list [.sym "listl", l] => do pure { val := CVal.list (← parseIvs l), outerList := true, innerTuples := false }
              | .list [.sym "tup", l] => do pure { val := CVal.list (← parseIvs l), outerList := false, innerTuples := true }
              | .list [.sym "tupl", l] => do pure { val := CVal.list (← parseIvs l), outerList := false, innerTuples := false }
              | _ => none)
            pure (key, val)
        | _ => none))
  | _ => none

def pSpell (s : SVal Float) : String :=
  match s.val with
  | .flat _ _ => if s.outerList then "flatl" else "flat"
  | .list _ => if s.outerList then (if s.innerTuples then "list" else "listl") else (if s.innerTuples then "tup" else "tupl")
  | .bad => "bad"

def pAfter (m : SDict Float) : String :=
  "(" ++ " ".intercalate (m.map fun kv =>
    (match kv.1 with
      | none => "(none "
      | some i => s!"({i} ") ++ pSpell kv.2 ++ ")") ++ ")"

def parsePerms : Val → Option (Option (List (List Nat)))
  | .sym "none" => some none
  | .list (.sym "p" :: ps) => do pure (some (← ps.mapM Val.asNats?))
  | _ => none

def pIvs (l : Ivs Float) : String := "(" ++ " ".intercalate (l.map fun p => s!"({pF p.1} {pF p.2})") ++ ")"

def pBDict (d : BDict Float) : String :=
  "(" ++ " ".intercalate (d.map fun kv =>
    (match kv.1 with
      | none => "(none "
      | some i => s!"({i} ") ++ pIvs kv.2 ++ ")") ++ ")"

/-- `par + d` at l.318: numpy float64 + int64 -/
def addCount (v : Float) (k : Nat) : Float := v + Float.ofNat k

def handle : Handler
  | .sym "at" :: args => Id.run do
    let some hist := (kw? args "hist").bind parseRows | return "bad-op"
    let some tgt := (kw? args "target").bind parseTarget | return "bad-op"
    let some tols := (kw? args "tols").bind Val.asFloats? | return "bad-op"
    let some g := (kw? args "gen").bind optInt? | return "bad-op"
    let some mask := (kw? args "mask").bind parseSetMask | return "bad-op"
    match collapseAt hist tgt tols g mask with
    | .ok l => return s!"ok idx={pNs l}"
    | .error e => return s!"err {e.str}"
  | .sym "as" :: args => Id.run do
    let some hist := (kw? args "hist").bind parseRows | return "bad-op"
    let some off := (kw? args "offset").bind Val.asBool? | return "bad-op"
    let some tol := (kw? args "tol").bind Val.asFloat? | return "bad-op"
    let some g := (kw? args "gen").bind optInt? | return "bad-op"
    let some mask := (kw? args "mask").bind parseSetMask | return "bad-op"
    match collapseAs hist off tol g mask with
    | .ok l => return s!"ok pairs={pPairs l}"
    | .error e => return s!"err {e.str}"
  | .sym "weight" :: args => Id.run do
    let some hist := (kw? args "hist").bind parseRows | return "bad-op"
    let some npts := (kw? args "npts").bind parseNpts | return "bad-op"
    let some tol := (kw? args "tol").bind Val.asFloat? | return "bad-op"
    let some g := (kw? args "gen").bind optInt? | return "bad-op"
    let some mask := (kw? args "mask").bind parseWMask | return "bad-op"
    match collapseWeight hist npts tol g mask with
    | .ok r => return s!"ok fmt={r.1.str} hits={pPairs r.2}"
    | .error e => return s!"err {e.str}"
  | .sym "position" :: args => Id.run do
    let some hist := (kw? args "hist").bind parseRows | return "bad-op"
    let some npts := (kw? args "npts").bind parseNpts | return "bad-op"
    let some tol := (kw? args "tol").bind Val.asFloat? | return "bad-op"
    let some g := (kw? args "gen").bind optInt? | return "bad-op"
    let some mask := (kw? args "mask").bind parsePMask | return "bad-op"
    match collapsePosition hist npts tol g mask with
    | .ok r => return s!"ok fmt={r.1.str} hits={pTriples r.2}"
    | .error e => return s!"err {e.str}"
  | .sym "update" :: args => Id.run do
    let some c := (kw? args "cond").bind parseCond | return "bad-op"
    let some cl := (kw? args "collapse").bind Val.asList? |>.bind (·.mapM fun
        | .list [k, m] => do pure (← parsePrim k, ← parseMaskV m)
        | _ => none) | return "bad-op"
    match updateMask c cl with
    | .ok c' => return s!"ok cond={pCond c'}"
    | .error e => return s!"err {e.str}"
  | .sym "loop" :: args => Id.run do
    -- the abstract collapse loop: reports per round, universe size
    let some n := (kw? args "n").bind Val.asNat? | return "bad-op"
    let some mask := (kw? args "mask").bind Val.asNats? | return "bad-op"
    let some reps := (kw? args "reports").bind Val.asList? |>.bind (·.mapM Val.asNats?) | return "bad-op"
    let r := Loop.run n mask reps
    return s!"ok rounds={r.1} mask={pNs r.2}"
  | .sym "tie" :: args => Id.run do
    -- an applied CollapseAs collapse: tools.connected on the pairs in the real iteration order + the tie phase of
    -- impose_as on one parameter vector
    let some ps := (kw? args "pairs").bind Val.asList? |>.bind (·.mapM fun
        | .list [a, b] => do pure (← a.asNat?, ← b.asNat?)
        | _ => none) | return "bad-op"
    let some x := (kw? args "x").bind Val.asFloats? | return "bad-op"
    let groups := connected ps
    let gs := "(" ++ " ".intercalate (groups.map fun g => s!"({g.1} {pNs g.2})") ++ ")"
    return s!"ok groups={gs} nobridge={pB (noBridge ps)} grown={pB (oneComponentOrder ps)} y={pFs (tieAll groups x)}"
  | .sym "measure" :: args => Id.run do
    -- applied CollapseWeight / CollapsePosition collapses: the composed impose_measure constraints of the rounds (in
    -- execution order: newest first) on one parameter vector; per tracked item the groups of tools.connected on the
    -- pairs in the real iteration order and the hypotheses of the theorems (noBridge, keyFree)
    let some npts := (kw? args "npts").bind Val.asNats? | return "bad-op"
    let some rounds := (kw? args "rounds").bind Val.asList? |>.bind (·.mapM parseMRound) | return "bad-op"
    let some x := (kw? args "x").bind Val.asFloats? | return "bad-op"
    let items := rounds.map fun r => r.tracking.map fun kv =>
      s!"({kv.1} {pGroups (connected kv.2)} {pB (noBridge kv.2)} {pB (keyFree (connected kv.2))})"
    let its := "(" ++ " ".intercalate (items.map pL) ++ ")"
    match applyRounds finf npts rounds x with
    | some y => return s!"ok y={pFs y} items={its}"
    | none => return s!"err index"
  | .sym "cost" :: args => Id.run do
    -- collapse_cost on a recorded history: per-parameter scan, mask intersection; also the hypotheses of the theorems
    -- (every sorted column ascending, every reported interval list chain-ordered)
    let some hist := (kw? args "hist").bind parseRows | return "bad-op"
    let some costs := (kw? args "costs").bind Val.asFloats? | return "bad-op"
    let some perms := (kw? args "perms").bind parsePerms | return "bad-op"
    let some clip := (kw? args "clip").bind Val.asBool? | return "bad-op"
    let some limit := (kw? args "limit").bind Val.asFloat? | return "bad-op"
    let some samples := (kw? args "samples").bind optInt? | return "bad-op"
    let some mask := (kw? args "mask").bind parseCMaskS | return "bad-op"
    match collapseCostS (-finf) finf addCount hist costs perms clip limit samples mask with
    | .ok r =>
      let size := (hist.head?.map List.length).getD 0
      let srt := (List.range size).all fun p =>
        let col := costCol hist p
        let perm := match perms with
          | some ps => ps.getD p []
          | none => sortPerm col
        sortedL (perm.filterMap fun i => col[i]?)
      return s!"ok res={pBDict r} chain={pB (r.all fun kv => chainOrd kv.2)} sorted={pB srt} after={pAfter (maskAfter mask)}"
    | .error e => return s!"err {e.str}"
  | .sym "ivinter" :: args => Id.run do
    -- tools._interval_intersection
    let some a := (kw? args "a").bind parseIvs | return "bad-op"
    let some b := (kw? args "b").bind parseIvs | return "bad-op"
    return s!"ok r={pIvs (ivInter a b)}"
  | _ => "bad-op"

end MysticVerif.DrvC11
