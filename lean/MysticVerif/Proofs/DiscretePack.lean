/-
`_pack` / `_unpack` round trip (model: `MysticVerif.Model.Discrete`), core Lean only.

Main results (arbitrary payload type `α`):
* `pack_length`      : `|pack s| = foldl (*) 1 (map length s)`  (the `npts` of the model)
* `pack_mem_length`  : every tuple of `pack s` has `s.length` entries
* `pack_getElem?`    : pack order, first factor fastest
* `unpackCore_pack`  : `unpackCore (pack s) (map length s) = s` for non-empty factors
* `unpack_pack`      : the guarded `unpack` returns `.ok s`
-/
import MysticVerif.Model.Discrete

namespace MysticVerif.Discrete

variable {α : Type}

/-! ### generic list helpers -/

theorem foldl_mul_eq (l : List Nat) (a : Nat) :
    l.foldl (· * ·) a = a * l.foldl (· * ·) 1 := by
  induction l generalizing a with
  | nil => simp
  | cons n ns ih =>
    simp only [List.foldl_cons]
    rw [ih (a * n), ih (1 * n), Nat.one_mul, Nat.mul_assoc]

theorem length_flatMap_map {β γ : Type} (l : List β) (s : List α) (g : β → α → γ) :
    (l.flatMap fun t => s.map (g t)).length = l.length * s.length := by
  induction l with
  | nil => simp
  | cons t l ih =>
    rw [List.flatMap_cons, List.length_append, ih, List.length_map, List.length_cons,
      Nat.succ_mul, Nat.add_comm]

/-- entry `q * |s| + r` (`r < |s|`) of `l.flatMap (fun t => s.map (g t))` is `g l[q] s[r]` -/
theorem flatMap_map_getElem? {β γ : Type} (l : List β) (s : List α) (g : β → α → γ)
    (q r : Nat) (hr : r < s.length) :
    (l.flatMap fun t => s.map (g t))[q * s.length + r]?
      = l[q]?.bind fun t => s[r]?.map (g t) := by
  induction l generalizing q with
  | nil => simp
  | cons t l ih =>
    rw [List.flatMap_cons]
    cases q with
    | zero =>
      rw [List.getElem?_append_left (by simpa using hr)]
      simp
    | succ q =>
      have hle : (s.map (g t)).length ≤ (q + 1) * s.length + r := by
        rw [List.length_map, Nat.succ_mul]; omega
      have hsub : (q + 1) * s.length + r - (s.map (g t)).length = q * s.length + r := by
        rw [List.length_map, Nat.succ_mul]; omega
      rw [List.getElem?_append_right hle, hsub, ih]
      simp

theorem filterMap_const_some {β : Type} (s : List β) (a : α) :
    s.filterMap (fun _ => some a) = List.replicate s.length a := by
  induction s with
  | nil => rfl
  | cons x s ih => simp [List.replicate_succ, ih]

theorem filterMap_range_getElem? (l : List α) (m : Nat) :
    (List.range m).filterMap (fun k => l[k]?) = l.take m := by
  induction m generalizing l with
  | zero => simp
  | succ m ih =>
    cases l with
    | nil => simp
    | cons a l =>
      simp [List.range_succ_eq_map, List.filterMap_map, Function.comp_def, ih]

theorem length_flatMap_replicate (l : List α) (n0 : Nat) :
    (l.flatMap (List.replicate n0)).length = n0 * l.length := by
  induction l with
  | nil => simp
  | cons a l ih =>
    rw [List.flatMap_cons, List.length_append, ih, List.length_replicate, List.length_cons,
      Nat.mul_succ, Nat.add_comm]

theorem getElem?_flatMap_replicate (l : List α) (n0 : Nat) (h0 : 0 < n0) (j : Nat) :
    (l.flatMap (List.replicate n0))[j * n0]? = l[j]? := by
  induction l generalizing j with
  | nil => simp
  | cons a l ih =>
    rw [List.flatMap_cons]
    cases j with
    | zero =>
      rw [List.getElem?_append_left (by simpa using h0)]
      simp [h0]
    | succ j =>
      have hle : (List.replicate n0 a).length ≤ (j + 1) * n0 := by
        rw [List.length_replicate, Nat.succ_mul]; omega
      have hsub : (j + 1) * n0 - (List.replicate n0 a).length = j * n0 := by
        rw [List.length_replicate, Nat.succ_mul]; omega
      rw [List.getElem?_append_right hle, hsub, ih]
      simp

/-! ### `pack` -/

theorem pack_length (s : List (List α)) :
    (pack s).length = (s.map List.length).foldl (· * ·) 1 := by
  induction s with
  | nil => rfl
  | cons s0 rest ih =>
    simp only [pack, List.map_cons, List.foldl_cons]
    rw [length_flatMap_map, ih, foldl_mul_eq _ (1 * s0.length), Nat.one_mul, Nat.mul_comm]

/-- `product_measure.npts` is the number of packed positions -/
theorem positions_length (c : PM α) : (positions c).length = npts c := by
  unfold positions npts pts pos
  rw [pack_length, List.map_map]
  congr 2
  funext m
  simp [mpositions]

theorem pack_mem_length (s : List (List α)) : ∀ t ∈ pack s, t.length = s.length := by
  induction s with
  | nil =>
    intro t ht
    simp only [pack, List.mem_singleton] at ht
    simp [ht]
  | cons s0 rest ih =>
    intro t ht
    simp only [pack, List.mem_flatMap, List.mem_map] at ht
    obtain ⟨u, hu, x, _, rfl⟩ := ht
    simp [ih u hu]

theorem pack_ne_nil (s : List (List α)) (hne : ∀ r ∈ s, r ≠ []) : pack s ≠ [] := by
  induction s with
  | nil => simp [pack]
  | cons s0 rest ih =>
    have h1 : pack rest ≠ [] := ih fun r hr => hne r (List.mem_cons_of_mem _ hr)
    have h0 : s0 ≠ [] := hne s0 List.mem_cons_self
    intro h
    have hl := congrArg List.length h
    simp only [pack, length_flatMap_map, List.length_nil] at hl
    have := Nat.mul_pos (List.length_pos_iff.mpr h1) (List.length_pos_iff.mpr h0)
    omega

/-- Pack order, first factor fastest: for `r < |s0|`, entry `q * |s0| + r` of `pack (s0 :: rest)` is
    `s0[r] :: (pack rest)[q]` (and it is out of range exactly when `(pack rest)[q]` is). -/
theorem pack_getElem? (s0 : List α) (rest : List (List α)) (q r : Nat) (hr : r < s0.length) :
    (pack (s0 :: rest))[q * s0.length + r]?
      = (pack rest)[q]?.bind (fun t => s0[r]?.map (· :: t)) := by
  simp only [pack]
  exact flatMap_map_getElem? (pack rest) s0 (fun t x => x :: t) q r hr

/-- The same in div/mod form: entry `k` of `pack (s0 :: rest)` is
    `s0[k % |s0|] :: (pack rest)[k / |s0|]` (for a non-empty first factor). -/
theorem pack_getElem?_divmod (s0 : List α) (rest : List (List α)) (k : Nat) (h0 : 0 < s0.length) :
    (pack (s0 :: rest))[k]?
      = (pack rest)[k / s0.length]?.bind (fun t => s0[k % s0.length]?.map (· :: t)) := by
  have h := pack_getElem? s0 rest (k / s0.length) (k % s0.length) (Nat.mod_lt _ h0)
  rwa [Nat.div_add_mod'] at h

/-! ### columns of a packed list -/

theorem col_append (i : Nat) (P Q : List (List α)) : col i (P ++ Q) = col i P ++ col i Q := by
  simp [col]

/-- column 0 of `pack (s0 :: rest)` is `s0` repeated `|pack rest|` times -/
theorem col_zero_flatMap (s0 : List α) (P : List (List α)) :
    col 0 (P.flatMap fun t => s0.map (· :: t)) = P.flatMap fun _ => s0 := by
  induction P with
  | nil => rfl
  | cons t P ih =>
    rw [List.flatMap_cons, List.flatMap_cons, col_append, ih]
    congr 1
    simp [col, List.filterMap_map, Function.comp_def]

/-- column `i+1` of `pack (s0 :: rest)` is column `i` of `pack rest`, each entry repeated `|s0|` times -/
theorem col_succ_flatMap (s0 : List α) (i : Nat) (P : List (List α)) :
    col (i + 1) (P.flatMap fun t => s0.map (· :: t))
      = (col i P).flatMap (List.replicate s0.length) := by
  induction P with
  | nil => rfl
  | cons t P ih =>
    rw [List.flatMap_cons, col_append, ih]
    have h1 : col (i + 1) (s0.map (· :: t)) = s0.filterMap (fun _ => t[i]?) := by
      simp [col, List.filterMap_map, Function.comp_def]
    rw [h1]
    cases h : t[i]? with
    | none =>
      have h2 : col i (t :: P) = col i P := by simp [col, h]
      rw [h2]; simp
    | some a =>
      have h2 : col i (t :: P) = a :: col i P := by simp [col, h]
      rw [h2, List.flatMap_cons, filterMap_const_some]

/-! ### `strided` -/

/-- `l[:stop:1] = l[:stop]` -/
theorem strided_one (l : List α) (stop : Nat) : strided l stop 1 = l.take stop := by
  unfold strided
  simp only [Nat.add_sub_cancel, Nat.div_one, Nat.mul_one]
  rw [filterMap_range_getElem?, ← List.take_eq_take_min]

theorem ceil_scale (n0 m L : Nat) (h0 : 0 < n0) :
    (n0 * m + n0 * L - 1) / (n0 * L) = (m + L - 1) / L := by
  cases L with
  | zero => simp
  | succ L =>
    rw [← Nat.div_div_eq_div_mul]
    have h : n0 * m + n0 * (L + 1) - 1 = n0 * (m + L) + (n0 - 1) := by
      rw [Nat.mul_add, Nat.mul_add, Nat.mul_one]; omega
    have h2 : (n0 - 1) / n0 = 0 := Nat.div_eq_of_lt (by omega)
    rw [h, Nat.mul_add_div h0, h2]
    simp

/-- repeating every entry `n0` times and scaling `stop` and `step` by `n0` selects the same entries -/
theorem strided_flatMap_replicate (l : List α) (n0 S L : Nat) (h0 : 0 < n0) :
    strided (l.flatMap (List.replicate n0)) (n0 * S) (n0 * L) = strided l S L := by
  unfold strided
  rw [length_flatMap_replicate, Nat.mul_min_mul_left, ceil_scale _ _ _ h0]
  congr 1
  funext k
  rw [show k * (n0 * L) = (k * L) * n0 by rw [Nat.mul_comm n0 L, Nat.mul_assoc]]
  exact getElem?_flatMap_replicate l n0 h0 (k * L)

/-! ### `unpack ∘ pack` -/

/-- peeling the first factor off: the recursion on `pack (s0 :: rest)` from column `i+1` with stride
    `|s0| * L` is the recursion on `pack rest` from column `i` with stride `L` -/
theorem unpackGo_flatMap (s0 : List α) (h0 : 0 < s0.length) (P : List (List α))
    (i L : Nat) (ns : List Nat) :
    unpackGo (P.flatMap fun t => s0.map (· :: t)) (i + 1) (s0.length * L) ns = unpackGo P i L ns := by
  induction ns generalizing i L with
  | nil => rfl
  | cons n ns ih =>
    simp only [unpackGo]
    rw [col_succ_flatMap, Nat.mul_assoc, strided_flatMap_replicate _ _ _ _ h0, ih]

/-- `unpackCore` is the recursion started at column 0 with stride 1 -/
theorem unpackCore_eq_unpackGo (P : List (List α)) (npts : List Nat) :
    unpackCore P npts = unpackGo P 0 1 npts := by
  cases npts with
  | nil => rfl
  | cons n0 ns => simp [unpackCore, unpackGo, strided_one]

theorem unpackGo_pack (s : List (List α)) (hne : ∀ r ∈ s, r ≠ []) :
    unpackGo (pack s) 0 1 (s.map List.length) = s := by
  induction s with
  | nil => rfl
  | cons s0 rest ih =>
    have hrest : ∀ r ∈ rest, r ≠ [] := fun r hr => hne r (List.mem_cons_of_mem _ hr)
    have h0 : 0 < s0.length := List.length_pos_iff.mpr (hne s0 List.mem_cons_self)
    simp only [pack, List.map_cons, unpackGo]
    congr 1
    · rw [strided_one, col_zero_flatMap, Nat.one_mul]
      obtain ⟨t, Q, hQ⟩ := List.exists_cons_of_ne_nil (pack_ne_nil rest hrest)
      rw [hQ, List.flatMap_cons, List.take_left']
      rfl
    · rw [Nat.one_mul, ← Nat.mul_one s0.length, Nat.zero_add]
      rw [unpackGo_flatMap s0 h0]
      exact ih hrest

/-- `_unpack(_pack(s), [len(r) for r in s]) == s` for non-empty factors (total core, no guards).
    (`s = []` is fine here: both sides are `[]`.) -/
theorem unpackCore_pack' (s : List (List α)) (hne : ∀ r ∈ s, r ≠ []) :
    unpackCore (pack s) (s.map List.length) = s := by
  rw [unpackCore_eq_unpackGo, unpackGo_pack s hne]

theorem unpackCore_pack (s : List (List α)) (_hs : s ≠ []) (hne : ∀ r ∈ s, r ≠ []) :
    unpackCore (pack s) (s.map List.length) = s :=
  unpackCore_pack' s hne

/-! ### the guards -/

theorem colOk_of_length (P : List (List α)) (len i : Nat) (hP : ∀ t ∈ P, t.length = len)
    (hi : i < len) : colOk i P = true := by
  simp only [colOk, List.all_eq_true, decide_eq_true_eq]
  intro t ht
  rw [hP t ht]; exact hi

theorem unpackGuard_none (P : List (List α)) (len : Nat) (hP : ∀ t ∈ P, t.length = len)
    (next last : Nat) (ns : List Nat) (hlen : next + ns.length ≤ len) (hlast : 0 < last)
    (hpos : ∀ n ∈ ns, 0 < n) : unpackGuard P next last ns = none := by
  induction ns generalizing next last with
  | nil => rfl
  | cons n ns ih =>
    rw [List.length_cons] at hlen
    have hc : colOk next P = true := colOk_of_length P len next hP (by omega)
    rw [unpackGuard, if_neg (by simp [hc]), if_neg (by omega)]
    apply ih
    · omega
    · exact Nat.mul_pos hlast (hpos n List.mem_cons_self)
    · exact fun m hm => hpos m (List.mem_cons_of_mem _ hm)

/-- `_unpack(_pack(s), [len(r) for r in s])` raises nothing and returns `s`
    (at least one factor, every factor non-empty). -/
theorem unpack_pack (s : List (List α)) (hs : s ≠ []) (hne : ∀ r ∈ s, r ≠ []) :
    unpack (pack s) (s.map List.length) = .ok s := by
  have hcore := unpackCore_pack' s hne
  cases s with
  | nil => exact absurd rfl hs
  | cons s0 rest =>
    have hP := pack_mem_length (s0 :: rest)
    have hc : colOk 0 (pack (s0 :: rest)) = true :=
      colOk_of_length _ _ 0 hP (by simp)
    have hg : unpackGuard (pack (s0 :: rest)) 1 s0.length (rest.map List.length) = none := by
      apply unpackGuard_none _ _ hP
      · simp; omega
      · exact List.length_pos_iff.mpr (hne s0 List.mem_cons_self)
      · intro n hn
        obtain ⟨r, hr, rfl⟩ := List.mem_map.mp hn
        exact List.length_pos_iff.mpr (hne r (List.mem_cons_of_mem _ hr))
    rw [List.map_cons] at hcore ⊢
    simp only [unpack, hc, hg, hcore]
    rfl

/-- `c.positions = c.positions` round trip at the level of lists:
    unpacking the packed positions of a product measure with non-empty measures gives `pos c` -/
theorem unpack_positions (c : PM α) (hc : c ≠ []) (hne : ∀ m ∈ c, m ≠ []) :
    unpack (positions c) (pts c) = .ok (pos c) := by
  have hlen : pts c = (pos c).map List.length := by
    simp [pts, pos, mpositions, List.map_map, Function.comp_def]
  rw [hlen]
  apply unpack_pack
  · simpa [pos] using hc
  · intro r hr
    obtain ⟨m, hm, rfl⟩ := List.mem_map.mp hr
    simpa [mpositions] using hne m hm

/-! ### sanity checks -/

example : unpackCore (pack [[1, 2, 3], [4, 5], [6, 7]]) [3, 2, 2] = [[1, 2, 3], [4, 5], [6, 7]] := by
  decide

example : unpack (pack [[1, 2, 3], [4, 5], [6, 7]]) [3, 2, 2] = .ok [[1, 2, 3], [4, 5], [6, 7]] := by
  rfl

example : pack [[1, 2, 3], [4, 5]] = [[1, 4], [2, 4], [3, 4], [1, 5], [2, 5], [3, 5]] := by
  decide

example : (pack [[1, 2, 3], [4, 5], [6, 7]]).length = 12 := by decide

end MysticVerif.Discrete
