/- Helper lemmas for the composition modes of generate_constraint / generate_penalty (model: Model/EmittedJoin.lean). -/
import MysticVerif.Model.EmittedJoin
import MysticVerif.Proofs.Emitted

set_option linter.unusedSectionVars false
set_option linter.unusedVariables false

namespace MysticVerif.Emitted

variable {K : Type} [Field K] [LinearOrder K] [IsStrictOrderedRing K] {C : Type}

/-! ## `order` -/

/-- the fold behind `order`, from an arbitrary start -/
def orderFrom {α : Type} (L : List α) (ws : List (CType × α)) : List α :=
  ws.foldl (fun L w => match w.1 with
    | .inner => L ++ [w.2]
    | .outer => w.2 :: L) L

theorem order_eq {α : Type} (ws : List (CType × α)) : order ws = orderFrom [] ws := rfl

theorem orderFrom_cons {α : Type} (L : List α) (w : CType × α) (ws : List (CType × α)) :
    orderFrom L (w :: ws) = orderFrom (match w.1 with | .inner => L ++ [w.2] | .outer => w.2 :: L) ws := rfl

theorem orderFrom_perm {α : Type} : ∀ (ws : List (CType × α)) (L : List α),
    (orderFrom L ws).Perm (L ++ ws.map (·.2))
  | [], L => by simp [orderFrom]
  | w :: ws, L => by
    rw [orderFrom_cons]
    obtain ⟨c, a⟩ := w
    cases c
    · refine (orderFrom_perm ws (L ++ [a])).trans ?_
      simp
    · refine (orderFrom_perm ws (a :: L)).trans ?_
      simp only [List.map_cons, List.cons_append]
      exact List.perm_middle.symm

/-- the composition applies every solver exactly once -/
theorem order_perm {α : Type} (ws : List (CType × α)) : (order ws).Perm (ws.map (·.2)) := by
  have := orderFrom_perm ws []
  simpa [order_eq] using this

theorem orderFrom_map {α β : Type} (f : α → β) : ∀ (ws : List (CType × α)) (L : List α),
    orderFrom (L.map f) (ws.map fun w => (w.1, f w.2)) = (orderFrom L ws).map f
  | [], L => rfl
  | w :: ws, L => by
    rw [List.map_cons, orderFrom_cons, orderFrom_cons]
    obtain ⟨c, a⟩ := w
    cases c
    · have := orderFrom_map f ws (L ++ [a])
      simp only [List.map_append, List.map_cons, List.map_nil] at this
      exact this
    · have := orderFrom_map f ws (a :: L)
      simp only [List.map_cons] at this
      exact this

theorem order_map {α β : Type} (f : α → β) (ws : List (CType × α)) :
    order (ws.map fun w => (w.1, f w.2)) = (order ws).map f := by
  have := orderFrom_map f ws []
  simpa [order_eq] using this

/-! ## `compose` -/

theorem chain_append_one (env : Env C K) (L : List (Assign C)) (s : Assign C) (x : List K) :
    chain env (L ++ [s]) x = chain env L (s.exec env x) := by
  simp [chain, List.foldr_append]

theorem compose_from (env : Env C K) : ∀ (ws : List (CType × Assign C)) (cf : List K → List K) (L : List (Assign C)),
    (∀ x, cf x = chain env L x) → ∀ x, (ws.foldl (step env) cf) x = chain env (orderFrom L ws) x
  | [], cf, L, h => fun x => by simpa [orderFrom] using h x
  | w :: ws, cf, L, h => by
    intro x
    rw [List.foldl_cons, orderFrom_cons]
    obtain ⟨c, a⟩ := w
    cases c
    · refine compose_from env ws _ _ ?_ x
      intro z; simp only [step]; rw [chain_append_one]; exact h _
    · refine compose_from env ws _ _ ?_ x
      intro z; simp only [step]; rw [chain_cons, h]

theorem composeOpt_from (env : Env C K) : ∀ (ws : List (CType × Assign C)) (cf? : List K → Option (List K))
    (cf : List K → List K), (∀ x y, cf? x = some y → y = cf x) →
    ∀ x y, (ws.foldl (step? env) cf?) x = some y → y = (ws.foldl (step env) cf) x
  | [], cf?, cf, h => fun x y hy => h x y hy
  | w :: ws, cf?, cf, h => by
    intro x y hy
    rw [List.foldl_cons] at hy ⊢
    refine composeOpt_from env ws _ _ ?_ x y hy
    obtain ⟨c, a⟩ := w
    cases c
    · intro z v hv
      simp only [step?] at hv
      split at hv
      · exact h _ _ hv
      · simp at hv
    · intro z v hv
      simp only [step?] at hv
      cases hz : cf? z with
      | none => rw [hz] at hv; simp at hv
      | some u =>
        rw [hz] at hv
        simp only [Option.bind] at hv
        split at hv
        · simp only [Option.some.injEq] at hv
          simp only [step]; rw [← h z u hz]; exact hv.symm
        · simp at hv

/-! ## definedness is not affected by storing into a coordinate the expression does not read -/

theorem defined_set_of_not_mentions (env : Env C K) (x : List K) (i : Nat) (v : K) :
    ∀ e : Expr C, e.mentions i = false → e.defined env (x.set i v) = e.defined env x := by
  intro e
  induction e with
  | num c => intro _; rfl
  | var j => intro _; simp [Expr.defined]
  | add a b iha ihb | sub a b iha ihb | mul a b iha ihb | max a b iha ihb
  | min a b iha ihb | equal a b iha ihb | bor a b iha ihb =>
    intro h
    simp only [Expr.mentions, Bool.or_eq_false_iff] at h
    simp only [Expr.defined, iha h.1, ihb h.2]
  | div a b iha ihb =>
    intro h
    simp only [Expr.mentions, Bool.or_eq_false_iff] at h
    simp only [Expr.defined, iha h.1, ihb h.2, eval_set_of_not_mentions env x i v b h.2]
  | app2 f a b iha ihb =>
    intro h
    simp only [Expr.mentions, Bool.or_eq_false_iff] at h
    simp only [Expr.defined, iha h.1, ihb h.2, eval_set_of_not_mentions env x i v b h.2,
      eval_set_of_not_mentions env x i v a h.1]
  | neg a iha | tol a iha | isZero a iha | abs a iha | app1 f a iha =>
    intro h
    simp only [Expr.mentions] at h
    simp only [Expr.defined, iha h]
  | false_ => intro _; rfl

/-! ## sums and minima of non-negative numbers -/

theorem foldl_add_eq (ps : List K) : ∀ a : K, ps.foldl (· + ·) a = a + ps.sum := by
  induction ps with
  | nil => intro a; simp
  | cons p ps ih => intro a; simp only [List.foldl_cons, List.sum_cons, ih]; ring

theorem sumL_eq (ps : List K) : sumL ps = ps.sum := by
  unfold sumL; rw [foldl_add_eq]; ring

theorem sum_zero_iff' : ∀ (ps : List K), (∀ p ∈ ps, 0 ≤ p) → (0 ≤ ps.sum ∧ (ps.sum = 0 ↔ ∀ p ∈ ps, p = 0))
  | [], _ => by simp
  | p :: ps, h => by
    have hp : 0 ≤ p := h p (by simp)
    have hps : ∀ q ∈ ps, 0 ≤ q := fun q hq => h q (by simp [hq])
    obtain ⟨hs, ih⟩ := sum_zero_iff' ps hps
    simp only [List.sum_cons, List.mem_cons, forall_eq_or_imp]
    refine ⟨by linarith, ?_⟩
    constructor
    · intro h0
      have h1 : p = 0 := by linarith
      have h2 : ps.sum = 0 := by linarith
      exact ⟨h1, ih.mp h2⟩
    · rintro ⟨h1, h2⟩
      rw [h1, ih.mpr h2]; simp

theorem pyMin_nonneg {a b : K} (ha : 0 ≤ a) (hb : 0 ≤ b) : 0 ≤ pyMin a b := by
  unfold pyMin; split <;> assumption

theorem pyMin_eq_zero_iff {a b : K} (ha : 0 ≤ a) (hb : 0 ≤ b) : pyMin a b = 0 ↔ a = 0 ∨ b = 0 := by
  unfold pyMin
  split
  · rename_i h
    constructor
    · exact Or.inr
    · rintro (h0 | h0)
      · rw [h0] at h; exact le_antisymm (le_of_lt h) hb
      · exact h0
  · rename_i h
    constructor
    · exact Or.inl
    · rintro (h0 | h0)
      · exact h0
      · rw [h0] at h; exact le_antisymm (not_lt.mp h) ha

theorem foldl_pyMin_zero_iff : ∀ (ps : List K) (p : K), 0 ≤ p → (∀ q ∈ ps, 0 ≤ q) →
    (0 ≤ ps.foldl (fun a q => pyMin a q) p ∧
      (ps.foldl (fun a q => pyMin a q) p = 0 ↔ p = 0 ∨ ∃ q ∈ ps, q = 0))
  | [], p, hp, _ => by simpa using hp
  | q :: ps, p, hp, h => by
    have hq : 0 ≤ q := h q (by simp)
    have hps : ∀ r ∈ ps, 0 ≤ r := fun r hr => h r (by simp [hr])
    have ih := foldl_pyMin_zero_iff ps (pyMin p q) (pyMin_nonneg hp hq) hps
    simp only [List.foldl_cons, List.mem_cons, exists_eq_or_imp]
    refine ⟨ih.1, ?_⟩
    rw [ih.2, pyMin_eq_zero_iff hp hq]
    constructor
    · rintro ((h0 | h0) | h0)
      · exact Or.inl h0
      · exact Or.inr (Or.inl h0)
      · exact Or.inr (Or.inr h0)
    · rintro (h0 | h0 | h0)
      · exact Or.inl (Or.inl h0)
      · exact Or.inl (Or.inr h0)
      · exact Or.inr h0

end MysticVerif.Emitted
