/- Helper lemmas for the argument shapes of generate_constraint (model: Model/EmittedShape.lean). -/
import MysticVerif.Model.EmittedShape
import MysticVerif.Proofs.EmittedJoin

set_option linter.unusedSectionVars false
set_option linter.unusedVariables false

namespace MysticVerif.Emitted

variable {K : Type} [Field K] [LinearOrder K] [IsStrictOrderedRing K] {C : Type}

/-! ## `Nest` -/

namespace Nest
variable {α β : Type}

theorem flatL_cons (t : Nest α) (ts : List (Nest α)) : flatL (t :: ts) = flat t ++ flatL ts := by
  rw [flatL]

theorem flatL_nil : flatL ([] : List (Nest α)) = [] := by rw [flatL]

theorem flat_leaf (a : α) : flat (.leaf a) = [a] := by rw [flat]

theorem flat_node (ts : List (Nest α)) : flat (.node ts) = flatL ts := by rw [flat]

theorem flatL_append (ts us : List (Nest α)) : flatL (ts ++ us) = flatL ts ++ flatL us := by
  induction ts with
  | nil => simp [flatL_nil]
  | cons t ts ih => rw [List.cons_append, flatL_cons, flatL_cons, ih, List.append_assoc]

/-- the flattening of a flat list of items is the list itself -/
theorem flatL_leaves (l : List α) : flatL (l.map .leaf) = l := by
  induction l with
  | nil => simp [flatL_nil]
  | cons a l ih => rw [List.map_cons, flatL_cons, flat_leaf, ih]; rfl

mutual
theorem flat_map (f : α → β) : ∀ t : Nest α, flat (map f t) = (flat t).map f
  | .leaf a => by rw [map, flat_leaf, flat_leaf]; rfl
  | .node ts => by rw [map, flat_node, flat_node]; exact flatL_mapL f ts
theorem flatL_mapL (f : α → β) : ∀ ts : List (Nest α), flatL (mapL f ts) = (flatL ts).map f
  | [] => by rw [mapL, flatL_nil]; rfl
  | t :: ts => by rw [mapL, flatL_cons, flatL_cons, flat_map f t, flatL_mapL f ts, List.map_append]
end

theorem top_map (f : α → β) (t : Nest α) : (map f t).top = mapL f t.top := by
  cases t with
  | leaf a => rw [map]; simp only [top]; rw [mapL, mapL, map]
  | node ts => rw [map]; simp only [top]

theorem flatL_top_map (f : α → β) (t : Nest α) : flatL (map f t).top = (flatL t.top).map f := by
  rw [top_map, flatL_mapL]

/-- a single function and the one-element list around it are the same `conditions` -/
theorem top_leaf (a : α) : (Nest.leaf a).top = (Nest.node [.leaf a]).top := rfl

end Nest

/-! ## the coupler list and the `zip` -/

theorem ctypeList_none_length (n : Nat) : (ctypeList .none n).length = n := by simp [ctypeList]

theorem ctypeList_one_length (c : CType) (n : Nat) : (ctypeList (.one c) n).length = n := by simp [ctypeList]

/-- `ctype` has a coupler for each of `n` solvers: always for `None` / one coupler (they are replicated to the
flattened length), for a list when its flattening is long enough -/
def CArg.covers (ct : CArg) (n : Nat) : Prop :=
  match ct with
  | .many ts => n ≤ (Nest.flatL ts).length
  | _ => True

theorem ctypeList_length_of_covers (ct : CArg) (n : Nat) (h : ct.covers n) : n ≤ (ctypeList ct n).length := by
  cases ct with
  | none => simp [ctypeList]
  | one c => simp [ctypeList]
  | many ts => simpa [ctypeList, CArg.covers] using h

theorem map_snd_zip_of_le {α β : Type} : ∀ (l₁ : List α) (l₂ : List β), l₂.length ≤ l₁.length →
    (l₁.zip l₂).map (·.2) = l₂
  | _, [], _ => by simp
  | [], b :: l₂, h => by simp at h
  | a :: l₁, b :: l₂, h => by
    simp only [List.zip_cons_cons, List.map_cons, List.cons.injEq, true_and]
    exact map_snd_zip_of_le l₁ l₂ (by simpa using h)

theorem snd_mem_of_mem_zip {α β : Type} : ∀ (l₁ : List α) (l₂ : List β) (p : α × β), p ∈ l₁.zip l₂ → p.2 ∈ l₂
  | _, [], p, h => by simp at h
  | [], _ :: _, p, h => by simp at h
  | a :: l₁, b :: l₂, p, h => by
    simp only [List.zip_cons_cons, List.mem_cons] at h ⊢
    rcases h with rfl | h
    · exact Or.inl rfl
    · exact Or.inr (snd_mem_of_mem_zip l₁ l₂ p h)

theorem zip_map_right {α β γ : Type} (f : β → γ) : ∀ (l₁ : List α) (l₂ : List β),
    l₁.zip (l₂.map f) = (l₁.zip l₂).map fun w => (w.1, f w.2)
  | [], _ => by simp
  | _ :: _, [] => by simp
  | a :: l₁, b :: l₂ => by simp [zip_map_right f l₁ l₂]

/-- every solver of the flattening takes part when `ctype` covers it -/
theorem gcItems_snd {α : Type} (conds : Nest α) (ct : CArg) (h : ct.covers (Nest.flatL conds.top).length) :
    (gcItems conds ct).map (·.2) = Nest.flatL conds.top := by
  unfold gcItems
  exact map_snd_zip_of_le _ _ (ctypeList_length_of_covers ct _ h)

/-- nothing but solvers of the flattening takes part, whatever `ctype` is -/
theorem gcItems_snd_mem {α : Type} (conds : Nest α) (ct : CArg) (w : CType × α) (h : w ∈ gcItems conds ct) :
    w.2 ∈ Nest.flatL conds.top := snd_mem_of_mem_zip _ _ w h

theorem gcItems_map {α β : Type} (f : α → β) (conds : Nest α) (ct : CArg) :
    gcItems (Nest.map f conds) ct = (gcItems conds ct).map fun w => (w.1, f w.2) := by
  unfold gcItems
  rw [Nest.flatL_top_map, List.length_map, zip_map_right]

/-! ## a composition that leaves a vector unchanged -/

theorem eq_of_getD_eq (x y : List K) (hlen : x.length = y.length) (h : ∀ j, x.getD j 0 = y.getD j 0) : x = y := by
  apply List.ext_getElem hlen
  intro j h1 h2
  have := h j
  simpa [List.getD_eq_getElem?_getD, List.getElem?_eq_getElem h1, List.getElem?_eq_getElem h2] using this

theorem chain_getD_of_not_target (env : Env C K) : ∀ (codes : List (Assign C)) (x : List K) (j : Nat),
    (∀ c ∈ codes, c.i ≠ j) → (chain env codes x).getD j 0 = x.getD j 0
  | [], _, _, _ => rfl
  | c :: cs, x, j, hj => by
    rw [chain_cons, exec_getD_ne env c _ j (Ne.symm (hj c (by simp)))]
    exact chain_getD_of_not_target env cs x j (fun c' hc' => hj c' (by simp [hc']))

/-- **Distinct targets: a chain that returns its input leaves it unchanged at every step.** Every variable is written by
one statement only, so no statement can undo what another one did. -/
theorem chain_fixed_all_fixed (env : Env C K) : ∀ (codes : List (Assign C)) (x : List K),
    (codes.map (·.i)).Nodup → chain env codes x = x → ∀ c ∈ codes, c.exec env x = x
  | [], _, _, _ => by intro c hc; simp at hc
  | c :: cs, x, hnd, hfix => by
    simp only [List.map_cons, List.nodup_cons, List.mem_map, not_exists, not_and] at hnd
    rw [chain_cons] at hfix
    -- the state before the last-applied statement `c` already equals `x`
    have hz : chain env cs x = x := by
      apply eq_of_getD_eq _ _ (chain_length env cs x)
      intro j
      by_cases hj : j = c.i
      · subst hj
        have hframe : (chain env cs x).getD c.i 0 = x.getD c.i 0 :=
          chain_getD_of_not_target env cs x c.i (fun c' hc' h => hnd.1 c' hc' h)
        exact hframe
      · have := congrArg (fun l => l.getD j 0) hfix
        -- (beta-reduced by congrArg)
        rw [exec_getD_ne env c _ j hj] at this
        exact this
    intro c' hc'
    rcases List.mem_cons.mp hc' with rfl | hmem
    · rw [hz] at hfix; exact hfix
    · exact chain_fixed_all_fixed env cs x hnd.2 hz c' hmem

/-- the same for any list of couplers -/
theorem compose_fixed_all_fixed (env : Env C K) (ws : List (CType × Assign C)) (x : List K)
    (hnd : (ws.map (·.2.i)).Nodup) (hfix : compose env ws x = x) : ∀ w ∈ ws, w.2.exec env x = x := by
  have hperm := order_perm ws
  have hchain : chain env (order ws) x = x := by
    have := compose_from env ws id [] (fun _ => rfl) x
    rw [← order_eq] at this
    unfold compose at hfix
    rw [this] at hfix; exact hfix
  have hnd' : ((order ws).map (·.i)).Nodup := by
    have h1 : ((order ws).map (·.i)).Perm ((ws.map (·.2)).map (·.i)) := hperm.map _
    rw [List.map_map] at h1
    exact h1.nodup_iff.mpr (by simpa [Function.comp_def] using hnd)
  intro w hw
  exact chain_fixed_all_fixed env (order ws) x hnd' hchain w.2 (hperm.mem_iff.mpr (List.mem_map.mpr ⟨w, hw, rfl⟩))

/-- every target of a composition that ran without raising is a coordinate of the vector -/
theorem composeOpt_targets (env : Env C K) : ∀ (ws : List (CType × Assign C)) (cf? : List K → Option (List K))
    (P : Nat → Prop), (∀ x y, cf? x = some y → y.length = x.length) →
    (∀ x y, cf? x = some y → ∀ n, P n → n < x.length) →
    ∀ x y, (ws.foldl (step? env) cf?) x = some y → y.length = x.length ∧
      ∀ n, (P n ∨ ∃ w ∈ ws, w.2.i = n) → n < x.length
  | [], cf?, P, h1, h2 => fun x y hy => ⟨h1 x y hy, fun n hn => by
      rcases hn with hn | ⟨w, hw, _⟩
      · exact h2 x y hy n hn
      · simp at hw⟩
  | w :: ws, cf?, P, h1, h2 => by
    intro x y hy
    rw [List.foldl_cons] at hy
    have key := composeOpt_targets env ws (step? env cf? w) (fun n => P n ∨ w.2.i = n) ?_ ?_ x y hy
    · refine ⟨key.1, fun n hn => key.2 n ?_⟩
      rcases hn with hn | ⟨w', hw', hn⟩
      · exact Or.inl (Or.inl hn)
      · rcases List.mem_cons.mp hw' with rfl | hmem
        · exact Or.inl (Or.inr hn)
        · exact Or.inr ⟨w', hmem, hn⟩
    · intro z v hv
      obtain ⟨c, a⟩ := w
      cases c
      · simp only [step?] at hv
        split at hv
        · rw [h1 _ _ hv, exec_length]
        · simp at hv
      · simp only [step?] at hv
        cases hz : cf? z with
        | none => rw [hz] at hv; simp at hv
        | some u =>
          rw [hz] at hv; simp only [Option.bind] at hv
          split at hv
          · simp only [Option.some.injEq] at hv
            rw [← hv, exec_length]; exact h1 z u hz
          · simp at hv
    · intro z v hv n hn
      obtain ⟨c, a⟩ := w
      cases c
      · simp only [step?] at hv
        split at hv
        · rename_i hdef
          rcases hn with hn | hn
          · have := h2 _ _ hv n hn; rwa [exec_length] at this
          · simp only [Assign.defined, Bool.and_eq_true, decide_eq_true_eq] at hdef
            rw [← hn]; exact hdef.1
        · simp at hv
      · simp only [step?] at hv
        cases hz : cf? z with
        | none => rw [hz] at hv; simp at hv
        | some u =>
          rw [hz] at hv; simp only [Option.bind] at hv
          split at hv
          · rename_i hdef
            rcases hn with hn | hn
            · exact h2 z u hz n hn
            · simp only [Assign.defined, Bool.and_eq_true, decide_eq_true_eq] at hdef
              rw [← hn, ← h1 z u hz]; exact hdef.1
          · simp at hv

theorem composeOpt_target_lt (env : Env C K) (ws : List (CType × Assign C)) (x y : List K)
    (h : compose? env ws x = some y) : ∀ w ∈ ws, w.2.i < x.length := by
  intro w hw
  have := composeOpt_targets env ws some (fun _ => False) (fun x y h => by simp at h; rw [h])
    (fun _ _ _ n hn => absurd hn id) x y h
  exact this.2 w.2.i (Or.inr ⟨w, hw, rfl⟩)

/-! ## definedness of a composition -/

/-- a composition that returns a value called its innermost function on a vector of the input's length -/
theorem composeOpt_base (env : Env C K) : ∀ (ws : List (CType × Assign C)) (cf? : List K → Option (List K)),
    (∀ x y, cf? x = some y → y.length = x.length) →
    ∀ x y, (ws.foldl (step? env) cf?) x = some y → ∃ x' y', x'.length = x.length ∧ cf? x' = some y'
  | [], cf?, _ => fun x y hy => ⟨x, y, rfl, hy⟩
  | w :: ws, cf?, h1 => by
    intro x y hy
    rw [List.foldl_cons] at hy
    have hstep : ∀ z v, step? env cf? w z = some v → v.length = z.length := by
      intro z v hv
      obtain ⟨c, a⟩ := w
      cases c
      · simp only [step?] at hv
        split at hv
        · rw [h1 _ _ hv, exec_length]
        · simp at hv
      · simp only [step?] at hv
        cases hz : cf? z with
        | none => rw [hz] at hv; simp at hv
        | some u =>
          rw [hz] at hv; simp only [Option.bind] at hv
          split at hv
          · simp only [Option.some.injEq] at hv
            rw [← hv, exec_length]; exact h1 z u hz
          · simp at hv
    obtain ⟨x', y', hl, hxy⟩ := composeOpt_base env ws (step? env cf? w) hstep x y hy
    obtain ⟨c, a⟩ := w
    cases c
    · simp only [step?] at hxy
      split at hxy
      · exact ⟨_, y', by rw [exec_length]; exact hl, hxy⟩
      · simp at hxy
    · simp only [step?] at hxy
      cases hz : cf? x' with
      | none => rw [hz] at hxy; simp at hxy
      | some u => exact ⟨x', u, hl, hz⟩

/-- every statement of a composition that ran without raising was defined at a vector of the input's length -/
theorem composeOpt_defined (env : Env C K) : ∀ (ws : List (CType × Assign C)) (cf? : List K → Option (List K)),
    (∀ x y, cf? x = some y → y.length = x.length) →
    ∀ x y, (ws.foldl (step? env) cf?) x = some y →
      ∀ w ∈ ws, ∃ z : List K, z.length = x.length ∧ w.2.defined env z = true
  | [], _, _ => by intro x y _ w hw; simp at hw
  | w :: ws, cf?, h1 => by
    intro x y hy w' hw'
    rw [List.foldl_cons] at hy
    have hstep : ∀ z v, step? env cf? w z = some v → v.length = z.length := by
      intro z v hv
      obtain ⟨c, a⟩ := w
      cases c
      · simp only [step?] at hv
        split at hv
        · rw [h1 _ _ hv, exec_length]
        · simp at hv
      · simp only [step?] at hv
        cases hz : cf? z with
        | none => rw [hz] at hv; simp at hv
        | some u =>
          rw [hz] at hv; simp only [Option.bind] at hv
          split at hv
          · simp only [Option.some.injEq] at hv
            rw [← hv, exec_length]; exact h1 z u hz
          · simp at hv
    rcases List.mem_cons.mp hw' with rfl | hmem
    · obtain ⟨x', y', hl, hxy⟩ := composeOpt_base env ws (step? env cf? w') hstep x y hy
      obtain ⟨c, a⟩ := w'
      cases c
      · simp only [step?] at hxy
        split at hxy
        · rename_i hdef; exact ⟨x', hl, hdef⟩
        · simp at hxy
      · simp only [step?] at hxy
        cases hz : cf? x' with
        | none => rw [hz] at hxy; simp at hxy
        | some u =>
          rw [hz] at hxy; simp only [Option.bind] at hxy
          split at hxy
          · rename_i hdef; exact ⟨u, by rw [h1 x' u hz]; exact hl, hdef⟩
          · simp at hxy
    · exact composeOpt_defined env ws (step? env cf? w) hstep x y hy w' hmem

/-- statements that are defined on every vector of length `n` compose to a function that never raises there -/
theorem composeOpt_total (env : Env C K) (n : Nat) : ∀ (ws : List (CType × Assign C)) (cf? : List K → Option (List K))
    (cf : List K → List K), (∀ x, x.length = n → cf? x = some (cf x) ∧ (cf x).length = n) →
    (∀ w ∈ ws, ∀ z : List K, z.length = n → w.2.defined env z = true) →
    ∀ x, x.length = n → (ws.foldl (step? env) cf?) x = some ((ws.foldl (step env) cf) x)
  | [], cf?, cf, h, _ => fun x hx => (h x hx).1
  | w :: ws, cf?, cf, h, hd => by
    intro x hx
    rw [List.foldl_cons, List.foldl_cons]
    refine composeOpt_total env n ws _ _ ?_ (fun w' hw' => hd w' (by simp [hw'])) x hx
    intro z hz
    have hdw := hd w (by simp)
    obtain ⟨c, a⟩ := w
    cases c
    · simp only [step?, step]
      rw [if_pos (hdw z hz)]
      exact h _ (by rw [exec_length]; exact hz)
    · simp only [step?, step]
      rw [(h z hz).1]
      simp only [Option.bind]
      rw [if_pos (hdw _ (h z hz).2)]
      exact ⟨rfl, by rw [exec_length]; exact (h z hz).2⟩


end MysticVerif.Emitted
