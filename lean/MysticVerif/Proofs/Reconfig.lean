/- what survives reconfiguration: the evaluation monitor, segment by segment -/
import MysticVerif.Model.Reconfig
import MysticVerif.Proofs.Solver

namespace MysticVerif.Solver

variable {X E : Type}

/-- the records `t` appended to a log all come from objective `o`: `(x, cost x)` at a constrained, in-box point -/
def Appended (o : Obj X E) (log log' : List (X × E)) : Prop := ∃ t, log' = log ++ t ∧ LogOK o t

theorem Appended.refl (o : Obj X E) (log : List (X × E)) : Appended o log log :=
  ⟨[], by simp, by intro p hp; cases hp⟩

theorem Appended.trans {o : Obj X E} {a b c : List (X × E)} (h1 : Appended o a b) (h2 : Appended o b c) :
    Appended o a c := by
  obtain ⟨t1, e1, k1⟩ := h1
  obtain ⟨t2, e2, k2⟩ := h2
  refine ⟨t1 ++ t2, by rw [e2, e1, List.append_assoc], ?_⟩
  intro p hp
  rcases List.mem_append.mp hp with hp | hp
  · exact k1 p hp
  · exact k2 p hp

theorem objAt_appended [LinearOrder E] {o : Obj X E} (h : Hyp o) (t : X) (log : List (X × E)) :
    Appended o log (o.objAt (o.K t) log).2 := by
  unfold Obj.objAt Obj.evalB
  split
  · exact Appended.refl o log
  · rename_i hb
    refine ⟨[(o.K t, o.raw (o.K t))], rfl, ?_⟩
    intro p hp
    simp only [List.mem_singleton] at hp
    subst hp
    refine ⟨rfl, h.idem t, ?_⟩
    intro hu
    simp only [hu, Bool.true_and, Bool.not_eq_true', Bool.not_eq_false] at hb
    exact hb

theorem DE.candidates1_appended [LinearOrder E] {o : Obj X E} (h : Hyp o) :
    ∀ (ts : List X) (i : Nat) (s : DE X E), Appended o s.log (DE.candidates1 o ts i s).log := by
  intro ts
  induction ts with
  | nil => intro i s; exact Appended.refl o _
  | cons t ts ih =>
    intro i s
    unfold DE.candidates1
    refine Appended.trans ?_ (ih _ _)
    rw [DE.select_log]
    exact objAt_appended h t s.log

theorem DE.step1_appended [LinearOrder E] {o : Obj X E} (h : Hyp o) (ts : List X) (s : DE X E) :
    Appended o s.log (DE.step1 o ts s).log := by
  unfold DE.step1
  exact DE.candidates1_appended h ts 0 s

theorem DE.genStep_appended [LinearOrder E] (g : DEGen X E) (h : Hyp g.o) (s : DE X E) :
    Appended g.o s.log (DE.genStep g s).log := by
  unfold DE.genStep
  split
  · rw [DE.step2_eq_step1]
    exact DE.step1_appended h g.trials { s with pop := g.pre s.pop }
  · exact DE.step1_appended h g.trials { s with pop := g.pre s.pop }

theorem DE.step1_bestE_le [LinearOrder E] (o : Obj X E) (ts : List X) (s : DE X E) :
    (DE.step1 o ts s).bestE ≤ s.bestE := by
  unfold DE.step1
  exact DE.candidates1_bestE_le o ts 0 s

theorem DE.step1_stepLog [LinearOrder E] (o : Obj X E) (ts : List X) (s : DE X E) :
    (DE.step1 o ts s).stepLog = s.stepLog ++ [((DE.step1 o ts s).best, (DE.step1 o ts s).bestE)] := by
  unfold DE.step1
  simp only
  rw [DE.candidates1_stepLog]

theorem DE.genStep_bestE_le [LinearOrder E] (g : DEGen X E) (s : DE X E) : (DE.genStep g s).bestE ≤ s.bestE := by
  unfold DE.genStep
  split
  · rw [DE.step2_eq_step1]; exact DE.step1_bestE_le g.o g.trials _
  · exact DE.step1_bestE_le g.o g.trials _

theorem DE.genStep_stepLog [LinearOrder E] (g : DEGen X E) (s : DE X E) :
    (DE.genStep g s).stepLog = s.stepLog ++ [((DE.genStep g s).best, (DE.genStep g s).bestE)] := by
  unfold DE.genStep
  split
  · rw [DE.step2_eq_step1]; exact DE.step1_stepLog g.o g.trials _
  · exact DE.step1_stepLog g.o g.trials _

end MysticVerif.Solver

namespace MysticVerif.Solver

variable {X E : Type}

/-- "this point carries this energy legitimately under SOME objective of the family `S`" (all with the same `inf`) -/
def GoodAny (S : Obj X E → Prop) (T : E) (log : List (X × E)) (y : X) (e : E) : Prop :=
  e ≠ T → ∃ o, S o ∧ e = o.add (o.raw y) (o.pen y) ∧ (y, o.raw y) ∈ log ∧ o.K y = y ∧
    (o.useRange = true → o.inBox y = true)

theorem GoodAny.mono {S : Obj X E → Prop} {T : E} {log log' : List (X × E)} {y : X} {e : E}
    (h : GoodAny S T log y e) (hsub : ∀ p ∈ log, p ∈ log') : GoodAny S T log' y e := by
  intro he
  obtain ⟨o, ho, h1, h2, h3, h4⟩ := h he
  exact ⟨o, ho, h1, hsub _ h2, h3, h4⟩

theorem Good.toAny {S : Obj X E → Prop} {o : Obj X E} (ho : S o) {log : List (X × E)} {y : X} {e : E}
    (h : Good o log y e) : GoodAny S o.top log y e := by
  intro he
  obtain ⟨h1, h2, h3, h4⟩ := h he
  exact ⟨o, ho, h1, h2, h3, h4⟩

theorem DE.select_best_cases [LinearOrder E] (s : DE X E) (i : Nat) (y : X) (e : E) :
    ((s.select i y e).best = s.best ∧ (s.select i y e).bestE = s.bestE) ∨
    ((s.select i y e).best = y ∧ (s.select i y e).bestE = e) := by
  unfold DE.select
  split
  · exact Or.inl ⟨rfl, rfl⟩
  · split
    · split
      · exact Or.inr ⟨rfl, rfl⟩
      · exact Or.inl ⟨rfl, rfl⟩
    · exact Or.inl ⟨rfl, rfl⟩

theorem DE.candidates1_bestAny [LinearOrder E] {S : Obj X E → Prop} {o : Obj X E} (h : Hyp o) (ho : S o) :
    ∀ (ts : List X) (i : Nat) (s : DE X E), GoodAny S o.top s.log s.best s.bestE →
      GoodAny S o.top (DE.candidates1 o ts i s).log (DE.candidates1 o ts i s).best (DE.candidates1 o ts i s).bestE := by
  intro ts
  induction ts with
  | nil => intro i s hs; exact hs
  | cons t ts ih =>
    intro i s hs
    unfold DE.candidates1
    apply ih
    rw [DE.select_log]
    simp only
    rcases DE.select_best_cases { s with log := (o.objAt (o.K t) s.log).2 } i (o.K t) (o.objAt (o.K t) s.log).1 with hc | hc
    · rw [hc.1, hc.2]
      exact hs.mono (objAt_log_sub o _ _)
    · rw [hc.1, hc.2]
      exact (objAt_good h t s.log).toAny ho

theorem DE.genStep_bestAny [LinearOrder E] {S : Obj X E → Prop} (g : DEGen X E) (h : Hyp g.o) (ho : S g.o)
    (s : DE X E) (hs : GoodAny S g.o.top s.log s.best s.bestE) :
    GoodAny S g.o.top (DE.genStep g s).log (DE.genStep g s).best (DE.genStep g s).bestE := by
  have key : ∀ s0 : DE X E, GoodAny S g.o.top s0.log s0.best s0.bestE →
      GoodAny S g.o.top (DE.step1 g.o g.trials s0).log (DE.step1 g.o g.trials s0).best (DE.step1 g.o g.trials s0).bestE := by
    intro s0 h0
    unfold DE.step1
    exact DE.candidates1_bestAny h ho g.trials 0 s0 h0
  unfold DE.genStep
  split
  · rw [DE.step2_eq_step1]; exact key _ hs
  · exact key _ hs

end MysticVerif.Solver
