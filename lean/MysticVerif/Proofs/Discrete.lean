/- helper lemmas for Props/C19: the structural part (flatten / nestedSplit / compose / load / update), core Lean only -/
import MysticVerif.Model.Discrete

namespace MysticVerif.Discrete

variable {α : Type}

@[simp] theorem length_mweights (m : Measure α) : (mweights m).length = m.length := by simp [mweights]
@[simp] theorem length_mpositions (m : Measure α) : (mpositions m).length = m.length := by simp [mpositions]

/-! ### `_nested` / `_flat` -/

theorem nested_flat_aux (p : List (List α)) (rest : List α) :
    nested (flat p ++ rest) (p.map List.length) = p := by
  induction p with
  | nil => simp [nested]
  | cons r p ih =>
    simp only [flat, List.flatten_cons, List.map_cons, nested, List.append_assoc] at *
    rw [List.take_left' rfl, List.drop_left' rfl, ih]

theorem flat_nested_take (params : List α) (npts : List Nat) :
    flat (nested params npts) = params.take npts.sum := by
  induction npts generalizing params with
  | nil => simp [nested, flat]
  | cons n ns ih =>
    have := ih (params.drop n)
    simp only [flat] at this
    simp only [nested, flat, List.flatten_cons, List.sum_cons, this]
    rw [List.take_add]

/-! ### `flatten` / `_nested_split` -/

theorem length_flatten (c : PM α) : (flatten c).length = 2 * (pts c).sum := by
  induction c with
  | nil => simp [flatten, pts]
  | cons m c ih =>
    simp only [flatten, pts, List.flatMap_cons, List.length_append, List.map_cons, List.sum_cons,
      length_mweights, length_mpositions] at *
    omega

theorem nestedSplit_flatten (c : PM α) (rest : List α) :
    nestedSplit (flatten c ++ rest) (pts c) = (wts c, pos c) := by
  induction c with
  | nil => simp [nestedSplit, pts, wts, pos]
  | cons m c ih =>
    have h1 : flatten (m :: c) ++ rest = mweights m ++ (mpositions m ++ (flatten c ++ rest)) := by
      simp [flatten, List.append_assoc]
    have hw : (mweights m).length = m.length := length_mweights m
    have hp : (mpositions m).length = m.length := length_mpositions m
    have e1 : (mweights m ++ (mpositions m ++ (flatten c ++ rest))).take m.length = mweights m :=
      List.take_left' hw
    have e2 : (mweights m ++ (mpositions m ++ (flatten c ++ rest))).drop m.length
        = mpositions m ++ (flatten c ++ rest) := List.drop_left' hw
    have e3 : (mweights m ++ (mpositions m ++ (flatten c ++ rest))).drop (m.length + m.length)
        = flatten c ++ rest := by
      rw [← List.drop_drop, e2, List.drop_left' hp]
    rw [h1]
    simp only [pts, List.map_cons, nestedSplit, e1, e2, e3, List.take_left' hp]
    have := ih
    simp only [pts] at this
    rw [this]
    simp [wts, pos]

/-! ### `_list_of_measures` -/

theorem zipMeasure_self (m : Measure α) : zipMeasure (mpositions m) (mweights m) = some m := by
  induction m with
  | nil => simp [zipMeasure, mpositions]
  | cons a m ih =>
    simp only [mpositions, mweights, List.map_cons, zipMeasure] at *
    rw [ih]; rfl

theorem listOfMeasures_self (c : PM α) : listOfMeasures (pos c) (wts c) = some c := by
  induction c with
  | nil => simp [listOfMeasures, pos]
  | cons m c ih =>
    simp only [pos, wts, List.map_cons, listOfMeasures] at *
    rw [zipMeasure_self, ih]

/-- a sample list with enough weights zips; the measure carries exactly those samples and weights -/
theorem zipMeasure_of_le (xs ws : List α) (h : xs.length ≤ ws.length) :
    ∃ m, zipMeasure xs ws = some m ∧ mpositions m = xs ∧ mweights m = ws.take xs.length ∧
      m.length = xs.length := by
  induction xs generalizing ws with
  | nil => exact ⟨[], by simp [zipMeasure, mpositions, mweights]⟩
  | cons x xs ih =>
    cases ws with
    | nil => simp at h
    | cons w ws =>
      obtain ⟨m, h1, h2, h3, h4⟩ := ih ws (by simpa using h)
      refine ⟨⟨w, x⟩ :: m, ?_, ?_, ?_, ?_⟩
      · simp [zipMeasure, h1]
      · simp [mpositions] at h2 ⊢; exact h2
      · simp [mweights] at h3 ⊢; exact h3
      · simp [h4]

theorem zipMeasure_some {xs ws : List α} {m : Measure α} (h : zipMeasure xs ws = some m) :
    mpositions m = xs ∧ mweights m = ws.take xs.length := by
  induction xs generalizing ws m with
  | nil => simp [zipMeasure] at h; subst h; simp [mpositions, mweights]
  | cons x xs ih =>
    cases ws with
    | nil => simp [zipMeasure] at h
    | cons w ws =>
      simp only [zipMeasure, Option.map_eq_some_iff] at h
      obtain ⟨m', hm', rfl⟩ := h
      obtain ⟨h2, h3⟩ := ih hm'
      constructor
      · simp [mpositions] at h2 ⊢; exact h2
      · simp [mweights] at h3 ⊢; exact h3

theorem listOfMeasures_some {x w : List (List α)} {c : PM α} (h : listOfMeasures x w = some c) :
    pos c = x := by
  induction x generalizing w c with
  | nil => simp [listOfMeasures] at h; subst h; rfl
  | cons s ss ih =>
    cases w with
    | nil => simp [listOfMeasures] at h
    | cons w0 ws =>
      simp only [listOfMeasures] at h
      split at h
      · rename_i m r hm hr
        simp only [Option.some.injEq] at h
        subst h
        simp only [pos, List.map_cons, (zipMeasure_some hm).1]
        have := ih hr
        simp only [pos] at this
        rw [this]
      · simp at h

theorem listOfMeasures_some_wts {x w : List (List α)} {c : PM α} (h : listOfMeasures x w = some c)
    (hl : x.map List.length = w.map List.length) : wts c = w := by
  induction x generalizing w c with
  | nil =>
    simp [listOfMeasures] at h; subst h
    cases w with
    | nil => rfl
    | cons _ _ => simp at hl
  | cons s ss ih =>
    cases w with
    | nil => simp [listOfMeasures] at h
    | cons w0 ws =>
      simp only [listOfMeasures] at h
      simp only [List.map_cons, List.cons.injEq] at hl
      split at h
      · rename_i m r hm hr
        simp only [Option.some.injEq] at h
        subst h
        have h3 := (zipMeasure_some hm).2
        rw [hl.1, List.take_length] at h3
        simp only [wts, List.map_cons, h3]
        have := ih hr hl.2
        simp only [wts] at this
        rw [this]
      · simp at h

/-- parameters of exactly the right length unflatten to a measure of that shape carrying those numbers -/
theorem unflatten_of_length (p : List α) (ns : List Nat) (h : p.length = 2 * ns.sum) :
    ∃ c, unflatten p ns = some c ∧ pts c = ns ∧ flatten c = p := by
  induction ns generalizing p with
  | nil =>
    refine ⟨[], ?_, rfl, ?_⟩
    · simp [unflatten, nestedSplit, compose, listOfMeasures]
    · simp at h; simp [flatten, h]
  | cons n ns ih =>
    simp only [List.sum_cons] at h
    obtain ⟨c, hc1, hc2, hc3⟩ := ih (p.drop (n + n)) (by simp [h]; omega)
    obtain ⟨m, hm1, hm2, hm3, hm4⟩ := zipMeasure_of_le ((p.drop n).take n) (p.take n)
      (by simp; omega)
    have hlen : ((p.drop n).take n).length = n := by simp; omega
    refine ⟨m :: c, ?_, ?_, ?_⟩
    · simp only [unflatten, nestedSplit, compose, listOfMeasures] at hc1 ⊢
      rw [hm1, hc1]
    · simp [pts, hm4, hlen]; simpa [pts] using hc2
    · simp only [flatten, List.flatMap_cons] at hc3 ⊢
      rw [hc3, hm2, hm3, hlen, List.take_take, Nat.min_self]
      have e : List.take n p ++ List.take n (List.drop n p) = p.take (n + n) := by
        rw [List.take_add]
      rw [e, List.take_append_drop]

theorem truncParams_length (params : List α) (ns : List Nat) (h : 2 * ns.sum ≤ params.length) :
    truncParams params ns = params.take (2 * ns.sum) ∧ (truncParams params ns).length = 2 * ns.sum := by
  unfold truncParams
  split
  · simp; omega
  · have : params.length = 2 * ns.sum := by omega
    constructor
    · rw [← this, List.take_length]
    · exact this

theorem truncParams_flatten (c : PM α) (extra : List α) :
    truncParams (flatten c ++ extra) (pts c) = flatten c := by
  unfold truncParams
  split
  · exact List.take_left' (length_flatten c)
  · rename_i h
    have hl := length_flatten c
    simp only [List.length_append] at h
    have : extra = [] := List.eq_nil_of_length_eq_zero (by omega)
    simp [this]

theorem extraParams_flatten (c : PM α) (extra : List α) :
    extraParams (flatten c ++ extra) (pts c) = extra := by
  unfold extraParams
  have hl := length_flatten c
  split
  · exact List.drop_left' hl
  · rename_i h
    simp only [List.length_append] at h
    exact (List.eq_nil_of_length_eq_zero (by omega)).symm

theorem countP_isEmpty_zero (c : PM α) (h : ∀ m ∈ c, m ≠ []) : c.countP List.isEmpty = 0 := by
  rw [List.countP_eq_zero]
  intro m hm
  simpa using h m hm

end MysticVerif.Discrete
