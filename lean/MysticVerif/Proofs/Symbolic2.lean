/-
Helper lemmas for the second layer of C12 (Model/Symbolic2.lean) over an arbitrary linearly ordered field.
-/
import MysticVerif.Model.Symbolic2
import MysticVerif.Proofs.Symbolic

namespace MysticVerif.Sym

set_option linter.unusedSectionVars false

variable {K : Type} [Field K] [LinearOrder K] [IsStrictOrderedRing K]

/-! ### absolute values -/

theorem absK_of_nonneg {a : K} (h : 0 ≤ a) : absK a = a := by
  simp [absK, not_lt.mpr h]

theorem absK_of_nonpos {a : K} (h : a ≤ 0) : absK a = -a := by
  unfold absK
  split
  · rfl
  · rename_i hn
    have : a = 0 := le_antisymm h (not_lt.mp hn)
    simp [this]

theorem absK_eq_abs (a : K) : absK a = |a| := by
  rcases le_total 0 a with h | h
  · rw [absK_of_nonneg h, abs_of_nonneg h]
  · rw [absK_of_nonpos h, abs_of_nonpos h]

theorem Item.satPlus_zero (it : Item K) (x : Nat → K) : it.satPlus 0 x ↔ it.sat x := by
  cases it <;> simp [Item.satPlus, Item.sat, Line.sat]

theorem Item.addL_satPlus (it : Item K) (f : Form K) (d : K) (x : Nat → K) :
    (it.addL f).satPlus d x ↔ it.satPlus (f.eval x + d) x := by
  cases it <;> simp [Item.satPlus, Item.addL, Form.eval_add, add_assoc]

theorem absExpand_sound (ts : List (K × Form K)) (it : Item K) (x : Nat → K) :
    it.satPlus (absSum ts x) x ↔ ∃ p ∈ absExpand ts it, (∀ ln ∈ p.1, ln.sat x) ∧ p.2.sat x := by
  induction ts generalizing it with
  | nil => simp [absExpand, absSum, Item.satPlus_zero]
  | cons t ts ih =>
    simp only [absExpand, absSum, List.mem_append, List.mem_map]
    constructor
    · intro h
      rcases le_total 0 (t.2.eval x) with hs | hs
      · rw [absK_of_nonneg hs] at h
        have h2 : (it.addL (t.2.smul t.1)).satPlus (absSum ts x) x := by
          rw [Item.addL_satPlus, Form.eval_smul]; exact h
        obtain ⟨p, hp, hc, hi⟩ := (ih _).mp h2
        refine ⟨(_ :: p.1, p.2), Or.inl ⟨p, hp, rfl⟩, ?_, hi⟩
        intro ln hln
        rcases List.mem_cons.mp hln with rfl | hl
        · simpa [Line.sat, Cmp.holds, Form.eval_zero] using hs
        · exact hc ln hl
      · rw [absK_of_nonpos hs] at h
        have h2 : (it.addL (t.2.smul (-t.1))).satPlus (absSum ts x) x := by
          rw [Item.addL_satPlus, Form.eval_smul]
          have e : -t.1 * t.2.eval x = t.1 * -(t.2.eval x) := by ring
          rw [e]; exact h
        obtain ⟨p, hp, hc, hi⟩ := (ih _).mp h2
        refine ⟨(_ :: p.1, p.2), Or.inr ⟨p, hp, rfl⟩, ?_, hi⟩
        intro ln hln
        rcases List.mem_cons.mp hln with rfl | hl
        · simpa [Line.sat, Cmp.holds, Form.eval_zero] using hs
        · exact hc ln hl
    · rintro ⟨p, (⟨q, hq, rfl⟩ | ⟨q, hq, rfl⟩), hc, hi⟩
      · have hs : 0 ≤ t.2.eval x := by
          have := hc _ (List.mem_cons_self)
          simpa [Line.sat, Cmp.holds, Form.eval_zero] using this
        have := (ih _).mpr ⟨q, hq, fun ln hl => hc ln (List.mem_cons_of_mem _ hl), hi⟩
        rw [Item.addL_satPlus, Form.eval_smul] at this
        rw [absK_of_nonneg hs]; exact this
      · have hs : t.2.eval x ≤ 0 := by
          have := hc _ (List.mem_cons_self)
          simpa [Line.sat, Cmp.holds, Form.eval_zero] using this
        have := (ih _).mpr ⟨q, hq, fun ln hl => hc ln (List.mem_cons_of_mem _ hl), hi⟩
        rw [Item.addL_satPlus, Form.eval_smul] at this
        have e : -t.1 * t.2.eval x = t.1 * -(t.2.eval x) := by ring
        rw [e] at this
        rw [absK_of_nonpos hs]; exact this

/-! ### product divisors -/

theorem dot_single (a : K) (i k : Nat) (x : Nat → K) : dot (List.replicate i (0 : K) ++ [a]) x k = a * x (k + i) := by
  induction i generalizing k with
  | zero => simp [dot]
  | succ i ih =>
    simp only [List.replicate_succ, List.cons_append, dot, ih]
    rw [show k + 1 + i = k + (i + 1) by omega]; ring

theorem affine1_eval (a b : K) (i : Nat) (x : Nat → K) : (affine1 a b i).eval x = a * x i + b := by
  simp [affine1, Form.eval, dot_single]

theorem prodForm_eval (a b : K) (i : Nat) (c d : K) (j m : Nat) (x : Nat → K) (h : x m = x i * x j) :
    (prodForm a b i c d j m).eval x = (a * x i + b) * (c * x j + d) := by
  simp only [prodForm, Form.eval_add, affine1_eval, h]
  ring

/-- the four sign combinations of a product of two factors -/
theorem Cmp.signcase2 (c : Cmp) (p q1 q2 r : K) (h : q1 * q2 ≠ 0) :
    c.holds (p / (q1 * q2)) r ↔
      (0 < q1 ∧ 0 < q2 ∧ c.holds p (r * (q1 * q2))) ∨ (0 < q1 ∧ q2 < 0 ∧ c.flip.holds p (r * (q1 * q2))) ∨
      (q1 < 0 ∧ 0 < q2 ∧ c.flip.holds p (r * (q1 * q2))) ∨ (q1 < 0 ∧ q2 < 0 ∧ c.holds p (r * (q1 * q2))) := by
  rw [Cmp.signcase c p (q1 * q2) r h]
  have h1 : q1 ≠ 0 := left_ne_zero_of_mul h
  have h2 : q2 ≠ 0 := right_ne_zero_of_mul h
  rcases lt_or_gt_of_ne h1 with a | a <;> rcases lt_or_gt_of_ne h2 with b | b
  · have hp : 0 < q1 * q2 := mul_pos_of_neg_of_neg a b
    simp [hp, a, b, not_lt.mpr (le_of_lt a), not_lt.mpr (le_of_lt b), not_lt.mpr (le_of_lt hp)]
  · have hp : q1 * q2 < 0 := mul_neg_of_neg_of_pos a b
    simp [hp, a, b, not_lt.mpr (le_of_lt a), not_lt.mpr (le_of_lt b), not_lt.mpr (le_of_lt hp)]
  · have hp : q1 * q2 < 0 := mul_neg_of_pos_of_neg a b
    simp [hp, a, b, not_lt.mpr (le_of_lt a), not_lt.mpr (le_of_lt b), not_lt.mpr (le_of_lt hp)]
  · have hp : 0 < q1 * q2 := mul_pos a b
    simp [hp, a, b, not_lt.mpr (le_of_lt a), not_lt.mpr (le_of_lt b), not_lt.mpr (le_of_lt hp)]

theorem expandXItem_sound (it : XItem K) (x : Nat → K) (hy : it.hyp x) :
    it.sat x ↔ ∃ s ∈ expandXItem it, ∀ ln ∈ s, ln.sat x := by
  cases it with
  | absl ts it =>
    simp only [XItem.sat, expandXItem, List.mem_flatMap, List.mem_map]
    rw [absExpand_sound]
    constructor
    · rintro ⟨p, hp, hc, hi⟩
      obtain ⟨s, hs, hss⟩ := (expandItem_sound p.2 x).mp hi
      refine ⟨p.1 ++ s, ⟨p, hp, s, hs, rfl⟩, ?_⟩
      intro ln hln
      rcases List.mem_append.mp hln with h | h
      · exact hc ln h
      · exact hss ln h
    · rintro ⟨t, ⟨p, hp, s, hs, rfl⟩, ht⟩
      exact ⟨p, hp, fun ln h => ht ln (List.mem_append.mpr (Or.inl h)),
        (expandItem_sound p.2 x).mpr ⟨s, hs, fun ln h => ht ln (List.mem_append.mpr (Or.inr h))⟩⟩
  | rat2 p a b i c d j m cmp r =>
    simp only [XItem.hyp] at hy
    have hQ := prodForm_eval a b i c d j m x hy
    simp only [XItem.sat, expandXItem]
    split
    · rename_i hc
      simp only [exists_eq_left, List.mem_cons, List.mem_nil_iff, or_false,
        forall_eq_or_imp, forall_eq, Line.sat, Form.eval_zero, Form.eval_smul, affine1_eval, hQ]
      constructor
      · rintro ⟨hq, hh⟩
        exact ⟨left_ne_zero_of_mul hq, right_ne_zero_of_mul hq, (Cmp.eqcase cmp hc _ _ _ hq).mp hh⟩
      · rintro ⟨h1, h2, hh⟩
        have h1' : a * x i + b ≠ 0 := h1
        have h2' : c * x j + d ≠ 0 := h2
        have hq := mul_ne_zero h1' h2'
        exact ⟨hq, (Cmp.eqcase cmp hc _ _ _ hq).mpr hh⟩
    · simp only [List.mem_cons, List.mem_nil_iff, or_false, exists_eq_or_imp, exists_eq_left,
        forall_eq_or_imp, forall_eq, Line.sat, Form.eval_zero, Form.eval_smul, affine1_eval, hQ]
      constructor
      · rintro ⟨hq, hh⟩
        have := (Cmp.signcase2 cmp _ _ _ _ hq).mp hh
        simpa only [Cmp.holds] using this
      · intro h
        have h' : (0 < a * x i + b ∧ 0 < c * x j + d ∧ cmp.holds (p.eval x) (r * ((a * x i + b) * (c * x j + d)))) ∨
            (0 < a * x i + b ∧ c * x j + d < 0 ∧ cmp.flip.holds (p.eval x) (r * ((a * x i + b) * (c * x j + d)))) ∨
            (a * x i + b < 0 ∧ 0 < c * x j + d ∧ cmp.flip.holds (p.eval x) (r * ((a * x i + b) * (c * x j + d)))) ∨
            (a * x i + b < 0 ∧ c * x j + d < 0 ∧ cmp.holds (p.eval x) (r * ((a * x i + b) * (c * x j + d)))) := by
          simpa only [Cmp.holds] using h
        have hq : (a * x i + b) * (c * x j + d) ≠ 0 := by
          rcases h' with ⟨u, v, _⟩ | ⟨u, v, _⟩ | ⟨u, v, _⟩ | ⟨u, v, _⟩
          · exact mul_ne_zero (ne_of_gt u) (ne_of_gt v)
          · exact mul_ne_zero (ne_of_gt u) (ne_of_lt v)
          · exact mul_ne_zero (ne_of_lt u) (ne_of_gt v)
          · exact mul_ne_zero (ne_of_lt u) (ne_of_lt v)
        exact ⟨hq, (Cmp.signcase2 cmp _ _ _ _ hq).mpr h'⟩

theorem expandX_sound (items : List (XItem K)) (x : Nat → K) (hy : ∀ it ∈ items, it.hyp x) :
    (∀ it ∈ items, it.sat x) ↔ ∃ s ∈ expandX items, ∀ ln ∈ s, ln.sat x := by
  induction items with
  | nil => simp [expandX]
  | cons it rest ih =>
    have hy1 := hy it (List.mem_cons_self)
    have hy2 : ∀ it ∈ rest, it.hyp x := fun i hi => hy i (List.mem_cons_of_mem _ hi)
    simp only [List.mem_cons, forall_eq_or_imp, expandX, List.mem_flatMap, List.mem_map]
    rw [ih hy2, expandXItem_sound it x hy1]
    constructor
    · rintro ⟨⟨a, ha, hsa⟩, ⟨s, hs, hss⟩⟩
      refine ⟨a ++ s, ⟨a, ha, s, hs, rfl⟩, ?_⟩
      intro ln hln
      rcases List.mem_append.mp hln with h | h
      · exact hsa ln h
      · exact hss ln h
    · rintro ⟨t, ⟨a, ha, s, hs, rfl⟩, ht⟩
      exact ⟨⟨a, ha, fun ln h => ht ln (List.mem_append.mpr (Or.inl h))⟩,
             ⟨s, hs, fun ln h => ht ln (List.mem_append.mpr (Or.inr h))⟩⟩

end MysticVerif.Sym
