/- helper lemmas for Props/C19: the deterministic statistics of Model/DiscreteExt over a linearly ordered field
   (maximum / minimum / ptp / ess_*, pof_value, mean_value, product-level center_mass, normalize) -/
import MysticVerif.Model.DiscreteExt
import MysticVerif.Proofs.DiscreteImpose

set_option linter.unusedSectionVars false
set_option linter.unusedSimpArgs false
set_option linter.unusedVariables false

namespace MysticVerif.Discrete

variable {K : Type} [Field K] [LinearOrder K] [IsStrictOrderedRing K]

/-! ### python `max` / `min` of a list -/

theorem foldl_max_spec (l : List K) (a : K) :
    (l.foldl (fun m x => if m < x then x else m) a = a ∨ l.foldl (fun m x => if m < x then x else m) a ∈ l) ∧
    ∀ x ∈ l, x ≤ l.foldl (fun m x => if m < x then x else m) a := by
  induction l generalizing a with
  | nil => simp
  | cons y l ih =>
    simp only [List.foldl_cons]
    obtain ⟨h1, h2⟩ := ih (if a < y then y else a)
    have hle := le_foldl_max l (if a < y then y else a)
    refine ⟨?_, ?_⟩
    · rcases h1 with h | h
      · rw [h]
        split
        · right; exact List.mem_cons_self
        · left; rfl
      · right; exact List.mem_cons_of_mem _ h
    · intro x hx
      rcases List.mem_cons.mp hx with rfl | hx
      · refine le_trans ?_ hle
        split
        · exact le_refl _
        · rename_i h; exact not_lt.mp h
      · exact h2 x hx

theorem foldl_min_spec (l : List K) (a : K) :
    (l.foldl (fun m x => if x < m then x else m) a = a ∨ l.foldl (fun m x => if x < m then x else m) a ∈ l) ∧
    ∀ x ∈ l, l.foldl (fun m x => if x < m then x else m) a ≤ x := by
  induction l generalizing a with
  | nil => simp
  | cons y l ih =>
    simp only [List.foldl_cons]
    obtain ⟨h1, h2⟩ := ih (if y < a then y else a)
    have hle := foldl_min_le l (if y < a then y else a)
    refine ⟨?_, ?_⟩
    · rcases h1 with h | h
      · rw [h]
        split
        · right; exact List.mem_cons_self
        · left; rfl
      · right; exact List.mem_cons_of_mem _ h
    · intro x hx
      rcases List.mem_cons.mp hx with rfl | hx
      · refine le_trans hle ?_
        split
        · exact le_refl _
        · rename_i h; exact not_lt.mp h
      · exact h2 x hx

/-- `max(l)` returns exactly for non-empty `l`, and then the greatest entry -/
theorem maxL_spec (l : List K) : (maxL l = none ↔ l = []) ∧
    ∀ v, maxL l = some v → v ∈ l ∧ ∀ x ∈ l, x ≤ v := by
  cases l with
  | nil => simp [maxL]
  | cons a l =>
    refine ⟨by simp [maxL], ?_⟩
    intro v hv
    simp only [maxL, Option.some.injEq] at hv
    obtain ⟨h1, h2⟩ := foldl_max_spec l a
    have hle := le_foldl_max l a
    rw [hv] at h1 h2 hle
    refine ⟨?_, ?_⟩
    · rcases h1 with h | h
      · rw [h]; exact List.mem_cons_self
      · exact List.mem_cons_of_mem _ h
    · intro x hx
      rcases List.mem_cons.mp hx with rfl | hx
      · exact hle
      · exact h2 x hx

theorem minL_spec (l : List K) : (minL l = none ↔ l = []) ∧
    ∀ v, minL l = some v → v ∈ l ∧ ∀ x ∈ l, v ≤ x := by
  cases l with
  | nil => simp [minL]
  | cons a l =>
    refine ⟨by simp [minL], ?_⟩
    intro v hv
    simp only [minL, Option.some.injEq] at hv
    obtain ⟨h1, h2⟩ := foldl_min_spec l a
    have hle := foldl_min_le l a
    rw [hv] at h1 h2 hle
    refine ⟨?_, ?_⟩
    · rcases h1 with h | h
      · rw [h]; exact List.mem_cons_self
      · exact List.mem_cons_of_mem _ h
    · intro x hx
      rcases List.mem_cons.mp hx with rfl | hx
      · exact hle
      · exact h2 x hx

/-! ### `maximum(f, samples)` / `minimum` / `ptp` -/

theorem maximumL_spec {β : Type} (f : β → K) (P : List β) : (maximumL f P = none ↔ P = []) ∧
    ∀ v, maximumL f P = some v → (∃ x ∈ P, f x = v) ∧ ∀ x ∈ P, f x ≤ v := by
  obtain ⟨h1, h2⟩ := maxL_spec (P.map f)
  refine ⟨by simpa [maximumL] using h1, ?_⟩
  intro v hv
  obtain ⟨h3, h4⟩ := h2 v hv
  exact ⟨by simpa using h3, fun x hx => h4 _ (List.mem_map_of_mem hx)⟩

theorem minimumL_spec {β : Type} (f : β → K) (P : List β) : (minimumL f P = none ↔ P = []) ∧
    ∀ v, minimumL f P = some v → (∃ x ∈ P, f x = v) ∧ ∀ x ∈ P, v ≤ f x := by
  obtain ⟨h1, h2⟩ := minL_spec (P.map f)
  refine ⟨by simpa [minimumL] using h1, ?_⟩
  intro v hv
  obtain ⟨h3, h4⟩ := h2 v hv
  exact ⟨by simpa using h3, fun x hx => h4 _ (List.mem_map_of_mem hx)⟩

theorem ptpL_eq {β : Type} (f : β → K) (P : List β) :
    ptpL f P = match maximumL f P, minimumL f P with
      | some a, some b => some (a - b)
      | _, _ => none := rfl

/-! ### list comprehensions that may raise -/

theorem allSome_eq_some {β : Type} (l : List (Option β)) (r : List β) :
    allSome l = some r ↔ l = r.map some := by
  induction l generalizing r with
  | nil => cases r <;> simp [allSome]
  | cons a l ih =>
    cases a with
    | none => cases r <;> simp [allSome]
    | some a =>
      cases r with
      | nil => simp [allSome]
      | cons b r => simp [allSome, ih, and_comm]

theorem allSome_eq_none {β : Type} (l : List (Option β)) : allSome l = none ↔ none ∈ l := by
  induction l with
  | nil => simp [allSome]
  | cons a l ih =>
    cases a with
    | none => simp [allSome]
    | some a => simp [allSome, ih]

/-! ### pof over values -/

theorem pofG_eq {β : Type} (f : β → K) (P : List β) (ws : List K) :
    pofG f P ws = (((List.zip P ws).filter fun xw => decide (f xw.1 ≤ 0)).map (·.2)).sum := by
  unfold pofG
  have : ∀ (L : List (β × K)) (a : K), L.foldl (fun u xw => if f xw.1 ≤ 0 then u + xw.2 else u) a
      = a + ((L.filter fun xw => decide (f xw.1 ≤ 0)).map (·.2)).sum := by
    intro L
    induction L with
    | nil => simp
    | cons x L ih =>
      intro a
      simp only [List.foldl_cons, List.filter_cons, decide_eq_true_eq]
      split
      · simp only [ih, List.map_cons, List.sum_cons]; ring
      · simp only [ih]
  rw [this]; simp

/-! ### product-level `center_mass` setter -/

theorem pmSetCenterMass_spec (inf : K) (c : PM K) (vs : List K) (hlen : c.length ≤ vs.length)
    (hw : ∀ m ∈ c, (mweights m).sum ≠ 0) :
    ∃ c', pmSetCenterMass inf c vs = some c' ∧ pmCenterMass inf c' = vs.take c.length ∧ wts c' = wts c := by
  induction c generalizing vs with
  | nil => exact ⟨[], by simp [pmSetCenterMass, pmCenterMass, wts]⟩
  | cons m c ih =>
    cases vs with
    | nil => simp at hlen
    | cons v vs =>
      simp only [List.length_cons, Nat.add_le_add_iff_right] at hlen
      obtain ⟨c', h1, h2, h3⟩ := ih vs hlen (fun m' hm' => hw m' (List.mem_cons_of_mem _ hm'))
      obtain ⟨s1, s2⟩ := setCenterMass_spec inf m v (hw m List.mem_cons_self)
      refine ⟨setCenterMass inf m v :: c', by simp [pmSetCenterMass, h1], ?_, ?_⟩
      · simp only [pmCenterMass, List.map_cons, List.length_cons, List.take_succ_cons] at h2 ⊢
        rw [s1, h2]
      · simp only [wts, List.map_cons] at h3 ⊢
        rw [s2, h3]

theorem pmSetCenterMass_short (inf : K) (c : PM K) (vs : List K) (hlen : vs.length < c.length) :
    pmSetCenterMass inf c vs = none := by
  induction c generalizing vs with
  | nil => simp at hlen
  | cons m c ih =>
    cases vs with
    | nil => simp [pmSetCenterMass]
    | cons v vs =>
      simp only [List.length_cons, Nat.add_lt_add_iff_right] at hlen
      simp [pmSetCenterMass, ih vs hlen]

/-! ### `measure.normalize()` -/

theorem mNormalize_spec (inf : K) (m : Measure K) (hnn : ∀ w ∈ mweights m, 0 ≤ w) (hpos : 0 < (mweights m).sum) :
    (mNormalize inf m).length = m.length ∧ (mweights (mNormalize inf m)).sum = 1 ∧
    centerMass inf (mNormalize inf m) = centerMass inf m := by
  obtain ⟨h1, _⟩ := normalizeMass_sum 1 (mweights m) hnn hpos
  have hl : (imposeMean inf (mean inf (mpositions m) (mweights m)) (mpositions m) (normalizeMass 1 (mweights m))).length
      = (normalizeMass 1 (mweights m)).length := by
    rw [imposeMean_length, normalizeMass_length]; simp
  unfold mNormalize centerMass
  simp only
  rw [mweights_rebuild _ _ hl, mpositions_rebuild _ _ hl, length_rebuild _ _ hl, imposeMean_length]
  refine ⟨by simp, h1, ?_⟩
  exact mean_imposeMean inf _ _ _ (by rw [normalizeMass_length]; simp) (by rw [h1]; exact one_ne_zero)

/-! ### `max([g(m) for m in c])` / `min(...)` where `g` may raise -/

theorem bind_allSome_maxL {β : Type} (g : β → Option K) (c : List β) :
    ((allSome (c.map g)).bind maxL = none ↔ c = [] ∨ ∃ m ∈ c, g m = none) ∧
    ∀ v, (allSome (c.map g)).bind maxL = some v →
      (∃ m ∈ c, g m = some v) ∧ ∀ m ∈ c, ∀ y, g m = some y → y ≤ v := by
  cases hr : allSome (c.map g) with
  | none =>
    have := (allSome_eq_none _).mp hr
    simp only [List.mem_map] at this
    obtain ⟨m, hm, hg⟩ := this
    exact ⟨by simp; right; exact ⟨m, hm, hg⟩, by simp⟩
  | some r =>
    have hmap := (allSome_eq_some _ _).mp hr
    have hlen : c.length = r.length := by simpa using congrArg List.length hmap
    have hnone : ¬ ∃ m ∈ c, g m = none := by
      rintro ⟨m, hm, hg⟩
      have : none ∈ c.map g := List.mem_map.mpr ⟨m, hm, hg⟩
      rw [hmap] at this
      simp at this
    obtain ⟨m1, m2⟩ := maxL_spec r
    simp only [Option.bind_some]
    constructor
    · rw [m1]
      constructor
      · intro h; left; rw [h] at hlen; exact List.eq_nil_of_length_eq_zero hlen
      · rintro (h | h)
        · rw [h] at hlen; exact List.eq_nil_of_length_eq_zero hlen.symm
        · exact absurd h hnone
    · intro v hv
      obtain ⟨h3, h4⟩ := m2 v hv
      constructor
      · have : some v ∈ r.map some := List.mem_map_of_mem h3
        rw [← hmap] at this
        obtain ⟨m, hm, hg⟩ := List.mem_map.mp this
        exact ⟨m, hm, hg⟩
      · intro m hm y hy
        have : some y ∈ c.map g := List.mem_map.mpr ⟨m, hm, hy⟩
        rw [hmap] at this
        obtain ⟨y', hy', he⟩ := List.mem_map.mp this
        rw [← Option.some.inj he]; exact h4 y' hy'

theorem bind_allSome_minL {β : Type} (g : β → Option K) (c : List β) :
    ((allSome (c.map g)).bind minL = none ↔ c = [] ∨ ∃ m ∈ c, g m = none) ∧
    ∀ v, (allSome (c.map g)).bind minL = some v →
      (∃ m ∈ c, g m = some v) ∧ ∀ m ∈ c, ∀ y, g m = some y → v ≤ y := by
  cases hr : allSome (c.map g) with
  | none =>
    have := (allSome_eq_none _).mp hr
    simp only [List.mem_map] at this
    obtain ⟨m, hm, hg⟩ := this
    exact ⟨by simp; right; exact ⟨m, hm, hg⟩, by simp⟩
  | some r =>
    have hmap := (allSome_eq_some _ _).mp hr
    have hlen : c.length = r.length := by simpa using congrArg List.length hmap
    have hnone : ¬ ∃ m ∈ c, g m = none := by
      rintro ⟨m, hm, hg⟩
      have : none ∈ c.map g := List.mem_map.mpr ⟨m, hm, hg⟩
      rw [hmap] at this
      simp at this
    obtain ⟨m1, m2⟩ := minL_spec r
    simp only [Option.bind_some]
    constructor
    · rw [m1]
      constructor
      · intro h; left; rw [h] at hlen; exact List.eq_nil_of_length_eq_zero hlen
      · rintro (h | h)
        · rw [h] at hlen; exact List.eq_nil_of_length_eq_zero hlen.symm
        · exact absurd h hnone
    · intro v hv
      obtain ⟨h3, h4⟩ := m2 v hv
      constructor
      · have : some v ∈ r.map some := List.mem_map_of_mem h3
        rw [← hmap] at this
        obtain ⟨m, hm, hg⟩ := List.mem_map.mp this
        exact ⟨m, hm, hg⟩
      · intro m hm y hy
        have : some y ∈ c.map g := List.mem_map.mpr ⟨m, hm, hy⟩
        rw [hmap] at this
        obtain ⟨y', hy', he⟩ := List.mem_map.mp this
        rw [← Option.some.inj he]; exact h4 y' hy'

/-! ### one measure -/

theorem zip_singles (m : Measure K) :
    List.zip (singles m) (mweights m) = m.map fun p => ([p.position], p.weight) := by
  unfold singles mpositions mweights
  rw [List.map_map]
  induction m with
  | nil => rfl
  | cons a m ih => simp [ih]

/-- the supported points of a measure, as 1-tuples -/
def supp1 (m : Measure K) (tol : K) : List (List K) :=
  (m.filter fun p => decide (tol < p.weight)).map fun p => [p.position]

theorem support_singles (m : Measure K) (tol : K) :
    supportL (singles m) (mweights m) tol = some (supp1 m tol) := by
  rw [supportL_eq _ _ _ (by simp [singles]), zip_singles]
  congr 1
  unfold supp1
  induction m with
  | nil => rfl
  | cons a m ih =>
    simp only [List.map_cons, List.filter_cons]
    split
    · simp only [List.map_cons, List.cons.injEq, true_and]; exact ih
    · exact ih

theorem mem_supp1 (m : Measure K) (tol : K) (t : List K) :
    t ∈ supp1 m tol ↔ ∃ p ∈ m, tol < p.weight ∧ t = [p.position] := by
  simp only [supp1, List.mem_map, List.mem_filter, decide_eq_true_eq]
  constructor
  · rintro ⟨p, ⟨hp, hw⟩, rfl⟩; exact ⟨p, hp, hw, rfl⟩
  · rintro ⟨p, hp, hw, rfl⟩; exact ⟨p, ⟨hp, hw⟩, rfl⟩

theorem mMaximum_spec (f : List K → K) (m : Measure K) : (mMaximum f m = none ↔ m = []) ∧
    ∀ v, mMaximum f m = some v → (∃ p ∈ m, f [p.position] = v) ∧ ∀ p ∈ m, f [p.position] ≤ v := by
  obtain ⟨h1, h2⟩ := maximumL_spec f (singles m)
  refine ⟨by simpa [mMaximum, singles, mpositions] using h1, ?_⟩
  intro v hv
  obtain ⟨h3, h4⟩ := h2 v hv
  constructor
  · obtain ⟨t, ht, hf⟩ := h3
    simp only [singles, mpositions, List.map_map, List.mem_map, Function.comp] at ht
    obtain ⟨p, hp, rfl⟩ := ht
    exact ⟨p, hp, hf⟩
  · intro p hp
    exact h4 [p.position] (by simp only [singles, mpositions, List.map_map, List.mem_map, Function.comp]; exact ⟨p, hp, rfl⟩)

theorem mMinimum_spec (f : List K → K) (m : Measure K) : (mMinimum f m = none ↔ m = []) ∧
    ∀ v, mMinimum f m = some v → (∃ p ∈ m, f [p.position] = v) ∧ ∀ p ∈ m, v ≤ f [p.position] := by
  obtain ⟨h1, h2⟩ := minimumL_spec f (singles m)
  refine ⟨by simpa [mMinimum, singles, mpositions] using h1, ?_⟩
  intro v hv
  obtain ⟨h3, h4⟩ := h2 v hv
  constructor
  · obtain ⟨t, ht, hf⟩ := h3
    simp only [singles, mpositions, List.map_map, List.mem_map, Function.comp] at ht
    obtain ⟨p, hp, rfl⟩ := ht
    exact ⟨p, hp, hf⟩
  · intro p hp
    exact h4 [p.position] (by simp only [singles, mpositions, List.map_map, List.mem_map, Function.comp]; exact ⟨p, hp, rfl⟩)

theorem mEssMaximum_spec (f : List K → K) (tol : K) (m : Measure K) :
    (mEssMaximum f tol m = none ↔ ∀ p ∈ m, ¬ tol < p.weight) ∧
    ∀ v, mEssMaximum f tol m = some v →
      (∃ p ∈ m, tol < p.weight ∧ f [p.position] = v) ∧ ∀ p ∈ m, tol < p.weight → f [p.position] ≤ v := by
  obtain ⟨h1, h2⟩ := maximumL_spec f (supp1 m tol)
  simp only [mEssMaximum, essMaximumL, support_singles, Option.bind_some]
  constructor
  · rw [h1, List.eq_nil_iff_forall_not_mem]
    constructor
    · intro h p hp hw; exact h [p.position] ((mem_supp1 m tol _).mpr ⟨p, hp, hw, rfl⟩)
    · intro h t ht
      obtain ⟨p, hp, hw, _⟩ := (mem_supp1 m tol t).mp ht
      exact h p hp hw
  · intro v hv
    obtain ⟨h3, h4⟩ := h2 v hv
    constructor
    · obtain ⟨t, ht, hf⟩ := h3
      obtain ⟨p, hp, hw, rfl⟩ := (mem_supp1 m tol t).mp ht
      exact ⟨p, hp, hw, hf⟩
    · intro p hp hw
      exact h4 _ ((mem_supp1 m tol _).mpr ⟨p, hp, hw, rfl⟩)

theorem mEssMinimum_spec (f : List K → K) (tol : K) (m : Measure K) :
    (mEssMinimum f tol m = none ↔ ∀ p ∈ m, ¬ tol < p.weight) ∧
    ∀ v, mEssMinimum f tol m = some v →
      (∃ p ∈ m, tol < p.weight ∧ f [p.position] = v) ∧ ∀ p ∈ m, tol < p.weight → v ≤ f [p.position] := by
  obtain ⟨h1, h2⟩ := minimumL_spec f (supp1 m tol)
  simp only [mEssMinimum, essMinimumL, support_singles, Option.bind_some]
  constructor
  · rw [h1, List.eq_nil_iff_forall_not_mem]
    constructor
    · intro h p hp hw; exact h [p.position] ((mem_supp1 m tol _).mpr ⟨p, hp, hw, rfl⟩)
    · intro h t ht
      obtain ⟨p, hp, hw, _⟩ := (mem_supp1 m tol t).mp ht
      exact h p hp hw
  · intro v hv
    obtain ⟨h3, h4⟩ := h2 v hv
    constructor
    · obtain ⟨t, ht, hf⟩ := h3
      obtain ⟨p, hp, hw, rfl⟩ := (mem_supp1 m tol t).mp ht
      exact ⟨p, hp, hw, hf⟩
    · intro p hp hw
      exact h4 _ ((mem_supp1 m tol _).mpr ⟨p, hp, hw, rfl⟩)

/-- `ptp` / `ess_ptp` of one measure are `maximum - minimum` / `ess_maximum - ess_minimum` -/
theorem mPtp_eq (f : List K → K) (m : Measure K) :
    mPtp f m = match mMaximum f m, mMinimum f m with
      | some a, some b => some (a - b)
      | _, _ => none := rfl

theorem mEssPtp_eq (f : List K → K) (tol : K) (m : Measure K) :
    mEssPtp f tol m = match mEssMaximum f tol m, mEssMinimum f tol m with
      | some a, some b => some (a - b)
      | _, _ => none := by
  simp only [mEssPtp, essPtpL, mEssMaximum, essMaximumL, mEssMinimum, essMinimumL, support_singles,
    Option.bind_some]
  rfl

end MysticVerif.Discrete
