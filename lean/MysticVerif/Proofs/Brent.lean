/- the Brent line search (Model/Brent.lean): evaluation log, counters, termination, and - over a linear order, with the
arithmetic left uninterpreted - what `bracket` and Brent's loop guarantee about the values they saw (used by Props/C08) -/
import MysticVerif.Model.Brent
import Mathlib.Tactic.SplitIfs
import Mathlib.Order.Basic
import Mathlib.Order.Lattice

namespace MysticVerif.Brent
open MysticVerif.Solver

variable {R : Type}

/-- every entry of the part `l` of a log is `(alpha, f alpha)` -/
def Faithful (f : R → R) (l : Log R) : Prop := ∀ e ∈ l, e.2 = f e.1

theorem Faithful.append {f : R → R} {l m : Log R} (h : Faithful f l) (h' : Faithful f m) : Faithful f (l ++ m) := by
  intro e he
  rcases List.mem_append.mp he with he | he
  · exact h e he
  · exact h' e he

theorem faithful_one (f : R → R) (a : R) : Faithful f [(a, f a)] := by
  intro e he; simp only [List.mem_singleton] at he; subst he; rfl

theorem faithful_two (f : R → R) (a b : R) : Faithful f [(a, f a), (b, f b)] := by
  intro e he
  simp only [List.mem_cons, List.not_mem_nil, or_false] at he
  rcases he with he | he <;> (subst he; rfl)

set_option linter.unusedSectionVars false

section structural
variable [Add R] [Sub R] [Mul R] [Div R] [Neg R] [LT R] [DecidableLT R] [LE R] [DecidableLE R] [BEq R]

/-- what one pass of the bracket loop appends: one or two faithful entries, counted -/
def Grows (f : R → R) (s s' : Bk R) : Prop :=
  ∃ l, s'.log = s.log ++ l ∧ Faithful f l ∧ s'.funcalls = s.funcalls + l.length ∧ 1 ≤ l.length ∧ l.length ≤ 2

theorem bracketBody_grows (k : K R) (f : R → R) (s : Bk R) :
    match bracketBody k f s with
    | .stop r => Grows f s r
    | .next s' => Grows f s s'
    | .raise _ => False := by
  unfold bracketBody
  simp only
  split_ifs
  all_goals first
    | exact ⟨[_], rfl, faithful_one f _, rfl, by simp, by simp⟩
    | exact ⟨[_, _], rfl, faithful_two f _ _, rfl, by simp, by simp⟩

/-- the log of a normal return extends the incoming log by faithful entries, all counted; at most two evaluations per
pass and at most `maxiter + 1` passes -/
theorem bracketLoop_log (k : K R) (f : R → R) (maxiter : Nat) :
    ∀ (fuel iter : Nat) (s r : Bk R), bracketLoop k f maxiter fuel iter s = .ok r →
      ∃ l, r.log = s.log ++ l ∧ Faithful f l ∧ r.funcalls = s.funcalls + l.length ∧
        l.length ≤ 2 * (maxiter + 1 - iter) := by
  intro fuel
  induction fuel with
  | zero => intro iter s r h; simp [bracketLoop] at h
  | succ fuel ih =>
    intro iter s r h
    unfold bracketLoop at h
    split_ifs at h with hg hm
    · have hb := bracketBody_grows k f s
      split at h
      · rename_i s' heq
        rw [heq] at hb
        cases h
        obtain ⟨l, h1, h2, h3, _, h5⟩ := hb
        exact ⟨l, h1, h2, h3, by omega⟩
      · rename_i s' heq
        rw [heq] at hb
        obtain ⟨l, h1, h2, h3, _, h5⟩ := hb
        obtain ⟨l', g1, g2, g3, g4⟩ := ih (iter + 1) s' r h
        refine ⟨l ++ l', by rw [g1, h1, List.append_assoc], h2.append g2, by rw [g3, h3, List.length_append]; omega, ?_⟩
        rw [List.length_append]; omega
      · cases h
    · cases h
      exact ⟨[], by simp, (fun e he => by cases he), by simp, by simp⟩

theorem bracketInit_log (k : K R) (f : R → R) (xa xb : R) (log0 : Log R) :
    ∃ l, (bracketInit k f xa xb log0).log = log0 ++ l ∧ Faithful f l ∧ l.length = 3 ∧
      (bracketInit k f xa xb log0).funcalls = 3 :=
  ⟨_, rfl, by
    intro e he
    simp only [List.mem_cons, List.not_mem_nil, or_false] at he
    rcases he with he | he | he <;> (subst he; rfl), rfl, rfl⟩

/-- **bracket: every evaluation is logged once and counted.** -/
theorem bracket_log (k : K R) (f : R → R) (xa xb : R) (maxiter fuel : Nat) (r : Bk R)
    (h : bracket k f xa xb maxiter fuel = .ok r) :
    Faithful f r.log ∧ r.funcalls = r.log.length ∧ 3 ≤ r.funcalls ∧ r.funcalls ≤ 3 + 2 * (maxiter + 1) := by
  unfold bracket at h
  obtain ⟨l0, a1, a2, a3, a4⟩ := bracketInit_log k f xa xb ([] : Log R)
  obtain ⟨l, b1, b2, b3, b4⟩ := bracketLoop_log k f maxiter fuel 0 _ r h
  rw [a1] at b1
  rw [a4] at b3
  refine ⟨by rw [b1]; exact (Faithful.append (fun e he => by cases he) a2).append b2, ?_, by omega, by omega⟩
  rw [b1, b3]; simp [a3]

/-- **bracket terminates within its fuel bound:** `maxiter + 2` passes are never exhausted (pass number `maxiter + 2`
raises "Too many iterations") -/
theorem bracketLoop_fuel (k : K R) (f : R → R) (maxiter : Nat) :
    ∀ (fuel iter : Nat) (s : Bk R) (lg : Log R), maxiter + 2 ≤ fuel + iter → iter ≤ maxiter + 1 →
      bracketLoop k f maxiter fuel iter s ≠ .error (.fuel, lg) := by
  intro fuel
  induction fuel with
  | zero => intro iter s lg hf hi; omega
  | succ fuel ih =>
    intro iter s lg hf hi h
    unfold bracketLoop at h
    split_ifs at h with hg hm
    · cases h
    · split at h
      · exact absurd h (by simp)
      · exact ih (iter + 1) _ lg (by omega) (by omega) h
      · rename_i e heq
        have := bracketBody_grows k f s
        rw [heq] at this
        exact this

theorem bracket_fuel (k : K R) (f : R → R) (xa xb : R) (maxiter fuel : Nat) (lg : Log R) (hf : maxiter + 2 ≤ fuel) :
    bracket k f xa xb maxiter fuel ≠ .error (.fuel, lg) :=
  bracketLoop_fuel k f maxiter fuel 0 _ lg (by omega) (by omega)

end structural

/-! ### Brent's loop: counters and log (no order laws assumed) -/

section loop
variable [Add R] [Sub R] [Mul R] [Div R] [Neg R] [LT R] [DecidableLT R] [LE R] [DecidableLE R] [BEq R]

theorem update_log (s : Bs R) (u fu d r : R) : (update s u fu d r).log = s.log ++ [(u, fu)] := by
  unfold update; split_ifs <;> rfl

theorem update_iter (s : Bs R) (u fu d r : R) : (update s u fu d r).iter = s.iter + 1 := by
  unfold update; split_ifs <;> rfl

theorem update_funcalls (s : Bs R) (u fu d r : R) : (update s u fu d r).funcalls = s.funcalls + 1 := by
  unfold update; split_ifs <;> rfl

/-- `if (fu > fx)`: the best point stays -/
theorem update_keep (s : Bs R) (u fu d r : R) (h : s.fx < fu) :
    (update s u fu d r).x = s.x ∧ (update s u fu d r).fx = s.fx := by
  unfold update; rw [if_pos h]; split_ifs <;> exact ⟨rfl, rfl⟩

/-- `else`: the new point becomes the best one (also on a TIE `fu == fx`) -/
theorem update_move (s : Bs R) (u fu d r : R) (h : ¬ s.fx < fu) :
    (update s u fu d r).x = u ∧ (update s u fu d r).fx = fu := by
  unfold update; rw [if_neg h]; exact ⟨rfl, rfl⟩

/-- one pass either stops without touching the state or evaluates exactly one new abscissa -/
theorem brentIter_cases (k : K R) (f : R → R) (tol : R) (s : Bs R) :
    match brentIter k f tol s with
    | .stop s' => s' = s
    | .next s' => ∃ u d r, s' = update s u (f u) d r
    | .raise _ => True := by
  unfold brentIter
  simp only
  split_ifs
  · rfl
  · cases chooseStep k (tol * k.abs s.x + k.mintol) (k.two * (tol * k.abs s.x + k.mintol)) (k.half * (s.a + s.b)) s with
    | none => trivial
    | some dr => exact ⟨_, _, _, rfl⟩

/-- **termination and counting:** the loop makes at most `n` passes; iterations, reported evaluations and log grow
in lockstep, every new entry is `(u, f u)` -/
theorem brentLoop_log (k : K R) (f : R → R) (tol : R) :
    ∀ (n : Nat) (s r : Bs R), brentLoop k f tol n s = .ok r →
      ∃ l, r.log = s.log ++ l ∧ Faithful f l ∧ r.funcalls = s.funcalls + l.length ∧ r.iter = s.iter + l.length ∧
        l.length ≤ n := by
  intro n
  induction n with
  | zero =>
    intro s r h
    simp only [brentLoop, Except.ok.injEq] at h
    subst h
    exact ⟨[], by simp, (fun e he => by cases he), by simp, by simp, by simp⟩
  | succ n ih =>
    intro s r h
    unfold brentLoop at h
    have hc := brentIter_cases k f tol s
    split at h
    · rename_i s' heq
      rw [heq] at hc
      simp only [Except.ok.injEq] at h
      subst h; subst hc
      exact ⟨[], by simp, (fun e he => by cases he), by simp, by simp, by simp⟩
    · rename_i s' heq
      rw [heq] at hc
      obtain ⟨u, d, rr, hs'⟩ := hc
      obtain ⟨l, g1, g2, g3, g4, g5⟩ := ih s' r h
      refine ⟨(u, f u) :: l, ?_, ?_, ?_, ?_, ?_⟩
      · rw [g1, hs', update_log]; simp
      · intro e he
        rcases List.mem_cons.mp he with he | he
        · subst he; rfl
        · exact g2 e he
      · rw [g3, hs', update_funcalls]; simp; omega
      · rw [g4, hs', update_iter]; simp; omega
      · simp; omega
    · cases h

end loop

/-! ### `get_bracket_info`, `optimize`, `brent`: the log and the counters (no order laws assumed) -/

section counters
variable [Add R] [Sub R] [Mul R] [Div R] [Neg R] [LT R] [DecidableLT R] [LE R] [DecidableLE R] [BEq R]

theorem getBracketInfo_log (k : K R) (f : R → R) (brack : Brack R) (bmax fuel : Nat) (bk : Bk R)
    (h : getBracketInfo k f brack bmax fuel = .ok bk) : Faithful f bk.log ∧ bk.funcalls = bk.log.length := by
  unfold getBracketInfo at h
  split at h
  · exact ⟨(bracket_log k f _ _ bmax fuel bk h).1, (bracket_log k f _ _ bmax fuel bk h).2.1⟩
  · exact ⟨(bracket_log k f _ _ bmax fuel bk h).1, (bracket_log k f _ _ bmax fuel bk h).2.1⟩
  · simp only at h
    split_ifs at h
    all_goals
      simp only [Except.ok.injEq] at h
      subst h
      refine ⟨?_, rfl⟩
      intro e he
      simp only [List.mem_cons, List.not_mem_nil, or_false] at he
      rcases he with he | he | he <;> (subst he; rfl)
  · cases h

theorem optimize_log (k : K R) (f : R → R) (tol : R) (maxiter : Nat) (bk : Bk R) (o : Out R)
    (h : optimize k f tol maxiter bk = .ok o) :
    ∃ l, o.log = bk.log ++ l ∧ Faithful f l ∧ o.funcalls = l.length ∧ o.funcalls = o.iter + 1 ∧ o.iter ≤ maxiter ∧
      o.nbracket = bk.funcalls := by
  unfold optimize at h
  split at h
  · rename_i s hs
    simp only [Except.ok.injEq] at h
    subst h
    obtain ⟨l, g1, g2, g3, g4, g5⟩ := brentLoop_log k f tol maxiter _ s hs
    have hlog0 : (brentInit k f bk).log = bk.log ++ [(bk.xb, f bk.xb)] := rfl
    have hf1 : (brentInit k f bk).funcalls = 1 := rfl
    have hi0 : (brentInit k f bk).iter = 0 := rfl
    refine ⟨(bk.xb, f bk.xb) :: l, ?_, ?_, ?_, ?_, ?_, rfl⟩
    · show s.log = _
      rw [g1, hlog0]; simp
    · intro e he
      rcases List.mem_cons.mp he with he | he
      · subst he; rfl
      · exact g2 e he
    · show s.funcalls = _
      rw [g3, hf1]; simp; omega
    · show s.funcalls = s.iter + 1
      rw [g3, g4, hf1, hi0]; omega
    · show s.iter ≤ maxiter
      rw [g4, hi0]; omega
  · cases h

/-- `brent` = `get_bracket_info` then `optimize` -/
theorem brent_ok (k : K R) (f : R → R) (brack : Brack R) (tol : R) (maxiter bmax fuel : Nat) (o : Out R)
    (h : brent k f brack tol maxiter bmax fuel = .ok o) :
    ∃ bk, getBracketInfo k f brack bmax fuel = .ok bk ∧ optimize k f tol maxiter bk = .ok o := by
  unfold brent at h
  split at h
  · rename_i bk hb; exact ⟨bk, hb, h⟩
  · cases h

end counters

/-! ### the adapters -/

theorem splitFirst_some {α : Type} (q : α → Bool) :
    ∀ (l : List α) (r : List α × α × List α), splitFirst q l = some r →
      l = r.1 ++ r.2.1 :: r.2.2 ∧ q r.2.1 = true ∧ ∀ a ∈ r.1, q a = false := by
  intro l
  induction l with
  | nil => intro r h; simp [splitFirst] at h
  | cons a l ih =>
    intro r h
    unfold splitFirst at h
    split_ifs at h with hq
    · simp only [Option.some.injEq] at h
      subst h
      exact ⟨rfl, hq, fun a ha => by cases ha⟩
    · split at h
      · rename_i r' hr'
        simp only [Option.some.injEq] at h
        subst h
        obtain ⟨h1, h2, h3⟩ := ih r' hr'
        refine ⟨by simp only [List.cons_append]; rw [← h1], h2, ?_⟩
        intro b hb
        rcases List.mem_cons.mp hb with hb | hb
        · subst hb; simpa using hq
        · exact h3 b hb
      · cases h

theorem splitFirst_isSome {α : Type} (q : α → Bool) :
    ∀ (l : List α), (∃ a ∈ l, q a = true) → ∃ r, splitFirst q l = some r := by
  intro l
  induction l with
  | nil => intro ⟨a, ha, _⟩; cases ha
  | cons a l ih =>
    intro ⟨b, hb, hq⟩
    unfold splitFirst
    split_ifs with hqa
    · exact ⟨_, rfl⟩
    · rcases List.mem_cons.mp hb with hb | hb
      · subst hb; exact absurd hq hqa
      · obtain ⟨r, hr⟩ := ih ⟨b, hb, hq⟩
        rw [hr]; exact ⟨_, rfl⟩

/-- `p + 0*xi = p` wherever `0*a = 0` and `a + 0 = a` (any ring; NOT `Float` with infinite / NaN directions) -/
theorem along_zero [Add R] [Mul R] (zero : R) (hmul : ∀ a : R, zero * a = zero) (hadd : ∀ a : R, a + zero = a) :
    ∀ (p xi : Pt R), p.length ≤ xi.length → along p xi zero = p := by
  intro p
  induction p with
  | nil => intro xi _; simp [along, vadd, vscale]
  | cons a p ih =>
    intro xi hl
    cases xi with
    | nil => simp at hl
    | cons b xi =>
      have := ih xi (by simpa using hl)
      simp only [along, vadd, vscale, List.map_cons, List.zipWith_cons_cons] at this ⊢
      rw [this, hmul, hadd]

/-! ### over a linear order (no NaN); the arithmetic stays uninterpreted -/

section order
variable [LinearOrder R] [Add R] [Sub R] [Mul R] [Div R] [Neg R] [BEq R]

/-- the loop invariant of `bracket`: `m` is any bound the middle value started below -/
structure BkInv (f : R → R) (m : R) (s : Bk R) : Prop where
  faith : Faithful f s.log
  memA : (s.xa, s.fa) ∈ s.log
  memB : (s.xb, s.fb) ∈ s.log
  memC : (s.xc, s.fc) ∈ s.log
  ba : s.fb ≤ s.fa
  low : ∀ e ∈ s.log, s.fb ≤ e.2 ∨ s.fc ≤ e.2
  start : s.fb ≤ m

/-- what a normal return of `bracket` guarantees -/
structure BkSpec (f : R → R) (m : R) (r : Bk R) : Prop where
  faith : Faithful f r.log
  memA : (r.xa, r.fa) ∈ r.log
  memB : (r.xb, r.fb) ∈ r.log
  memC : (r.xc, r.fc) ∈ r.log
  ba : r.fb ≤ r.fa
  bc : r.fb ≤ r.fc
  start : r.fb ≤ m
  /-- `fb` is the least value evaluated, EXCEPT after the `elif (fw > fb): xc = w; fc = fw; return` exit, which drops the
  strictly lower point `(xc, fc)`; then `fb < fc` strictly -/
  least : (∃ e ∈ r.log, e.2 < r.fb) → r.fb < r.fc

theorem bracketBody_spec (k : K R) (f : R → R) (m : R) (s : Bk R) (hi : BkInv f m s) (hg : s.fc < s.fb) :
    match bracketBody k f s with
    | .stop r => BkSpec f m r
    | .next s' => BkInv f m s'
    | .raise _ => False := by
  have hmin : ∀ e ∈ s.log, s.fc ≤ e.2 := by
    intro e he
    rcases hi.low e he with h | h
    · exact le_trans (le_of_lt hg) h
    · exact h
  have hfa : s.fc ≤ s.fa := le_trans (le_of_lt hg) hi.ba
  unfold bracketBody
  simp only
  split_ifs with h1 h2 h3 h4 h5 h6
  · -- fw < fc : (xb, w, xc)
    refine ⟨hi.faith.append (faithful_one f _), ?_, ?_, ?_, le_of_lt (lt_trans h2 hg), le_of_lt h2,
      le_trans (le_of_lt (lt_trans h2 hg)) hi.start, ?_⟩
    · exact List.mem_append_left _ hi.memB
    · exact List.mem_append_right _ (List.mem_singleton.mpr rfl)
    · exact List.mem_append_left _ hi.memC
    · intro ⟨e, he, hlt⟩
      exfalso
      rcases List.mem_append.mp he with he | he
      · exact lt_irrefl _ (lt_of_lt_of_le (lt_trans hlt h2) (hmin e he))
      · simp only [List.mem_singleton] at he; subst he; exact lt_irrefl _ hlt
  · -- fw > fb : (xa, xb, w), the lower point (xc, fc) is dropped
    refine ⟨hi.faith.append (faithful_one f _), List.mem_append_left _ hi.memA, List.mem_append_left _ hi.memB,
      List.mem_append_right _ (List.mem_singleton.mpr rfl), hi.ba, le_of_lt h3, hi.start, fun _ => h3⟩
  · -- fc <= fw <= fb : golden step, shift
    have h2' : s.fc ≤ f _ := not_lt.mp h2
    refine ⟨hi.faith.append (faithful_two f _ _), ?_, ?_, ?_, le_of_lt hg, ?_, le_trans (le_of_lt hg) hi.start⟩
    · exact List.mem_append_left _ hi.memB
    · exact List.mem_append_left _ hi.memC
    · exact List.mem_append_right _ (by simp)
    · intro e he
      rcases List.mem_append.mp he with he | he
      · exact Or.inl (hmin e he)
      · simp only [List.mem_cons, List.not_mem_nil, or_false] at he
        rcases he with he | he
        · subst he; exact Or.inl h2'
        · subst he; exact Or.inr (le_refl _)
  · -- w = wlim
    refine ⟨hi.faith.append (faithful_one f _), List.mem_append_left _ hi.memB, List.mem_append_left _ hi.memC,
      List.mem_append_right _ (List.mem_singleton.mpr rfl), le_of_lt hg, ?_, le_trans (le_of_lt hg) hi.start⟩
    intro e he
    rcases List.mem_append.mp he with he | he
    · exact Or.inl (hmin e he)
    · simp only [List.mem_singleton] at he; subst he; exact Or.inr (le_refl _)
  · -- beyond xc, fw < fc: two evaluations
    refine ⟨hi.faith.append (faithful_two f _ _), List.mem_append_left _ hi.memC, List.mem_append_right _ (by simp),
      List.mem_append_right _ (by simp), le_of_lt h6, ?_, le_trans (le_of_lt (lt_trans h6 hg)) hi.start⟩
    intro e he
    rcases List.mem_append.mp he with he | he
    · exact Or.inl (le_trans (le_of_lt h6) (hmin e he))
    · simp only [List.mem_cons, List.not_mem_nil, or_false] at he
      rcases he with he | he
      · subst he; exact Or.inl (le_refl _)
      · subst he; exact Or.inr (le_refl _)
  · -- beyond xc, fw >= fc
    refine ⟨hi.faith.append (faithful_one f _), List.mem_append_left _ hi.memB, List.mem_append_left _ hi.memC,
      List.mem_append_right _ (List.mem_singleton.mpr rfl), le_of_lt hg, ?_, le_trans (le_of_lt hg) hi.start⟩
    intro e he
    rcases List.mem_append.mp he with he | he
    · exact Or.inl (hmin e he)
    · simp only [List.mem_singleton] at he; subst he; exact Or.inr (le_refl _)
  · -- default golden step
    refine ⟨hi.faith.append (faithful_one f _), List.mem_append_left _ hi.memB, List.mem_append_left _ hi.memC,
      List.mem_append_right _ (List.mem_singleton.mpr rfl), le_of_lt hg, ?_, le_trans (le_of_lt hg) hi.start⟩
    intro e he
    rcases List.mem_append.mp he with he | he
    · exact Or.inl (hmin e he)
    · simp only [List.mem_singleton] at he; subst he; exact Or.inr (le_refl _)

theorem bracketLoop_spec (k : K R) (f : R → R) (m : R) (maxiter : Nat) :
    ∀ (fuel iter : Nat) (s r : Bk R), BkInv f m s → bracketLoop k f maxiter fuel iter s = .ok r → BkSpec f m r := by
  intro fuel
  induction fuel with
  | zero => intro iter s r _ h; simp [bracketLoop] at h
  | succ fuel ih =>
    intro iter s r hi h
    unfold bracketLoop at h
    split_ifs at h with hg hm
    · have hb := bracketBody_spec k f m s hi hg
      split at h
      · rename_i s' heq; rw [heq] at hb; cases h; exact hb
      · rename_i s' heq; rw [heq] at hb; exact ih (iter + 1) s' r hb h
      · cases h
    · cases h
      have hbc : s.fb ≤ s.fc := not_lt.mp hg
      refine ⟨hi.faith, hi.memA, hi.memB, hi.memC, hi.ba, hbc, hi.start, ?_⟩
      intro ⟨e, he, hlt⟩
      exfalso
      rcases hi.low e he with h | h
      · exact absurd hlt (not_lt.mpr h)
      · exact absurd hlt (not_lt.mpr (le_trans hbc h))

theorem bracketInit_inv (k : K R) (f : R → R) (xa xb : R) :
    BkInv f (min (f xa) (f xb)) (bracketInit k f xa xb []) := by
  unfold bracketInit
  simp only [List.nil_append]
  refine ⟨?_, ?_, ?_, by simp, ?_, ?_, ?_⟩
  · intro e he
    simp only [List.mem_cons, List.not_mem_nil, or_false] at he
    rcases he with he | he | he <;> (subst he; rfl)
  · split_ifs <;> simp
  · split_ifs <;> simp
  · split_ifs with h
    · exact le_of_lt h
    · exact not_lt.mp h
  · intro e he
    simp only [List.mem_cons, List.not_mem_nil, or_false] at he
    rcases he with he | he | he
    · subst he; left; split_ifs with h
      · exact le_refl _
      · exact not_lt.mp h
    · subst he; left; split_ifs with h
      · exact le_of_lt h
      · exact le_refl _
    · subst he; right; exact le_refl _
  · split_ifs with h
    · exact le_min (le_refl _) (le_of_lt h)
    · exact le_min (not_lt.mp h) (le_refl _)

/-- `bracket` returns a downhill triple whose middle value is below both start values -/
theorem bracket_spec (k : K R) (f : R → R) (xa xb : R) (maxiter fuel : Nat) (r : Bk R)
    (h : bracket k f xa xb maxiter fuel = .ok r) : BkSpec f (min (f xa) (f xb)) r :=
  bracketLoop_spec k f _ maxiter fuel 0 _ r (bracketInit_inv k f xa xb) h

/-- the invariant of Brent's loop: its own evaluations are `l1 ++ [(x, fx)] ++ l2`, nothing in `l1` is lower than `fx`
and everything in `l2` is strictly higher: `x` is the LAST lowest point Brent itself evaluated -/
structure BsInv (f : R → R) (base : Log R) (m : R) (s : Bs R) : Prop where
  split : ∃ l1 l2, s.log = base ++ (l1 ++ (s.x, s.fx) :: l2) ∧ (∀ e ∈ l1, s.fx ≤ e.2) ∧ (∀ e ∈ l2, s.fx < e.2)
  val : s.fx = f s.x
  le0 : s.fx ≤ m

theorem update_inv (f : R → R) (base : Log R) (m : R) (s : Bs R) (u d r : R) (hi : BsInv f base m s) :
    BsInv f base m (update s u (f u) d r) := by
  obtain ⟨l1, l2, hl, h1, h2⟩ := hi.split
  by_cases h : s.fx < f u
  · obtain ⟨hx, hfx⟩ := update_keep s u (f u) d r h
    refine ⟨⟨l1, l2 ++ [(u, f u)], ?_, ?_, ?_⟩, ?_, ?_⟩
    · rw [update_log, hl, hx, hfx]; simp
    · rw [hfx]; exact h1
    · rw [hfx]; intro e he
      rcases List.mem_append.mp he with he | he
      · exact h2 e he
      · simp only [List.mem_singleton] at he; subst he; exact h
    · rw [hfx, hx]; exact hi.val
    · rw [hfx]; exact hi.le0
  · obtain ⟨hx, hfx⟩ := update_move s u (f u) d r h
    have hle : f u ≤ s.fx := not_lt.mp h
    refine ⟨⟨l1 ++ (s.x, s.fx) :: l2, [], ?_, ?_, ?_⟩, ?_, ?_⟩
    · rw [update_log, hl, hx, hfx]; simp
    · rw [hfx]; intro e he
      rcases List.mem_append.mp he with he | he
      · exact le_trans hle (h1 e he)
      · rcases List.mem_cons.mp he with he | he
        · subst he; exact hle
        · exact le_trans hle (le_of_lt (h2 e he))
    · intro e he; cases he
    · rw [hfx, hx]
    · rw [hfx]; exact le_trans hle hi.le0

theorem brentLoop_inv (k : K R) (f : R → R) (tol : R) (base : Log R) (m : R) :
    ∀ (n : Nat) (s r : Bs R), BsInv f base m s → brentLoop k f tol n s = .ok r → BsInv f base m r := by
  intro n
  induction n with
  | zero => intro s r hi h; simp only [brentLoop, Except.ok.injEq] at h; subst h; exact hi
  | succ n ih =>
    intro s r hi h
    unfold brentLoop at h
    have hc := brentIter_cases k f tol s
    split at h
    · rename_i s' heq; rw [heq] at hc; simp only [Except.ok.injEq] at h; subst h; subst hc; exact hi
    · rename_i s' heq; rw [heq] at hc
      obtain ⟨u, d, rr, hs'⟩ := hc
      exact ih s' r (hs' ▸ update_inv f base m s u d rr hi) h
    · cases h

theorem brentInit_inv (k : K R) (f : R → R) (bk : Bk R) : BsInv f bk.log (f bk.xb) (brentInit k f bk) :=
  ⟨⟨[], [], rfl, (fun e he => by cases he), (fun e he => by cases he)⟩, rfl, le_refl _⟩

end order

/-! ### the whole search -/

section whole
variable [LinearOrder R] [Add R] [Sub R] [Mul R] [Div R] [Neg R] [BEq R]

/-- `Brent.optimize` from any bracket: the result is the last lowest of Brent's own evaluations, which start with a
re-evaluation of `xb` -/
theorem optimize_spec (k : K R) (f : R → R) (tol : R) (maxiter : Nat) (bk : Bk R) (o : Out R)
    (h : optimize k f tol maxiter bk = .ok o) :
    (∃ l1 l2, o.log = bk.log ++ (l1 ++ (o.xmin, o.fval) :: l2) ∧ (∀ e ∈ l1, o.fval ≤ e.2) ∧ (∀ e ∈ l2, o.fval < e.2) ∧
        Faithful f (l1 ++ (o.xmin, o.fval) :: l2) ∧ o.funcalls = (l1 ++ (o.xmin, o.fval) :: l2).length) ∧
      o.fval = f o.xmin ∧ o.fval ≤ f bk.xb ∧ o.funcalls = o.iter + 1 ∧ o.iter ≤ maxiter ∧ o.nbracket = bk.funcalls := by
  unfold optimize at h
  split at h
  · rename_i s hs
    simp only [Except.ok.injEq] at h
    subst h
    have hi := brentLoop_inv k f tol bk.log (f bk.xb) maxiter _ s (brentInit_inv k f bk) hs
    obtain ⟨l, g1, g2, g3, g4, g5⟩ := brentLoop_log k f tol maxiter _ s hs
    obtain ⟨l1, l2, hl, h1, h2⟩ := hi.split
    have hlog0 : (brentInit k f bk).log = bk.log ++ [(bk.xb, f bk.xb)] := rfl
    have hown : l1 ++ (s.x, s.fx) :: l2 = (bk.xb, f bk.xb) :: l := by
      rw [hlog0, List.append_assoc] at g1
      exact List.append_cancel_left (hl.symm.trans g1)
    have hf1 : (brentInit k f bk).funcalls = 1 := rfl
    have hi0 : (brentInit k f bk).iter = 0 := rfl
    refine ⟨⟨l1, l2, hl, h1, h2, ?_, ?_⟩, hi.val, hi.le0, ?_, ?_, rfl⟩
    · rw [hown]
      intro e he
      rcases List.mem_cons.mp he with he | he
      · subst he; rfl
      · exact g2 e he
    · show s.funcalls = _
      rw [hown, g3, hf1]; simp; omega
    · show s.funcalls = s.iter + 1
      rw [g3, g4, hf1, hi0]; omega
    · show s.iter ≤ maxiter
      rw [g4, hi0]; omega
  · cases h

end whole

end MysticVerif.Brent
