/- `constraints.and_` (Model/Combinators.lean) SUCCEEDS without a random draw when the first pass ends in a common
fixed point of all members and the first-pass states never return to an earlier value; `constraints.or_` SUCCEEDS
without a random draw when its first member does not raise at the input and is idempotent (generic in the vector type). -/
import MysticVerif.Proofs.Combinators

namespace MysticVerif.Comb

variable {X D : Type}

/-- the states of the first pass: `x, c0 x, c1 (c0 x), ..` -/
def seqF (c : Nat → X → Option X) (n : Nat) (x : X) : Nat → X
  | 0 => x
  | k + 1 => (applyM (c (k % n)) (seqF c n x k)).1

/-- `[seq (i-1), .., seq 0]`: the history below the newest entry after `i` member calls -/
def histF (c : Nat → X → Option X) (n : Nat) (x : X) : Nat → List X
  | 0 => []
  | i + 1 => seqF c n x i :: histF c n x i

theorem histF_length (c : Nat → X → Option X) (n : Nat) (x : X) : ∀ i, (histF c n x i).length = i
  | 0 => rfl
  | i + 1 => by simp [histF, histF_length c n x i]

theorem histF_get (c : Nat → X → Option X) (n : Nat) (x : X) :
    ∀ i q, q < i → (histF c n x i)[q]? = some (seqF c n x (i - 1 - q))
  | 0, q, h => by omega
  | i + 1, 0, _ => by simp [histF]
  | i + 1, q + 1, h => by
    simp only [histF, List.getElem?_cons_succ]
    rw [histF_get c n x i q (by omega)]
    congr 2; omega

theorem andFirst_seq (c : Nat → X → Option X) (n : Nat) (x : X)
    (hok : ∀ k, k < n → (applyM (c (k % n)) (seqF c n x k)).2 = false) :
    ∀ (k i : Nat) (links : Nat), i + k ≤ n →
      andFirst c n k i (histF c n x i) (seqF c n x i) false links =
        (histF c n x (i + k), seqF c n x (i + k), false, links + k) := by
  intro k
  induction k with
  | zero => intro i links _; simp [andFirst]
  | succ k ih =>
    intro i links hik
    unfold andFirst
    have h2 := hok i (by omega)
    simp only [h2, Bool.or_false, Bool.false_eq_true, if_false]
    have := ih (i + 1) (links + 1) (by omega)
    simp only [histF, seqF] at this
    rw [this]
    have e1 : i + 1 + k = i + (k + 1) := by omega
    have e2 : links + 1 + k = links + (k + 1) := by omega
    rw [e1, e2]

theorem lastAllEq_iff [BEq X] [LawfulBEq X] (k : Nat) (l : List X) (y : X) :
    lastAllEq k l y = true ↔ ∀ m, m < k → ∀ a, l[m]? = some a → a = y := by
  unfold lastAllEq
  rw [List.all_eq_true]
  constructor
  · intro h m hm a ha
    have hmem : a ∈ l.take k := by
      rw [List.mem_iff_getElem?]
      exact ⟨m, by rw [List.getElem?_take]; simp [hm, ha]⟩
    simpa using h a hmem
  · intro h a ha
    rw [List.mem_iff_getElem?] at ha
    obtain ⟨m, hm⟩ := ha
    rw [List.getElem?_take] at hm
    split at hm
    · simpa using h m (by assumption) a hm
    · simp at hm

/-- the cycling phase from the state "`s` copies of the fixed point on top of the first-pass history" -/
theorem andCycle_fixed [BEq X] [LawfulBEq X] (c : Nat → X → Option X) (rand : D → X → X) (n cap : Nat) (x : X)
    (hn : 0 < n) (hcap : 2 * n ≤ cap)
    (hfix : ∀ j, c (j % n) (seqF c n x n) = some (seqF c n x n))
    (hmono : ∀ k, 1 ≤ k → k ≤ n → seqF c n x k = seqF c n x n →
      ∀ k', k ≤ k' → k' ≤ n → seqF c n x k' = seqF c n x n) :
    ∀ (d s fuel links : Nat) (draws : List D) (st : Stats), s + d + 1 = n → d < fuel →
      ∃ t l st', andCycle c rand n cap fuel (n + s) (List.replicate s (seqF c n x n) ++ histF c n x n) (seqF c n x n)
        links draws st = (.success (seqF c n x n) t l, st') ∧ st'.draws = st.draws := by
  intro d
  induction d with
  | zero =>
    intro s fuel links draws st hs hf
    obtain ⟨fuel, rfl⟩ : ∃ f, fuel = f + 1 := ⟨fuel - 1, by omega⟩
    unfold andCycle
    rw [if_neg (by omega)]
    have hy : applyM (c ((n + s) % n)) (seqF c n x n) = (seqF c n x n, false) := by
      unfold applyM; rw [hfix]
    simp only [hy]
    have hw : lastAllEq (n - 1) (seqF c n x n :: (List.replicate s (seqF c n x n) ++ histF c n x n)) (seqF c n x n) = true := by
      rw [lastAllEq_iff]
      intro m hm a ha
      have : (seqF c n x n :: (List.replicate s (seqF c n x n) ++ histF c n x n)) =
          List.replicate (s + 1) (seqF c n x n) ++ histF c n x n := by
        rw [List.replicate_succ]; rfl
      rw [this, List.getElem?_append_left (by simp; omega)] at ha
      simp only [List.getElem?_replicate] at ha
      split at ha
      · exact (Option.some.inj ha).symm
      · simp at ha
    simp only [hw, Bool.not_false, Bool.and_self, if_true]
    exact ⟨n + s, _, _, rfl, rfl⟩
  | succ d ih =>
    intro s fuel links draws st hs hf
    obtain ⟨fuel, rfl⟩ : ∃ f, fuel = f + 1 := ⟨fuel - 1, by omega⟩
    unfold andCycle
    rw [if_neg (by omega)]
    have hy : applyM (c ((n + s) % n)) (seqF c n x n) = (seqF c n x n, false) := by
      unfold applyM; rw [hfix]
    simp only [hy]
    have hlist : (seqF c n x n :: (List.replicate s (seqF c n x n) ++ histF c n x n)) =
        List.replicate (s + 1) (seqF c n x n) ++ histF c n x n := by
      rw [List.replicate_succ]; rfl
    by_cases hw : lastAllEq (n - 1) (seqF c n x n :: (List.replicate s (seqF c n x n) ++ histF c n x n)) (seqF c n x n) = true
    · simp only [hw, Bool.not_false, Bool.and_self, if_true]
      exact ⟨n + s, _, _, rfl, rfl⟩
    · have hw' : lastAllEq (n - 1) (seqF c n x n :: (List.replicate s (seqF c n x n) ++ histF c n x n)) (seqF c n x n) = false := by
        simpa using hw
      simp only [hw', Bool.and_false, Bool.false_eq_true, if_false]
      -- no cycle hit: the entry n back is seq (s+1), which differs from the fixed point
      have hidx : (seqF c n x n :: (List.replicate s (seqF c n x n) ++ histF c n x n))[n - 1]? = some (seqF c n x (s + 1)) := by
        rw [hlist, List.getElem?_append_right (by simp; omega)]
        simp only [List.length_replicate]
        rw [histF_get c n x n (n - 1 - (s + 1)) (by omega)]
        congr 2; omega
      have hne : seqF c n x (s + 1) ≠ seqF c n x n := by
        intro heq
        apply hw
        rw [lastAllEq_iff]
        intro m hm a ha
        rw [hlist] at ha
        by_cases hms : m < s + 1
        · rw [List.getElem?_append_left (by simp; omega)] at ha
          simp only [List.getElem?_replicate, hms, if_true] at ha
          exact (Option.some.inj ha).symm
        · rw [List.getElem?_append_right (by simp; omega)] at ha
          simp only [List.length_replicate] at ha
          rw [histF_get c n x n (m - (s + 1)) (by omega)] at ha
          rw [← Option.some.inj ha]
          exact hmono (s + 1) (by omega) (by omega) heq _ (by omega) (by omega)
      have hcyc : cycHit n (seqF c n x n :: (List.replicate s (seqF c n x n) ++ histF c n x n)) (seqF c n x n) = false := by
        unfold cycHit
        rw [hidx]
        simpa using fun h => hne h.symm
      simp only [hcyc, Bool.false_eq_true, if_false]
      have hdrop : dropOld n (n + s) (seqF c n x n :: (List.replicate s (seqF c n x n) ++ histF c n x n)) =
          List.replicate (s + 1) (seqF c n x n) ++ histF c n x n := by
        unfold dropOld
        have : (n + s) % (2 * n) ≠ 0 := by
          rw [Nat.mod_eq_of_lt (by omega)]; omega
        rw [if_neg this, hlist]
      rw [hdrop]
      obtain ⟨t, l, st', ht, hd⟩ := ih (s + 1) fuel (links + 1) draws { st with calls := st.calls + 1 } (by omega) (by omega)
      have e : n + s + 1 = n + (s + 1) := by omega
      rw [e, ht]
      exact ⟨t, l, st', rfl, hd⟩

/-- **`and_` succeeds without a random draw** when no member raises during the first pass, the first pass ends in a
common fixed point `seq n` of all members, and the first-pass states never return to a value they left (`hmono`);
it returns that fixed point. -/
theorem and_succeeds [BEq X] [LawfulBEq X] (c : Nat → X → Option X) (rand : D → X → X) (n cap : Nat) (x : X)
    (draws : List D) (hn : 0 < n) (hcap : 2 * n ≤ cap)
    (hok : ∀ k, k < n → (applyM (c (k % n)) (seqF c n x k)).2 = false)
    (hfix : ∀ j, c (j % n) (seqF c n x n) = some (seqF c n x n))
    (hmono : ∀ k, 1 ≤ k → k ≤ n → seqF c n x k = seqF c n x n →
      ∀ k', k ≤ k' → k' ≤ n → seqF c n x k' = seqF c n x n) :
    ∃ t l st, and_ c rand n cap x draws = (.success (seqF c n x n) t l, st) ∧ st.draws = 0 := by
  unfold and_
  rw [if_neg (by omega)]
  have hf := andFirst_seq c n x hok n 0 0 (by omega)
  simp only [histF, seqF, Nat.zero_add] at hf
  simp only [hf]
  split
  · exact ⟨_, _, _, rfl, rfl⟩
  · obtain ⟨t, l, st', ht, hd⟩ := andCycle_fixed c rand n cap x hn hcap hfix hmono (n - 1) 0 (cap - n) n draws
      { calls := n } (by omega) (by omega)
    simp only [List.replicate_zero, List.nil_append, Nat.add_zero] at ht
    exact ⟨t, l, st', ht, hd⟩

/-! ## `or_` -/

/-- a first pass of `or_` without success leaves `k` new entries on the history, the oldest of which is the output of
the first member it applied -/
theorem orFirst_none_hist [BEq X] (c : Nat → X → Option X) (x : X) :
    ∀ (k i : Nat) (h : List X) (e : Bool) (calls : Nat) (h' : List X) (calls' : Nat),
      orFirst c x k i h e calls = (none, h', calls') →
      ∃ l, h' = l ++ h ∧ l.length = k ∧ (0 < k → l[k - 1]? = some (applyM (c i) x).1) := by
  intro k
  induction k with
  | zero =>
    intro i h e calls h' calls' hr
    simp only [orFirst, Prod.mk.injEq, true_and] at hr
    exact ⟨[], by simp [hr.1], rfl, fun h => by omega⟩
  | succ k ih =>
    intro i h e calls h' calls' hr
    unfold orFirst at hr
    simp only at hr
    split at hr
    · simp at hr
    · obtain ⟨l, hl, hlen, _⟩ := ih _ _ _ _ _ _ hr
      refine ⟨l ++ [(applyM (c i) x).1], by rw [hl]; simp, by simp [hlen], fun _ => ?_⟩
      rw [List.getElem?_append_right (by omega)]
      simp [hlen]

/-- **`or_` succeeds without a random draw** whenever its first member runs without raising at the input and is
idempotent there: either a member leaves the input unchanged (first pass), or the second application of the first
member reproduces its first output. -/
theorem or_succeeds [BEq X] [LawfulBEq X] (c : Nat → X → Option X) (pick : D → Nat) (n cap : Nat) (x : X)
    (draws : List D) (hn : 0 < n) (hcap : n < cap) (y1 : X) (h0 : c 0 x = some y1) (hid : c 0 y1 = some y1) :
    ∃ y t l st, or_ c pick n cap x draws = (.success y t l, st) ∧ st.draws = 0 := by
  unfold or_
  split
  · exact ⟨_, _, _, _, rfl, rfl⟩
  · rename_i h calls hf
    obtain ⟨l, hl, hlen, hlast⟩ := orFirst_none_hist c x n 0 [x] false 0 h calls hf
    obtain ⟨fuel, hfuel⟩ : ∃ f, cap - n = f + 1 := ⟨cap - n - 1, by omega⟩
    rw [hfuel]
    unfold orCycle
    have hy1 : (applyM (c 0) x).1 = y1 := by unfold applyM; rw [h0]
    have hsrc : h[n - 1]? = some y1 := by
      rw [hl, List.getElem?_append_left (by omega), hlast hn, hy1]
    cases h with
    | nil => simp at hsrc
    | cons top rest =>
      simp only
      rw [if_neg (by omega), hsrc]
      simp only
      have hye : applyM (c (n % n)) y1 = (y1, false) := by
        rw [Nat.mod_self]; unfold applyM; rw [hid]
      simp only [hye, beq_self_eq_true, Bool.not_false, Bool.and_self, if_true]
      exact ⟨_, _, _, _, rfl, rfl⟩

end MysticVerif.Comb
