/- helper lemmas for Props/C16/Unique.lean: `unique` / `impose_unique` with ANY sequence of allowed values -/
import MysticVerif.Proofs.Transforms

namespace MysticVerif.Trans

section uniq2
variable {R : Type} [BEq R] [LawfulBEq R]

theorem nodupB_iff : ∀ (l : List R), nodupB l = true ↔ l.Nodup
  | [] => by simp [nodupB]
  | a :: t => by
    simp only [nodupB, Bool.and_eq_true, Bool.not_eq_true', List.nodup_cons, nodupB_iff t]
    constructor
    · rintro ⟨h1, h2⟩; exact ⟨by simpa using h1, h2⟩
    · rintro ⟨h1, h2⟩; exact ⟨by simpa using h1, h2⟩

/-- an input without repeats (none of them seen before) passes through `uniqueGo` unchanged, whatever `new` is -/
theorem uniqueGo_nodup : ∀ (x seen new : List R), x.Nodup → (∀ a ∈ x, a ∉ seen) → uniqueGo x seen new = .ok x
  | [], _, _, _, _ => by simp [uniqueGo]
  | a :: t, seen, new, hnd, hs => by
    have ha : a ∉ seen := hs a (by simp)
    obtain ⟨hat, hndt⟩ := List.nodup_cons.mp hnd
    have ih := uniqueGo_nodup t (a :: seen) new hndt (by
      intro b hb h
      rcases List.mem_cons.mp h with rfl | h
      · exact hat hb
      · exact hs b (List.mem_cons_of_mem _ hb) h)
    simp [uniqueGo, ha, ih, Except.map]

/-- length is kept and every FIRST occurrence (not seen before, not among the earlier entries) stays where it is -/
theorem uniqueGo_first : ∀ (x seen new y : List R), uniqueGo x seen new = .ok y →
    y.length = x.length ∧ ∀ (k : Nat) (a : R), x[k]? = some a → a ∉ seen → a ∉ x.take k → y[k]? = some a := by
  intro x
  induction x with
  | nil => intro seen new y hy; simp [uniqueGo] at hy; subst hy; simp
  | cons a t ih =>
    intro seen new y hy
    unfold uniqueGo at hy
    split at hy
    · rename_i hseen
      split at hy
      · cases hy
      · rename_i v rest hrev
        cases hr : uniqueGo t seen rest.reverse with
        | error e => simp [hr, Except.map] at hy
        | ok y' =>
          simp [hr, Except.map] at hy; subst hy
          obtain ⟨i1, i2⟩ := ih seen rest.reverse y' hr
          refine ⟨by simp [i1], ?_⟩
          intro k b hb hbs hbt
          cases k with
          | zero =>
            simp at hb; subst hb
            exact absurd (by simpa using hseen) hbs
          | succ k =>
            simp at hb
            simp only [List.take_succ_cons, List.mem_cons, not_or] at hbt
            simpa using i2 k b hb hbs hbt.2
    · rename_i hseen
      cases hr : uniqueGo t (a :: seen) new with
      | error e => simp [hr, Except.map] at hy
      | ok y' =>
        simp [hr, Except.map] at hy; subst hy
        obtain ⟨i1, i2⟩ := ih (a :: seen) new y' hr
        refine ⟨by simp [i1], ?_⟩
        intro k b hb hbs hbt
        cases k with
        | zero => simp at hb; subst hb; simp
        | succ k =>
          simp at hb
          simp only [List.take_succ_cons, List.mem_cons, not_or] at hbt
          have : b ∉ a :: seen := by
            intro h
            rcases List.mem_cons.mp h with h | h
            · exact hbt.1 h
            · exact hbs h
          simpa using i2 k b hb this hbt.2

end uniq2

end MysticVerif.Trans
