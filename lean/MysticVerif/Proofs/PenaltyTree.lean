/- helper lemmas for the tree part of Props/C15: on every chain the tree functions ARE the flat ones -/
import MysticVerif.Model.PenaltyTree
import MysticVerif.Proofs.Penalty

set_option linter.unusedSectionVars false

namespace MysticVerif.C15
open MysticVerif.Pen

section generic
variable {R : Type} [Add R] [Sub R] [Mul R] [Div R] [Neg R] [LT R] [DecidableLT R] [BEq R]
  [OfNat R 0] [OfNat R 1] [OfNat R 2] [PenOps R]

/-- the chain of `t` with every condition evaluated at the point of `env` -/
def chainVals (env : Env R) (t : PT R) : List (Level R × Option R) :=
  (chain t).map fun p => (p.1, condV env p.2)

/-- the levels of the chain -/
def chainLevels (t : PT R) : List (Level R) := (chain t).map (·.1)

/-- the conditions of the chain (with the member objects and THEIR state inside) -/
def chainConds (t : PT R) : List (PC R) := (chain t).map (·.2)

theorem evalT_eq_evalStack (env : Env R) :
    ∀ t : PT R, evalT env t = evalStack (chainVals env t) (env.f (baseOf t))
  | .base f => by simp [evalT, chainVals, chain, baseOf, evalStack]
  | .pen l c inner => by
    have ih := evalT_eq_evalStack env inner
    simp only [chainVals] at ih
    simp only [evalT, chainVals, chain, baseOf, List.map_cons]
    cases hc : condV env c with
    | none => simp [evalStack]
    | some pf =>
      simp only [evalStack]
      cases term l pf with
      | error e => rfl
      | ok tm =>
        cases tm with
        | stop v => rfl
        | add a =>
          simp only [ih]
          cases evalStack (List.map (fun p => (p.1, condV env p.2)) (chain inner)) (env.f (baseOf inner)) <;> rfl

theorem errT_eq_errStack (env : Env R) :
    ∀ t : PT R, errT env t = errStack (chainVals env t)
  | .base f => by simp [errT, chainVals, chain, errStack]
  | .pen l c (.base f) => by
    simp only [errT, chainVals, chain, List.map_cons, List.map_nil]
    cases condV env c <;> simp [errStack]
  | .pen l c (.pen l2 c2 i2) => by
    have ih := errT_eq_errStack env (.pen l2 c2 i2)
    simp only [chainVals, chain, List.map_cons] at ih
    simp only [errT, chainVals, chain, List.map_cons]
    cases condV env c with
    | none => simp [errStack]
    | some pf => simp only [errStack, ih]

theorem chain_iterT (i : Option Int) :
    ∀ t : PT R, chainLevels (iterT i t) = iterStack i (chainLevels t) ∧ chainConds (iterT i t) = chainConds t
      ∧ baseOf (iterT i t) = baseOf t
  | .base f => by simp [iterT, chainLevels, chainConds, chain, iterStack, baseOf]
  | .pen l c inner => by
    obtain ⟨h1, h2, h3⟩ := chain_iterT i inner
    simp only [chainLevels, chainConds, iterStack] at h1 h2 ⊢
    cases i <;> simp [iterT, chain, baseOf, h1, h2, h3]

theorem chain_clearT :
    ∀ t : PT R, chainLevels (clearT t) = clearStack (chainLevels t) ∧ chainConds (clearT t) = chainConds t
      ∧ baseOf (clearT t) = baseOf t
  | .base f => by simp [clearT, chainLevels, chainConds, chain, clearStack, baseOf]
  | .pen l c inner => by
    obtain ⟨h1, h2, h3⟩ := chain_clearT inner
    simp only [chainLevels, chainConds, clearStack] at h1 h2 ⊢
    simp only [clearT, chain, List.map_cons, baseOf, h1, h2, h3, and_self]

theorem chain_storeT (env : Env R) :
    ∀ (t : PT R) (i : Option Int),
      chainLevels (storeT env i t).1 = (storeStack i (chainVals env t)).1 ∧ (storeT env i t).2 = (storeStack i (chainVals env t)).2
      ∧ chainConds (storeT env i t).1 = chainConds t ∧ baseOf (storeT env i t).1 = baseOf t
  | .base f, i => by simp [storeT, chainLevels, chainConds, chainVals, chain, storeStack, baseOf]
  | .pen l c inner, i => by
    have ih := chain_storeT env inner
    simp only [chainLevels, chainConds, chainVals] at ih ⊢
    simp only [storeT, chain, List.map_cons, storeStack]
    by_cases hlag : l.t.isLag = true
    · simp only [hlag, if_true]
      by_cases hA : (l.y.length : Int) ≤ storeIdx i l.n
      · obtain ⟨h1, h2, h3, h4⟩ := ih (some (storeIdx i l.n))
        simp [hA, chain, baseOf, h1, h2, h3, h4]
        cases condV env c <;> rfl
      · by_cases hB : -(l.y.length : Int) ≤ storeIdx i l.n
        · obtain ⟨h1, h2, h3, h4⟩ := ih (some (storeIdx i l.n))
          simp [hA, hB, chain, baseOf, h1, h2, h3, h4]
          cases condV env c <;> rfl
        · simp [hA, hB, chain, baseOf, Function.comp_def]
    · obtain ⟨h1, h2, h3, h4⟩ := ih i
      simp [hlag, chain, baseOf, h1, h2, h3, h4]

/-! ### nothing but the iteration state ever changes -/

theorem skel_iterT (i : Option Int) : ∀ t : PT R, skelT (iterT i t) = skelT t
  | .base f => rfl
  | .pen l c inner => by simp only [iterT, skelT, skel_iterT i inner]

theorem skel_clearT : ∀ t : PT R, skelT (clearT t) = skelT t
  | .base f => rfl
  | .pen l c inner => by simp only [clearT, skelT, skel_clearT inner]

theorem skel_storeT (env : Env R) : ∀ (t : PT R) (i : Option Int), skelT (storeT env i t).1 = skelT t
  | .base f, i => rfl
  | .pen l c inner, i => by
    have ih := skel_storeT env inner
    simp only [storeT]
    split
    · split
      · simp only [skelT, ih]
      · split
        · simp only [skelT, ih]
        · rfl
    · simp only [skelT, ih]

mutual
theorem skel_modT (g : PT R → PT R) (hg : ∀ s, skelT (g s) = skelT s) :
    ∀ (p : List Step) (t : PT R), skelT (modT g p t) = skelT t
  | [], t => by simp only [modT, hg]
  | _ :: _, .base f => by simp only [modT]
  | .down :: p, .pen l c inner => by simp only [modT, skelT, skel_modT g hg p inner]
  | .member m :: p, .pen l c inner => by simp only [modT, skelT, skel_modC g hg m p c]
theorem skel_modC (g : PT R → PT R) (hg : ∀ s, skelT (g s) = skelT s) :
    ∀ (m : Nat) (p : List Step) (c : PC R), skelC (modC g m p c) = skelC c
  | _, _, .leaf i => by simp only [modC]
  | m, p, .not t c => by simp only [modC, skelC, skel_modC g hg m p c]
  | m, p, .and ms => by simp only [modC, skelC, skel_modL g hg m p ms]
  | 0, p, .or m0 ms => by simp only [modC, skelC, skel_modT g hg p m0]
  | m + 1, p, .or m0 ms => by simp only [modC, skelC, skel_modL g hg m p ms]
theorem skel_modL (g : PT R → PT R) (hg : ∀ s, skelT (g s) = skelT s) :
    ∀ (m : Nat) (p : List Step) (ms : PL R), skelL (modL g m p ms) = skelL ms
  | _, _, .nil => by simp only [modL]
  | 0, p, .cons m rest => by simp only [modL, skelL, skel_modT g hg p m]
  | k + 1, p, .cons m rest => by simp only [modL, skelL, skel_modL g hg k p rest]
end

/-! the call reaches exactly the addressed object -/
mutual
theorem get_modT (g : PT R → PT R) :
    ∀ (p : List Step) (t : PT R), getT p (modT g p t) = (getT p t).map g
  | [], t => by simp only [modT, getT, Option.map_some]
  | _ :: _, .base f => by simp only [modT, getT, Option.map_none]
  | .down :: p, .pen l c inner => by simp only [modT, getT, get_modT g p inner]
  | .member m :: p, .pen l c inner => by simp only [modT, getT, get_modC g m p c]
theorem get_modC (g : PT R → PT R) :
    ∀ (m : Nat) (p : List Step) (c : PC R), getC m p (modC g m p c) = (getC m p c).map g
  | _, _, .leaf i => by simp only [modC, getC, Option.map_none]
  | m, p, .not t c => by simp only [modC, getC, get_modC g m p c]
  | m, p, .and ms => by simp only [modC, getC, get_modL g m p ms]
  | 0, p, .or m0 ms => by simp only [modC, getC, get_modT g p m0]
  | m + 1, p, .or m0 ms => by simp only [modC, getC, get_modL g m p ms]
theorem get_modL (g : PT R → PT R) :
    ∀ (m : Nat) (p : List Step) (ms : PL R), getL m p (modL g m p ms) = (getL m p ms).map g
  | _, _, .nil => by simp only [modL, getL, Option.map_none]
  | 0, p, .cons m rest => by simp only [modL, getL, get_modT g p m]
  | k + 1, p, .cons m rest => by simp only [modL, getL, get_modL g k p rest]
end

/-! ### the caller's readings: a type without multipliers never acquires a history -/

theorem clean_iterT (i : Option Int) : ∀ t : PT R, cleanT (iterT i t) = cleanT t
  | .base f => rfl
  | .pen l c inner => by simp only [iterT, cleanT, clean_iterT i inner]

theorem clean_clearT : ∀ t : PT R, cleanT t = true → cleanT (clearT t) = true
  | .base f, _ => rfl
  | .pen l c inner, h => by
    simp only [cleanT, Bool.and_eq_true] at h
    simp only [clearT, cleanT, Bool.and_eq_true, List.isEmpty_nil, Bool.or_true, true_and]
    exact ⟨h.1.2, clean_clearT inner h.2⟩

theorem clean_storeT (env : Env R) : ∀ (t : PT R) (i : Option Int), cleanT (storeT env i t).1 = cleanT t
  | .base f, i => rfl
  | .pen l c inner, i => by
    have ih := clean_storeT env inner
    simp only [storeT]
    split
    · rename_i hlag
      split
      · simp only [cleanT, ih, hlag, Bool.true_or]
      · split
        · simp only [cleanT, ih, hlag, Bool.true_or]
        · rfl
    · simp only [cleanT, ih]

mutual
theorem clean_modT (g : PT R → PT R) (hg : ∀ s, cleanT s = true → cleanT (g s) = true) :
    ∀ (p : List Step) (t : PT R), cleanT t = true → cleanT (modT g p t) = true
  | [], t, h => by simp only [modT]; exact hg t h
  | _ :: _, .base f, _ => by simp only [modT, cleanT]
  | .down :: p, .pen l c inner, h => by
    simp only [cleanT, Bool.and_eq_true] at h
    simp only [modT, cleanT, Bool.and_eq_true]
    exact ⟨h.1, clean_modT g hg p inner h.2⟩
  | .member m :: p, .pen l c inner, h => by
    simp only [cleanT, Bool.and_eq_true] at h
    simp only [modT, cleanT, Bool.and_eq_true]
    exact ⟨⟨h.1.1, clean_modC g hg m p c h.1.2⟩, h.2⟩
theorem clean_modC (g : PT R → PT R) (hg : ∀ s, cleanT s = true → cleanT (g s) = true) :
    ∀ (m : Nat) (p : List Step) (c : PC R), cleanC c = true → cleanC (modC g m p c) = true
  | _, _, .leaf i, _ => by simp only [modC, cleanC]
  | m, p, .not t c, h => by
    simp only [cleanC] at h
    simp only [modC, cleanC]; exact clean_modC g hg m p c h
  | m, p, .and ms, h => by
    simp only [cleanC] at h
    simp only [modC, cleanC]; exact clean_modL g hg m p ms h
  | 0, p, .or m0 ms, h => by
    simp only [cleanC, Bool.and_eq_true] at h
    simp only [modC, cleanC, Bool.and_eq_true]; exact ⟨clean_modT g hg p m0 h.1, h.2⟩
  | m + 1, p, .or m0 ms, h => by
    simp only [cleanC, Bool.and_eq_true] at h
    simp only [modC, cleanC, Bool.and_eq_true]; exact ⟨h.1, clean_modL g hg m p ms h.2⟩
theorem clean_modL (g : PT R → PT R) (hg : ∀ s, cleanT s = true → cleanT (g s) = true) :
    ∀ (m : Nat) (p : List Step) (ms : PL R), cleanL ms = true → cleanL (modL g m p ms) = true
  | _, _, .nil, _ => by simp only [modL, cleanL]
  | 0, p, .cons m rest, h => by
    simp only [cleanL, Bool.and_eq_true] at h
    simp only [modL, cleanL, Bool.and_eq_true]; exact ⟨clean_modT g hg p m h.1, h.2⟩
  | k + 1, p, .cons m rest, h => by
    simp only [cleanL, Bool.and_eq_true] at h
    simp only [modL, cleanL, Bool.and_eq_true]; exact ⟨h.1, clean_modL g hg k p rest h.2⟩
end

mutual
theorem clean_getT : ∀ (p : List Step) (t s : PT R), cleanT t = true → getT p t = some s → cleanT s = true
  | [], t, s, h, hg => by simp only [getT, Option.some.injEq] at hg; exact hg ▸ h
  | _ :: _, .base f, s, _, hg => by simp only [getT] at hg; cases hg
  | .down :: p, .pen l c inner, s, h, hg => by
    simp only [cleanT, Bool.and_eq_true] at h
    simp only [getT] at hg; exact clean_getT p inner s h.2 hg
  | .member m :: p, .pen l c inner, s, h, hg => by
    simp only [cleanT, Bool.and_eq_true] at h
    simp only [getT] at hg; exact clean_getC m p c s h.1.2 hg
theorem clean_getC : ∀ (m : Nat) (p : List Step) (c : PC R) (s : PT R), cleanC c = true → getC m p c = some s → cleanT s = true
  | _, _, .leaf i, s, _, hg => by simp only [getC] at hg; cases hg
  | m, p, .not t c, s, h, hg => by
    simp only [cleanC] at h
    simp only [getC] at hg; exact clean_getC m p c s h hg
  | m, p, .and ms, s, h, hg => by
    simp only [cleanC] at h
    simp only [getC] at hg; exact clean_getL m p ms s h hg
  | 0, p, .or m0 ms, s, h, hg => by
    simp only [cleanC, Bool.and_eq_true] at h
    simp only [getC] at hg; exact clean_getT p m0 s h.1 hg
  | m + 1, p, .or m0 ms, s, h, hg => by
    simp only [cleanC, Bool.and_eq_true] at h
    simp only [getC] at hg; exact clean_getL m p ms s h.2 hg
theorem clean_getL : ∀ (m : Nat) (p : List Step) (ms : PL R) (s : PT R), cleanL ms = true → getL m p ms = some s → cleanT s = true
  | _, _, .nil, s, _, hg => by simp only [getL] at hg; cases hg
  | 0, p, .cons m rest, s, h, hg => by
    simp only [cleanL, Bool.and_eq_true] at h
    simp only [getL] at hg; exact clean_getT p m s h.1 hg
  | k + 1, p, .cons m rest, s, h, hg => by
    simp only [cleanL, Bool.and_eq_true] at h
    simp only [getL] at hg; exact clean_getL k p rest s h.2 hg
end

theorem clean_TOp (o : TOp R) (t : PT R) (h : cleanT t = true) : cleanT (o.apply t) = true := by
  cases o with
  | iter p i => exact clean_modT _ (fun s hs => by rw [clean_iterT]; exact hs) p t h
  | clear p => exact clean_modT _ clean_clearT p t h
  | store p env i => exact clean_modT _ (fun s hs => by rw [clean_storeT]; exact hs) p t h

/-- the penalty side of a session is the session with the caller's own list handling removed -/
theorem runS_tree : ∀ (os : List (SOp R)) (s : Sess R),
    (runS os s).t = (treeOps os).foldl (fun t o => o.apply t) s.t
  | [], s => rfl
  | .tree o :: os, s => by
    simp only [runS, List.foldl_cons, treeOps]
    exact runS_tree os _
  | .hold p :: os, s => by
    simp only [runS, List.foldl_cons, treeOps]
    exact runS_tree os _
  | .hmut i new :: os, s => by
    simp only [runS, List.foldl_cons, treeOps]
    exact runS_tree os _

theorem clean_fold : ∀ (os : List (TOp R)) (t : PT R), cleanT t = true →
    cleanT (os.foldl (fun t o => o.apply t) t) = true
  | [], t, h => h
  | o :: os, t, h => by simp only [List.foldl_cons]; exact clean_fold os _ (clean_TOp o t h)

end generic

end MysticVerif.C15

namespace MysticVerif.C15
open MysticVerif.Pen

section field
variable {K : Type} [Field K] [LinearOrder K] [IsStrictOrderedRing K] [PenOps K] [LawfulPenOps K]

/-! ### the multiplier loops, one more iteration at the END (the state machine view) -/

theorem betaLoop_succ (h : K) (y : List K) : ∀ (m i : Nat) (b q : K),
    betaLoop h y (m + 1) i b q =
      (max 0 ((betaLoop h y m i b q).1 + 2 * (betaLoop h y m i b q).2 * storedAt y ((i + m : Nat) : Int)),
       (betaLoop h y m i b q).2 * h) := by
  intro m
  induction m with
  | zero => intro i b q; simp [betaLoop]
  | succ m ih =>
    intro i b q
    rw [betaLoop, ih]
    have e : i + 1 + m = i + (m + 1) := by omega
    simp only [betaLoop, e]

theorem betaLoop_congr (h : K) (y y' : List K) : ∀ (m i : Nat) (b q : K),
    (∀ j, i ≤ j → j < i + m → storedAt y (j : Int) = storedAt y' (j : Int)) →
    betaLoop h y m i b q = betaLoop h y' m i b q := by
  intro m
  induction m with
  | zero => intro i b q _; rfl
  | succ m ih =>
    intro i b q hy
    rw [betaLoop, betaLoop, hy i (le_refl _) (by omega)]
    exact ih _ _ _ (fun j h1 h2 => hy j (by omega) (by omega))

theorem storedAt_append_left (y : List K) (c : K) (j : Nat) (hj : j < y.length) :
    storedAt (y ++ [c]) (j : Int) = storedAt y (j : Int) := by
  simp only [storedAt]
  rw [if_pos (by omega), if_pos (by omega)]
  simp only [Int.toNat_natCast]
  rw [List.getElem?_append_left hj]

theorem storedAt_append_self (y : List K) (c : K) :
    storedAt (y ++ [c]) (y.length : Int) = c := by
  simp only [storedAt]
  rw [if_pos (by omega)]
  simp

theorem storedAt_eq_getElem (y : List K) (j : Nat) (hj : j < y.length) : storedAt y (j : Int) = y[j] := by
  simp only [storedAt]
  rw [if_pos (by omega)]
  simp [hj]

end field

end MysticVerif.C15
