/- helper lemmas for the concrete initial-simplex and convergence oracles of Model/NMInit.lean (used by Props/C08) -/
import MysticVerif.Model.NMInit
import Mathlib.Tactic.SplitIfs
import Mathlib.Order.Basic
import Mathlib.Order.Lattice
import Mathlib.Algebra.Field.Basic
import Mathlib.Algebra.Order.Field.Rat

namespace MysticVerif.Solver

variable {R E : Type}

/-- the running maximum of python's `max` is below a bound iff every item is -/
theorem foldl_max_le [LinearOrder R] (l : List R) (a t : R) :
    l.foldl (fun m b => if m < b then b else m) a ≤ t ↔ a ≤ t ∧ ∀ b ∈ l, b ≤ t := by
  induction l generalizing a with
  | nil => simp
  | cons b l ih =>
    simp only [List.foldl_cons, List.mem_cons, forall_eq_or_imp]
    rw [ih]
    split_ifs with h
    · constructor
      · rintro ⟨hb, hl⟩; exact ⟨le_trans (le_of_lt h) hb, hb, hl⟩
      · rintro ⟨_, hb, hl⟩; exact ⟨hb, hl⟩
    · constructor
      · rintro ⟨ha, hl⟩; exact ⟨ha, le_trans (not_lt.mp h) ha, hl⟩
      · rintro ⟨ha, _, hl⟩; exact ⟨ha, hl⟩

theorem pyMax_le_iff [LinearOrder R] (l : List R) (m t : R) (h : pyMax l = some m) :
    m ≤ t ↔ ∀ b ∈ l, b ≤ t := by
  cases l with
  | nil => simp [pyMax] at h
  | cons a as =>
    simp only [pyMax, Option.some.injEq] at h
    subst h
    rw [foldl_max_le]
    simp

theorem pyMax_isSome [LT R] [DecidableLT R] (l : List R) : (pyMax l).isSome = true ↔ l ≠ [] := by
  cases l <;> simp [pyMax]

/-- the value python's `max` returns is one of the items -/
theorem pyMax_mem [LT R] [DecidableLT R] (l : List R) (m : R) (h : pyMax l = some m) : m ∈ l := by
  cases l with
  | nil => simp [pyMax] at h
  | cons a as =>
    simp only [pyMax, Option.some.injEq] at h
    subst h
    have : ∀ (l : List R) (a : R), l.foldl (fun m b => if m < b then b else m) a ∈ a :: l := by
      intro l
      induction l with
      | nil => intro a; simp
      | cons b l ih =>
        intro a
        simp only [List.foldl_cons]
        split_ifs
        · have := ih b
          simp only [List.mem_cons] at this ⊢
          rcases this with h | h
          · exact Or.inr (Or.inl h)
          · exact Or.inr (Or.inr h)
        · have := ih a
          simp only [List.mem_cons] at this ⊢
          rcases this with h | h
          · exact Or.inl h
          · exact Or.inr (Or.inr h)
    exact this as a

end MysticVerif.Solver
