/-
Helper lemmas for the second deepening of C18: the sort-based median family under positive scalings
(median / mad are scale-equivariant, mad is shift-invariant, the selection is non-empty whenever the total
weight is non-negative), so that `impose_mad` / `impose_median` can be proved to reach their targets.
-/
import MysticVerif.Proofs.Trimmed
import MysticVerif.Model.MeasuresX

set_option linter.unusedSectionVars false

namespace MysticVerif.Meas
variable {K : Type} [Field K] [LinearOrder K] [IsStrictOrderedRing K]

/-! ### the (sample, weight) pairs of a mapped sample list -/

theorem pairsOf_map (f : K → K) (xs : List K) (ws : Option (List K)) :
    pairsOf (xs.map f) ws = (pairsOf xs ws).map fun q => (f q.1, q.2) := by
  cases ws with
  | none => simp [pairsOf, Function.comp]
  | some w =>
    simp only [pairsOf]
    induction xs generalizing w with
    | nil => simp
    | cons x xs ih =>
      cases w with
      | nil => simp
      | cons a w => simp [ih w]

theorem pairsOf_fst_subset (xs : List K) (ws : Option (List K)) :
    ∀ x ∈ (pairsOf xs ws).map (·.1), x ∈ xs := by
  intro x hx
  obtain ⟨q, hq, rfl⟩ := List.mem_map.mp hx
  cases ws with
  | none =>
    simp only [pairsOf, List.mem_map] at hq
    obtain ⟨y, hy, rfl⟩ := hq
    exact hy
  | some w =>
    simp only [pairsOf] at hq
    exact (List.of_mem_zip (show (q.1, q.2) ∈ xs.zip w from hq)).1

/-- the inputs for which the sort-based median is defined: at least one (sample, weight) pair and a non-negative
total weight (individual weights may be zero or negative) -/
def MedValid (xs : List K) (ws : Option (List K)) : Prop :=
  pairsOf xs ws ≠ [] ∧ 0 ≤ ((pairsOf xs ws).map (·.2)).sum

theorem MedValid.map {xs : List K} {ws : Option (List K)} (h : MedValid xs ws) (f : K → K) :
    MedValid (xs.map f) ws := by
  unfold MedValid at h ⊢
  rw [pairsOf_map, List.map_map]
  refine ⟨by simpa using h.1, ?_⟩
  have e : ((fun q : K × K => q.2) ∘ fun q : K × K => (f q.1, q.2)) = fun q => q.2 := rfl
  rw [e]; exact h.2

/-! ### the selection is non-empty and picks samples -/

theorem sel_ne_nil (P : K → Bool) (acc : K) (W A : List K) (hl : A.length = W.length) (hW : W ≠ [])
    (hP : P (acc + W.sum) = true) :
    ((A.zip (cumsumFrom acc W)).filter fun p => P p.2) ≠ [] := by
  induction W generalizing acc A with
  | nil => exact absurd rfl hW
  | cons w W ih =>
    cases A with
    | nil => simp at hl
    | cons a A =>
      simp only [List.length_cons, Nat.add_right_cancel_iff] at hl
      simp only [cumsumFrom, List.zip_cons_cons, List.filter_cons]
      split
      · simp
      · rename_i hn
        by_cases hW' : W = []
        · subst hW'
          simp only [List.sum_cons, List.sum_nil, add_zero] at hP
          exact absurd hP hn
        · apply ih (acc + w) A hl hW'
          rw [List.sum_cons, ← add_assoc] at hP
          exact hP

theorem medianSel_ne_nil (xs : List K) (ws : Option (List K)) (h : MedValid xs ws) : medianSel xs ws ≠ [] := by
  unfold medianSel
  have hsum : ((sortPairs (pairsOf xs ws)).map (·.2)).sum = ((pairsOf xs ws).map (·.2)).sum :=
    ((sortPairs_perm (pairsOf xs ws)).map _).sum_eq
  have hne : (sortPairs (pairsOf xs ws)).map (·.2) ≠ [] := by
    intro h0
    have := congrArg List.length h0
    simp only [List.length_map, sortPairs_length, List.length_nil] at this
    exact h.1 (List.length_eq_zero_iff.mp this)
  have key := sel_ne_nil (fun t => decide (lsum ((sortPairs (pairsOf xs ws)).map (·.2)) / 2 - t ≤ 0)) 0
    ((sortPairs (pairsOf xs ws)).map (·.2)) ((sortPairs (pairsOf xs ws)).map (·.1)) (by simp) hne
    (by
      rw [lsum_eq, hsum, zero_add, decide_eq_true_eq]
      have := h.2
      linarith)
  intro h0
  have hlen := congrArg List.length h0
  simp only [List.length_take, List.length_map, List.length_nil] at hlen
  have hpos : 0 < (((((sortPairs (pairsOf xs ws)).map (·.1)).zip
      (cumsumFrom 0 ((sortPairs (pairsOf xs ws)).map (·.2)))).filter
      fun (p : K × K) => decide (lsum ((sortPairs (pairsOf xs ws)).map (·.2)) / 2 - p.2 ≤ 0))).length :=
    List.length_pos_iff.mpr key
  omega

theorem medianSel_subset (xs : List K) (ws : Option (List K)) : ∀ x ∈ medianSel xs ws, x ∈ xs := by
  intro x hx
  unfold medianSel at hx
  have h1 := List.mem_of_mem_take hx
  obtain ⟨p, hp, rfl⟩ := List.mem_map.mp h1
  have hp' := (List.mem_filter.mp hp).1
  have h2 := (List.of_mem_zip (show (p.1, p.2) ∈ _ from hp')).1
  obtain ⟨q, hq, hq1⟩ := List.mem_map.mp h2
  apply pairsOf_fst_subset xs ws
  exact List.mem_map.mpr ⟨q, (sortPairs_perm _).subset hq, hq1⟩

/-- the mean of the one or two selected samples lies between bounds that hold for every selected sample -/
theorem meanUpTo2_bounds (C : Consts K) (l : List K) (h : l ≠ []) (lo hi : K) (hb : ∀ x ∈ l, lo ≤ x ∧ x ≤ hi) :
    lo ≤ meanUpTo2 C l ∧ meanUpTo2 C l ≤ hi := by
  match l, h with
  | [a], _ => exact hb a (by simp)
  | a :: b :: t, _ =>
    have ha := hb a (by simp)
    have hbb := hb b (by simp)
    simp only [meanUpTo2]
    constructor
    · rw [le_div_iff₀ (by norm_num : (0 : K) < 2)]; linarith [ha.1, hbb.1]
    · rw [div_le_iff₀ (by norm_num : (0 : K) < 2)]; linarith [ha.2, hbb.2]

/-- **the median lies between the least and the greatest sample** -/
theorem median_bounds (C : Consts K) (xs : List K) (ws : Option (List K)) (h : MedValid xs ws) (lo hi : K)
    (hb : ∀ x ∈ xs, lo ≤ x ∧ x ≤ hi) : lo ≤ median C xs ws ∧ median C xs ws ≤ hi :=
  meanUpTo2_bounds C _ (medianSel_ne_nil xs ws h) lo hi fun x hx => hb x (medianSel_subset xs ws x hx)

theorem median_const (C : Consts K) (xs : List K) (ws : Option (List K)) (h : MedValid xs ws) (a : K)
    (hc : ∀ x ∈ xs, x = a) : median C xs ws = a := by
  have := median_bounds C xs ws h a a fun x hx => by rw [hc x hx]; exact ⟨le_refl _, le_refl _⟩
  exact le_antisymm this.2 this.1

/-! ### moments with a tolerance cut, under reflection -/

theorem mean_tol_eq (C : Consts K) (xs : List K) (ws : Option (List K)) (tol : K) (h : Valid xs ws) :
    mean C xs ws tol = if |gmean xs ws| ≤ tol then 0 else gmean xs ws := by
  cases ws with
  | none =>
    simp only [mean, lsum_eq, gmean, absR_eq, div_one]
    rw [if_pos ((truthy_iff _).mpr one_ne_zero)]
    exact ite_congr rfl (fun _ => rfl) (fun _ => rfl)
  | some w =>
    simp only [mean, lsum_eq, gmean, absR_eq, wsum]
    rw [if_pos ((truthy_iff _).mpr h.2)]
    exact ite_congr rfl (fun _ => rfl) (fun _ => rfl)

theorem moment_tol_eq (C : Consts K) (xs : List K) (ws : Option (List K)) (n : Nat) (tol : K) (h : Valid xs ws)
    (hn : 2 ≤ n) : moment C xs ws n tol = if |gmom xs ws n| ≤ tol then 0 else gmom xs ws n := by
  unfold moment gmom
  rw [if_neg (by omega), if_neg (by omega), mean_tol_eq C _ ws tol (h.map _), mean_eq C xs ws h]
  simp only [powN_eq]

theorem gmom_reflect (xs : List K) (ws : Option (List K)) (c : K) (n : Nat) (h : Valid xs ws) :
    gmom (xs.map fun y => c - y) ws n = (-1) ^ n * gmom xs ws n := by
  have e : (xs.map fun y => c - y) = (xs.map (· * (-1))).map (· + c) := by
    rw [List.map_map]; apply List.map_congr_left; intro y _; simp only [Function.comp]; ring
  rw [e, gmom_map_add_const _ ws c n (h.map _), gmom_map_mul_const]

theorem flipSamples_eq (xs : List K) : ∃ c, flipSamples xs = xs.map fun y => c - y := by
  cases xs with
  | nil => exact ⟨0, rfl⟩
  | cons x t => exact ⟨pymaxFrom x t + pyminFrom x t, rfl⟩

/-! ### products -/

theorem foldl_mul (a : K) (l : List K) : l.foldl (· * ·) a = a * l.prod := by
  induction l generalizing a with
  | nil => simp
  | cons x xs ih => simp [ih, mul_assoc]

theorem lprod_eq (l : List K) : lprod l = l.prod := by
  unfold lprod; rw [foldl_mul]; simp

theorem prod_map_div (ws : List K) (r : K) : (ws.map fun x => x / r).prod = ws.prod / r ^ ws.length := by
  induction ws with
  | nil => simp
  | cons w ws ih => simp only [List.map_cons, List.prod_cons, ih, List.length_cons, pow_succ]; ring

theorem prod_map_negdiv (ws : List K) (r : K) :
    (ws.map fun x => -x / r).prod = (-1) ^ ws.length * ws.prod / r ^ ws.length := by
  induction ws with
  | nil => simp
  | cons w ws ih => simp only [List.map_cons, List.prod_cons, ih, List.length_cons, pow_succ]; ring

/-! ### `numpy.cumsum` -/

theorem cumsumFrom_getElem? (acc : K) (l : List K) (k : Nat) (hk : k < l.length) :
    (cumsumFrom acc l)[k]? = some (acc + (l.take (k + 1)).sum) := by
  induction l generalizing acc k with
  | nil => simp at hk
  | cons w l ih =>
    cases k with
    | zero => simp [cumsumFrom]
    | succ k =>
      simp only [List.length_cons, Nat.add_lt_add_iff_right] at hk
      simp only [cumsumFrom, List.getElem?_cons_succ, ih (acc + w) k hk]
      rw [List.take_succ_cons, List.sum_cons, add_assoc]

/-! ### scale equivariance -/

theorem sel_scale (s : K) (P : K → Bool) (a b : List K) :
    ((((a.map (· * s)).zip b).filter (fun p => P p.2)).map (·.1)) =
      (((a.zip b).filter (fun p => P p.2)).map (·.1)).map (· * s) := by
  induction a generalizing b with
  | nil => rfl
  | cons x a ih =>
    cases b with
    | nil => rfl
    | cons y b =>
      simp only [List.map_cons, List.zip_cons_cons, List.filter_cons]
      split
      · simp only [List.map_cons, ih b]
      · exact ih b

theorem medianSel_scale (s : K) (hs : 0 < s) (xs : List K) (ws : Option (List K)) :
    medianSel (xs.map (· * s)) ws = (medianSel xs ws).map (· * s) := by
  unfold medianSel
  rw [pairsOf_scale, sortPairs_scale s hs]
  have e2 : ((sortPairs (pairsOf xs ws)).map (scaleP s)).map (·.2) = (sortPairs (pairsOf xs ws)).map (·.2) := by
    rw [List.map_map]; rfl
  have e1 : ((sortPairs (pairsOf xs ws)).map (scaleP s)).map (·.1) =
      ((sortPairs (pairsOf xs ws)).map (·.1)).map (· * s) := by
    rw [List.map_map, List.map_map]; rfl
  rw [e1, e2, List.length_map,
    sel_scale s (fun t => decide (lsum ((sortPairs (pairsOf xs ws)).map (·.2)) / 2 - t ≤ 0)), List.map_take]

theorem meanUpTo2_scale (C : Consts K) (s : K) (l : List K) (h : l ≠ []) :
    meanUpTo2 C (l.map (· * s)) = meanUpTo2 C l * s := by
  match l, h with
  | [a], _ => rfl
  | a :: b :: t, _ => simp only [List.map_cons, meanUpTo2]; ring

theorem median_scale (C : Consts K) (s : K) (hs : 0 < s) (xs : List K) (ws : Option (List K))
    (h : medianSel xs ws ≠ []) : median C (xs.map (· * s)) ws = median C xs ws * s := by
  unfold median
  rw [medianSel_scale s hs, meanUpTo2_scale C s _ h]

/-! ### mad -/

theorem mad_shift (C : Consts K) (c : K) (xs : List K) (ws : Option (List K)) (h : medianSel xs ws ≠ []) :
    mad C (xs.map (· + c)) ws = mad C xs ws := by
  unfold mad
  rw [median_shift C c xs ws h, List.map_map]
  congr 1
  apply List.map_congr_left; intro x _
  show absR (x + c - (median C xs ws + c)) = absR (x - median C xs ws)
  congr 1; ring

theorem mad_scale (C : Consts K) (s : K) (hs : 0 < s) (xs : List K) (ws : Option (List K)) (h : MedValid xs ws) :
    mad C (xs.map (· * s)) ws = mad C xs ws * s := by
  unfold mad
  rw [median_scale C s hs xs ws (medianSel_ne_nil xs ws h), List.map_map]
  have e : (xs.map ((fun x => absR (x - median C xs ws * s)) ∘ fun x => x * s)) =
      (xs.map fun x => absR (x - median C xs ws)).map (· * s) := by
    rw [List.map_map]
    apply List.map_congr_left; intro x _
    show absR (x * s - median C xs ws * s) = absR (x - median C xs ws) * s
    rw [absR_eq, absR_eq, ← sub_mul, abs_mul, abs_of_pos hs]
  rw [e]
  exact median_scale C s hs _ ws (medianSel_ne_nil _ ws (h.map _))

theorem mad_const (C : Consts K) (xs : List K) (ws : Option (List K)) (h : MedValid xs ws) (a : K)
    (hc : ∀ x ∈ xs, x = a) : mad C xs ws = 0 := by
  unfold mad
  apply median_const C _ ws (h.map _) 0
  intro d hd
  obtain ⟨y, hy, rfl⟩ := List.mem_map.mp hd
  rw [median_const C xs ws h a hc, hc y hy, sub_self, absR_eq, abs_zero]

theorem meanUpTo2_ge (C : Consts K) (l : List K) (h : l ≠ []) (lo : K) (hb : ∀ x ∈ l, lo ≤ x) :
    lo ≤ meanUpTo2 C l := by
  match l, h with
  | [a], _ => exact hb a (by simp)
  | a :: b :: t, _ =>
    have ha := hb a (by simp)
    have hbb := hb b (by simp)
    simp only [meanUpTo2]
    rw [le_div_iff₀ (by norm_num : (0 : K) < 2)]; linarith

theorem mad_nonneg (C : Consts K) (xs : List K) (ws : Option (List K)) (h : MedValid xs ws) : 0 ≤ mad C xs ws := by
  unfold mad median
  apply meanUpTo2_ge C _ (medianSel_ne_nil _ ws (h.map fun x => absR (x - meanUpTo2 C (medianSel xs ws))))
  intro y hy
  obtain ⟨x, _, rfl⟩ := List.mem_map.mp (medianSel_subset _ ws y hy)
  rw [absR_eq]; exact abs_nonneg _

end MysticVerif.Meas
