/- mystic's staged Nelder-Mead machine refines the reference `fmin` (used by Props/C08) -/
import MysticVerif.Model.RefFmin
import MysticVerif.Proofs.NelderMead
import Mathlib.Tactic.SplitIfs

namespace MysticVerif.Solver

variable {R E : Type}

/-- "unconstrained problem" (the property's hypothesis): no constraints, no strict ranges, no penalty
(`wrap_penalty` adds `0.0`, neutral for every energy) -/
structure Unconstrained (o : Obj (Pt R) E) : Prop where
  K_id : ∀ x, o.K x = x
  noRange : o.useRange = false
  pen0 : ∀ e y, o.add e (o.pen y) = e

theorem objK_unc {o : Obj (Pt R) E} (h : Unconstrained o) (y : Pt R) (log : List (Pt R × E)) :
    o.objK y log = (o.raw y, log ++ [(y, o.raw y)]) := by
  simp [Obj.objK, Obj.objAt, Obj.evalB, h.K_id, h.noRange, h.pen0]

theorem shrinkAll_unc [Add R] [Sub R] [Mul R] {o : Obj (Pt R) E} (h : Unconstrained o) (c : Coef R) (x0 : Pt R) :
    ∀ (tl : List (Pt R × E)) (log : List (Pt R × E)),
      (shrinkAll o c id x0 tl log).1 = refShrink o.raw c x0 tl ∧
      (shrinkAll o c id x0 tl log).2.length = log.length + tl.length := by
  intro tl
  induction tl with
  | nil => intro log; simp [shrinkAll, refShrink]
  | cons p tl ih =>
    intro log
    obtain ⟨xj, ej⟩ := p
    simp only [shrinkAll, refShrink, objK_unc h, id]
    have := ih (log ++ [(shrinkPt c x0 xj, o.raw (shrinkPt c x0 xj))])
    refine ⟨by rw [this.1], ?_⟩
    rw [this.2]; simp; omega

theorem buildRows_unc {o : Obj (Pt R) E} (h : Unconstrained o) (x0 : Pt R) :
    ∀ (vs : List R) (k : Nat) (log : List (Pt R × E)),
      (buildRows o x0 vs k log).1 = refRows o.raw x0 vs k ∧
      (buildRows o x0 vs k log).2.length = log.length + vs.length := by
  intro vs
  induction vs with
  | nil => intro k log; simp [buildRows, refRows]
  | cons v vs ih =>
    intro k log
    simp only [buildRows, refRows, objK_unc h]
    have := ih (k + 1) (log ++ [(x0.set k v, o.raw (x0.set k v))])
    refine ⟨by rw [this.1], ?_⟩
    rw [this.2]; simp; omega

theorem refRows_length (f : Pt R → E) (x0 : Pt R) : ∀ (vs : List R) (k : Nat), (refRows f x0 vs k).length = vs.length := by
  intro vs
  induction vs with
  | nil => intro k; rfl
  | cons v vs ih => intro k; simp [refRows, ih]

/-- **the simplex update**: one `_Step` of mystic at generation >= 2 before the sort = one pass of the reference
loop body, branch by branch, with the same number of cost calls -/
theorem core_unc [Add R] [Sub R] [Mul R] [Div R] [LT E] [DecidableLT E] [LE E] [DecidableLE E]
    {o : Obj (Pt R) E} (h : Unconstrained o) (c : Coef R) (x0 : Pt R) (f0 : E) (tl : List (Pt R × E))
    (xw : Pt R) (fw fsw : E) (log : List (Pt R × E)) :
    (NM.core o c id x0 f0 tl xw fw fsw log).1 = (refCore o.raw c x0 f0 tl xw fw fsw).1 ∧
    (NM.core o c id x0 f0 tl xw fw fsw log).2.1.length = log.length + (refCore o.raw c x0 f0 tl xw fw fsw).2 := by
  unfold NM.core refCore
  simp only [objK_unc h, id]
  split_ifs <;>
    simp only [List.length_append, List.length_cons, List.length_nil, shrinkAll_unc h, and_self, true_and] <;>
    omega

theorem sortByE_nil [LT E] [DecidableLT E] : sortByE ([] : List (Pt R × E)) = [] := rfl
theorem sortByE_single [LT E] [DecidableLT E] (p : Pt R × E) : sortByE [p] = [p] := rfl

theorem sortByE_ne_nil [LT E] [DecidableLT E] : ∀ (l : List (Pt R × E)), l ≠ [] → sortByE l ≠ [] := by
  have hins : ∀ (p : Pt R × E) (l : List (Pt R × E)), insertByE p l ≠ [] := by
    intro p l; cases l with
    | nil => simp [insertByE]
    | cons q qs => unfold insertByE; split_ifs <;> simp
  have hfold : ∀ (l acc : List (Pt R × E)), acc ≠ [] → l.foldl (fun acc p => insertByE p acc) acc ≠ [] := by
    intro l
    induction l with
    | nil => intro acc h; exact h
    | cons a l ih => intro acc _; exact ih _ (hins a acc)
  intro l hl
  cases l with
  | nil => exact absurd rfl hl
  | cons a l => exact hfold l _ (hins a [])

/-- one whole `_Step` at generation >= 2 (update + sort): the simplex is the reference's next simplex and the
evaluation counter advanced by the reference's number of calls -/
theorem update_unc [Add R] [Sub R] [Mul R] [Div R] [LT E] [DecidableLT E] [LE E] [DecidableLE E]
    {o : Obj (Pt R) E} (h : Unconstrained o) (c : Coef R) (s : NM R E) :
    (NM.update o c id s).1.simplex = sortByE (refBody o.raw c s.simplex).1 ∧
    (NM.update o c id s).1.log.length = s.log.length + (refBody o.raw c s.simplex).2 := by
  unfold NM.update refBody
  cases hs : s.simplex with
  | nil => simp [hs, sortByE_nil]
  | cons p tl =>
    obtain ⟨x0, f0⟩ := p
    simp only [h.K_id]
    cases hl : ((x0, f0) :: tl).getLast? with
    | none => simp at hl
    | some w =>
      obtain ⟨xw, fw⟩ := w
      cases hl2 : ((x0, f0) :: tl).dropLast.getLast? with
      | none =>
        -- a single row: nothing happens on either side
        have : tl = [] := by
          cases tl with
          | nil => rfl
          | cons q qs => simp [List.dropLast] at hl2
        subst this
        simp [sortByE_single, hs]
      | some w2 =>
        obtain ⟨xs, fsw⟩ := w2
        simp only
        have hc := core_unc h c x0 f0 tl xw fw fsw s.log
        unfold NM.finish
        have hne : (NM.core o c id x0 f0 tl xw fw fsw s.log).1 ≠ [] := by
          rw [hc.1]; unfold refCore; simp only; split_ifs <;> simp
        cases hsort : sortByE (NM.core o c id x0 f0 tl xw fw fsw s.log).1 with
        | nil => exact absurd hsort (sortByE_ne_nil _ hne)
        | cons b rest =>
          simp only
          refine ⟨?_, hc.2⟩
          rw [← hsort, hc.1]

/-- generations 0 and 1 together = the reference's initial simplex (l.190-210), `N + 1` cost calls -/
theorem init_unc [LT E] [DecidableLT E] {o : Obj (Pt R) E} (h : Unconstrained o) (zero : R) (mkVal : Pt R → Pt R)
    (x0 : Pt R) :
    (NM.gen1 o id mkVal (NM.gen0 o zero x0)).simplex = sortByE ((x0, o.raw x0) :: refRows o.raw x0 (mkVal x0) 0) ∧
    (NM.gen1 o id mkVal (NM.gen0 o zero x0)).log.length = 1 + (refRows o.raw x0 (mkVal x0) 0).length := by
  unfold NM.gen1 NM.gen0
  simp only [h.K_id, objK_unc h, id, List.nil_append]
  have hb := buildRows_unc h x0 (mkVal x0) 0 [(x0, o.raw x0)]
  unfold NM.finish
  have hne : ((x0, o.raw x0) :: (buildRows o x0 (mkVal x0) 0 [(x0, o.raw x0)]).1) ≠ [] := by simp
  cases hsort : sortByE ((x0, o.raw x0) :: (buildRows o x0 (mkVal x0) 0 [(x0, o.raw x0)]).1) with
  | nil => exact absurd hsort (sortByE_ne_nil _ hne)
  | cons b rest =>
    simp only
    refine ⟨?_, ?_⟩
    · rw [← hsort, hb.1]
    · rw [hb.2, refRows_length]; simp

/-- the two loops: same stop tests at the same states, same updates -/
theorem loop_unc [Add R] [Sub R] [Mul R] [Div R] [LT E] [DecidableLT E] [LE E] [DecidableLE E]
    {o : Obj (Pt R) E} (h : Unconstrained o) (c : Coef R) (conv : List (Pt R × E) → Bool) (maxiter maxfun : Nat) :
    ∀ (fuel : Nat) (s : NM R E) (g : Nat),
      ((mysticLoop o c conv maxiter maxfun fuel s g).1.simplex,
       (mysticLoop o c conv maxiter maxfun fuel s g).1.log.length,
       (mysticLoop o c conv maxiter maxfun fuel s g).2)
        = refLoop o.raw c conv maxiter maxfun fuel s.simplex s.log.length g := by
  intro fuel
  induction fuel with
  | zero => intro s g; rfl
  | succ fuel ih =>
    intro s g
    unfold mysticLoop refLoop
    by_cases h1 : maxfun ≤ s.log.length
    · have : ¬ (s.log.length < maxfun ∧ g < maxiter) := by omega
      simp [nmStop, h1, this]
    · by_cases h2 : maxiter ≤ g
      · have : ¬ (s.log.length < maxfun ∧ g < maxiter) := by omega
        simp [nmStop, h2, this]
      · have h3 : s.log.length < maxfun ∧ g < maxiter := by omega
        cases hcv : conv s.simplex with
        | true => simp [nmStop, hcv, h3]
        | false =>
          simp only [nmStop, hcv, h1, h2, decide_false, Bool.or_self, Bool.false_eq_true, if_false, h3, and_self, if_true]
          have hu := update_unc h c s
          rw [ih, hu.1, hu.2]

end MysticVerif.Solver
