/- Helper definitions and lemmas for C13 / C14 over a linearly ordered field (model: Model/Emitted.lean). -/
import MysticVerif.Model.Emitted
import Mathlib.Tactic.Linarith
import Mathlib.Tactic.Ring
import Mathlib.Algebra.Order.Field.Basic

set_option linter.unusedSectionVars false
set_option linter.unnecessarySeqFocus false

namespace MysticVerif.Emitted

/-! ## what the constraint TEXT means -/

def Cmp.holds {R : Type} [LT R] [LE R] : Cmp → R → R → Prop
  | .eq, a, b => a = b
  | .le, a, b => a ≤ b
  | .ge, a, b => b ≤ a
  | .lt, a, b => a < b
  | .gt, a, b => b < a
  | .ne, a, b => a ≠ b

/-- comparators that need a strictly positive tolerance to be enforced -/
def Cmp.strict : Cmp → Bool
  | .lt | .gt | .ne => true
  | _ => false

variable {K : Type} [Field K] [LinearOrder K] [IsStrictOrderedRing K] {C : Type}

/-- the relation `x_i ⋈ rhs(x)` holds at `x` -/
def Rel.holds (env : Env C K) (r : Rel C) (x : List K) : Prop :=
  r.cmp.holds (x.getD r.i 0) (r.rhs.eval env x)

/-- `holds` with the margin the emitted code works with: strict comparators need `x_i ≤ rhs - tol(rhs)`
(resp. `≥ rhs + tol(rhs)`), `<=`/`>=` need the margin `tol(rhs) * B` where `B` is the boolean factor
of the statement (0 unless a `!=` line forbids the bound itself). `=` and `!=` : plain `holds`. -/
def Rel.margin (env : Env C K) (r : Rel C) (B : Expr C) (x : List K) : Prop :=
  match r.cmp with
  | .eq => x.getD r.i 0 = r.rhs.eval env x
  | .ne => x.getD r.i 0 ≠ r.rhs.eval env x
  | .lt => x.getD r.i 0 ≤ r.rhs.eval env x - tolf env (r.rhs.eval env x)
  | .gt => r.rhs.eval env x + tolf env (r.rhs.eval env x) ≤ x.getD r.i 0
  | .le => x.getD r.i 0 ≤ r.rhs.eval env x - tolf env (r.rhs.eval env x) * B.eval env x
  | .ge => r.rhs.eval env x + tolf env (r.rhs.eval env x) * B.eval env x ≤ x.getD r.i 0

/-! ## scalar lemmas -/

theorem absR_nonneg (a : K) : 0 ≤ absR a := by
  unfold absR; split <;> linarith

theorem absR_eq_zero {a : K} : absR a = 0 ↔ a = 0 := by
  unfold absR; split
  · constructor <;> intro h <;> linarith
  · exact Iff.rfl

theorem tolf_nonneg (env : Env C K) (ht : 0 ≤ env.tol) (hr : 0 ≤ env.rel) (a : K) : 0 ≤ tolf env a := by
  unfold tolf; have := mul_nonneg (absR_nonneg a) hr; linarith

theorem tolf_pos (env : Env C K) (ht : 0 < env.tol) (hr : 0 ≤ env.rel) (a : K) : 0 < tolf env a := by
  unfold tolf; have := mul_nonneg (absR_nonneg a) hr; linarith

theorem pyMin_le_left (a b : K) : pyMin a b ≤ a := by unfold pyMin; split <;> linarith
theorem pyMin_le_right (a b : K) : pyMin a b ≤ b := by
  unfold pyMin; split
  · exact le_refl _
  · rename_i h; exact not_lt.mp h
theorem pyMin_eq_right {a b : K} (h : b ≤ a) : pyMin a b = b := by
  unfold pyMin; split
  · rfl
  · rename_i h'; exact le_antisymm (not_lt.mp h') h
theorem le_pyMax_left (a b : K) : a ≤ pyMax a b := by unfold pyMax; split <;> linarith
theorem le_pyMax_right (a b : K) : b ≤ pyMax a b := by
  unfold pyMax; split
  · exact le_refl _
  · rename_i h; exact not_lt.mp h
theorem pyMax_eq_right {a b : K} (h : a ≤ b) : pyMax a b = b := by
  unfold pyMax; split
  · rfl
  · rename_i h'; exact le_antisymm h (not_lt.mp h')
theorem pyMin_cases (a b : K) : pyMin a b = a ∨ pyMin a b = b := by unfold pyMin; split <;> simp
theorem pyMax_cases (a b : K) : pyMax a b = a ∨ pyMax a b = b := by unfold pyMax; split <;> simp

theorem b2r_cases (b : Bool) : (b2r b : K) = 0 ∨ (b2r b : K) = 1 := by
  unfold b2r; cases b <;> simp

theorem isBool_eval (env : Env C K) (x : List K) : ∀ e : Expr C, e.isBool = true →
    e.eval env x = 0 ∨ e.eval env x = 1
  | .equal _ _, _ => b2r_cases _
  | .bor _ _, _ => b2r_cases _
  | .false_, _ => Or.inl rfl
  | .isZero _, _ => b2r_cases _
  | .num _, h | .var _, h | .add _ _, h | .sub _ _, h | .mul _ _, h | .div _ _, h | .neg _, h
  | .max _ _, h | .min _ _, h | .tol _, h | .abs _, h | .app1 _ _, h | .app2 _ _ _, h => by simp [Expr.isBool] at h

theorem isBool_eval_nonneg (env : Env C K) (x : List K) (e : Expr C) (h : e.isBool = true) :
    0 ≤ e.eval env x := by
  rcases isBool_eval env x e h with h | h <;> rw [h] <;> norm_num

/-! ## frame lemmas -/

theorem getD_set_ne (x : List K) (i j : Nat) (v : K) (h : j ≠ i) : (x.set i v).getD j 0 = x.getD j 0 := by
  simp [List.getD_eq_getElem?_getD, List.getElem?_set_ne (Ne.symm h)]

theorem getD_set_self (x : List K) (i : Nat) (v : K) (h : i < x.length) : (x.set i v).getD i 0 = v := by
  simp [List.getD_eq_getElem?_getD, h]

theorem set_getD_self (x : List K) (i : Nat) : x.set i (x.getD i 0) = x := by
  by_cases h : i < x.length
  · apply List.ext_getElem?
    intro j
    by_cases hj : j = i
    · subst hj; simp [List.getD_eq_getElem?_getD, h]
    · rw [List.getElem?_set_ne (Ne.symm hj)]
  · rw [List.set_eq_of_length_le (not_lt.mp h)]

theorem eval_set_of_not_mentions (env : Env C K) (x : List K) (i : Nat) (v : K) :
    ∀ e : Expr C, e.mentions i = false → e.eval env (x.set i v) = e.eval env x := by
  intro e
  induction e with
  | num c => intro _; rfl
  | var j =>
    intro h
    have : j ≠ i := by simpa [Expr.mentions] using h
    simp only [Expr.eval]; exact getD_set_ne x i j v this
  | add a b iha ihb | sub a b iha ihb | mul a b iha ihb | div a b iha ihb | max a b iha ihb
  | min a b iha ihb | equal a b iha ihb | bor a b iha ihb | app2 f a b iha ihb =>
    intro h
    simp only [Expr.mentions, Bool.or_eq_false_iff] at h
    simp only [Expr.eval, iha h.1, ihb h.2]
  | neg a iha | tol a iha | isZero a iha | abs a iha | app1 f a iha =>
    intro h
    simp only [Expr.mentions] at h
    simp only [Expr.eval, iha h]
  | false_ => intro _; rfl

/-- two vectors that agree on every coordinate an expression reads give the same value -/
theorem eval_congr (env : Env C K) (x y : List K) :
    ∀ e : Expr C, (∀ j, e.mentions j = true → y.getD j 0 = x.getD j 0) → e.eval env y = e.eval env x := by
  intro e
  induction e with
  | num c => intro _; rfl
  | var j => intro h; simp only [Expr.eval]; exact h j (by simp [Expr.mentions])
  | add a b iha ihb | sub a b iha ihb | mul a b iha ihb | div a b iha ihb | max a b iha ihb
  | min a b iha ihb | equal a b iha ihb | bor a b iha ihb | app2 f a b iha ihb =>
    intro h
    have ha := iha (fun j hj => h j (by simp [Expr.mentions, hj]))
    have hb := ihb (fun j hj => h j (by simp [Expr.mentions, hj]))
    simp only [Expr.eval, ha, hb]
  | neg a iha | tol a iha | isZero a iha | abs a iha | app1 f a iha =>
    intro h
    have ha := iha (fun j hj => h j (by simpa [Expr.mentions] using hj))
    simp only [Expr.eval, ha]
  | false_ => intro _; rfl

theorem exec_length (env : Env C K) (a : Assign C) (x : List K) : (a.exec env x).length = x.length := by
  simp [Assign.exec]

theorem exec_getD_ne (env : Env C K) (a : Assign C) (x : List K) (j : Nat) (h : j ≠ a.i) :
    (a.exec env x).getD j 0 = x.getD j 0 := getD_set_ne x a.i j _ h

theorem exec_getD_self (env : Env C K) (a : Assign C) (x : List K) (h : a.i < x.length) :
    (a.exec env x).getD a.i 0 = a.e.eval env x := getD_set_self x a.i _ h

theorem chain_length (env : Env C K) (codes : List (Assign C)) (x : List K) :
    (chain env codes x).length = x.length := by
  induction codes with
  | nil => rfl
  | cons c cs ih => simp only [chain, List.foldr] at ih ⊢; rw [exec_length]; exact ih

theorem chain_cons (env : Env C K) (c : Assign C) (cs : List (Assign C)) (x : List K) :
    chain env (c :: cs) x = c.exec env (chain env cs x) := rfl

/-! ## recognise -/

theorem recognise_spec [DecidableEq C] {isPos : C → Bool} {d : C} {r : Rel C} {code : Assign C}
    (h : recognise isPos d r code = true) :
    code = emitG r code.factor (code.scale d) ∧
      ((r.cmp = .le ∨ r.cmp = .ge) → code.factor.isBool = true) ∧
      (r.cmp = .ne → isPos (code.scale d) = true) := by
  unfold recognise at h
  simp only [Bool.and_eq_true, decide_eq_true_eq] at h
  refine ⟨h.1, ?_, ?_⟩
  · intro hc; have h2 := h.2; rcases hc with hc | hc <;> simp only [hc] at h2 <;> exact h2
  · intro hc; have h2 := h.2; simp only [hc] at h2; exact h2

theorem recognise_i [DecidableEq C] {isPos : C → Bool} {d : C} {r : Rel C} {code : Assign C}
    (h : recognise isPos d r code = true) : code.i = r.i := by
  have := (recognise_spec h).1
  rw [this]; unfold emitG; cases r.cmp <;> rfl

end MysticVerif.Emitted

/-! ## C14: conditions and penalties -/

namespace MysticVerif.Emitted

variable {K : Type} [Field K] [LinearOrder K] [IsStrictOrderedRing K] {C : Type}

/-- the relation `lhs ⋈ rhs` of the text holds at `x` -/
def Rel2.holds (env : Env C K) (r : Rel2 C) (x : List K) : Prop :=
  r.cmp.holds (r.lhs.eval env x) (r.rhs.eval env x)

/-- `holds` with the tolerance margin of strict comparators (`lhs ≤ rhs - tol(rhs)`, `lhs ≥ rhs + tol(rhs)`) -/
def Rel2.margin (env : Env C K) (r : Rel2 C) (x : List K) : Prop :=
  match r.cmp with
  | .lt => r.lhs.eval env x ≤ r.rhs.eval env x - tolf env (r.rhs.eval env x)
  | .gt => r.rhs.eval env x + tolf env (r.rhs.eval env x) ≤ r.lhs.eval env x
  | _ => r.holds env x

/-- when a condition value counts as "satisfied" (penalty.py: `f(x) <= 0` resp. `f(x) == 0`) -/
def Kind.satisfied : Kind → K → Prop
  | .ineq, v => v ≤ 0
  | .eq, v => v = 0

theorem pyMax_zero_eq_zero {c : K} : pyMax 0 c = 0 ↔ c ≤ 0 := by
  unfold pyMax; split
  · rename_i h; constructor <;> intro h' <;> linarith
  · rename_i h; simp [not_lt.mp h]

theorem pyMax_zero_nonneg (c : K) : 0 ≤ pyMax 0 c := le_pyMax_left 0 c

theorem term_nonneg (t : PType) {k' : K} (hk : 0 < k') (c : K) : 0 ≤ t.term k' c := by
  cases t <;> simp only [PType.term]
  · exact mul_nonneg hk.le (mul_self_nonneg c)
  · exact mul_nonneg hk.le (absR_nonneg c)
  · split <;> linarith
  · exact mul_nonneg (by linarith) (mul_self_nonneg _)
  · exact mul_nonneg (by linarith) (absR_nonneg _)
  · split <;> linarith

theorem term_eq_zero_iff (t : PType) {k' : K} (hk : 0 < k') (c : K) :
    t.term k' c = 0 ↔ t.kind.satisfied c := by
  have hk2 : k' + k' ≠ 0 := by linarith
  cases t <;> simp only [PType.term, PType.kind, Kind.satisfied]
  · rw [mul_eq_zero, mul_self_eq_zero]; constructor
    · rintro (h | h); exact absurd h hk.ne'; exact h
    · exact Or.inr
  · rw [mul_eq_zero, absR_eq_zero]; constructor
    · rintro (h | h); exact absurd h hk.ne'; exact h
    · exact Or.inr
  · by_cases h : c = 0
    · simp [h]
    · simp [h, hk.ne']
  · rw [mul_eq_zero, mul_self_eq_zero, pyMax_zero_eq_zero]; constructor
    · rintro (h | h); exact absurd h hk2; exact h
    · exact Or.inr
  · rw [mul_eq_zero, absR_eq_zero, pyMax_zero_eq_zero]; constructor
    · rintro (h | h); exact absurd h hk2; exact h
    · exact Or.inr
  · by_cases h : 0 < c
    · simp [h, hk.ne', not_le.mpr h]
    · simp [h, not_lt.mp h]

end MysticVerif.Emitted
