/- mystic's staged Powell machine refines the reference direction-set loop (used by Props/C08) -/
import MysticVerif.Model.Powell
import Mathlib.Tactic.SplitIfs
import Mathlib.Order.Basic
import Mathlib.Order.Lattice

namespace MysticVerif.Powell
open MysticVerif.Solver

variable {R E : Type}

/-! ### what the direction loop leaves alone -/

theorem dirLoop_frame [Sub E] [LT E] [DecidableLT E] (ls : Pt R → Pt R → LsOut R E) :
    ∀ (ds : List (Pt R)) (i : Nat) (s : St R E),
      (dirLoop ls ds i s).fx = s.fx ∧ (dirLoop ls ds i s).iter = s.iter ∧ (dirLoop ls ds i s).x1 = s.x1 ∧
      (dirLoop ls ds i s).direc = s.direc ∧ (dirLoop ls ds i s).exts = s.exts := by
  intro ds
  induction ds with
  | nil => intro i s; exact ⟨rfl, rfl, rfl, rfl, rfl⟩
  | cons d ds ih =>
    intro i s
    simp only [dirLoop]
    exact ih (i + 1) (dirStep ls d i s)

theorem sweep_fx [Sub E] [LT E] [DecidableLT E] (c : Cfg R E) (s : St R E) : (sweep c s).fx = s.fval := by
  unfold sweep
  simp only
  exact (dirLoop_frame c.ls s.direc 0 _).1

theorem sweep_iter [Sub E] [LT E] [DecidableLT E] (c : Cfg R E) (s : St R E) : (sweep c s).iter = s.iter + 1 := rfl

theorem extrapolate_iter [Sub R] [Mul R] [Add E] [Sub E] [Mul E] [LT E] [DecidableLT E] (c : Cfg R E) (s : St R E) :
    (extrapolate c s).iter = s.iter := by
  unfold extrapolate
  simp only
  split_ifs <;> rfl

/-- `bigind` is either untouched or the index of one of the directions just searched -/
theorem dirLoop_bigind [Sub E] [LT E] [DecidableLT E] (ls : Pt R → Pt R → LsOut R E) :
    ∀ (ds : List (Pt R)) (i : Nat) (s : St R E),
      (dirLoop ls ds i s).bigind = s.bigind ∨
      (i ≤ (dirLoop ls ds i s).bigind ∧ (dirLoop ls ds i s).bigind < i + ds.length) := by
  intro ds
  induction ds with
  | nil => intro i s; exact Or.inl rfl
  | cons d ds ih =>
    intro i s
    simp only [dirLoop, List.length_cons]
    rcases ih (i + 1) (dirStep ls d i s) with h1 | h1
    · rw [h1]
      unfold dirStep
      simp only
      split_ifs
      · right; omega
      · left; rfl
    · right; omega

/-- the decreases `fx2 - fval` the direction loop sees, in order -/
def decs [Sub E] [LT E] [DecidableLT E] (ls : Pt R → Pt R → LsOut R E) : List (Pt R) → Nat → St R E → List E
  | [], _, _ => []
  | d :: ds, i, s => (s.fval - (ls s.x d).fret) :: decs ls ds (i + 1) (dirStep ls d i s)

/-- `delta` ends as the largest of its start value and all decreases; `bigind` is untouched when no decrease
exceeded the start value, otherwise it is the FIRST index at which the largest decrease occurred -/
theorem dirLoop_delta [Sub E] [LinearOrder E] (ls : Pt R → Pt R → LsOut R E) :
    ∀ (ds : List (Pt R)) (i : Nat) (s : St R E),
      s.delta ≤ (dirLoop ls ds i s).delta ∧ (∀ e ∈ decs ls ds i s, e ≤ (dirLoop ls ds i s).delta) ∧
      (((dirLoop ls ds i s).delta = s.delta ∧ (dirLoop ls ds i s).bigind = s.bigind) ∨
       ∃ k, (decs ls ds i s)[k]? = some (dirLoop ls ds i s).delta ∧ (dirLoop ls ds i s).bigind = i + k ∧
            s.delta < (dirLoop ls ds i s).delta ∧
            ∀ j, j < k → ∀ e, (decs ls ds i s)[j]? = some e → e < (dirLoop ls ds i s).delta) := by
  intro ds
  induction ds with
  | nil => intro i s; exact ⟨le_refl _, by simp [decs], Or.inl ⟨rfl, rfl⟩⟩
  | cons d ds ih =>
    intro i s
    simp only [dirLoop, decs]
    obtain ⟨h1, h2, h3⟩ := ih (i + 1) (dirStep ls d i s)
    have hd1 : s.delta ≤ (dirStep ls d i s).delta := by
      unfold dirStep; simp only; split_ifs with h
      · exact le_of_lt h
      · exact le_refl _
    have hd2 : s.fval - (ls s.x d).fret ≤ (dirStep ls d i s).delta := by
      unfold dirStep; simp only; split_ifs with h
      · exact le_refl _
      · exact not_lt.mp h
    refine ⟨le_trans hd1 h1, ?_, ?_⟩
    · intro e he
      rcases List.mem_cons.mp he with rfl | he
      · exact le_trans hd2 h1
      · exact h2 e he
    · rcases h3 with ⟨ha, hb⟩ | ⟨k, hk1, hk2, hk3, hk4⟩
      · by_cases h : s.delta < s.fval - (ls s.x d).fret
        · right
          refine ⟨0, ?_, ?_, ?_, ?_⟩
          · rw [ha]; unfold dirStep; simp [h]
          · rw [hb]; unfold dirStep; simp [h]
          · rw [ha]; unfold dirStep; simp only [h, if_true]
          · intro j hj; omega
        · left
          refine ⟨?_, ?_⟩
          · rw [ha]; unfold dirStep; simp [h]
          · rw [hb]; unfold dirStep; simp [h]
      · right
        refine ⟨k + 1, ?_, ?_, lt_of_le_of_lt hd1 hk3, ?_⟩
        · simpa using hk1
        · rw [hk2]; omega
        · intro j hj e he
          cases j with
          | zero =>
            simp only [List.getElem?_cons_zero, Option.some.injEq] at he
            subst he
            exact lt_of_le_of_lt hd2 hk3
          | succ j =>
            simp only [List.getElem?_cons_succ] at he
            exact hk4 j (by omega) e he

/-! ### the stop tests coincide from the second iteration on -/

/-- the invariant between two `Step`s of mystic from generation 1 on: one history entry per iteration plus the
initial one -/
def MInv (m : MSt R E) : Prop := m.hist.length = m.s.iter + 1 ∧ 1 ≤ m.s.iter

theorem mGenN_inv [Sub R] [Mul R] [Add E] [Sub E] [Mul E] [LT E] [DecidableLT E] (c : Cfg R E) (m : MSt R E)
    (h : MInv m) : MInv (mGenN c m) := by
  unfold MInv mGenN at *
  simp only [List.length_append, List.length_dropLast, List.length_cons, List.length_nil, sweep_iter, extrapolate_iter]
  omega

theorem mStop_eq_refStop [Sub R] [Mul R] [Add E] [Sub E] [Mul E] [LT E] [DecidableLT E] (c : Cfg R E) (m : MSt R E)
    (h : MInv m) : mStop c (mGenN c m) = refStop c (mGenN c m).s := by
  have hinv := mGenN_inv c m h
  unfold mStop refStop
  have hl : (mGenN c m).hist.length - 1 = (mGenN c m).s.iter := by
    have ha : (mGenN c m).hist.length = (mGenN c m).s.iter + 1 := hinv.1
    omega
  rw [hl]
  have hn : ncog2 c.conv (mGenN c m).hist = c.conv (mGenN c m).s.fx (mGenN c m).s.fval := by
    unfold ncog2
    have h3 : ¬ (mGenN c m).hist.length ≤ 2 := by
      have ha : (mGenN c m).hist.length = (mGenN c m).s.iter + 1 := hinv.1
      have hd : 1 ≤ m.s.iter := h.2
      have hi : (mGenN c m).s.iter = m.s.iter + 1 := by
        unfold mGenN; simp only [sweep_iter, extrapolate_iter]
      omega
    rw [if_neg h3]
    unfold mGenN
    simp only [List.reverse_append, List.reverse_cons, List.reverse_nil, List.nil_append, List.cons_append, sweep_fx]
  rw [hn]
  cases c.conv (mGenN c m).s.fx (mGenN c m).s.fval <;>
    cases decide (c.maxfun ≤ (mGenN c m).s.fcalls) <;>
    cases decide (c.maxiter ≤ (mGenN c m).s.iter) <;> rfl

/-- from generation 2 on the two programs are the same loop -/
theorem mLoop_eq_refLoop [Sub R] [Mul R] [Add E] [Sub E] [Mul E] [LT E] [DecidableLT E] (c : Cfg R E) :
    ∀ (fuel : Nat) (m : MSt R E), MInv m → mLoop c fuel (mGenN c m) = refLoop c fuel (extrapolate c m.s) := by
  intro fuel
  induction fuel with
  | zero => intro m _; rfl
  | succ fuel ih =>
    intro m h
    unfold mLoop refLoop
    have hs : (mGenN c m).s = sweep c (extrapolate c m.s) := rfl
    rw [mStop_eq_refStop c m h, hs]
    split_ifs
    · rfl
    · rw [← hs]; exact ih (mGenN c m) (mGenN_inv c m h)

end MysticVerif.Powell
