/-
Lemmas about the bounds-collapse model (Model/CollapseCost.lean): the interval algebra of
`tools._interval_intersection` over a linear order, and the mask step of `collapse_cost`.
-/
import MysticVerif.Model.CollapseCost
import Mathlib.Order.Basic
import Mathlib.Order.Lattice
import Mathlib.Order.MinMax
import Mathlib.Tactic.Linarith

namespace MysticVerif.Clps

section lin
variable {K : Type} [LinearOrder K]

theorem pyMax_eq (a b : K) : pyMax a b = max a b := by
  unfold pyMax
  split
  · next h => exact (max_eq_right (le_of_lt h)).symm
  · next h => exact (max_eq_left (not_lt.mp h)).symm

theorem pyMin_eq (a b : K) : pyMin a b = min a b := by
  unfold pyMin
  split
  · next h => exact (min_eq_right (le_of_lt h)).symm
  · next h => exact (min_eq_left (not_lt.mp h)).symm

/-- membership in one row of `_interval_intersection` -/
theorem mem_ivRow (b : K × K) (B : Ivs K) (r : K × K) :
    r ∈ ivRow b B ↔ ∃ c ∈ B, r = (max b.1 c.1, min b.2 c.2) ∧ max b.1 c.1 < min b.2 c.2 := by
  unfold ivRow
  simp only [List.mem_filterMap, pyMax_eq, pyMin_eq]
  constructor
  · rintro ⟨c, hc, h⟩
    split at h
    · next hlt => exact ⟨c, hc, (Option.some.inj h).symm, hlt⟩
    · exact absurd h (by simp)
  · rintro ⟨c, hc, rfl, hlt⟩
    exact ⟨c, hc, by simp [hlt]⟩

/-- membership in `_interval_intersection(A, B)` for non-empty `A`, `B` -/
theorem mem_ivInter (A B : Ivs K) (hA : A ≠ []) (hB : B ≠ []) (r : K × K) :
    r ∈ ivInter A B ↔ ∃ a ∈ A, ∃ c ∈ B, r = (max a.1 c.1, min a.2 c.2) ∧ max a.1 c.1 < min a.2 c.2 := by
  unfold ivInter
  have h1 : B.isEmpty = false := by cases B <;> simp_all
  have h2 : A.isEmpty = false := by cases A <;> simp_all
  simp only [h1, h2, Bool.false_eq_true, if_false, List.mem_flatMap, mem_ivRow]

/-- an interval list in which every interval lies at or after the end of `b` (or `b` is after it) gives an empty row -/
theorem ivRow_eq_nil (b : K × K) (B : Ivs K) (h : ∀ c ∈ B, b.2 ≤ c.1 ∨ c.2 ≤ b.1) : ivRow b B = [] := by
  unfold ivRow
  rw [List.filterMap_eq_nil_iff]
  intro c hc
  rw [pyMax_eq, pyMin_eq]
  have : ¬ (max b.1 c.1 < min b.2 c.2) := by
    intro hlt
    rcases h c hc with h' | h'
    · exact absurd (lt_of_lt_of_le (lt_of_le_of_lt (le_max_right _ _) hlt) (min_le_left _ _)) (not_lt.mpr h')
    · exact absurd (lt_of_lt_of_le (lt_of_le_of_lt (le_max_left _ _) hlt) (min_le_right _ _)) (not_lt.mpr h')
  simp [this]

theorem ivRow_cons (b c : K × K) (B : Ivs K) :
    ivRow b (c :: B) = (if max b.1 c.1 < min b.2 c.2 then [(max b.1 c.1, min b.2 c.2)] else []) ++ ivRow b B := by
  unfold ivRow
  rw [List.filterMap_cons, pyMax_eq, pyMin_eq]
  split <;> simp_all

/-- `chainOrd` unfolded: non-degenerate intervals, each before every later one -/
theorem chainOrd_cons (a : K × K) (R : Ivs K) (h : chainOrd (a :: R) = true) :
    a.1 < a.2 ∧ chainOrd R = true ∧ ∀ c ∈ R, a.2 ≤ c.1 ∧ c.1 < c.2 := by
  induction R generalizing a with
  | nil => simp_all [chainOrd]
  | cons b R ih =>
    simp only [chainOrd, Bool.and_eq_true, decide_eq_true_eq] at h
    obtain ⟨⟨h1, h2⟩, h3⟩ := h
    obtain ⟨hb, hR, hall⟩ := ih b h3
    refine ⟨h1, h3, ?_⟩
    intro c hc
    rcases List.mem_cons.mp hc with rfl | hc
    · exact ⟨h2, hb⟩
    · exact ⟨le_trans h2 (le_trans (le_of_lt hb) (hall c hc).1), (hall c hc).2⟩

/-- rows of a chain-ordered list against itself: only the diagonal survives -/
theorem flatMap_ivRow_chain (R : Ivs K) (hR : chainOrd R = true) (P : Ivs K)
    (hP : ∀ p ∈ P, ∀ c ∈ R, p.2 ≤ c.1) :
    R.flatMap (fun b => ivRow b (P ++ R)) = R := by
  induction R generalizing P with
  | nil => rfl
  | cons a R ih =>
    obtain ⟨ha, hR', hall⟩ := chainOrd_cons a R hR
    rw [List.flatMap_cons]
    have hrow : ivRow a (P ++ a :: R) = [a] := by
      have e1 : ivRow a (P ++ a :: R) = ivRow a P ++ ivRow a (a :: R) := by
        unfold ivRow; rw [List.filterMap_append]
      rw [e1, ivRow_eq_nil a P (fun p hp => Or.inr (hP p hp a (List.mem_cons_self ..))), ivRow_cons,
        ivRow_eq_nil a R (fun c hc => Or.inl (hall c hc).1)]
      simp [ha]
    rw [hrow]
    have hrest := ih hR' (P ++ [a]) (by
      intro p hp c hc
      rcases List.mem_append.mp hp with hp | hp
      · exact hP p hp c (List.mem_cons_of_mem _ hc)
      · rw [List.mem_singleton] at hp; subst hp; exact (hall c hc).1)
    rw [List.append_assoc, List.singleton_append] at hrest
    rw [hrest]
    rfl

/-- `_interval_intersection(R, R) = R` for a chain-ordered `R` -/
theorem ivInter_self_of_chain (R : Ivs K) (hR : chainOrd R = true) : ivInter R R = R := by
  unfold ivInter
  cases R with
  | nil => rfl
  | cons a R =>
    simp only [List.isEmpty_cons, Bool.false_eq_true, if_false]
    have := flatMap_ivRow_chain (a :: R) hR [] (by simp)
    simpa using this

theorem eqS_self (a : K) : eqS a a = true := by simp [eqS]

theorem ivsEq_self (R : Ivs K) : ivsEq R R = true := by
  induction R with
  | nil => rfl
  | cons a R ih => simp [ivsEq, eqS_self, ih]

/-- in a dict with duplicate-free keys every entry is what the lookup of its key finds -/
theorem bLookup_of_mem (R : BDict K) (hnd : (R.map (·.1)).Nodup) (kv : Option Int × Ivs K) (h : kv ∈ R) :
    bLookup R kv.1 = some kv.2 := by
  induction R with
  | nil => cases h
  | cons a R ih =>
    simp only [List.map_cons, List.nodup_cons] at hnd
    rcases List.mem_cons.mp h with rfl | h'
    · simp [bLookup, List.find?]
    · have hne : (a.1 == kv.1) = false := by
        rw [beq_eq_false_iff_ne]
        intro e
        exact hnd.1 (e ▸ List.mem_map_of_mem h')
      have := ih hnd.2 h'
      unfold bLookup at this ⊢
      rw [List.find?_cons, hne]
      exact this

theorem filterMap_eq_self {α : Type} (l : List α) (f : α → Option α) (h : ∀ a ∈ l, f a = some a) :
    l.filterMap f = l := by
  induction l with
  | nil => rfl
  | cons a l ih =>
    rw [List.filterMap_cons, h a (List.mem_cons_self ..)]
    simp only
    rw [ih (fun b hb => h b (List.mem_cons_of_mem _ hb))]

/-- `interval_overlap(R, R) = R` when the keys are duplicate free and every value is a non-empty chain-ordered list -/
theorem overlap_self (R : BDict K) (hnd : (R.map (·.1)).Nodup)
    (hch : ∀ kv ∈ R, chainOrd kv.2 = true ∧ kv.2 ≠ []) : overlap R R = R := by
  unfold overlap
  refine (congrArg₂ (· ++ ·) ?_ ?_).trans (List.append_nil R)
  · apply filterMap_eq_self
    intro kv hkv
    rw [bLookup_of_mem R hnd kv hkv]
    simp only
    rw [ivInter_self_of_chain kv.2 (hch kv hkv).1]
    have : kv.2.isEmpty = false := by
      cases h : kv.2 with
      | nil => exact absurd h (hch kv hkv).2
      | cons _ _ => rfl
    simp [this]
  · rw [List.filter_eq_nil_iff]
    intro kv hkv
    rw [bLookup_of_mem R hnd kv hkv]
    simp

theorem bdictEq_self (R : BDict K) (hnd : (R.map (·.1)).Nodup) : bdictEq R R = true := by
  unfold bdictEq
  simp only [beq_self_eq_true, Bool.true_and, List.all_eq_true]
  intro kv hkv
  rw [bLookup_of_mem R hnd kv hkv]
  exact ivsEq_self kv.2

/-- the mask step of `collapse_cost` (l.324-333) with the results themselves as mask gives `{}` -/
theorem costMaskStep_self (R : BDict K) (hnd : (R.map (·.1)).Nodup)
    (hch : ∀ kv ∈ R, chainOrd kv.2 = true ∧ kv.2 ≠ []) : costMaskStep R (some R) = [] := by
  unfold costMaskStep
  simp only
  rw [overlap_self R hnd hch]
  have : R.map (fun kv => if kv.2.isEmpty = true then (kv.1, (bLookup R kv.1).getD []) else kv) = R := by
    conv_rhs => rw [← List.map_id R]
    apply List.map_congr_left
    intro kv hkv
    have : kv.2.isEmpty = false := by
      cases h : kv.2 with
      | nil => exact absurd h (hch kv hkv).2
      | cons _ _ => rfl
    simp [this]
  rw [this, bdictEq_self R hnd]
  rfl

end lin

end MysticVerif.Clps
