/-
Helper lemmas for C10 (termination conditions): the `stop` dict of the compound conditions,
structural facts about `evalB / info`, the leaves of a condition tree.  No Mathlib needed here.
-/
import MysticVerif.Model.Termination
import Mathlib.Tactic.Linarith
import Mathlib.Algebra.Order.Ring.Abs
import Mathlib.Algebra.Order.BigOperators.Group.List

namespace MysticVerif.Term

variable {R : Type}

/-! ### the `stop` dict -/

def dictKeys {V : Type} (d : List (Cond R × Nat × V)) : List (Cond R) := d.map (fun e => e.1)

theorem dictSet_fresh {V : Type} (d : List (Cond R × Nat × V)) (k : Cond R) (i : Nat) (x : V)
    (h : ∀ e ∈ d, Cond.keyEq e.1 k = false) : dictSet d k i x = d ++ [(k, i, x)] := by
  induction d with
  | nil => rfl
  | cons e rest ih =>
    have he : Cond.keyEq e.1 k = false := h e (by simp)
    simp only [dictSet, he, Bool.false_eq_true, if_false, List.cons_append]
    rw [ih (fun e' he' => h e' (by simp [he']))]

/-- values of the dict are always values that were put in (collisions only drop values) -/
theorem dictSet_vals_sub {V : Type} (d : List (Cond R × Nat × V)) (k : Cond R) (i : Nat) (x : V) :
    ∀ y ∈ dictVals (dictSet d k i x), y ∈ dictVals d ∨ y = x := by
  induction d with
  | nil => intro y hy; simp [dictSet, dictVals] at hy; exact Or.inr hy
  | cons e rest ih =>
    intro y hy
    unfold dictSet at hy
    split at hy
    · simp only [dictVals, List.map_cons, List.mem_cons] at hy ⊢
      rcases hy with h | h
      · exact Or.inr h
      · exact Or.inl (Or.inr h)
    · simp only [dictVals, List.map_cons, List.mem_cons] at hy ⊢
      rcases hy with h | h
      · exact Or.inl (Or.inl h)
      · rcases ih y (by simpa [dictVals] using h) with h' | h'
        · exact Or.inl (Or.inr (by simpa [dictVals] using h'))
        · exact Or.inr h'

theorem mkDict_vals_sub {V : Type} : ∀ (cs : List (Cond R)) (xs : List V) (i : Nat) (d : List (Cond R × Nat × V)),
    ∀ y ∈ dictVals (mkDict cs xs i d), y ∈ dictVals d ∨ y ∈ xs
  | [], _, _, _ => fun y hy => by simp [mkDict] at hy; exact Or.inl hy
  | _ :: _, [], _, _ => fun y hy => by simp [mkDict] at hy; exact Or.inl hy
  | c :: cs, x :: xs, i, d => fun y hy => by
    simp only [mkDict] at hy
    rcases mkDict_vals_sub cs xs (i + 1) (dictSet d c i x) y hy with h | h
    · rcases dictSet_vals_sub d c i x y h with h' | h'
      · exact Or.inl h'
      · exact Or.inr (by simp [h'])
    · exact Or.inr (by simp [h])

/-- without colliding keys the dict is the member list zipped with the values -/
theorem mkDict_vals_of_pairwise {V : Type} : ∀ (cs : List (Cond R)) (xs : List V) (i : Nat) (d : List (Cond R × Nat × V)),
    cs.length = xs.length → cs.Pairwise (fun a b => Cond.keyEq a b = false) →
    (∀ e ∈ d, ∀ c ∈ cs, Cond.keyEq e.1 c = false) →
    dictVals (mkDict cs xs i d) = dictVals d ++ xs
  | [], [], _, d, _, _, _ => by simp [mkDict]
  | [], _ :: _, _, _, h, _, _ => by simp at h
  | _ :: _, [], _, _, h, _, _ => by simp at h
  | c :: cs, x :: xs, i, d, hl, hp, hd => by
    simp only [mkDict]
    rw [List.pairwise_cons] at hp
    have hfresh : dictSet d c i x = d ++ [(c, i, x)] :=
      dictSet_fresh d c i x (fun e he => hd e he c (by simp))
    rw [hfresh, mkDict_vals_of_pairwise cs xs (i + 1) (d ++ [(c, i, x)]) (by simpa using hl) hp.2]
    · simp [dictVals]
    · intro e he c' hc'
      rcases List.mem_append.mp he with h | h
      · exact hd e h c' (by simp [hc'])
      · simp only [List.mem_singleton] at h
        subst h
        exact hp.1 c' hc'

theorem dedupAtoms_mem (a : Atom) : ∀ l : List Atom, a ∈ dedupAtoms l ↔ a ∈ l
  | [] => by simp [dedupAtoms]
  | b :: l => by
    unfold dedupAtoms
    split
    · rename_i hb
      rw [dedupAtoms_mem a l]
      constructor
      · exact fun h => List.mem_cons_of_mem _ h
      · intro h
        rcases List.mem_cons.mp h with h | h
        · subst h; exact (dedupAtoms_mem a l).mp hb
        · exact h
    · simp only [List.mem_cons, dedupAtoms_mem a l]

theorem dedupAtoms_ne_nil (l : List Atom) : dedupAtoms l ≠ [] ↔ l ≠ [] := by
  constructor
  · intro h hl; subst hl; exact h rfl
  · intro h
    cases l with
    | nil => exact absurd rfl h
    | cons a l =>
      intro hn
      have : a ∈ dedupAtoms (a :: l) := (dedupAtoms_mem a _).mpr (by simp)
      rw [hn] at this; simp at this


/-! ### trees without colliding sibling keys, leaves -/

mutual
/-- no compound in the tree has two members whose dict keys are equal -/
def Cond.Distinct : Cond R → Prop
  | .prim _ _ _ => True
  | .node _ cs => cs.Pairwise (fun a b => Cond.keyEq a b = false) ∧ Cond.DistinctL cs
def Cond.DistinctL : List (Cond R) → Prop
  | [] => True
  | c :: cs => Cond.Distinct c ∧ Cond.DistinctL cs
end

theorem Cond.DistinctL_iff (cs : List (Cond R)) : Cond.DistinctL cs ↔ ∀ c ∈ cs, Cond.Distinct c := by
  induction cs with
  | nil => simp [Cond.DistinctL]
  | cons c cs ih => simp [Cond.DistinctL, ih]

mutual
/-- no `all`-aggregated compound (When / And) in the tree is empty -/
def Cond.NoEmptyAll : Cond R → Prop
  | .prim _ _ _ => True
  | .node k cs => (k.isAll = true → cs ≠ []) ∧ Cond.NoEmptyAllL cs
def Cond.NoEmptyAllL : List (Cond R) → Prop
  | [] => True
  | c :: cs => Cond.NoEmptyAll c ∧ Cond.NoEmptyAllL cs
end

theorem Cond.NoEmptyAllL_iff (cs : List (Cond R)) : Cond.NoEmptyAllL cs ↔ ∀ c ∈ cs, Cond.NoEmptyAll c := by
  induction cs with
  | nil => simp [Cond.NoEmptyAllL]
  | cons c cs ih => simp [Cond.NoEmptyAllL, ih]

mutual
/-- the primitives of a tree: `(doc id, primitive)` -/
def Cond.leaves : Cond R → List (Nat × Prim R)
  | .prim _ d p => [(d, p)]
  | .node _ cs => Cond.leavesL cs
def Cond.leavesL : List (Cond R) → List (Nat × Prim R)
  | [] => []
  | c :: cs => Cond.leaves c ++ Cond.leavesL cs
end

theorem Cond.mem_leavesL {x : Nat × Prim R} : ∀ {cs : List (Cond R)}, x ∈ Cond.leavesL cs ↔ ∃ c ∈ cs, x ∈ Cond.leaves c
  | [] => by simp [Cond.leavesL]
  | c :: cs => by simp [Cond.leavesL, Cond.mem_leavesL (cs := cs)]

/-! ### expressions as written -/

def Expr.isPrim : Expr R → Bool
  | .prim _ _ _ => true
  | _ => false

mutual
/-- every single-argument compound wraps a PRIMITIVE (a single compound argument is unpacked by `__new__`:
`when_or_unpacked_witness`) -/
def Expr.Plain : Expr R → Prop
  | .prim _ _ _ => True
  | .when e => e.isPrim = true
  | .and es => (∀ e, es = [e] → e.isPrim = true) ∧ Expr.PlainL es
  | .or es => (∀ e, es = [e] → e.isPrim = true) ∧ Expr.PlainL es
def Expr.PlainL : List (Expr R) → Prop
  | [] => True
  | e :: es => Expr.Plain e ∧ Expr.PlainL es
end

section Eval
variable [Add R] [Sub R] [Mul R] [Div R] [Neg R] [LT R] [DecidableLT R] [LE R] [DecidableLE R]
  [BEq R] [OfNat R 0] [OfNat R 2]

theorem Cond.evalBs_eq_map (v : View R) : ∀ cs : List (Cond R), Cond.evalBs v cs = cs.map (Cond.evalB v)
  | [] => rfl
  | c :: cs => by simp [Cond.evalBs, Cond.evalBs_eq_map v cs]

theorem Cond.infos_eq_map (v : View R) : ∀ cs : List (Cond R), Cond.infos v cs = cs.map (Cond.info v)
  | [] => rfl
  | c :: cs => by simp [Cond.infos, Cond.infos_eq_map v cs]

theorem Cond.denAll_iff (v : View R) : ∀ cs : List (Cond R), Cond.denAll v cs = true ↔ ∀ c ∈ cs, Cond.den v c = true
  | [] => by simp [Cond.denAll]
  | c :: cs => by simp [Cond.denAll, Cond.denAll_iff v cs]

theorem Cond.denAny_iff (v : View R) : ∀ cs : List (Cond R), Cond.denAny v cs = true ↔ ∃ c ∈ cs, Cond.den v c = true
  | [] => by simp [Cond.denAny]
  | c :: cs => by simp [Cond.denAny, Cond.denAny_iff v cs]

/-- the values of `stop` for a compound without colliding keys are its members' verdicts, in order -/
theorem Cond.stop_vals (v : View R) (cs : List (Cond R)) (hp : cs.Pairwise (fun a b => Cond.keyEq a b = false)) :
    dictVals (mkDict cs (Cond.evalBs v cs) 0 []) = cs.map (Cond.evalB v) := by
  rw [mkDict_vals_of_pairwise cs _ 0 [] (by simp [Cond.evalBs_eq_map]) hp (by simp)]
  simp [dictVals, Cond.evalBs_eq_map]

theorem Cond.stop_infos (v : View R) (cs : List (Cond R)) (hp : cs.Pairwise (fun a b => Cond.keyEq a b = false)) :
    dictVals (mkDict cs (Cond.infos v cs) 0 []) = cs.map (Cond.info v) := by
  rw [mkDict_vals_of_pairwise cs _ 0 [] (by simp [Cond.infos_eq_map]) hp (by simp)]
  simp [dictVals, Cond.infos_eq_map]

end Eval


/-! ### Python indexing -/

theorem pyGet?_zero {α : Type} (l : List α) : pyGet? l 0 = l[0]? := by simp [pyGet?]

/-- `l[-g]` for `0 < g ≤ len` is the entry `len - g` -/
theorem pyGet?_neg {α : Type} (l : List α) (g : Nat) (h0 : 0 < g) (hg : g ≤ l.length) :
    pyGet? l (-(g : Int)) = l[l.length - g]? := by
  unfold pyGet?
  have h1 : (-(g : Int)) < 0 := by omega
  have h2 : ¬ (-(g : Int) + (l.length : Int) < 0) := by omega
  rw [if_pos h1, if_neg h2]
  congr 1
  omega

theorem pyGet?_isSome {α : Type} (l : List α) (i : Int) (h1 : -(l.length : Int) ≤ i) (h2 : i < l.length) :
    ∃ a, pyGet? l i = some a := by
  unfold pyGet?
  split
  · rw [if_neg (by omega)]
    exact ⟨l[(i + (l.length : Int)).toNat]'(by omega), by rw [List.getElem?_eq_getElem]⟩
  · exact ⟨l[i.toNat]'(by omega), by rw [List.getElem?_eq_getElem]⟩

theorem pyGet?_last {α : Type} (l : List α) : pyGet? l (-1) = l.getLast? := by
  unfold pyGet?
  rw [if_pos (by omega)]
  cases l with
  | nil => simp
  | cons a t =>
    rw [if_neg (by simp), List.getLast?_eq_getElem?]
    congr 1
    simp only [List.length_cons]; omega

/-! ### order / field facts used by the primitive specs -/

set_option linter.unusedSectionVars false

section Field
variable {K : Type} [Field K] [LinearOrder K] [IsStrictOrderedRing K]

theorem absR_eq_abs (x : K) : absR x = |x| := by
  unfold absR
  split
  · rename_i h; rw [abs_of_neg h]
  · rename_i h; rw [abs_of_nonneg (not_lt.mp h)]

theorem pyMaxFold_le (t : K) : ∀ (xs : List K) (x : K),
    (xs.foldl (fun m y => if m < y then y else m) x ≤ t ↔ x ≤ t ∧ ∀ y ∈ xs, y ≤ t)
  | [], x => by simp
  | y :: ys, x => by
    rw [List.foldl_cons, pyMaxFold_le t ys]
    simp only [List.mem_cons, forall_eq_or_imp]
    split
    · rename_i h
      constructor
      · rintro ⟨h1, h2⟩; exact ⟨le_trans (le_of_lt h) h1, h1, h2⟩
      · rintro ⟨_, h1, h2⟩; exact ⟨h1, h2⟩
    · rename_i h
      constructor
      · rintro ⟨h1, h2⟩; exact ⟨h1, le_trans (not_lt.mp h) h1, h2⟩
      · rintro ⟨h0, _, h2⟩; exact ⟨h0, h2⟩

/-- builtin `max(l) <= t` iff the list is non-empty and every entry is `<= t` -/
theorem leOpt_pyMax (l : List K) (t : K) : leOpt (pyMax? l) t = true ↔ l ≠ [] ∧ ∀ x ∈ l, x ≤ t := by
  cases l with
  | nil => simp [pyMax?, leOpt]
  | cons x xs => simp [pyMax?, leOpt, pyMaxFold_le]

theorem npMaxFold_eq (xs : List K) (x : K) :
    xs.foldl (fun m y => if (m == m) = false then m else if (y == y) = false then y else if m < y then y else m) x
      = xs.foldl (fun m y => if m < y then y else m) x := by
  congr 1
  funext m y
  simp

theorem leOpt_npMax (l : List K) (t : K) : leOpt (npMax? l) t = true ↔ l ≠ [] ∧ ∀ x ∈ l, x ≤ t := by
  cases l with
  | nil => simp [npMax?, leOpt]
  | cons x xs => simp only [npMax?, npMaxFold_eq]; simpa [pyMax?] using leOpt_pyMax (x :: xs) t

theorem addReduce_eq_sum : ∀ l : List K, addReduce l = l.sum
  | [] => by simp [addReduce]
  | x :: xs => by
    have h : ∀ (ys : List K) (a : K), ys.foldl (· + ·) a = a + ys.sum := by
      intro ys
      induction ys with
      | nil => intro a; simp
      | cons y ys ih => intro a; rw [List.foldl_cons, ih, List.sum_cons, add_assoc]
    simp [addReduce, h]

end Field

end MysticVerif.Term
